import random, sys
random.seed(int(sys.argv[1])); NT=int(sys.argv[2])
leafs=["Leaf<u8>","Leaf<i32>","Leaf<bool>","Leaf<u64>","Leaf<Option<u8>>","Leaf<[u8;2]>"]
types=[]  # (name, rust def, depth)
out=[]
def field_type(d):
    r=random.random()
    if d<=0 or r<0.35: return random.choice(leafs),0
    if r<0.5:
        t,dd=field_type(d-1); return f"[{t}; {random.choice([1,2,3,10])}]",dd+1
    if r<0.6:
        t,dd=field_type(d-1); return f"Option<{t}>",dd
    if r<0.7:
        a,da=field_type(d-1); b,db=field_type(d-1); return f"({a}, {b})",max(da,db)+1
    if r<0.78:
        t,dd=field_type(d-1); return random.choice(["Box","std::rc::Rc","std::sync::Arc","std::cell::Cell" if False else "Box"])+f"<{t}>",dd
    if r<0.86:
        t,dd=field_type(0); return f"core::ops::Range<{t}>",dd+1
    if types:
        n,_,dd=random.choice(types)
        if dd<d: return n,dd
    return random.choice(leafs),0
for k in range(NT):
    name=f"T{k}"
    if random.random()<0.25 and types:
        vs=[]; md=0
        for j in range(random.randint(1,3)):
            t,dd=field_type(2); md=max(md,dd); vs.append(f"    V{j}({t}),")
        d=f"#[derive(Tree, Default, Debug, Clone)]\npub enum {name} {{\n    #[default]\n    None,\n"+"\n".join(vs)+"\n}\n"
        types.append((name,d,md+1))
    else:
        fs=[]; md=0
        for j in range(random.randint(1,5)):
            t,dd=field_type(3); md=max(md,dd); fs.append(f"    pub f{j}: {t},")
        d=f"#[derive(Tree, Default, Debug, Clone)]\npub struct {name} {{\n"+"\n".join(fs)+"\n}\n"
        types.append((name,d,md+1))
src="use miniconf::*;\n"+"".join(t[1] for t in types)
src+="pub fn all() -> Vec<(&'static str, Box<dyn crate::Dut>)> { vec![\n"+"".join(f'    ("{n}", Box::new({n}::default()) as Box<dyn crate::Dut>),\n' for n,_,_ in types)+"] }\n"
src+="".join(f"crate::impl_dut!({n});\n" for n,_,_ in types)
open("src/types.rs","w").write(src)
