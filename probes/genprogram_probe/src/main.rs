use miniconf::*;

pub enum KeySpec { Names(Vec<String>), Idx(Vec<usize>), Path(String), JPath(String), Packed(usize) }
pub trait Dut {
    fn meta(&self) -> String;
    fn nodes(&self, d: usize, cap: usize) -> Vec<String>;
    fn get(&self, k: &KeySpec, buf: usize) -> String;
    fn set(&mut self, k: &KeySpec, payload: &[u8]) -> String;
    fn pget(&self, k: &KeySpec) -> String;
    fn pset(&mut self, k: &KeySpec, payload: &[u8]) -> String;
    fn transcode(&self, k: &KeySpec) -> String;
    fn any(&mut self, k: &KeySpec) -> String;
    fn snapshot(&self) -> String;
}
#[macro_export]
macro_rules! with_keys { ($k:expr, |$x:ident| $e:expr) => { match $k {
    $crate::KeySpec::Names(v) => { let $x = v.iter().map(|s| s.as_str()); $e }
    $crate::KeySpec::Idx(v) => { let $x = v.iter().copied(); $e }
    $crate::KeySpec::Path(s) => { let $x = Path::<_, '/'>(s.as_str()); $e }
    $crate::KeySpec::JPath(s) => { let jp = JsonPath(s.as_str()); let $x = &jp; $e }
    $crate::KeySpec::Packed(p) => { let $x = Packed::new(*p).unwrap(); $e }
} } }
fn iter_d<M: TreeKey, const D: usize>(cap: usize) -> Vec<String> {
    let mut v = vec![]; let mut n = 0;
    for x in M::nodes::<Indices<[usize; 8]>, D>() { v.push(format!("{:?}", x)); n += 1; if n > 5000 { v.push("NONTERM".into()); break; } }
    for x in M::nodes::<Path<String, '/'>, D>() { v.push(format!("{:?}", x)); n += 1; if n > 10000 { break; } }
    for x in M::nodes::<Packed, D>() { v.push(format!("{:?}", x)); n += 1; if n > 15000 { break; } }
    for x in M::nodes::<JsonPath<String>, D>() { v.push(format!("{:?}", x)); n += 1; if n > 20000 { break; } }
    let _ = cap; v
}
#[macro_export]
macro_rules! impl_dut { ($t:ty) => {
    impl crate::Dut for $t {
        fn meta(&self) -> String { let m: Metadata = <$t>::traverse_all().unwrap(); format!("{:?}", m) }
        fn nodes(&self, d: usize, cap: usize) -> Vec<String> { match d {
            0 => crate::iter_d::<$t, 0>(cap), 1 => crate::iter_d::<$t, 1>(cap), 2 => crate::iter_d::<$t, 2>(cap), 3 => crate::iter_d::<$t, 3>(cap),
            4 => crate::iter_d::<$t, 4>(cap), 5 => crate::iter_d::<$t, 5>(cap), 6 => crate::iter_d::<$t, 6>(cap), _ => crate::iter_d::<$t, 7>(cap) } }
        fn get(&self, k: &crate::KeySpec, buf: usize) -> String { let mut b = vec![0u8; buf]; crate::with_keys!(k, |x| format!("{:?} {:?}", json::get_by_key(self, x, &mut b), b)) }
        fn set(&mut self, k: &crate::KeySpec, p: &[u8]) -> String { crate::with_keys!(k, |x| format!("{:?}", json::set_by_key(self, x, p))) }
        fn pget(&self, k: &crate::KeySpec) -> String { crate::with_keys!(k, |x| format!("{:?}", miniconf::postcard::get_by_key(self, x, ::postcard::ser_flavors::AllocVec::new()))) }
        fn pset(&mut self, k: &crate::KeySpec, p: &[u8]) -> String { crate::with_keys!(k, |x| format!("{:?}", miniconf::postcard::set_by_key(self, x, ::postcard::de_flavors::Slice::new(p)).map(|r| r.len()))) }
        fn transcode(&self, k: &crate::KeySpec) -> String { crate::with_keys!(k, |x| format!("{:?}", <$t as TreeKey>::transcode::<Path<String,'/'>, _>(x))) + &crate::with_keys!(k, |x| format!("{:?}", <$t as TreeKey>::transcode::<Indices<[usize;8]>, _>(x))) + &crate::with_keys!(k, |x| format!("{:?}", <$t as TreeKey>::transcode::<Packed, _>(x))) + &crate::with_keys!(k, |x| format!("{:?}", <$t as TreeKey>::transcode::<JsonPath<String>, _>(x))) }
        fn any(&mut self, k: &crate::KeySpec) -> String { let a = crate::with_keys!(k, |x| format!("{:?}", self.ref_any_by_key(x.into_keys()).map(|a| a.type_id()))); let b = crate::with_keys!(k, |x| format!("{:?}", self.mut_any_by_key(x.into_keys()).map(|a| (*a).type_id()))); a + &b }
        fn snapshot(&self) -> String { format!("{:?}", self) }
    }
} }
fn main() {
    let mut n = 0usize;
    for (name, mut d) in types::all() {
        let m = d.meta(); let it = d.nodes(7, 0); n += it.len();
        let k = KeySpec::Idx(vec![0, 0]);
        let s = d.set(&k, b"1"); let g = d.get(&k, 16); let t = d.transcode(&KeySpec::Path("/f0/0".into())); let a = d.any(&k);
        if std::env::args().len() > 1 { println!("{name} {m} {} {s} {g} {t} {a} {}", it.len(), d.snapshot().len()); }
    }
    println!("total items {n}");
}
mod types;
