From Coq Require Import List NArith Lia Bool.
Import ListNotations.

(* ------- model of Miniconf._dispatch (async_.py:68-109, sync.py:62-104) ------- *)
Definition cd := N.                       (* correlation data (abstract id) *)
Definition payload := list N.
Inductive code := Continue | Ok | Other (c : N).
Record msg := { topic_ok : bool; mcd : option cd; mcode : option code; body : payload }.

Definition inflight := list (cd * list payload).
Inductive completion := Result (c : cd) (ret : list payload) | Raised (c : cd) (code : N) (text : payload).

Fixpoint lookup (c : cd) (st : inflight) : option (list payload) :=
  match st with [] => None | (k, v) :: r => if N.eqb k c then Some v else lookup c r end.
Fixpoint update (c : cd) (v : list payload) (st : inflight) : inflight :=
  match st with [] => [] | (k, w) :: r => if N.eqb k c then (k, v) :: r else (k, w) :: update c v r end.
Fixpoint remove (c : cd) (st : inflight) : inflight :=
  match st with [] => [] | (k, w) :: r => if N.eqb k c then remove c r else (k, w) :: remove c r end.

Definition dispatch (st : inflight) (m : msg) : inflight * list completion :=
  if negb (topic_ok m) then (st, []) else
  match mcd m with None => (st, []) | Some c =>
  match lookup c st with None => (st, []) | Some ret =>
  match mcode m with None => (st, [])
  | Some Continue => (update c (ret ++ [body m]) st, [])
  | Some Ok => (remove c st, [Result c (match body m with [] => ret | _ => ret ++ [body m] end)])
  | Some (Other e) => (remove c st, [Raised c e (body m)])
  end end end.

Fixpoint run (st : inflight) (ms : list msg) : inflight * list completion :=
  match ms with [] => (st, []) | m :: r =>
  let '(st1, o1) := dispatch st m in let '(st2, o2) := run st1 r in (st2, o1 ++ o2) end.

Definition of_cd (c : cd) (x : completion) : bool :=
  match x with Result k _ | Raised k _ _ => N.eqb k c end.
Definition mine (c : cd) (m : msg) : bool :=
  topic_ok m && match mcd m with Some k => N.eqb k c | None => false end
  && match mcode m with Some _ => true | None => false end.

(* ------- map lemmas ------- *)
Lemma lookup_update c v st k : lookup k (update c v st) =
  if N.eqb c k then (match lookup c st with Some _ => Some v | None => None end) else lookup k st.
Proof.
  induction st as [|[k0 w] r IH]; cbn [update lookup].
  - destruct (N.eqb c k); reflexivity.
  - destruct (N.eqb_spec k0 c) as [E|Hne]; cbn [lookup].
    + subst k0. destruct (N.eqb_spec c k); reflexivity.
    + destruct (N.eqb_spec k0 k) as [E|Hk].
      * subst k0. destruct (N.eqb_spec c k); [congruence|reflexivity].
      * exact IH.
Qed.

Lemma lookup_remove c st k : lookup k (remove c st) = if N.eqb c k then None else lookup k st.
Proof.
  induction st as [|[k0 w] r IH]; cbn [remove lookup].
  - destruct (N.eqb c k); reflexivity.
  - destruct (N.eqb_spec k0 c) as [E|Hne]; cbn [lookup].
    + subst k0. rewrite IH. destruct (N.eqb_spec c k); reflexivity.
    + destruct (N.eqb_spec k0 k) as [E|Hk].
      * subst k0. destruct (N.eqb_spec c k); [congruence|reflexivity].
      * exact IH.
Qed.

(* one request seen in isolation *)
Definition solo (c : cd) (st : inflight) : inflight :=
  match lookup c st with Some ret => [(c, ret)] | None => [] end.

Lemma lookup_solo c st : lookup c (solo c st) = lookup c st.
Proof. unfold solo. destruct (lookup c st); simpl; [rewrite N.eqb_refl|]; reflexivity. Qed.

(* what one dispatch does to request c depends only on c's own entry and the message *)
Lemma dispatch_local c st m :
  lookup c (fst (dispatch st m)) = lookup c (fst (dispatch (solo c st) m)) /\
  filter (of_cd c) (snd (dispatch st m)) = snd (dispatch (solo c st) m).
Proof.
  unfold dispatch. destruct (topic_ok m); simpl; [|split; [symmetry; apply lookup_solo|reflexivity]].
  destruct (mcd m) as [k|]; [|split; [symmetry; apply lookup_solo|reflexivity]].
  destruct (N.eqb_spec k c) as [->|Hne].
  - rewrite lookup_solo. destruct (lookup c st) as [ret|] eqn:E.
    + assert (Hs : solo c st = [(c, ret)]) by (unfold solo; rewrite E; reflexivity).
      rewrite Hs.
      destruct (mcode m) as [[| |e]|]; cbn [fst snd filter of_cd update remove lookup];
        rewrite ?lookup_update, ?lookup_remove, ?N.eqb_refl, ?E; cbn [lookup filter of_cd];
        rewrite ?N.eqb_refl; split; reflexivity.
    + split; [symmetry; apply lookup_solo|reflexivity].
  - (* a message for another request: inert for c *)
    assert (Hs : lookup k (solo c st) = None).
    { unfold solo. destruct (lookup c st); simpl; [|reflexivity].
      destruct (N.eqb_spec c k); [congruence|reflexivity]. }
    rewrite Hs. destruct (lookup k st) as [ret|]; [|split; [symmetry; apply lookup_solo|reflexivity]].
    assert (Hkc : N.eqb k c = false) by (apply N.eqb_neq; assumption).
    destruct (mcode m) as [[| |e]|]; simpl;
      rewrite ?lookup_update, ?lookup_remove, ?Hkc, ?lookup_solo; simpl; rewrite ?Hkc;
      split; reflexivity.
Qed.

(* solo is idempotent up to lookup, so the locality lifts to whole runs *)
Lemma solo_dispatch_solo c st m :
  solo c (fst (dispatch (solo c st) m)) = fst (dispatch (solo c st) m).
Proof.
  unfold solo at 2 3. destruct (lookup c st) as [ret|] eqn:E.
  - unfold dispatch. destruct (topic_ok m); simpl; [|unfold solo; simpl; rewrite N.eqb_refl; reflexivity].
    destruct (mcd m) as [k|]; [|unfold solo; simpl; rewrite N.eqb_refl; reflexivity].
    simpl. destruct (N.eqb_spec c k) as [<-|Hne]; [|unfold solo; simpl; rewrite N.eqb_refl; reflexivity].
    destruct (mcode m) as [[| |e]|]; simpl; rewrite ?N.eqb_refl; unfold solo; simpl; rewrite ?N.eqb_refl; reflexivity.
  - unfold dispatch. destruct (topic_ok m); simpl; [|reflexivity].
    destruct (mcd m); reflexivity.
Qed.

Theorem dispatch_projection c : forall ms st,
  filter (of_cd c) (snd (run st ms)) = snd (run (solo c st) ms).
Proof.
  induction ms as [|m r IH]; intros st; [reflexivity|].
  cbn [run].
  destruct (dispatch st m) as [st1 o1] eqn:E1.
  destruct (dispatch (solo c st) m) as [s1 p1] eqn:E2.
  destruct (run st1 r) as [st2 o2] eqn:R1. destruct (run s1 r) as [s2 p2] eqn:R2.
  simpl. rewrite filter_app.
  pose proof (dispatch_local c st m) as [Hl Ho]. rewrite E1, E2 in Hl, Ho. simpl in Hl, Ho.
  rewrite Ho. f_equal.
  specialize (IH st1). rewrite R1 in IH. simpl in IH. rewrite IH.
  (* solo c st1 = s1, because s1 is already solo and agrees on c *)
  assert (Hs : solo c st1 = s1).
  { pose proof (solo_dispatch_solo c st m) as H. rewrite E2 in H. simpl in H.
    rewrite <- H. unfold solo. rewrite Hl. reflexivity. }
  rewrite Hs, R2. reflexivity.
Qed.

(* messages that are not addressed to c (foreign topic, other/missing correlation data,
   missing code) can be deleted from the history without changing c's outcome *)
Lemma not_mine_inert c st m : mine c m = false ->
  dispatch (solo c st) m = (solo c st, []).
Proof.
  unfold mine, dispatch. destruct (topic_ok m); simpl; [|reflexivity].
  destruct (mcd m) as [k|]; [|reflexivity]. simpl.
  destruct (N.eqb_spec k c) as [->|Hne]; simpl.
  - destruct (mcode m); [discriminate|]. intros _. destruct (lookup c (solo c st)); reflexivity.
  - intros _. unfold solo. destruct (lookup c st); simpl; [|reflexivity].
    destruct (N.eqb_spec c k); [congruence|reflexivity].
Qed.

Theorem junk_is_inert c : forall ms st,
  snd (run (solo c st) ms) = snd (run (solo c st) (filter (mine c) ms)).
Proof.
  induction ms as [|m r IH]; intros st; [reflexivity|].
  cbn [filter]. destruct (mine c m) eqn:Hm.
  - cbn [run]. destruct (dispatch (solo c st) m) as [s1 p1] eqn:E.
    pose proof (solo_dispatch_solo c st m) as H. rewrite E in H. simpl in H.
    rewrite <- H.
    destruct (run (solo c s1) r) as [s2 p2] eqn:R1.
    destruct (run (solo c s1) (filter (mine c) r)) as [s3 p3] eqn:R2.
    simpl. f_equal. specialize (IH s1). rewrite R1, R2 in IH. exact IH.
  - cbn [run]. rewrite (not_mine_inert c st m Hm).
    destruct (run (solo c st) r) as [s2 p2] eqn:R. simpl. specialize (IH st). rewrite R in IH. exact IH.
Qed.

Lemma run_nil ms : run [] ms = ([], []).
Proof.
  induction ms as [|m r IH]; [reflexivity|]. cbn [run]. unfold dispatch.
  destruct (topic_ok m); simpl; [destruct (mcd m); simpl|]; rewrite IH; reflexivity.
Qed.

(* each request completes at most once *)
Theorem at_most_once c : forall ms st, length (snd (run (solo c st) ms)) <= 1.
Proof.
  induction ms as [|m r IH]; intros st; [simpl; lia|].
  cbn [run]. destruct (dispatch (solo c st) m) as [s1 p1] eqn:E.
  pose proof (solo_dispatch_solo c st m) as H. rewrite E in H. simpl in H.
  destruct (run s1 r) as [s2 p2] eqn:R. simpl. rewrite app_length.
  unfold dispatch in E. destruct (topic_ok m); simpl in E.
  2:{ injection E as <- <-. specialize (IH st). rewrite R in IH. simpl in *. lia. }
  destruct (mcd m) as [k|].
  2:{ injection E as <- <-. specialize (IH st). rewrite R in IH. simpl in *. lia. }
  destruct (lookup k (solo c st)) as [ret|] eqn:L.
  2:{ injection E as <- <-. specialize (IH st). rewrite R in IH. simpl in *. lia. }
  assert (k = c) as ->.
  { unfold solo in L. destruct (lookup c st); simpl in L; [|discriminate].
    destruct (N.eqb_spec c k); [congruence|discriminate]. }
  destruct (mcode m) as [[| |e]|].
  - injection E as <- <-. rewrite <- H in R. specialize (IH (update c (ret ++ [body m]) (solo c st))).
    rewrite R in IH. simpl in *. lia.
  - (* completed: entry removed, nothing can follow *)
    injection E as <- <-.
    assert (Hgone : forall ms' s, lookup c s = None -> snd (run (solo c s) ms') = []).
    { intros ms' s Hs. assert (solo c s = []) as -> by (unfold solo; rewrite Hs; reflexivity).
      rewrite run_nil. reflexivity. }
    assert (Hrm : lookup c (remove c (solo c st)) = None) by (rewrite lookup_remove, N.eqb_refl; reflexivity).
    rewrite <- H in R. pose proof (Hgone r _ Hrm) as G. rewrite R in G. simpl in G. subst p2. simpl. lia.
  - injection E as <- <-.
    assert (Hgone : forall ms' s, lookup c s = None -> snd (run (solo c s) ms') = []).
    { intros ms' s Hs. assert (solo c s = []) as -> by (unfold solo; rewrite Hs; reflexivity).
      rewrite run_nil. reflexivity. }
    assert (Hrm : lookup c (remove c (solo c st)) = None) by (rewrite lookup_remove, N.eqb_refl; reflexivity).
    rewrite <- H in R. pose proof (Hgone r _ Hrm) as G. rewrite R in G. simpl in G. subst p2. simpl. lia.
  - injection E as <- <-. specialize (IH st). rewrite R in IH. simpl in *. lia.
Qed.

Print Assumptions dispatch_projection.
Print Assumptions junk_is_inert.
Print Assumptions at_most_once.
