use miniconf::*;
use std::cell::RefCell;
thread_local! { static LOG: RefCell<Vec<String>> = RefCell::new(vec![]); static ORACLE: RefCell<std::collections::HashMap<u32, Result<Option<usize>, &'static str>>> = RefCell::new(Default::default()); }
fn log(s: String) { LOG.with(|l| l.borrow_mut().push(s)); }
fn oracle(id: u32) -> Result<Option<usize>, &'static str> { ORACLE.with(|o| o.borrow().get(&id).cloned().unwrap_or(Ok(None))) }
fn take() -> Vec<String> { LOG.with(|l| std::mem::take(&mut *l.borrow_mut())) }

#[derive(Tree, Default, Debug)]
struct Inner {
    #[tree(validate=self.v3)]
    x: Leaf<i32>,
    #[tree(deny(serialize="no ser", ref_any="no ref"))]
    d: Leaf<i32>,
    #[tree(skip)] _skipped: i32,
    y: [Leaf<u8>; 2],
}
impl Inner { fn v3(&mut self, depth: usize) -> Result<usize, &'static str> { log(format!("val3({depth})")); oracle(3).map(|r| r.unwrap_or(depth)) } }

#[derive(Tree, Default, Debug)]
struct Outer<T> {
    #[tree(get=self.g1(), get_mut=self.gm1(), validate=self.v1)]
    a: Inner,
    #[tree(rename="bb", typ="Inner", defer=self.hidden)]
    b: (),
    #[tree(skip)] hidden: Inner,
    g: T,
    #[tree(validate=self.v2)]
    o: Option<Inner>,
}
impl<T> Outer<T> {
    fn g1(&self) -> Result<&Inner, &'static str> { log("get1".into()); oracle(1).map(|_| &self.a) }
    fn gm1(&mut self) -> Result<&mut Inner, &'static str> { log("getmut1".into()); oracle(1).map(|_| &mut self.a) }
    fn v1(&mut self, depth: usize) -> Result<usize, &'static str> { log(format!("val1({depth})")); oracle(11).map(|r| r.unwrap_or(depth)) }
    fn v2(&mut self, depth: usize) -> Result<usize, &'static str> { log(format!("val2({depth})")); oracle(12).map(|r| r.unwrap_or(depth)) }
}
#[derive(Tree, Debug, Default)]
#[tree(flatten)]
struct Flat(#[tree(validate=self.vf)] Inner);
impl Flat { fn vf(&mut self, depth: usize) -> Result<usize, &'static str> { log(format!("valf({depth})")); Ok(depth) } }

fn main() {
    let mut s: Outer<(Leaf<u8>, Flat)> = Default::default();
    println!("{:?} {:?}", json::set(&mut s, "/a/x", b"5"), take());
    ORACLE.with(|o| o.borrow_mut().insert(3, Ok(Some(7))));
    println!("{:?} {:?}", json::set(&mut s, "/a/x", b"6"), take());
    ORACLE.with(|o| o.borrow_mut().insert(3, Err("bad3")));
    println!("{:?} {:?} x={}", json::set(&mut s, "/a/x", b"7"), take(), *s.a.x);
    ORACLE.with(|o| o.borrow_mut().insert(1, Err("nope")));
    println!("{:?} {:?}", json::set(&mut s, "/a/x", b"8"), take());
    let mut b = [0u8; 8];
    println!("{:?} {:?}", json::get(&s, "/a/d", &mut b), take());
    ORACLE.with(|o| o.borrow_mut().clear());
    println!("{:?} {:?}", json::get(&s, "/a/d", &mut b), take());
    println!("{:?} {:?}", json::set(&mut s, "/bb/y/1", b"3"), take());
    println!("hidden {:?}", s.hidden.y);
    println!("{:?} {:?}", json::set(&mut s, "/g/1/x", b"3"), take());
    println!("{:?} {:?}", json::set(&mut s, "/o/x", b"3"), take());
    println!("{:?}", Outer::<(Leaf<u8>, Flat)>::nodes::<Path<String,'/'>, 4>().map(|p| p.unwrap().0.into_inner()).collect::<Vec<_>>());
    println!("{:?}", s.ref_any_by_key(["a","d"].into_keys()).map(|_| ()));
}
