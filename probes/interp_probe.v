From Coq Require Import List NArith Lia Bool Arith PeanoNat.
Import ListNotations.

(* ====================================================================== *)
(* Generic node forms, bottom-up deserialize as the code computes it,      *)
(* top-down documented walk, and their equivalence (core of C02/C12/C01)   *)
(* ====================================================================== *)
Inductive op := OSer | ODe.
Inductive lookup := Named (names : list N) | Numbered (n : N) | Homog (n : N).

Inductive err :=
| Absent (d : nat) | TooShort (d : nat) | NotFound (d : nat) | TooLong (d : nat)
| Access (d : nat) (m : N) | Invalid (d : nat) (m : N) | Inner (d : nat) | Unreachable.
Definition shift (k : nat) (e : err) : err :=
  match e with
  | Absent d => Absent (k + d) | TooShort d => TooShort (k + d) | NotFound d => NotFound (k + d)
  | TooLong d => TooLong (k + d) | Access d m => Access (k + d) m | Invalid d m => Invalid (k + d) m
  | Inner d => Inner (k + d) | Unreachable => Unreachable
  end.
Inductive res := ROk (d : nat) | RErr (e : err).
Definition rshift (k : nat) (r : res) := match r with ROk d => ROk (k + d) | RErr e => RErr (shift k e) end.

Inductive vres := VPass (repl : option nat) | VFail (m : N).
Record attrs := {
  a_id : N;
  a_deny : op -> option N;                 (* #[tree(deny(...))] *)
  a_get : option (option N);               (* custom get: None = absent, Some None = succeeds, Some (Some m) = fails *)
  a_getmut : option (option N);
  a_val : option vres }.                   (* validate callback and what it answers *)
Inductive event := EvGet (id : N) | EvGetMut (id : N) | EvVal (id : N) (depth : nat).

Inductive lkind := KLeaf | KDeny.
Inductive node :=
| NLeaf (k : lkind)
| NGate (t : node)
| NFlat (sum : bool) (a : attrs) (t : node)
| NHet (sum : bool) (lk : lookup) (cs : list (attrs * node))
| NHom (n : N) (t : node).

Inductive gerr := GAbsent | GAccess (m : N).
Definition gerr_err (g : gerr) : err := match g with GAbsent => Absent 0 | GAccess m => Access 0 m end.

Inductive value :=
| VLeaf (x : N)
| VGate (blocked : op -> option gerr) (v : value)   (* what the wrapper raises for each op *)
| VProd (vs : list value)
| VSum (active : option nat) (v : value).

Fixpoint set_nth {A} (l : list A) (i : nat) (x : A) : list A :=
  match l, i with [] , _ => [] | _ :: r, O => x :: r | y :: r, S j => y :: set_nth r j x end.

Section Interp.
Variable K : Type.
Inductive kres := KOk (i : N) (k : K) | KShort | KNotFound.
Variable knext : K -> lookup -> kres.
Variable kfin : K -> bool.
Variable payload : Type.
Variable dec : payload -> option N.

Definition out := (res * value * list event)%type.

(* one match arm of the derive expansion / of a built-in impl: deny, getter, child, validator *)
Definition arm (o : op) (a : attrs) (v : value) (child : value -> out) : out :=
  match a_deny a o with Some m => (RErr (Access 0 m), v, []) | None =>
  let g := match o with OSer => a_get a | ODe => a_getmut a end in
  let ev := match g, o with Some _, OSer => [EvGet (a_id a)] | Some _, ODe => [EvGetMut (a_id a)] | None, _ => [] end in
  match g with Some (Some m) => (RErr (Access 0 m), v, ev) | _ =>
  let '(r, v', lg) := child v in
  match o, r, a_val a with
  | ODe, ROk d, Some (VPass None) => (ROk d, v', ev ++ lg ++ [EvVal (a_id a) d])
  | ODe, ROk d, Some (VPass (Some d')) => (ROk d', v', ev ++ lg ++ [EvVal (a_id a) d])
  | ODe, ROk d, Some (VFail m) => (RErr (Invalid 0 m), v', ev ++ lg ++ [EvVal (a_id a) d])
  | _, _, _ => (r, v', ev ++ lg)
  end end end.

(* select child i of a product / the active variant of a sum *)
Definition with_child (sum : bool) (v : value) (i : nat) (f : value -> out) : out :=
  match sum, v with
  | false, VProd vs => match nth_error vs i with
                       | Some c => let '(r, c', lg) := f c in (r, VProd (set_nth vs i c'), lg)
                       | None => (RErr Unreachable, v, []) end
  | true, VSum act c => match act with
                        | Some j => if Nat.eqb i j then let '(r, c', lg) := f c in (r, VSum act c', lg)
                                    else (RErr (Absent 0), v, [])
                        | None => (RErr (Absent 0), v, []) end
  | _, _ => (RErr Unreachable, v, [])
  end.

Definition incr_out (x : out) : out := let '(r, v, lg) := x in (rshift 1 r, v, lg).

(* ---------------- bottom-up, as the code does it ---------------- *)
Fixpoint run (o : op) (p : payload) (t : node) (v : value) (k : K) {struct t} : out :=
  match t with
  | NLeaf lk =>
      if negb (kfin k) then (RErr (TooLong 0), v, []) else
      match lk, o, v with
      | KDeny, _, _ => (RErr (Access 0 0%N), v, [])
      | KLeaf, OSer, _ => (ROk 0, v, [])
      | KLeaf, ODe, VLeaf _ => match dec p with Some y => (ROk 0, VLeaf y, []) | None => (RErr (Inner 0), v, []) end
      | KLeaf, ODe, _ => (RErr Unreachable, v, [])
      end
  | NGate t' =>
      match v with
      | VGate b c => match b o with
                     | Some e => (RErr (gerr_err e), v, [])
                     | None => let '(r, c', lg) := run o p t' c k in (r, VGate b c', lg) end
      | _ => (RErr Unreachable, v, [])
      end
  | NFlat sum a t' =>
      with_child sum v 0 (fun c => arm o a c (fun c => run o p t' c k))
  | NHet sum lk cs =>
      match knext k lk with
      | KShort => (RErr (TooShort 0), v, [])
      | KNotFound => (RErr (NotFound 1), v, [])
      | KOk i k' =>
          incr_out (with_child sum v (N.to_nat i) (fun c =>
            (fix pick (cs : list (attrs * node)) (j : nat) {struct cs} : out :=
               match cs with
               | [] => (RErr Unreachable, c, [])
               | (a, t') :: r => match j with
                                 | O => arm o a c (fun c => run o p t' c k')
                                 | S j' => pick r j' end
               end) cs (N.to_nat i)))
      end
  | NHom n t' =>
      match knext k (Homog n) with
      | KShort => (RErr (TooShort 0), v, [])
      | KNotFound => (RErr (NotFound 1), v, [])
      | KOk i k' => incr_out (with_child false v (N.to_nat i) (fun c => run o p t' c k'))
      end
  end.

(* ---------------- top-down: the documented walk with a depth counter ---------------- *)
Definition arm_td (o : op) (a : attrs) (d : nat) (v : value) (child : value -> out) : out :=
  match a_deny a o with Some m => (RErr (Access d m), v, []) | None =>
  let g := match o with OSer => a_get a | ODe => a_getmut a end in
  let ev := match g, o with Some _, OSer => [EvGet (a_id a)] | Some _, ODe => [EvGetMut (a_id a)] | None, _ => [] end in
  match g with Some (Some m) => (RErr (Access d m), v, ev) | _ =>
  let '(r, v', lg) := child v in
  match o, r, a_val a with
  | ODe, ROk x, Some (VPass None) => (ROk x, v', ev ++ lg ++ [EvVal (a_id a) x])
  | ODe, ROk x, Some (VPass (Some x')) => (ROk x', v', ev ++ lg ++ [EvVal (a_id a) x])
  | ODe, ROk x, Some (VFail m) => (RErr (Invalid d m), v', ev ++ lg ++ [EvVal (a_id a) x])
  | _, _, _ => (r, v', ev ++ lg)
  end end end.

Definition with_child_td (sum : bool) (d : nat) (v : value) (i : nat) (f : value -> out) : out :=
  match sum, v with
  | false, VProd vs => match nth_error vs i with
                       | Some c => let '(r, c', lg) := f c in (r, VProd (set_nth vs i c'), lg)
                       | None => (RErr Unreachable, v, []) end
  | true, VSum act c => match act with
                        | Some j => if Nat.eqb i j then let '(r, c', lg) := f c in (r, VSum act c', lg)
                                    else (RErr (Absent d), v, [])
                        | None => (RErr (Absent d), v, []) end
  | _, _ => (RErr Unreachable, v, [])
  end.

Definition ok_up (x : out) : out :=            (* only a successful depth is still counted on the way up *)
  let '(r, v, lg) := x in (match r with ROk n => ROk (S n) | e => e end, v, lg).

Fixpoint walk (o : op) (p : payload) (t : node) (d : nat) (v : value) (k : K) {struct t} : out :=
  match t with
  | NLeaf lk =>
      if negb (kfin k) then (RErr (TooLong d), v, []) else
      match lk, o, v with
      | KDeny, _, _ => (RErr (Access d 0%N), v, [])
      | KLeaf, OSer, _ => (ROk 0, v, [])
      | KLeaf, ODe, VLeaf _ => match dec p with Some y => (ROk 0, VLeaf y, []) | None => (RErr (Inner d), v, []) end
      | KLeaf, ODe, _ => (RErr Unreachable, v, [])
      end
  | NGate t' =>
      match v with
      | VGate b c => match b o with
                     | Some e => (RErr (shift d (gerr_err e)), v, [])
                     | None => let '(r, c', lg) := walk o p t' d c k in (r, VGate b c', lg) end
      | _ => (RErr Unreachable, v, [])
      end
  | NFlat sum a t' =>
      with_child_td sum d v 0 (fun c => arm_td o a d c (fun c => walk o p t' d c k))
  | NHet sum lk cs =>
      match knext k lk with
      | KShort => (RErr (TooShort d), v, [])
      | KNotFound => (RErr (NotFound (S d)), v, [])
      | KOk i k' =>
          ok_up (with_child_td sum (S d) v (N.to_nat i) (fun c =>
            (fix pick (cs : list (attrs * node)) (j : nat) {struct cs} : out :=
               match cs with
               | [] => (RErr Unreachable, c, [])
               | (a, t') :: r => match j with
                                 | O => arm_td o a (S d) c (fun c => walk o p t' (S d) c k')
                                 | S j' => pick r j' end
               end) cs (N.to_nat i)))
      end
  | NHom n t' =>
      match knext k (Homog n) with
      | KShort => (RErr (TooShort d), v, [])
      | KNotFound => (RErr (NotFound (S d)), v, [])
      | KOk i k' => ok_up (with_child_td false (S d) v (N.to_nat i) (fun c => walk o p t' (S d) c k'))
      end
  end.

(* errors carry absolute depth d + relative depth; successes stay relative (validators see them) *)
Definition eshift (d : nat) (x : out) : out :=
  let '(r, v, lg) := x in (match r with ROk n => ROk n | RErr e => RErr (shift d e) end, v, lg).

(* ---------------- nested induction principle for node ---------------- *)
Section NodeInd.
Variable P : node -> Prop.
Hypothesis HLeaf : forall k, P (NLeaf k).
Hypothesis HGate : forall t, P t -> P (NGate t).
Hypothesis HFlat : forall s a t, P t -> P (NFlat s a t).
Hypothesis HHet : forall s lk cs, Forall (fun ac => P (snd ac)) cs -> P (NHet s lk cs).
Hypothesis HHom : forall n t, P t -> P (NHom n t).
Fixpoint node_ind' (t : node) : P t :=
  match t with
  | NLeaf k => HLeaf k
  | NGate t' => HGate t' (node_ind' t')
  | NFlat s a t' => HFlat s a t' (node_ind' t')
  | NHet s lk cs =>
      HHet s lk cs ((fix go (cs : list (attrs * node)) : Forall (fun ac => P (snd ac)) cs :=
                       match cs with
                       | [] => Forall_nil _
                       | ac :: r => Forall_cons ac (node_ind' (snd ac)) (go r)
                       end) cs)
  | NHom n t' => HHom n t' (node_ind' t')
  end.
End NodeInd.

Lemma shift_shift a b e : shift a (shift b e) = shift (a + b) e.
Proof. destruct e; simpl; try reflexivity; f_equal; lia. Qed.
Lemma shift_0 e : shift 0 e = e.
Proof. destruct e; reflexivity. Qed.

Lemma arm_eshift o a D c f g :
  (forall c, g c = eshift D (f c)) ->
  arm_td o a D c g = eshift D (arm o a c f).
Proof.
  intros H. unfold arm_td, arm.
  destruct (a_deny a o); [simpl; rewrite Nat.add_0_r; reflexivity|].
  destruct (match o with OSer => a_get a | ODe => a_getmut a end) as [[m|]|];
    try (simpl; rewrite Nat.add_0_r; reflexivity).
  - rewrite H. destruct (f c) as [[r v'] lg]. simpl.
    destruct o, r as [x|e], (a_val a) as [[[x'|]|m]|]; simpl; rewrite ?Nat.add_0_r; reflexivity.
  - rewrite H. destruct (f c) as [[r v'] lg]. simpl.
    destruct o, r as [x|e], (a_val a) as [[[x'|]|m]|]; simpl; rewrite ?Nat.add_0_r; reflexivity.
Qed.

Lemma with_child_eshift sum D v i f g :
  (forall c, g c = eshift D (f c)) ->
  with_child_td sum D v i g = eshift D (with_child sum v i f).
Proof.
  intros H. unfold with_child_td, with_child.
  destruct sum, v as [x|b c|vs|act c]; try reflexivity.
  - destruct act as [j|]; [|simpl; rewrite Nat.add_0_r; reflexivity].
    destruct (Nat.eqb i j); [|simpl; rewrite Nat.add_0_r; reflexivity].
    rewrite H. destruct (f c) as [[r c'] lg]. reflexivity.
  - destruct (nth_error vs i) as [c|]; [|reflexivity].
    rewrite H. destruct (f c) as [[r c'] lg]. reflexivity.
Qed.

Lemma ok_up_eshift d x : ok_up (eshift (S d) x) = eshift d (incr_out x).
Proof.
  destruct x as [[r v] lg]. destruct r as [n|e]; simpl; [reflexivity|].
  f_equal. f_equal. f_equal. rewrite shift_shift. f_equal. lia.
Qed.

(* The bottom-up depth bookkeeping of the code is the top-down count of consumed keys:
   same result class, same depth, same new value, same callback log. *)
Theorem walk_is_run o p : forall t d v k, walk o p t d v k = eshift d (run o p t v k).
Proof.
  induction t as [lk|t IH|s a t IH|s lk cs IH|n t IH] using node_ind'; intros d v k.
  - simpl. destruct (kfin k); simpl; [|rewrite Nat.add_0_r; reflexivity].
    destruct lk, o, v; simpl; rewrite ?Nat.add_0_r; try reflexivity.
    all: destruct (dec p); simpl; rewrite ?Nat.add_0_r; reflexivity.
  - simpl. destruct v as [x|b c|vs|act c]; try reflexivity.
    destruct (b o) as [e|]; [reflexivity|].
    rewrite IH. destruct (run o p t c k) as [[r c'] lg]. reflexivity.
  - cbn [walk run]. apply with_child_eshift. intros c. apply arm_eshift. intros c'. apply IH.
  - cbn [walk run]. destruct (knext k lk) as [i k'| |].
    + rewrite <- ok_up_eshift. f_equal.
      apply with_child_eshift. intros c.
      generalize (N.to_nat i). induction IH as [|[a t'] r Ht _ IHr]; intros j; [reflexivity|].
      destruct j as [|j]; [|apply IHr].
      apply arm_eshift. intros c'. apply Ht.
    + simpl. rewrite Nat.add_0_r. reflexivity.
    + simpl. replace (d + 1) with (S d) by lia. reflexivity.
  - cbn [walk run]. destruct (knext k (Homog n)) as [i k'| |].
    + rewrite <- ok_up_eshift. f_equal. apply with_child_eshift. intros c. apply IH.
    + simpl. rewrite Nat.add_0_r. reflexivity.
    + simpl. replace (d + 1) with (S d) by lia. reflexivity.
Qed.

(* ====================================================================== *)
(* C01 core: a deserializing write changes exactly the designated leaf;     *)
(* every failure other than a validator rejection leaves the tree unchanged *)
(* ====================================================================== *)
Fixpoint vset (v : value) (path : list nat) (x : value) {struct v} : value :=
  match v with
  | VLeaf _ => x
  | VGate b c => VGate b (vset c path x)
  | VSum a c => VSum a (vset c path x)
  | VProd vs =>
      match path with
      | [] => v
      | i :: rest =>
          VProd ((fix go (vs : list value) (j : nat) {struct vs} : list value :=
                    match vs with
                    | [] => []
                    | c :: r => match j with O => vset c rest x :: r | S j' => c :: go r j' end
                    end) vs i)
      end
  end.

Definition updated (r : res) : bool :=
  match r with ROk _ => true | RErr (Invalid _ _) => true | _ => false end.

Definition frame (p : payload) (v : value) (x : out) : Prop :=
  let '(r, v', _) := x in
  if updated r then exists path y, dec p = Some y /\ v' = vset v path (VLeaf y)
  else v' = v.

Lemma set_nth_same {A} (l : list A) : forall i c, nth_error l i = Some c -> set_nth l i c = l.
Proof.
  induction l as [|a l IH]; intros [|i] c H; simpl in *; try discriminate.
  - injection H as ->. reflexivity.
  - f_equal. apply IH. exact H.
Qed.

Lemma vset_prod vs i c rest x : nth_error vs i = Some c ->
  vset (VProd vs) (i :: rest) x = VProd (set_nth vs i (vset c rest x)).
Proof.
  intros H. cbn [vset]. f_equal. revert i H.
  induction vs as [|a vs IH]; intros [|i] H; simpl in *; try discriminate.
  - injection H as ->. reflexivity.
  - f_equal. apply IH. exact H.
Qed.

Lemma frame_incr p v x : frame p v x -> frame p v (incr_out x).
Proof. destruct x as [[r v'] lg]. destruct r as [d|[]]; simpl; auto. Qed.

Lemma frame_with_child p sum v i f :
  (forall c, frame p c (f c)) -> frame p v (with_child sum v i f).
Proof.
  intros H. unfold with_child. destruct sum, v as [x|b c|vs|act c]; simpl; try reflexivity.
  - destruct act as [j|]; simpl; [|reflexivity].
    destruct (Nat.eqb i j); simpl; [|reflexivity].
    specialize (H c). destruct (f c) as [[r c'] lg]. simpl in *.
    destruct (updated r).
    + destruct H as [path [y [Hd ->]]]. exists path, y. split; [exact Hd|reflexivity].
    + subst. reflexivity.
  - destruct (nth_error vs i) as [c|] eqn:E; simpl; [|reflexivity].
    specialize (H c). destruct (f c) as [[r c'] lg]. simpl in *.
    destruct (updated r).
    + destruct H as [path [y [Hd ->]]]. exists (i :: path), y. split; [exact Hd|].
      symmetry. apply vset_prod. exact E.
    + subst. rewrite set_nth_same by exact E. reflexivity.
Qed.

Lemma frame_arm p a c f :
  frame p c (f c) -> frame p c (arm ODe a c f).
Proof.
  intros H. unfold arm. destruct (a_deny a ODe); [reflexivity|].
  destruct (a_getmut a) as [[m|]|]; try reflexivity.
  - destruct (f c) as [[r c'] lg]. simpl in *.
    destruct r as [d|e]; [|exact H].
    destruct (a_val a) as [[[d'|]|m]|]; simpl in *; exact H.
  - destruct (f c) as [[r c'] lg]. simpl in *.
    destruct r as [d|e]; [|exact H].
    destruct (a_val a) as [[[d'|]|m]|]; simpl in *; exact H.
Qed.

Theorem write_frame p : forall t v k, frame p v (run ODe p t v k).
Proof.
  induction t as [lk|t IH|s a t IH|s lk cs IH|n t IH] using node_ind'; intros v k.
  - cbn [run]. destruct (kfin k); simpl; [|reflexivity].
    destruct lk; [|reflexivity].
    destruct v as [x|b c|vs|act c]; simpl; try reflexivity.
    destruct (dec p) as [y|] eqn:E; simpl; [|reflexivity].
    exists [], y. split; [first [exact E|reflexivity]|reflexivity].
  - cbn [run]. destruct v as [x|b c|vs|act c]; simpl; try reflexivity.
    destruct (b ODe) as [[|m]|]; simpl; [reflexivity|reflexivity|].
    specialize (IH c k). destruct (run ODe p t c k) as [[r c'] lg]. simpl in *.
    destruct (updated r).
    + destruct IH as [path [y [Hd ->]]]. exists path, y. split; [exact Hd|reflexivity].
    + subst. reflexivity.
  - cbn [run]. apply frame_with_child. intros c. apply frame_arm. apply IH.
  - cbn [run]. destruct (knext k lk) as [i k'| |]; try reflexivity.
    apply frame_incr. apply frame_with_child. intros c.
    generalize (N.to_nat i). induction IH as [|[a t'] r Ht _ IHr]; intros j; [reflexivity|].
    destruct j as [|j]; [|apply IHr]. apply frame_arm. apply Ht.
  - cbn [run]. destruct (knext k (Homog n)) as [i k'| |]; try reflexivity.
    apply frame_incr. apply frame_with_child. intros c. apply IH.
Qed.

(* and a read never modifies the tree *)
Theorem read_pure p : forall t v k, let '(_, v', _) := run OSer p t v k in v' = v.
Proof.
  induction t as [lk|t IH|s a t IH|s lk cs IH|n t IH] using node_ind'; intros v k.
  - cbn [run]. destruct (kfin k); simpl; [|reflexivity]. destruct lk; reflexivity.
  - cbn [run]. destruct v as [x|b c|vs|act c]; simpl; try reflexivity.
    destruct (b OSer) as [[|m]|]; simpl; [reflexivity|reflexivity|].
    specialize (IH c k). destruct (run OSer p t c k) as [[r c'] lg]. subst. reflexivity.
  - cbn [run]. unfold with_child. destruct s, v as [x|b c|vs|act c]; simpl; try reflexivity.
    + destruct act as [j|]; [|reflexivity]. destruct j; simpl; [|reflexivity].
      unfold arm. destruct (a_deny a OSer); [reflexivity|].
      destruct (a_get a) as [[m|]|]; try reflexivity;
        specialize (IH c k); destruct (run OSer p t c k) as [[r c'] lg]; subst; reflexivity.
    + destruct vs as [|c vs]; simpl; [reflexivity|].
      unfold arm. destruct (a_deny a OSer); [reflexivity|].
      destruct (a_get a) as [[m|]|]; try reflexivity;
        specialize (IH c k); destruct (run OSer p t c k) as [[r c'] lg]; subst; reflexivity.
  - cbn [run]. destruct (knext k lk) as [i k'| |]; try reflexivity.
    assert (G : forall c, let '(_, c', _) :=
        (fix pick (cs : list (attrs * node)) (j : nat) {struct cs} : out :=
           match cs with
           | [] => (RErr Unreachable, c, [])
           | (a, t') :: r => match j with
                             | O => arm OSer a c (fun c => run OSer p t' c k')
                             | S j' => pick r j' end
           end) cs (N.to_nat i) in c' = c).
    { intros c. generalize (N.to_nat i). induction IH as [|[a t'] r Ht _ IHr]; intros j; [reflexivity|].
      destruct j as [|j]; [|apply IHr].
      unfold arm. destruct (a_deny a OSer); [reflexivity|].
      destruct (a_get a) as [[m|]|]; try reflexivity;
        specialize (Ht c k'); simpl in Ht; destruct (run OSer p t' c k') as [[r0 c'] lg]; subst; reflexivity. }
    unfold incr_out, with_child. destruct s, v as [x|b c|vs|act c]; simpl; try reflexivity.
    + destruct act as [j|]; [|reflexivity]. destruct (Nat.eqb (N.to_nat i) j); [|reflexivity].
      specialize (G c). destruct (_ cs (N.to_nat i)) as [[r c'] lg]. subst. reflexivity.
    + destruct (nth_error vs (N.to_nat i)) as [c|] eqn:E; [|reflexivity].
      specialize (G c). destruct (_ cs (N.to_nat i)) as [[r c'] lg]. subst.
      rewrite set_nth_same by exact E. reflexivity.
  - cbn [run]. destruct (knext k (Homog n)) as [i k'| |]; try reflexivity.
    unfold incr_out, with_child. destruct v as [x|b c|vs|act c]; simpl; try reflexivity.
    destruct (nth_error vs (N.to_nat i)) as [c|] eqn:E; [|reflexivity].
    specialize (IH c k'). destruct (run OSer p t c k') as [[r c'] lg]. subst.
    rewrite set_nth_same by exact E. reflexivity.
Qed.
End Interp.

Print Assumptions walk_is_run.
Print Assumptions write_frame.
Print Assumptions read_pure.
