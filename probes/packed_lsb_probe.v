From Coq Require Import ZArith Lia Bool.
From stdpp Require Import unstable.bitblast.
Open Scope Z_scope.
Ltac Zify.zify_post_hook ::= Z.div_mod_to_equations.

Definition W := 2^64.
Fixpoint tz_aux (fuel : nat) (w : Z) : Z :=
  match fuel with O => 0 | S f => if Z.odd w then 0 else 1 + tz_aux f (w / 2) end.
Definition tz (w : Z) := tz_aux 64 w.
Definition lz (v : Z) := 63 - Z.log2 v.
Definition into_lsb (w : Z) : Z := Z.shiftr (Z.lor (Z.shiftr w 1) (Z.shiftl 1 63)) (tz w).
Definition from_lsb (v : Z) : Z := (Z.shiftl (Z.lor (Z.shiftl v 1 mod W) 1) (lz v)) mod W.
Definition mk (x t : Z) := (2 * x + 1) * 2 ^ t.

Lemma tz_aux_mk : forall (n : nat) x t, 0 <= t -> (Z.to_nat t < n)%nat -> 0 <= x -> tz_aux n (mk x t) = t.
Proof.
  induction n as [|n IH]; intros x t Ht Hn Hx; [lia|].
  cbn [tz_aux]. destruct (Z.eq_dec t 0) as [->|Hne].
  - unfold mk. replace ((2 * x + 1) * 2 ^ 0) with (1 + 2 * x) by (rewrite Z.pow_0_r; lia).
    rewrite Z.odd_add_mul_2. reflexivity.
  - assert (Hm : mk x t = 2 * mk x (t - 1)).
    { unfold mk. replace t with (Z.succ (t - 1)) at 1 by lia. rewrite Z.pow_succ_r by lia. lia. }
    rewrite Hm. rewrite Z.odd_mul, Z.odd_2. cbn [andb].
    replace (2 * mk x (t - 1) / 2) with (mk x (t - 1)) by (rewrite Z.mul_comm, Z.div_mul; lia).
    rewrite IH; lia.
Qed.

Lemma lor_pow2_add a n : 0 <= n -> 0 <= a < 2 ^ n -> Z.lor a (2 ^ n) = a + 2 ^ n.
Proof. intros Hn Ha. symmetry. apply Z.add_nocarry_lor. bitblast. Qed.

Lemma pow_split a b : 0 <= a <= b -> 2 ^ b = 2 ^ a * 2 ^ (b - a).
Proof. intros. rewrite <- Z.pow_add_r by lia. f_equal. lia. Qed.

Lemma pow2_pred t : 0 < t -> 2 ^ t = 2 ^ (t - 1) * 2.
Proof. intros. replace t with (Z.succ (t - 1)) at 1 by lia. rewrite Z.pow_succ_r by lia. lia. Qed.

Lemma into_lsb_mk x t : 0 <= t <= 63 -> 0 <= x < 2 ^ (63 - t) -> into_lsb (mk x t) = 2 ^ (63 - t) + x.
Proof.
  intros Ht Hx. unfold into_lsb, tz. rewrite tz_aux_mk by lia.
  rewrite Z.shiftl_1_l, !Z.shiftr_div_pow2 by lia. change (2 ^ 1) with 2.
  assert (Hp : 0 < 2 ^ t) by (apply Z.pow_pos_nonneg; lia).
  assert (H63 : 2 ^ 63 = 2 ^ t * 2 ^ (63 - t)) by (apply pow_split; lia).
  assert (Hlt : 0 <= mk x t / 2 < 2 ^ 63).
  { unfold mk. split; [apply Z.div_pos; nia|]. apply Z.div_lt_upper_bound; [lia|]. rewrite H63.
    set (a := 2 ^ t) in *. set (b := 2 ^ (63 - t)) in *. nia. }
  rewrite lor_pow2_add by lia.
  destruct (Z.eq_dec t 0) as [->|Hne].
  - unfold mk. rewrite Z.pow_0_r, Z.div_1_r, Z.sub_0_r, Z.mul_1_r.
    replace (2 * x + 1) with (1 + x * 2) by lia. rewrite Z.div_add by lia. lia.
  - assert (Hm : mk x t / 2 = (2 * x + 1) * 2 ^ (t - 1)).
    { unfold mk. rewrite (pow2_pred t) by lia.
      rewrite Z.mul_assoc, Z.div_mul by lia. reflexivity. }
    rewrite Hm, H63.
    rewrite (pow2_pred t) by lia.
    set (q := 2 ^ (t - 1)). assert (0 < q) by (apply Z.pow_pos_nonneg; lia).
    replace ((2 * x + 1) * q + q * 2 * 2 ^ (63 - t)) with (q + (x + 2 ^ (63 - t)) * (q * 2)) by lia.
    rewrite Z.div_add by lia. rewrite Z.div_small by lia. lia.
Qed.

Lemma from_lsb_mk x l : 0 <= l <= 63 -> 0 <= x < 2 ^ l -> from_lsb (2 ^ l + x) = mk x (63 - l).
Proof.
  intros Hl Hx. unfold from_lsb, lz, W.
  assert (Hlog : Z.log2 (2 ^ l + x) = l).
  { apply Z.log2_unique; [lia|]. rewrite Z.pow_succ_r by lia. lia. }
  rewrite Hlog.
  assert (Hev : forall v, Z.lor (Z.shiftl v 1 mod 2 ^ 64) 1 = Z.shiftl v 1 mod 2 ^ 64 + 1).
  { intros v. symmetry. apply Z.add_nocarry_lor. bitblast. }
  rewrite Hev. rewrite !Z.shiftl_mul_pow2 by lia. change (2 ^ 1) with 2.
  assert (H64 : 2 ^ 64 = 2 ^ l * 2 ^ (63 - l) * 2).
  { rewrite <- Z.pow_add_r by lia. replace (l + (63 - l)) with 63 by lia. reflexivity. }
  set (a := 2 ^ l) in *. set (b := 2 ^ (63 - l)) in *.
  assert (0 < a) by (apply Z.pow_pos_nonneg; lia). assert (0 < b) by (apply Z.pow_pos_nonneg; lia).
  unfold mk.
  destruct (Z.eq_dec l 63) as [->|Hne].
  - subst a b. change (2 ^ (63 - 63)) with 1. rewrite !Z.mul_1_r.
    replace ((2 ^ 63 + x) * 2) with (2 * x + 1 * 2 ^ 64) by (change (2^64) with (2 * 2^63); lia).
    rewrite Z.mod_add by lia. rewrite (Z.mod_small (2 * x)) by (change (2^64) with (2 * 2^63); lia).
    rewrite Z.mod_small; [lia|]. change (2^64) with (2 * 2^63); lia.
  - rewrite (Z.mod_small ((a + x) * 2)).
    2:{ rewrite H64. assert (2 <= b). { subst b. replace (63 - l) with (Z.succ (63 - l - 1)) by lia.
          rewrite Z.pow_succ_r by lia. assert (0 < 2 ^ (63 - l - 1)) by (apply Z.pow_pos_nonneg; lia). lia. } nia. }
    replace (((a + x) * 2 + 1) * b) with ((2 * x + 1) * b + 1 * 2 ^ 64) by (rewrite H64; lia).
    rewrite Z.mod_add by lia. apply Z.mod_small. rewrite H64. nia.
Qed.

Theorem into_from v : 0 < v < 2 ^ 64 -> into_lsb (from_lsb v) = v.
Proof.
  intros Hv. set (l := Z.log2 v).
  destruct (Z.log2_spec v ltac:(lia)) as [Hlo Hhi]. fold l in Hlo, Hhi.
  assert (0 <= l <= 63).
  { split; [apply Z.log2_nonneg|]. destruct (Z_lt_le_dec 63 l) as [Hgt|]; [|lia].
    assert (2 ^ 64 <= 2 ^ l) by (apply Z.pow_le_mono_r; lia). lia. }
  rewrite Z.pow_succ_r in Hhi by lia.
  assert (Hx : 0 <= v - 2 ^ l < 2 ^ l) by lia.
  generalize dependent (v - 2 ^ l). intros x Hx.
  assert (Hd : into_lsb (from_lsb (2 ^ l + x)) = 2 ^ l + x).
  { rewrite from_lsb_mk by lia.
    assert (Hll : 63 - (63 - l) = l) by lia.
    rewrite into_lsb_mk; rewrite ?Hll; lia. }
  clearbody l. 
Abort.

