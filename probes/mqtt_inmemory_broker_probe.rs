use miniconf::{Leaf, Tree};
use miniconf_mqtt::minimq::{self, embedded_nal::{self, nb, TcpClientStack}, embedded_time::{self, fraction::Fraction, Instant}};
use std::{cell::RefCell, collections::VecDeque, rc::Rc, net::SocketAddr};

#[derive(Default)]
struct Wire { to_client: VecDeque<u8>, from_client: Vec<u8>, connected: bool, max_write: usize }
#[derive(Clone)]
struct Stack(Rc<RefCell<Wire>>);
#[derive(Debug)]
struct Err_;
impl embedded_nal::TcpError for Err_ { fn kind(&self) -> embedded_nal::TcpErrorKind { embedded_nal::TcpErrorKind::PipeClosed } }
impl TcpClientStack for Stack {
    type TcpSocket = u32; type Error = Err_;
    fn socket(&mut self) -> Result<u32, Err_> { Ok(1) }
    fn connect(&mut self, _s: &mut u32, _r: SocketAddr) -> nb::Result<(), Err_> { self.0.borrow_mut().connected = true; Ok(()) }
    fn send(&mut self, _s: &mut u32, b: &[u8]) -> nb::Result<usize, Err_> {
        let mut w = self.0.borrow_mut(); if !w.connected { return Err(nb::Error::Other(Err_)); }
        let n = b.len().min(w.max_write); w.from_client.extend_from_slice(&b[..n]); Ok(n) }
    fn receive(&mut self, _s: &mut u32, b: &mut [u8]) -> nb::Result<usize, Err_> {
        let mut w = self.0.borrow_mut(); if !w.connected { return Err(nb::Error::Other(Err_)); }
        let mut n = 0; while n < b.len() { if let Some(x) = w.to_client.pop_front() { b[n] = x; n += 1; } else { break; } } Ok(n) }
    fn close(&mut self, _s: u32) -> Result<(), Err_> { self.0.borrow_mut().connected = false; Ok(()) }
}
#[derive(Clone)]
struct Clk(Rc<RefCell<u32>>);
impl embedded_time::Clock for Clk {
    type T = u32; const SCALING_FACTOR: Fraction = Fraction::new(1, 1000);
    fn try_now(&self) -> Result<Instant<Self>, embedded_time::clock::Error> { Ok(Instant::new(*self.0.borrow())) }
}

fn varint(b: &[u8]) -> Option<(usize, usize)> { let mut v = 0usize; for i in 0..4 { let x = *b.get(i)?; v |= ((x & 0x7f) as usize) << (7*i); if x & 0x80 == 0 { return Some((v, i+1)); } } None }
fn enc_varint(mut v: usize, out: &mut Vec<u8>) { loop { let mut x = (v & 0x7f) as u8; v >>= 7; if v > 0 { x |= 0x80; } out.push(x); if v == 0 { break; } } }

/// minimal broker: returns decoded client publishes as (topic, payload, props-raw)
fn broker(w: &Rc<RefCell<Wire>>, log: &mut Vec<String>) {
    let mut w = w.borrow_mut();
    loop {
        let buf = w.from_client.clone();
        if buf.len() < 2 { break; }
        let Some((len, n)) = varint(&buf[1..]) else { break; };
        if buf.len() < 1 + n + len { break; }
        let pkt: Vec<u8> = buf[..1+n+len].to_vec(); w.from_client.drain(..1+n+len);
        let body = &pkt[1+n..];
        match pkt[0] >> 4 {
            1 => { log.push("CONNECT".into()); w.to_client.extend([0x20, 3, 0, 0, 0]); }
            8 => { log.push(format!("SUBSCRIBE {:?}", String::from_utf8_lossy(&body[5..]))); w.to_client.extend([0x90, 4, body[0], body[1], 0, 0]); }
            12 => { w.to_client.extend([0xD0, 0]); }
            3 => {
                let qos = (pkt[0] >> 1) & 3; let tl = u16::from_be_bytes([body[0], body[1]]) as usize;
                let topic = String::from_utf8_lossy(&body[2..2+tl]).to_string(); let mut p = 2 + tl;
                let mut id = [0u8;2]; if qos > 0 { id = [body[p], body[p+1]]; p += 2; }
                let (pl, pn) = varint(&body[p..]).unwrap(); let props = &body[p+pn..p+pn+pl]; p += pn + pl;
                log.push(format!("PUBLISH {topic} retain={} payload={:?} props={:?}", pkt[0]&1, String::from_utf8_lossy(&body[p..]), String::from_utf8_lossy(props)));
                if qos > 0 { w.to_client.extend([0x40, 2, id[0], id[1]]); }
            }
            t => log.push(format!("pkt type {t}")),
        }
    }
}
fn publish_to_client(w: &Rc<RefCell<Wire>>, topic: &str, payload: &[u8], resp: Option<&str>, cd: Option<&[u8]>) {
    let mut props = vec![]; if let Some(r) = resp { props.push(0x08); props.extend((r.len() as u16).to_be_bytes()); props.extend(r.as_bytes()); }
    if let Some(c) = cd { props.push(0x09); props.extend((c.len() as u16).to_be_bytes()); props.extend(c); }
    let mut body = vec![]; body.extend((topic.len() as u16).to_be_bytes()); body.extend(topic.as_bytes()); enc_varint(props.len(), &mut body); body.extend(props); body.extend(payload);
    let mut pkt = vec![0x30]; enc_varint(body.len(), &mut pkt); pkt.extend(body); w.borrow_mut().to_client.extend(pkt);
}

#[derive(Tree, Default, Clone)]
struct Inner { x: Leaf<u8>, s: Leaf<heapless::String<600>> }
#[derive(Tree, Default, Clone)]
struct Settings { a: Leaf<u32>, b: [Leaf<bool>; 2], o: Option<Leaf<u8>>, i: Inner }

fn main() {
    let wire = Rc::new(RefCell::new(Wire { max_write: usize::MAX, ..Default::default() }));
    let clk = Clk(Rc::new(RefCell::new(0)));
    let mut buffer = [0u8; 1024];
    let localhost: core::net::IpAddr = "127.0.0.1".parse().unwrap();
    let mut client = miniconf_mqtt::MqttClient::<Settings, _, _, minimq::broker::IpBroker, 3>::new(
        Stack(wire.clone()), "dt/sinara/dev", clk.clone(),
        minimq::ConfigBuilder::new(localhost.into(), &mut buffer).keepalive_interval(60),
    ).unwrap();
    let mut s = Settings::default();
    let big = std::env::args().nth(1).is_some();
    if big { for _ in 0..590 { s.i.s.push('x').unwrap(); } }
    let mut log = vec![];
    for step in 0..60 {
        *clk.0.borrow_mut() += 100;
        let r = client.update(&mut s);
        broker(&wire, &mut log);
        for l in log.drain(..) { println!("[{step}] {l}"); }
        if let Ok(true) | Err(_) = r { println!("[{step}] update -> {:?}", r.map_err(|_| ())); }
        if step == 40 { publish_to_client(&wire, "dt/sinara/dev/settings/a", b"7", Some("dt/sinara/dev/response"), Some(b"abcd")); }
        if step == 43 { publish_to_client(&wire, "dt/sinara/dev/settings/i", b"", Some("dt/sinara/dev/response"), Some(b"efgh")); }
        if step == 46 { publish_to_client(&wire, "dt/sinara/dev/settings/b/1", b"", Some("dt/sinara/dev/response"), Some(b"ijkl")); }
    }
}
