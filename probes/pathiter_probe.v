From Coq Require Import List NArith Lia Bool Arith.
Import ListNotations.

(* ---------- model of PathIter (node.rs:196-236) on UTF-8 strings ---------- *)
(* a str is a list of scalar values; byte offsets are sums of UTF-8 widths *)
Definition utf8_len (c : N) : nat :=
  if (c <? 128)%N then 1 else if (c <? 2048)%N then 2 else if (c <? 65536)%N then 3 else 4.
Lemma utf8_len_pos c : 1 <= utf8_len c.
Proof. unfold utf8_len. repeat destruct (_ <? _)%N; lia. Qed.

Fixpoint wsum (s : list N) : nat := match s with [] => 0 | c :: r => utf8_len c + wsum r end.

(* str::split_at: None models the panic "byte index is not a char boundary / out of range" *)
Fixpoint split_at_bytes (s : list N) (pos : nat) : option (list N * list N) :=
  match pos with
  | O => Some ([], s)
  | _ => match s with
         | [] => None
         | c :: r => if utf8_len c <=? pos
                     then match split_at_bytes r (pos - utf8_len c) with
                          | Some (a, b) => Some (c :: a, b) | None => None end
                     else None
         end
  end.
(* str::get(n..): None if out of range or not a boundary *)
Definition get_from (s : list N) (n : nat) : option (list N) :=
  match split_at_bytes s n with Some (_, b) => Some b | None => None end.

(* s.chars().map_while(|c| (c != S).then_some(c.len_utf8())).sum() *)
Fixpoint pos_of (S : N) (s : list N) : nat :=
  match s with [] => 0 | c :: r => if (c =? S)%N then 0 else utf8_len c + pos_of S r end.

Inductive step_res := Panic | Yield (seg : option (list N)) (st : option (list N)).
Definition path_next (S : N) (st : option (list N)) : step_res :=
  match st with
  | None => Yield None None
  | Some s => match split_at_bytes s (pos_of S s) with
              | None => Panic
              | Some (l, r) => Yield (Some l) (get_from r (utf8_len S))
              end
  end.

(* ---------- specification: cut at every occurrence of the separator ---------- *)
Fixpoint split (S : N) (s : list N) : list (list N) :=
  match s with
  | [] => [[]]
  | c :: r => if (c =? S)%N then [] :: split S r
              else match split S r with h :: t => (c :: h) :: t | [] => [[c]] end
  end.

Fixpoint span_sep (S : N) (s : list N) : list N * list N :=
  match s with [] => ([], []) | c :: r =>
    if (c =? S)%N then ([], s) else let '(a, b) := span_sep S r in (c :: a, b) end.

Lemma split_at_pos S : forall s, split_at_bytes s (pos_of S s) = Some (span_sep S s).
Proof.
  induction s as [|c r IH]; simpl; [reflexivity|].
  destruct (c =? S)%N; [reflexivity|].
  pose proof (utf8_len_pos c).
  destruct (utf8_len c + pos_of S r) eqn:E; [lia|]. rewrite <- E.
  replace (utf8_len c <=? utf8_len c + pos_of S r) with true by (symmetry; apply Nat.leb_le; lia).
  replace (utf8_len c + pos_of S r - utf8_len c) with (pos_of S r) by lia.
  rewrite IH. destruct (span_sep S r). reflexivity.
Qed.

Lemma get_after_sep S r : get_from (S :: r) (utf8_len S) = Some r.
Proof.
  unfold get_from. simpl. pose proof (utf8_len_pos S).
  destruct (utf8_len S) eqn:E; [lia|]. rewrite <- E.
  rewrite Nat.leb_refl, Nat.sub_diag. destruct r; reflexivity.
Qed.
Lemma get_nil n : 1 <= n -> get_from [] n = None.
Proof. unfold get_from. destruct n; [lia|reflexivity]. Qed.

Lemma span_sep_spec S : forall s a b, span_sep S s = (a, b) ->
  (b = [] \/ exists r, b = S :: r) /\ length b <= length s /\
  split S s = a :: match b with [] => [] | _ :: r => split S r end.
Proof.
  induction s as [|c r IH]; intros a b H; simpl in H.
  - injection H as <- <-. simpl. auto.
  - destruct (N.eqb_spec c S) as [->|Hne].
    + injection H as <- <-. simpl. rewrite N.eqb_refl. split; [right; eauto|]. split; [lia|reflexivity].
    + destruct (span_sep S r) as [a' b'] eqn:E. injection H as <- <-.
      destruct (IH _ _ eq_refl) as [Hb [Hl Hs]]. split; [exact Hb|]. split; [simpl; lia|].
      simpl. destruct (N.eqb_spec c S); [congruence|]. rewrite Hs. reflexivity.
Qed.

(* the iterator never panics, for any separator (multi-byte included) and any text *)
Theorem path_next_no_panic S st : path_next S st <> Panic.
Proof. destruct st as [s|]; simpl; [|discriminate]. rewrite split_at_pos. destruct (span_sep S s). discriminate. Qed.

(* collecting all segments *)
Fixpoint collect (fuel : nat) (S : N) (st : option (list N)) : list (list N) :=
  match fuel with O => [] | Datatypes.S f =>
  match path_next S st with
  | Yield (Some seg) st' => seg :: collect f S st'
  | _ => []
  end end.

Theorem collect_is_split S : forall fuel s, length s + 1 < fuel -> collect fuel S (Some s) = split S s.
Proof.
  induction fuel as [|f IH]; intros s Hf; [lia|].
  cbn [collect path_next]. rewrite split_at_pos. destruct (span_sep S s) as [a b] eqn:E.
  destruct (span_sep_spec S s a b E) as [Hb [Hl Hs]]. rewrite Hs. f_equal.
  destruct Hb as [-> | [r ->]].
  - rewrite get_nil by apply utf8_len_pos. destruct f; reflexivity.
  - rewrite get_after_sep. apply IH. simpl in Hl. lia.
Qed.

(* PathIter::root drops the first segment: "" is the root, "/" is one empty key *)
Definition root_keys (S : N) (s : list N) : list (list N) := tl (collect (length s + 2) S (Some s)).
Theorem root_is_tl_split S s : root_keys S s = tl (split S s).
Proof. unfold root_keys. rewrite collect_is_split by lia. reflexivity. Qed.

(* fused: once exhausted, always exhausted *)
Theorem path_fused S : path_next S None = Yield None None.
Proof. reflexivity. Qed.

Print Assumptions root_is_tl_split.
Print Assumptions path_next_no_panic.
Eval vm_compute in root_keys 47 [47; 97; 47; 47; 98]%N.      (* "/a//b" -> ["a"; ""; "b"] *)
Eval vm_compute in root_keys 233 [97; 233; 98; 233; 233]%N.  (* separator 'é' *)
Eval vm_compute in (root_keys 47 [], root_keys 47 [47]%N).
