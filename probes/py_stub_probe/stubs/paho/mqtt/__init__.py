from . import enums
