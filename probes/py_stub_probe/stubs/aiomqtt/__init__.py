class MqttError(Exception): pass
class Topic:
    def __init__(self, v): self.value = v
class Message:
    def __init__(self, topic, payload, properties=None):
        self.topic = Topic(topic); self.payload = payload
        if properties is not None: self.properties = properties
class Client: pass
