import sys, threading
sys.path[:0] = ["/tmp/pyprobe/stubs", "/repo/py/miniconf-mqtt"]
import miniconf.sync as ms, miniconf.async_ as ma
from paho.mqtt.client import Client, MQTTMessage
from paho.mqtt.properties import Properties, PacketTypes
c = Client(); m = ms.Miniconf(c, "dt/x")
res = {}
t = threading.Thread(target=lambda: res.setdefault("r", m.list("/i")))
t.start()
import time
while not c.sent: time.sleep(0.01)
topic, props, kw = c.sent[0]; cd = props.CorrelationData
def msg(code, payload, cd=cd, topic="dt/x/response"):
    p = Properties(PacketTypes.PUBLISH); p.CorrelationData = cd; p.UserProperty = [("code", code)]
    return MQTTMessage(topic, payload, p)
m._dispatch(None, None, msg("Continue", b"/i/x"))
m._dispatch(None, None, msg("Continue", b"/i/q", cd=b"other"))
m._dispatch(None, None, MQTTMessage("dt/x/response", b"nop"))
m._dispatch(None, None, msg("Continue", b"/i/s"))
m._dispatch(None, None, msg("Ok", b""))
m._dispatch(None, None, msg("Ok", b"dup"))
t.join(); print(topic, res, m._inflight)
p = ms.__dict__  # noqa
from miniconf.common import _Path
q = _Path(); print([q.normalize(x) for x in ["", "a", "/a/b", "c", "/d", "e", "x/y"]])
