From Coq Require Import ZArith Lia Bool List.
From stdpp Require Import unstable.bitblast.
Import ListNotations.
Open Scope Z_scope.

Ltac bb := bitblast; try (f_equal; lia).

Definition mkb (x t : Z) := Z.lor (Z.shiftl x (t + 1)) (2 ^ t).

Lemma push_bits x t bits v :
  0 <= bits <= t -> t <= 63 -> 0 <= x < 2 ^ (63 - t) -> 0 <= v < 2 ^ bits ->
  Z.lor (Z.lor (Z.lxor (mkb x t) (Z.shiftl 1 t)) (Z.shiftl (Z.shiftl v (t - bits)) 1 mod 2 ^ 64))
        (Z.shiftr (Z.shiftl 1 t) bits)
  = mkb (Z.lor (Z.shiftl x bits) v) (t - bits).
Proof.
  intros Hb Ht Hx Hv. unfold mkb. bb.
Qed.

Lemma pop_bits_word x t bits :
  0 <= bits -> bits <= 63 - t -> 0 <= t <= 63 -> 0 <= x < 2 ^ (63 - t) ->
  Z.shiftl (mkb x t) bits mod 2 ^ 64 = mkb (Z.land x (Z.ones (63 - t - bits))) (t + bits).
Proof.
  intros Hb Hb' Ht Hx. unfold mkb. bb.
Qed.

Lemma pop_bits_val x t bits :
  0 <= bits -> bits <= 63 - t -> 0 <= t <= 63 -> 0 <= x < 2 ^ (63 - t) ->
  Z.shiftr (Z.shiftr (mkb x t) (63 - bits)) 1 = Z.shiftr x (63 - t - bits).
Proof.
  intros Hb Hb' Ht Hx. unfold mkb. bb.
Qed.

Lemma pop_bits_fail x t bits :
  63 - t < bits <= 63 -> 0 <= t <= 63 -> 0 <= x < 2 ^ (63 - t) ->
  Z.shiftl (mkb x t) bits mod 2 ^ 64 = 0.
Proof.
  intros Hb Ht Hx. unfold mkb. bb.
Qed.

Lemma into_lsb_bits x t :
  0 <= t <= 63 -> 0 <= x < 2 ^ (63 - t) ->
  Z.shiftr (Z.lor (Z.shiftr (mkb x t) 1) (Z.shiftl 1 63)) t = Z.lor (2 ^ (63 - t)) x.
Proof.
  intros Ht Hx. unfold mkb. bb.
Qed.

Lemma from_lsb_bits x l :
  0 <= l <= 63 -> 0 <= x < 2 ^ l ->
  Z.shiftl (Z.lor (Z.shiftl (Z.lor (2 ^ l) x) 1 mod 2 ^ 64) 1) (63 - l) mod 2 ^ 64 = mkb x (63 - l).
Proof.
  intros Hl Hx. unfold mkb. bb.
Qed.

(* stack law at the abstract level: pop undoes push (FIFO: first pushed is at the top) *)
Lemma concat_hi x bits v :
  0 <= bits -> 0 <= v < 2 ^ bits -> 0 <= x -> Z.shiftr (Z.lor (Z.shiftl x bits) v) bits = x.
Proof. intros. bb. Qed.
Lemma concat_lo x bits v :
  0 <= bits -> 0 <= v < 2 ^ bits -> 0 <= x -> Z.land (Z.lor (Z.shiftl x bits) v) (Z.ones bits) = v.
Proof. intros. bb. Qed.

(* ====================================================================== *)
(* The executable model of packed.rs and its specification                 *)
(* ====================================================================== *)
Definition W := 2 ^ 64.
Definition EMPTY := 2 ^ 63.
Fixpoint tz_aux (fuel : nat) (w : Z) : Z :=
  match fuel with O => 0 | S f => if Z.odd w then 0 else 1 + tz_aux f (w / 2) end.
Definition tz (w : Z) := tz_aux 64 w.

Definition pop_msb (w bits : Z) : option (Z * Z) :=            (* (value, new word) *)
  let n := Z.shiftl w bits mod 2 ^ 64 in
  if n =? 0 then None else Some (Z.shiftr (Z.shiftr w (63 - bits)) 1, n).

Definition push_lsb (w bits v : Z) : option (Z * Z) :=         (* (new word, remaining capacity) *)
  let n := tz w in
  let old_marker := Z.shiftl 1 n in
  let new_marker := Z.shiftr old_marker bits in
  if new_marker =? 0 then None else
  let n' := n - bits in
  Some (Z.lor (Z.lor (Z.lxor w old_marker) (Z.shiftl (Z.shiftl v n') 1 mod 2 ^ 64)) new_marker, n').

Definition into_lsb (w : Z) := Z.shiftr (Z.lor (Z.shiftr w 1) (Z.shiftl 1 63)) (tz w).
Definition from_lsb (v : Z) :=
  Z.shiftl (Z.lor (Z.shiftl v 1 mod 2 ^ 64) 1) (63 - Z.log2 v) mod 2 ^ 64.

Definition valid (x t : Z) := 0 <= t <= 63 /\ 0 <= x < 2 ^ (63 - t).

Lemma pow2_pos n : 0 <= n -> 0 < 2 ^ n. Proof. intros; apply Z.pow_pos_nonneg; lia. Qed.

Lemma mkb_arith x t : 0 <= t -> 0 <= x -> mkb x t = (2 * x + 1) * 2 ^ t.
Proof.
  intros Ht Hx. unfold mkb. rewrite <- Z.add_nocarry_lor by bb.
  rewrite Z.shiftl_mul_pow2 by lia. rewrite Z.pow_add_r by lia. change (2 ^ 1) with 2. lia.
Qed.

Lemma tz_aux_arith : forall (n : nat) x t, 0 <= t -> (Z.to_nat t < n)%nat -> 0 <= x ->
  tz_aux n ((2 * x + 1) * 2 ^ t) = t.
Proof.
  induction n as [|n IH]; intros x t Ht Hn Hx; [lia|].
  cbn [tz_aux]. destruct (Z.eq_dec t 0) as [->|Hne].
  - replace ((2 * x + 1) * 2 ^ 0) with (1 + 2 * x) by (rewrite Z.pow_0_r; lia).
    rewrite Z.odd_add_mul_2. reflexivity.
  - assert (Hm : (2 * x + 1) * 2 ^ t = 2 * ((2 * x + 1) * 2 ^ (t - 1))).
    { replace t with (Z.succ (t - 1)) at 1 by lia. rewrite Z.pow_succ_r by lia. lia. }
    rewrite Hm. rewrite Z.odd_mul, Z.odd_2. cbn [andb].
    replace (2 * ((2 * x + 1) * 2 ^ (t - 1)) / 2) with ((2 * x + 1) * 2 ^ (t - 1))
      by (apply Z.div_unique_exact; [lia|reflexivity]).
    rewrite IH; lia.
Qed.

Lemma tz_mkb x t : valid x t -> tz (mkb x t) = t.
Proof. intros [Ht Hx]. unfold tz. rewrite mkb_arith by lia. apply tz_aux_arith; lia. Qed.

Lemma mkb_pos x t : valid x t -> 0 < mkb x t.
Proof. intros [Ht Hx]. rewrite mkb_arith by lia. pose proof (pow2_pos t). nia. Qed.

Theorem push_spec x t bits v : valid x t -> 0 <= bits <= 63 -> 0 <= v < 2 ^ bits ->
  push_lsb (mkb x t) bits v =
  if bits <=? t then Some (mkb (Z.lor (Z.shiftl x bits) v) (t - bits), t - bits) else None.
Proof.
  intros Hv Hb Hvr. pose proof Hv as [Ht Hx]. unfold push_lsb. rewrite (tz_mkb _ _ Hv).
  destruct (Z.leb_spec bits t) as [Hle|Hgt].
  - assert (Hm : Z.shiftr (Z.shiftl 1 t) bits = 2 ^ (t - bits)) by bb.
    rewrite Hm at 1. pose proof (pow2_pos (t - bits) ltac:(lia)).
    destruct (Z.eqb_spec (2 ^ (t - bits)) 0); [lia|].
    f_equal. f_equal. apply push_bits; lia.
  - assert (Hm : Z.shiftr (Z.shiftl 1 t) bits = 0) by bb.
    rewrite Hm. reflexivity.
Qed.

Theorem pop_spec x t bits : valid x t -> 0 <= bits <= 63 ->
  pop_msb (mkb x t) bits =
  if bits <=? 63 - t
  then Some (Z.shiftr x (63 - t - bits), mkb (Z.land x (Z.ones (63 - t - bits))) (t + bits))
  else None.
Proof.
  intros Hv Hb. pose proof Hv as [Ht Hx]. unfold pop_msb.
  destruct (Z.leb_spec bits (63 - t)) as [Hle|Hgt].
  - rewrite pop_bits_word by lia. rewrite pop_bits_val by lia.
    assert (Hval : valid (Z.land x (Z.ones (63 - t - bits))) (t + bits)).
    { split; [lia|]. rewrite Z.land_ones by lia. replace (63 - (t + bits)) with (63 - t - bits) by lia.
      apply Z.mod_pos_bound. apply pow2_pos. lia. }
    pose proof (mkb_pos _ _ Hval).
    destruct (Z.eqb_spec (mkb (Z.land x (Z.ones (63 - t - bits))) (t + bits)) 0); [lia|reflexivity].
  - rewrite pop_bits_fail by lia. reflexivity.
Qed.

(* every non-zero 64-bit word is mkb x t for exactly one valid (x,t) *)
Lemma mkb_range x t : valid x t -> 0 < mkb x t < 2 ^ 64.
Proof.
  intros Hv. split; [apply mkb_pos; assumption|]. destruct Hv as [Ht Hx].
  rewrite mkb_arith by lia.
  assert (H64 : 2 ^ 64 = 2 * (2 ^ (63 - t) * 2 ^ t)).
  { rewrite <- Z.pow_add_r by lia. replace (63 - t + t) with 63 by lia. reflexivity. }
  rewrite H64. pose proof (pow2_pos t ltac:(lia)). nia.
Qed.

Theorem lsb_roundtrip_1 x t : valid x t -> from_lsb (into_lsb (mkb x t)) = mkb x t.
Proof.
  intros Hv. pose proof Hv as [Ht Hx]. unfold into_lsb. rewrite (tz_mkb _ _ Hv).
  rewrite into_lsb_bits by lia. unfold from_lsb.
  assert (Hl : Z.log2 (Z.lor (2 ^ (63 - t)) x) = 63 - t).
  { rewrite <- Z.add_nocarry_lor by bb. apply Z.log2_unique; [lia|].
    rewrite Z.pow_succ_r by lia. lia. }
  rewrite Hl. rewrite from_lsb_bits by lia. f_equal. lia.
Qed.

Theorem lsb_roundtrip_2 x l : 0 <= l <= 63 -> 0 <= x < 2 ^ l ->
  into_lsb (from_lsb (Z.lor (2 ^ l) x)) = Z.lor (2 ^ l) x.
Proof.
  intros Hl Hx. unfold from_lsb.
  assert (Hlog : Z.log2 (Z.lor (2 ^ l) x) = l).
  { rewrite <- Z.add_nocarry_lor by bb. apply Z.log2_unique; [lia|].
    rewrite Z.pow_succ_r by lia. lia. }
  rewrite Hlog, from_lsb_bits by lia.
  assert (Hv : valid x (63 - l)) by (split; [lia|replace (63 - (63 - l)) with l by lia; lia]).
  unfold into_lsb. rewrite (tz_mkb _ _ Hv). rewrite into_lsb_bits by (destruct Hv; lia).
  f_equal. f_equal. lia.
Qed.

(* ---------------- the FIFO law over arbitrary field lists ---------------- *)
Definition field := (Z * Z)%type.                      (* (width, value) *)
Definition fits (f : field) := 0 <= fst f <= 63 /\ 0 <= snd f < 2 ^ fst f.
Fixpoint total (fs : list field) : Z := match fs with [] => 0 | f :: r => fst f + total r end.
Fixpoint concat (fs : list field) : Z :=
  match fs with [] => 0 | f :: r => Z.lor (Z.shiftl (snd f) (total r)) (concat r) end.

Fixpoint push_all (w : Z) (fs : list field) : option Z :=
  match fs with [] => Some w | f :: r =>
  match push_lsb w (fst f) (snd f) with Some (w', _) => push_all w' r | None => None end end.
Fixpoint pop_all (w : Z) (ws : list Z) : option (list Z * Z) :=
  match ws with [] => Some ([], w) | b :: r =>
  match pop_msb w b with
  | Some (v, w') => match pop_all w' r with Some (vs, w'') => Some (v :: vs, w'') | None => None end
  | None => None end end.

Lemma total_nonneg fs : Forall fits fs -> 0 <= total fs.
Proof. induction 1 as [|f r [Hf _] _ IH]; simpl; lia. Qed.

Lemma concat_range fs : Forall fits fs -> 0 <= concat fs < 2 ^ total fs.
Proof.
  induction 1 as [|f r [Hw Hv] Hr IH]; simpl; [lia|].
  pose proof (total_nonneg r Hr) as Ht.
  rewrite <- Z.add_nocarry_lor by bb.
  rewrite Z.shiftl_mul_pow2 by lia. rewrite Z.pow_add_r by lia.
  pose proof (pow2_pos (total r) Ht). nia.
Qed.

Lemma push_all_spec : forall fs x t, valid x t -> Forall fits fs -> total fs <= t ->
  push_all (mkb x t) fs = Some (mkb (Z.lor (Z.shiftl x (total fs)) (concat fs)) (t - total fs)).
Proof.
  induction fs as [|f r IH]; intros x t Hv Hf Ht; simpl.
  - f_equal. f_equal; [|lia]. rewrite Z.shiftl_0_r, Z.lor_0_r. reflexivity.
  - inversion Hf as [|? ? [Hw Hvr] Hr]; subst. pose proof (total_nonneg r Hr) as Htr. simpl in Ht.
    rewrite push_spec by (auto; lia).
    destruct (Z.leb_spec (fst f) t); [|lia].
    destruct Hv as [Ht0 Hx].
    rewrite IH; [| |assumption|lia].
    + f_equal. f_equal; [|lia].
      pose proof (concat_range r Hr). bb.
    + split; [lia|]. rewrite <- Z.add_nocarry_lor by bb.
      rewrite Z.shiftl_mul_pow2 by lia.
      replace (63 - (t - fst f)) with (63 - t + fst f) by lia. rewrite Z.pow_add_r by lia.
      pose proof (pow2_pos (fst f) ltac:(lia)). nia.
Qed.

Lemma pop_all_spec : forall fs t, Forall fits fs -> 0 <= t -> t + total fs = 63 ->
  pop_all (mkb (concat fs) t) (map fst fs) = Some (map snd fs, mkb 0 63).
Proof.
  induction fs as [|f r IH]; intros t Hf Ht Hsum; simpl.
  - simpl in Hsum. replace t with 63 by lia. reflexivity.
  - inversion Hf as [|? ? [Hw Hvr] Hr]; subst. pose proof (total_nonneg r Hr) as Htr. simpl in Hsum.
    pose proof (concat_range r Hr) as Hcr.
    assert (Hval : valid (Z.lor (Z.shiftl (snd f) (total r)) (concat r)) t).
    { split; [lia|]. pose proof (concat_range (f :: r) Hf) as Hc. simpl in Hc.
      replace (63 - t) with (fst f + total r) by lia. exact Hc. }
    rewrite pop_spec by (auto; lia).
    destruct (Z.leb_spec (fst f) (63 - t)); [|lia].
    replace (63 - t - fst f) with (total r) by lia.
    assert (Hhi : Z.shiftr (Z.lor (Z.shiftl (snd f) (total r)) (concat r)) (total r) = snd f) by bb.
    assert (Hlo : Z.land (Z.lor (Z.shiftl (snd f) (total r)) (concat r)) (Z.ones (total r)) = concat r) by bb.
    rewrite Hhi, Hlo. rewrite (IH (t + fst f) Hr ltac:(lia) ltac:(lia)). reflexivity.
Qed.

(* Pushing any fields that fit onto the empty key and popping the same widths
   returns the same values in the same order and restores the empty key. *)
Theorem push_pop_fifo fs : Forall fits fs -> total fs <= 63 ->
  exists w, push_all EMPTY fs = Some w /\
            pop_all w (map fst fs) = Some (map snd fs, EMPTY).
Proof.
  intros Hf Ht. assert (HE : EMPTY = mkb 0 63) by reflexivity.
  assert (Hv : valid 0 63) by (split; simpl; lia).
  rewrite HE. rewrite (push_all_spec fs 0 63 Hv Hf Ht). eexists; split; [reflexivity|].
  rewrite Z.shiftl_0_l, Z.lor_0_l. pose proof (total_nonneg fs Hf).
  apply pop_all_spec; [assumption|lia|lia].
Qed.

(* a push that does not fit fails (and, being a function, leaves the key as it was) *)
Theorem push_overflow x t bits v : valid x t -> t < bits <= 63 -> 0 <= v < 2 ^ bits ->
  push_lsb (mkb x t) bits v = None.
Proof.
  intros Hv Hb Hvr. pose proof Hv as [Ht Hx]. rewrite push_spec by (auto; lia).
  destruct (Z.leb_spec bits t); [lia|reflexivity].
Qed.

Print Assumptions push_spec.
Print Assumptions pop_spec.
Print Assumptions push_pop_fifo.
Print Assumptions lsb_roundtrip_1.
Eval vm_compute in push_all EMPTY [(2,3);(1,0);(0,0);(3,5)].
Eval vm_compute in option_map (fun w => into_lsb w) (push_all EMPTY [(2,3);(1,0);(0,0);(3,5)]).
