From Coq Require Import List NArith Lia Bool.
Import ListNotations.

(* ====================================================================== *)
(* miniconf_mqtt client as a step function over an abstract environment    *)
(* ====================================================================== *)
Inductive sm := Connect | Alive | Subscribe | Wait | Init | Multipart | Single.
Inductive ev := EConnect | EAlive | ESubscribe | ETick | EMultipart | EComplete | EReset.

(* the statemachine! block (lib.rs:74-85); in the framework this table is Generated.v *)
Definition sm_table : list (option sm * ev * sm) :=
  [ (Some Connect, EConnect, Alive); (Some Alive, EAlive, Subscribe);
    (Some Subscribe, ESubscribe, Wait); (Some Wait, ETick, Init);
    (Some Init, EMultipart, Multipart); (Some Multipart, EComplete, Single);
    (Some Single, EMultipart, Multipart); (None, EReset, Connect) ].

Definition sm_eqb (a b : sm) : bool :=
  match a, b with Connect, Connect | Alive, Alive | Subscribe, Subscribe | Wait, Wait
  | Init, Init | Multipart, Multipart | Single, Single => true | _, _ => false end.
Definition ev_eqb (a b : ev) : bool :=
  match a, b with EConnect, EConnect | EAlive, EAlive | ESubscribe, ESubscribe | ETick, ETick
  | EMultipart, EMultipart | EComplete, EComplete | EReset, EReset => true | _, _ => false end.

Fixpoint fire_in (tbl : list (option sm * ev * sm)) (s : sm) (e : ev) : option sm :=
  match tbl with [] => None | (src, e', dst) :: r =>
    if ev_eqb e e' && match src with None => true | Some s' => sm_eqb s s' end
    then Some dst else fire_in r s e end.
Definition fire := fire_in sm_table.

Section Client.
(* the settings tree, abstractly *)
Variables (settings path payload iter : Type).
Variable iter_next : iter -> option (path * iter).      (* NodeIter over leaves *)
Variable remaining : iter -> list path.                 (* what the iterator will still yield *)
Hypothesis remaining_next : forall it p it', iter_next it = Some (p, it') -> remaining it = p :: remaining it'.
Hypothesis remaining_done : forall it, iter_next it = None -> remaining it = [].
Variable iter_root : option path -> option iter.        (* None: invalid root *)
Variable T : N.                                         (* DUMP_TIMEOUT *)

Inductive pubres := Sent | SerAbsent | TooLarge.        (* classes of publish() results in iter_dump *)
Inductive out :=
| OAlive | OSub
| ODump (p : path) (ok : bool)            (* value (ok) or Error-coded "too large" message on p's topic *)
| OList (p : option path)                 (* Continue p / final Ok *)
| OResp.                                  (* single response to a request (abstracted) *)

Record pending := { it : iter; resp : bool (* response topic cached? *) }.
Record mstate := { st : sm; timeout : option N; pend : pending }.

(* what one update() observes of minimq / clock / broker *)
Inductive pollev := NoMsg | ListReq (root : option path) (with_resp : bool) | OtherReq (nresp : nat) | SessionReset.
Record env := {
  conn : bool; now : N; act_ok : bool;         (* alive()/subscribe() succeeded *)
  slots : nat;                                  (* loop iterations granted by can_publish *)
  pubs : path -> pubres;                        (* result class of the dump publish for a leaf *)
  poll : pollev }.

Definition set_st (m : mstate) (s : sm) := {| st := s; timeout := timeout m; pend := pend m |}.
Definition do_fire (m : mstate) (e : ev) : mstate :=
  match fire (st m) e with Some s => set_st m s | None => m end.

Fixpoint pump_list (n : nat) (m : mstate) : mstate * list out :=
  match n with O => (m, []) | S n' =>
  match iter_next (it (pend m)) with
  | Some (p, it') =>
      let m' := {| st := st m; timeout := timeout m; pend := {| it := it'; resp := resp (pend m) |} |} in
      let '(m'', o) := pump_list n' m' in (m'', OList (Some p) :: o)
  | None => (do_fire m EComplete, [OList None])
  end end.

Fixpoint pump_dump (e : env) (n : nat) (m : mstate) : mstate * list out :=
  match n with O => (m, []) | S n' =>
  match iter_next (it (pend m)) with
  | Some (p, it') =>
      let m' := {| st := st m; timeout := timeout m; pend := {| it := it'; resp := resp (pend m) |} |} in
      let '(m'', o) := pump_dump e n' m' in
      (m'', match pubs e p with Sent => [ODump p true] | SerAbsent => [] | TooLarge => [ODump p false] end ++ o)
  | None => (do_fire m EComplete, [])
  end end.

Definition timed_out (m : mstate) (e : env) : bool :=
  match timeout m with Some t => N.leb t (now e) | None => false end.

Definition state_action (e : env) (m : mstate) : mstate * list out :=
  match st m with
  | Connect => if conn e then (do_fire m EConnect, []) else (m, [])
  | Alive => if act_ok e then (do_fire m EAlive, [OAlive]) else (m, [])
  | Subscribe => if act_ok e
                 then (do_fire {| st := st m; timeout := Some (now e + T)%N; pend := pend m |} ESubscribe, [OSub])
                 else (m, [])
  | Wait => if timed_out m e then (do_fire m ETick, []) else (m, [])
  | Init => match iter_root None with
            | Some i => (do_fire {| st := st m; timeout := timeout m; pend := {| it := i; resp := false |} |} EMultipart, [])
            | None => (m, []) end
  | Multipart => if resp (pend m) then pump_list (slots e) m else pump_dump e (slots e) m
  | Single => (m, [])
  end.

Definition poll_action (e : env) (m : mstate) : mstate * list out :=
  match poll e with
  | NoMsg => (m, [])
  | SessionReset => (do_fire m EReset, [])
  | OtherReq n => (m, repeat OResp n)
  | ListReq root wr =>
      if sm_eqb (st m) Single then
        match iter_root root with
        | Some i => (do_fire {| st := st m; timeout := timeout m; pend := {| it := i; resp := wr |} |} EMultipart, [])
        | None => (m, [OResp]) end
      else (m, if wr then [OResp] else [])
  end.

Definition step (e : env) (m : mstate) : mstate * list out :=
  let m0 := if conn e then m else do_fire m EReset in
  let '(m1, o1) := state_action e m0 in
  let '(m2, o2) := poll_action e m1 in
  (m2, o1 ++ o2).

(* ---------------------------------------------------------------------- *)
(* C10: a dump publishes every leaf exactly once, however slots are spread *)
(* ---------------------------------------------------------------------- *)
Definition dump_msg (e : env) (p : path) : list out :=
  match pubs e p with Sent => [ODump p true] | SerAbsent => [] | TooLarge => [ODump p false] end.

Lemma pump_dump_spec e : forall n m m' o, pump_dump e n m = (m', o) ->
  exists done, remaining (it (pend m)) = done ++ remaining (it (pend m')) /\
               o = flat_map (dump_msg e) done /\ length done <= n /\
               resp (pend m') = resp (pend m).
Proof.
  induction n as [|n IH]; intros m m' o H; simpl in H.
  - injection H as <- <-. exists []. simpl. repeat split; try reflexivity; lia.
  - destruct (iter_next (it (pend m))) as [[p it']|] eqn:E.
    + destruct (pump_dump e n _) as [m'' o'] eqn:R. injection H as <- <-.
      destruct (IH _ _ _ R) as [done [Hr [Ho [Hl Hp]]]]. simpl in Hr, Hp.
      exists (p :: done). rewrite (remaining_next _ _ _ E), Hr. simpl. rewrite Ho.
      repeat split; try reflexivity; try lia. exact Hp.
    + injection H as <- <-. exists [].
      unfold do_fire. destruct (fire (st m) EComplete); simpl; rewrite ?(remaining_done _ E);
        repeat split; try reflexivity; lia.
Qed.

(* ---------------------------------------------------------------------- *)
(* C13: start-up order as an invariant over all environments               *)
(* ---------------------------------------------------------------------- *)
(* ghost epoch log: what has been sent since the last (re)connection *)
Definition is_startup (o : out) := match o with OAlive | OSub => true | _ => false end.
Definition is_multi (o : out) := match o with ODump _ _ | OList _ => true | _ => false end.

Definition epoch_ok (s : sm) (log : list out) : Prop :=
  match s with
  | Connect | Alive => filter is_startup log = [] /\ filter is_multi log = []
  | Subscribe => filter is_startup log = [OAlive] /\ filter is_multi log = []
  | Wait | Init => filter is_startup log = [OAlive; OSub] /\ filter is_multi log = []
  | Multipart | Single =>
      exists l1 l2, log = l1 ++ l2 /\ filter is_startup l1 = [OAlive; OSub] /\
                    filter is_multi l1 = [] /\ filter is_startup l2 = []
  end.

(* the log is cleared exactly when the client falls back to Connect *)
Definition next_log (m' : mstate) (o : list out) (log : list out) : list out :=
  match st m' with Connect => [] | _ => log ++ o end.

Lemma fire_cases s e s' : fire s e = Some s' ->
  (e = EReset /\ s' = Connect) \/
  (s = Connect /\ e = EConnect /\ s' = Alive) \/ (s = Alive /\ e = EAlive /\ s' = Subscribe) \/
  (s = Subscribe /\ e = ESubscribe /\ s' = Wait) \/ (s = Wait /\ e = ETick /\ s' = Init) \/
  (s = Init /\ e = EMultipart /\ s' = Multipart) \/ (s = Multipart /\ e = EComplete /\ s' = Single) \/
  (s = Single /\ e = EMultipart /\ s' = Multipart).
Proof. destruct s, e; vm_compute; intros H; inversion H; subst; tauto. Qed.

Lemma pump_list_out : forall n m m' o, pump_list n m = (m', o) -> st m = Multipart ->
  filter is_startup o = [] /\ (st m' = Multipart \/ st m' = Single).
Proof.
  induction n as [|n IH]; intros m m' o H Hs; simpl in H.
  - injection H as <- <-. simpl. auto.
  - destruct (iter_next (it (pend m))) as [[p it']|].
    + destruct (pump_list n _) as [m'' o'] eqn:R. injection H as <- <-.
      destruct (IH _ _ _ R Hs) as [Ho Hst]. simpl. auto.
    + injection H as <- <-. unfold do_fire. rewrite Hs. simpl. auto.
Qed.

Lemma pump_dump_out e : forall n m m' o, pump_dump e n m = (m', o) -> st m = Multipart ->
  filter is_startup o = [] /\ (st m' = Multipart \/ st m' = Single).
Proof.
  induction n as [|n IH]; intros m m' o H Hs; simpl in H.
  - injection H as <- <-. simpl. auto.
  - destruct (iter_next (it (pend m))) as [[p it']|].
    + destruct (pump_dump e n _) as [m'' o'] eqn:R. injection H as <- <-.
      destruct (IH _ _ _ R Hs) as [Ho Hst]. rewrite filter_app, Ho.
      split; [destruct (pubs e p); reflexivity|exact Hst].
    + injection H as <- <-. unfold do_fire. rewrite Hs. simpl. auto.
Qed.

Lemma filter_repeat_resp f n : f OResp = false -> filter f (repeat OResp n) = [].
Proof. intros H. induction n; simpl; [reflexivity|rewrite H; assumption]. Qed.

Lemma poll_out e m m' o : poll_action e m = (m', o) ->
  filter is_startup o = [] /\ filter is_multi o = [] /\
  (st m' = st m \/ st m' = Connect \/ (st m = Single /\ st m' = Multipart)).
Proof.
  unfold poll_action. destruct (poll e) as [|root wr|n|].
  - intros H; injection H as <- <-. repeat split; auto.
  - destruct (sm_eqb (st m) Single) eqn:Es.
    + assert (st m = Single) as Hs by (destruct (st m); simpl in Es; congruence).
      destruct (iter_root root); intros H; injection H as <- <-.
      * unfold do_fire. simpl. rewrite Hs. simpl. repeat split; auto.
      * simpl. repeat split; auto.
    + intros H; injection H as <- <-. destruct wr; simpl; repeat split; auto.
  - intros H; injection H as <- <-. rewrite !filter_repeat_resp by reflexivity. repeat split; auto.
  - intros H; injection H as <- <-. unfold do_fire. simpl. repeat split; auto.
Qed.

(* The start-up order is an invariant of every step, for every environment. *)
Theorem startup_invariant e m log : epoch_ok (st m) log ->
  let '(m', o) := step e m in epoch_ok (st m') (next_log m' o (if conn e then log else [])).
Proof.
  intros Hinv. unfold step.
  set (m0 := if conn e then m else do_fire m EReset).
  set (log0 := if conn e then log else []).
  assert (H0 : epoch_ok (st m0) log0).
  { subst m0 log0. destruct (conn e); [exact Hinv|]. unfold do_fire. simpl. split; reflexivity. }
  clearbody m0 log0. clear Hinv.
  destruct (state_action e m0) as [m1 o1] eqn:Ea.
  destruct (poll_action e m1) as [m2 o2] eqn:Ep.
  destruct (poll_out _ _ _ _ Ep) as [Hs2 [Hm2 Hst2]].
  (* effect of the state action on the log *)
  assert (H1 : epoch_ok (st m1) (log0 ++ o1)).
  { unfold state_action in Ea. destruct (st m0) eqn:S0; simpl in H0.
    - destruct (conn e); injection Ea as <- <-; unfold do_fire; rewrite ?S0; simpl; rewrite ?app_nil_r; auto.
    - destruct (act_ok e); injection Ea as <- <-; unfold do_fire; rewrite ?S0; simpl.
      + destruct H0 as [Ha Hb]. rewrite !filter_app, Ha, Hb. auto.
      + rewrite app_nil_r. exact H0.
    - destruct (act_ok e); injection Ea as <- <-; unfold do_fire; simpl; rewrite ?S0; simpl.
      + destruct H0 as [Ha Hb]. rewrite !filter_app, Ha, Hb. auto.
      + rewrite app_nil_r. exact H0.
    - destruct (timed_out m0 e); injection Ea as <- <-; unfold do_fire; rewrite ?S0; simpl;
        rewrite app_nil_r; exact H0.
    - destruct (iter_root None); injection Ea as <- <-; unfold do_fire; simpl; rewrite ?S0; simpl; rewrite app_nil_r.
      + destruct H0 as [Ha Hb]. exists log0, []. rewrite app_nil_r. auto.
      + exact H0.
    - destruct H0 as [l1 [l2 [-> [Ha [Hb Hc]]]]].
      destruct (resp (pend m0)).
      + destruct (pump_list_out _ _ _ _ Ea S0) as [Ho Hst].
        assert (G : exists l1' l2', (l1 ++ l2) ++ o1 = l1' ++ l2' /\ filter is_startup l1' = [OAlive; OSub] /\
                    filter is_multi l1' = [] /\ filter is_startup l2' = []).
        { exists l1, (l2 ++ o1). rewrite app_assoc, filter_app, Hc, Ho. auto. }
        destruct Hst as [-> | ->]; exact G.
      + destruct (pump_dump_out _ _ _ _ _ Ea S0) as [Ho Hst].
        assert (G : exists l1' l2', (l1 ++ l2) ++ o1 = l1' ++ l2' /\ filter is_startup l1' = [OAlive; OSub] /\
                    filter is_multi l1' = [] /\ filter is_startup l2' = []).
        { exists l1, (l2 ++ o1). rewrite app_assoc, filter_app, Hc, Ho. auto. }
        destruct Hst as [-> | ->]; exact G.
    - injection Ea as <- <-. rewrite S0, app_nil_r. exact H0. }
  (* effect of poll *)
  unfold next_log. destruct Hst2 as [E | [E | [E1 E2]]].
  - rewrite E. destruct (st m1) eqn:S1; simpl in H1 |- *; try (split; reflexivity).
    + rewrite app_assoc. destruct H1 as [Ha Hb].
      rewrite (filter_app is_startup (log0 ++ o1) o2), (filter_app is_multi (log0 ++ o1) o2), Ha, Hb, Hs2, Hm2. auto.
    + rewrite app_assoc. destruct H1 as [Ha Hb].
      rewrite (filter_app is_startup (log0 ++ o1) o2), (filter_app is_multi (log0 ++ o1) o2), Ha, Hb, Hs2, Hm2. auto.
    + rewrite app_assoc. destruct H1 as [Ha Hb].
      rewrite (filter_app is_startup (log0 ++ o1) o2), (filter_app is_multi (log0 ++ o1) o2), Ha, Hb, Hs2, Hm2. auto.
    + rewrite app_assoc. destruct H1 as [Ha Hb].
      rewrite (filter_app is_startup (log0 ++ o1) o2), (filter_app is_multi (log0 ++ o1) o2), Ha, Hb, Hs2, Hm2. auto.
    + rewrite app_assoc. destruct H1 as [l1 [l2 [-> [Ha [Hb Hc]]]]].
      exists l1, (l2 ++ o2). rewrite app_assoc, filter_app, Hc, Hs2. auto.
    + rewrite app_assoc. destruct H1 as [l1 [l2 [-> [Ha [Hb Hc]]]]].
      exists l1, (l2 ++ o2). rewrite app_assoc, filter_app, Hc, Hs2. auto.
  - rewrite E. simpl. split; reflexivity.
  - rewrite E2. rewrite E1 in H1. simpl in H1 |- *. rewrite app_assoc.
    destruct H1 as [l1 [l2 [-> [Ha [Hb Hc]]]]].
    exists l1, (l2 ++ o2). rewrite app_assoc, filter_app, Hc, Hs2. auto.
Qed.
End Client.

Print Assumptions startup_invariant.
Print Assumptions pump_dump_spec.
