From Coq Require Import List NArith Lia Bool Arith PeanoNat.
Import ListNotations.

(* ====================================================================== *)
(* Metadata (walk.rs) is exact: count, max_depth, max_length, max_bits      *)
(* ====================================================================== *)
(* decimal digit count of an index (= ilog10 + 1, 1 for 0), 64-bit range *)
Fixpoint digits_aux (fuel : nat) (n : N) : nat :=
  match fuel with O => 1 | S f => if (n <? 10)%N then 1 else S (digits_aux f (n / 10)) end.
Definition digits (n : N) : nat := digits_aux 20 n.

Lemma digits_aux_mono : forall f n m, (n <= m)%N -> digits_aux f n <= digits_aux f m.
Proof.
  induction f as [|f IH]; intros n m H; simpl; [lia|].
  destruct (N.ltb_spec n 10), (N.ltb_spec m 10); try lia.
  apply le_n_S. apply IH. apply N.div_le_mono; lia.
Qed.
Lemma digits_mono n m : (n <= m)%N -> digits n <= digits m.
Proof. apply digits_aux_mono. Qed.

Definition bits_for (n : N) : nat := match n with 0%N => 1 | _ => N.to_nat (N.log2 n) + 1 end.

Inductive shape :=
| Leaf
| Het (cs : list (option nat * shape))     (* Some l: named child with name length l; None: numbered *)
| Hom (n : N) (c : shape).

Section ShapeInd.
Variable P : shape -> Prop.
Hypothesis HLeaf : P Leaf.
Hypothesis HHet : forall cs, Forall (fun c => P (snd c)) cs -> P (Het cs).
Hypothesis HHom : forall n c, P c -> P (Hom n c).
Fixpoint shape_ind' (sh : shape) : P sh :=
  match sh with
  | Leaf => HLeaf
  | Het cs => HHet cs ((fix go (cs : list (option nat * shape)) : Forall (fun c => P (snd c)) cs :=
                          match cs with [] => Forall_nil _ | c :: r => Forall_cons c (shape_ind' (snd c)) (go r) end) cs)
  | Hom n c => HHom n c (shape_ind' c)
  end.
End ShapeInd.

Fixpoint wf (sh : shape) : Prop :=
  match sh with
  | Leaf => True
  | Het cs => cs <> [] /\ (fix all (cs : list (option nat * shape)) : Prop :=
                             match cs with [] => True | c :: r => wf (snd c) /\ all r end) cs
  | Hom n c => (0 < n)%N /\ wf c
  end.

Record meta := { count : N; mdepth : nat; mlength : nat; mbits : nat }.
Definition leaf_meta := {| count := 1; mdepth := 0; mlength := 0; mbits := 0 |}.
Definition zero_meta := {| count := 0; mdepth := 0; mlength := 0; mbits := 0 |}.

Definition name_len (nm : option nat) (index : nat) : nat :=
  match nm with Some l => l | None => digits (N.of_nat index) end.

(* Walk::internal for Metadata (walk.rs:71-104): the loop over the children *)
Fixpoint merge_go (b : nat) (items : list (option nat * meta)) (index : nat) (acc : meta) : meta :=
  match items with
  | [] => acc
  | (nm, m) :: r =>
      merge_go b r (S index)
        {| count := count acc + count m;
           mdepth := Nat.max (mdepth acc) (1 + mdepth m);
           mlength := Nat.max (mlength acc) (name_len nm index + mlength m);
           mbits := Nat.max (mbits acc) (b + mbits m) |}
  end.

Fixpoint metadata (sh : shape) : meta :=
  match sh with
  | Leaf => leaf_meta
  | Het cs => merge_go (bits_for (N.of_nat (length cs) - 1))
                       (map (fun c => (fst c, metadata (snd c))) cs) 0 zero_meta
  | Hom n c =>
      let m := metadata c in       (* Homogeneous: one child, n copies; repaired name length *)
      {| count := n * count m; mdepth := 1 + mdepth m;
         mlength := digits (n - 1) + mlength m; mbits := bits_for (n - 1) + mbits m |}
  end.

(* the spec: one entry (depth, summed name length, summed bit width) per leaf, in key order *)
Definition stat := (nat * nat * nat)%type.
Definition bump (d l b : nat) (s : stat) : stat := let '(d0, l0, b0) := s in (d + d0, l + l0, b + b0).
Definition sd (s : stat) := fst (fst s).
Definition sl (s : stat) := snd (fst s).
Definition sb (s : stat) := snd s.

Fixpoint concat_go (b : nat) (items : list (option nat * list stat)) (index : nat) : list stat :=
  match items with
  | [] => []
  | (nm, l) :: r => map (bump 1 (name_len nm index) b) l ++ concat_go b r (S index)
  end.

Fixpoint stats (sh : shape) : list stat :=
  match sh with
  | Leaf => [(0, 0, 0)]
  | Het cs => concat_go (bits_for (N.of_nat (length cs) - 1))
                        (map (fun c => (fst c, stats (snd c))) cs) 0
  | Hom n c =>
      flat_map (fun i => map (bump 1 (digits (N.of_nat i)) (bits_for (n - 1))) (stats c))
               (seq 0 (N.to_nat n))
  end.

(* exactness of a metadata record w.r.t. a list of per-leaf statistics *)
Definition exact0 (m : meta) (l : list stat) : Prop :=
  count m = N.of_nat (length l) /\ mdepth m = list_max (map sd l) /\
  mlength m = list_max (map sl l) /\ mbits m = list_max (map sb l).

Lemma list_max_map_add {A} (f : A -> nat) a l : l <> [] ->
  list_max (map (fun x => a + f x) l) = a + list_max (map f l).
Proof.
  induction l as [|x l IH]; intros H; [congruence|]. simpl.
  destruct l as [|y l]; [simpl; lia|]. rewrite IH by discriminate. simpl. lia.
Qed.

Lemma list_max_const {A} (c : nat) (l : list A) : l <> [] -> list_max (map (fun _ => c) l) = c.
Proof.
  induction l as [|x l IH]; intros H; [congruence|]. simpl.
  destruct l as [|y l]; [simpl; lia|]. rewrite IH by discriminate. lia.
Qed.

Lemma map_bump d l b (L : list stat) :
  map sd (map (bump d l b) L) = map (fun s => d + sd s) L /\
  map sl (map (bump d l b) L) = map (fun s => l + sl s) L /\
  map sb (map (bump d l b) L) = map (fun s => b + sb s) L.
Proof. rewrite !map_map. repeat split; apply map_ext; intros [[? ?] ?]; reflexivity. Qed.

Lemma exact_bump m L d l b : L <> [] -> exact0 m L ->
  list_max (map sd (map (bump d l b) L)) = d + mdepth m /\
  list_max (map sl (map (bump d l b) L)) = l + mlength m /\
  list_max (map sb (map (bump d l b) L)) = b + mbits m.
Proof.
  intros Hne [_ [Hd [Hl Hb]]]. destruct (map_bump d l b L) as [E1 [E2 E3]].
  rewrite E1, E2, E3, !list_max_map_add by assumption. lia.
Qed.

Lemma merge_exact b : forall items_m items_l index acc L0,
  Forall2 (fun im il => fst im = fst il /\ snd il <> [] /\ exact0 (snd im) (snd il)) items_m items_l ->
  exact0 acc L0 ->
  exact0 (merge_go b items_m index acc) (L0 ++ concat_go b items_l index).
Proof.
  induction items_m as [|[nm m] r IH]; intros items_l index acc L0 HF Hacc.
  - inversion HF; subst. simpl. rewrite app_nil_r. exact Hacc.
  - inversion HF as [|? [nm' l] ? r' [Hnm [Hne Hex]] HF']; subst. simpl in Hnm, Hne, Hex. subst nm'.
    cbn [merge_go concat_go]. rewrite app_assoc. apply IH; [exact HF'|].
    destruct Hacc as [Hc [Hd [Hl Hb]]].
    destruct (exact_bump m l 1 (name_len nm index) b Hne Hex) as [Bd [Bl Bb]].
    destruct Hex as [Hcm _].
    unfold exact0. cbn [count mdepth mlength mbits].
    rewrite !map_app, !list_max_app, app_length, map_length, Bd, Bl, Bb, Hc, Hcm, Hd, Hl, Hb.
    repeat split; lia.
Qed.

Lemma concat_nonempty b : forall items index, items <> [] ->
  Forall (fun il => snd il <> []) items -> concat_go b items index <> [].
Proof.
  intros [|[nm l] r] index Hne HF; [congruence|]. inversion HF; subst. simpl in *.
  destruct l; [congruence|]. simpl. discriminate.
Qed.

Lemma digits_max n c : (0 < n)%N ->
  list_max (map (fun i => digits (N.of_nat i) + c) (seq 0 (N.to_nat n))) = digits (n - 1) + c.
Proof.
  intros Hn. apply Nat.le_antisymm.
  - apply list_max_le. apply Forall_forall. intros x Hx. apply in_map_iff in Hx.
    destruct Hx as [i [<- Hi]]. apply in_seq in Hi.
    apply Nat.add_le_mono_r. apply digits_mono. lia.
  - assert (Hin : In (digits (n - 1) + c) (map (fun i => digits (N.of_nat i) + c) (seq 0 (N.to_nat n)))).
    { apply in_map_iff. exists (N.to_nat (n - 1)). split; [f_equal; f_equal; lia|]. apply in_seq. lia. }
    pose proof (list_max_le (map (fun i => digits (N.of_nat i) + c) (seq 0 (N.to_nat n)))
                 (list_max (map (fun i => digits (N.of_nat i) + c) (seq 0 (N.to_nat n))))) as [H _].
    specialize (H (Nat.le_refl _)). rewrite Forall_forall in H. apply H. exact Hin.
Qed.

(* flat_map over the n copies of a homogeneous array *)
Lemma hom_exact m L n b : (0 < n)%N -> L <> [] -> exact0 m L ->
  exact0 {| count := n * count m; mdepth := 1 + mdepth m;
            mlength := digits (n - 1) + mlength m; mbits := b + mbits m |}
         (flat_map (fun i => map (bump 1 (digits (N.of_nat i)) b) L) (seq 0 (N.to_nat n))).
Proof.
  intros Hn Hne Hex. pose proof Hex as [Hc [Hd [Hl Hb]]].
  set (g := fun i => map (bump 1 (digits (N.of_nat i)) b) L).
  assert (Hlen : forall l, length (flat_map g l) = length l * length L).
  { induction l as [|i l IH]; simpl; [reflexivity|]. unfold g at 1. rewrite app_length, map_length, IH. lia. }
  assert (Hmax : forall (pr : stat -> nat) (f : nat -> nat) l,
            (forall i, list_max (map pr (g i)) = f i) ->
            list_max (map pr (flat_map g l)) = list_max (map f l)).
  { intros pr f l Hf. induction l as [|i l IH]; simpl; [reflexivity|].
    rewrite map_app, list_max_app, IH, Hf. reflexivity. }
  unfold exact0. cbn [count mdepth mlength mbits]. rewrite Hlen, seq_length.
  split; [rewrite Hc; lia|].
  assert (Hpos : seq 0 (N.to_nat n) <> []) by (destruct (N.to_nat n) eqn:E; [lia|discriminate]).
  split; [|split].
  - rewrite (Hmax sd (fun _ => 1 + mdepth m)).
    + symmetry. apply list_max_const. exact Hpos.
    + intros i. unfold g. destruct (exact_bump m L 1 (digits (N.of_nat i)) b Hne Hex) as [E _]. exact E.
  - rewrite (Hmax sl (fun i => digits (N.of_nat i) + mlength m)).
    + symmetry. apply digits_max. exact Hn.
    + intros i. unfold g. destruct (exact_bump m L 1 (digits (N.of_nat i)) b Hne Hex) as [_ [E _]]. exact E.
  - rewrite (Hmax sb (fun _ => b + mbits m)).
    + symmetry. apply list_max_const. exact Hpos.
    + intros i. unfold g. destruct (exact_bump m L 1 (digits (N.of_nat i)) b Hne Hex) as [_ [_ E]]. exact E.
Qed.

(* Main theorem: the metadata is exact for every well-formed shape. *)
Theorem meta_exact : forall sh, wf sh -> stats sh <> [] /\ exact0 (metadata sh) (stats sh).
Proof.
  induction sh as [|cs IH|n c IH] using shape_ind'; intros Hw.
  - split; [discriminate|]. repeat split.
  - destruct Hw as [Hne Hall]. cbn [metadata stats].
    set (b := bits_for (N.of_nat (length cs) - 1)).
    assert (HF : Forall2 (fun im il => fst im = fst il /\ snd il <> [] /\ exact0 (snd im) (snd il))
                   (map (fun c => (fst c, metadata (snd c))) cs) (map (fun c => (fst c, stats (snd c))) cs)).
    { clear Hne b. induction IH as [|[nm c] r Hc _ IHr]; [constructor|].
      destruct Hall as [Hwc Hwr]. simpl. constructor; [|apply IHr; exact Hwr].
      simpl. destruct (Hc Hwc) as [Hn He]. auto. }
    split.
    + apply concat_nonempty; [destruct cs; [congruence|discriminate]|].
      clear -HF. remember (map (fun c => (fst c, metadata (snd c))) cs) as ms. clear Heqms.
      induction HF as [|? ? ? ? [_ [H _]]]; constructor; assumption.
    + apply (merge_exact b _ _ 0 zero_meta [] HF). repeat split.
  - destruct Hw as [Hn Hwc]. destruct (IH Hwc) as [Hne Hex]. cbn [metadata stats]. split.
    + destruct (N.to_nat n) eqn:E; [lia|]. simpl. destruct (stats c); [congruence|]. simpl. discriminate.
    + apply hom_exact; assumption.
Qed.

(* corollary: each maximum is attained by some leaf and exceeded by none *)
Corollary max_attained sh : wf sh ->
  (exists s, In s (stats sh) /\ sl s = mlength (metadata sh)) /\
  (forall s, In s (stats sh) -> sl s <= mlength (metadata sh)).
Proof.
  intros Hw. destruct (meta_exact sh Hw) as [Hne [_ [_ [Hl _]]]]. rewrite Hl. split.
  - assert (G : forall l : list nat, l <> [] -> In (list_max l) l).
    { induction l as [|x l IHl]; [congruence|]. intros _. simpl.
      destruct l as [|y l]; [simpl; left; lia|].
      destruct (Nat.max_spec x (list_max (y :: l))) as [[_ ->]|[_ ->]]; [right; apply IHl; discriminate|left; reflexivity]. }
    assert (Hm : map sl (stats sh) <> []) by (destruct (stats sh); [congruence|discriminate]).
    specialize (G _ Hm). apply in_map_iff in G. destruct G as [s [Hs Hin]]. exists s. auto.
  - intros s Hin. pose proof (list_max_le (map sl (stats sh)) (list_max (map sl (stats sh)))) as [H _].
    specialize (H (Nat.le_refl _)). rewrite Forall_forall in H. apply H. apply in_map. exact Hin.
Qed.

Print Assumptions meta_exact.
Print Assumptions max_attained.
Eval vm_compute in metadata (Het [(Some 3, Leaf); (Some 3, Hom 2 Leaf)]).   (* foo, bar:[_;2] -> (3, 2, 4, 2) *)
Eval vm_compute in metadata (Hom 10 Leaf).
