"""./check --setup : build everything the checks need, offline, from files on disk."""
import os, sys
from common import *


def main():
    ok, out = coq_make()
    if not ok:
        print(out[-3000:]); return 1
    rc = 0
    for crate, profiles in [("rs-core", ["dev", "release"]), ("rs-mqtt", ["dev"]), ("rs-codec", ["dev"])]:
        if not os.path.isdir(os.path.join(VERIF, "harness", crate)):
            continue
        for p in profiles:
            b, out = cargo_build(crate, p)
            if b is None:
                print(out[-3000:]); rc = 1
    # generated programs of the quick tier for the seed the checks will be called with
    try:
        from gen import driver as D
        seed = int(os.environ.get("VERIF_SEED", "1") or 1)
        progs = D.programs_for(seed, "quick")
        for prof in ("dev", "release"):
            where, out = D.build(progs, "quick", prof)
            if where is None:
                print(out[-3000:]); rc = 1
    except Exception as e:  # noqa
        print("gen setup failed:", e); rc = 1
    print("setup done rc=%d" % rc)
    return rc
