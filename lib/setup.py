"""./check --setup : build everything the checks need, offline, from files on disk."""
import os, sys
from common import *


def main():
    ok, out = coq_make()
    if not ok:
        print(out[-3000:]); return 1
    rc = 0
    for crate, profiles in [("rs-core", ["dev", "release"])]:
        if not os.path.isdir(os.path.join(VERIF, "harness", crate)):
            continue
        for p in profiles:
            b, out = cargo_build(crate, p)
            if b is None:
                print(out[-3000:]); rc = 1
    try:
        import props_setup
        rc |= props_setup.main()
    except ImportError:
        pass
    print("setup done rc=%d" % rc)
    return rc
