"""Shared machinery of the /verif checks: Stage A (Coq build, pinned theorems, assumptions),
Stage B helpers (cargo builds keyed by the content hash of /repo, in-Coq evaluation of the
model on cases), violation reporting, known findings, evidence."""
import fcntl, hashlib, json, os, re, subprocess, sys, time, random, shutil

VERIF = os.path.dirname(os.path.dirname(os.path.abspath(__file__)))
REPO = os.environ.get("VERIF_REPO", "/repo")
COQ = os.path.join(VERIF, "coq")
BUILD = os.path.join(VERIF, "build")          # untracked scratch (cargo targets, case files)
EVID = os.path.join(VERIF, "evidence")
REPLAYS = os.path.join(VERIF, "replays")
ENV = dict(os.environ, CARGO_NET_OFFLINE="true", CARGO_TERM_COLOR="never")
NPROC = os.cpu_count() or 4

AXIOM_ALLOWLIST = set()   # names Print Assumptions may list (none: every theorem must be closed)


def log(*a):
    print(*a, file=sys.stderr, flush=True)


def sh(cmd, cwd=None, timeout=3600, env=None, input=None):
    p = subprocess.run(cmd, cwd=cwd, timeout=timeout, env=env or ENV, input=input,
                       stdout=subprocess.PIPE, stderr=subprocess.STDOUT, text=True,
                       shell=isinstance(cmd, str))
    return p.returncode, p.stdout


class Lock:
    def __init__(self, name):
        os.makedirs(BUILD, exist_ok=True)
        self.path = os.path.join(BUILD, name + ".lock")

    def __enter__(self):
        self.f = open(self.path, "w")
        fcntl.flock(self.f, fcntl.LOCK_EX)
        return self

    def __exit__(self, *a):
        fcntl.flock(self.f, fcntl.LOCK_UN)
        self.f.close()


# ----------------------------------------------------------------------------------------
# content hash of the repository sources (what the harness builds depend on)
def repo_hash(subdirs=("miniconf/src", "miniconf/Cargo.toml", "miniconf_derive/src", "miniconf_derive/Cargo.toml",
                       "miniconf_mqtt/src", "miniconf_mqtt/Cargo.toml", "Cargo.lock", "Cargo.toml",
                       "py/miniconf-mqtt/miniconf")):
    h = hashlib.sha256()
    for sd in subdirs:
        p = os.path.join(REPO, sd)
        if os.path.isfile(p):
            files = [p]
        else:
            files = []
            for root, _, fs in os.walk(p):
                for f in fs:
                    if f.endswith((".rs", ".toml", ".py", ".lock")):
                        files.append(os.path.join(root, f))
        for f in sorted(files):
            h.update(f.encode())
            with open(f, "rb") as fh:
                h.update(fh.read())
    return h.hexdigest()[:16]


# ----------------------------------------------------------------------------------------
# Stage A: Coq
def coq_makefile():
    if not os.path.exists(os.path.join(COQ, "Makefile")) or \
            os.path.getmtime(os.path.join(COQ, "Makefile")) < os.path.getmtime(os.path.join(COQ, "_CoqProject")):
        rc, out = sh(["coq_makefile", "-f", "_CoqProject", "-o", "Makefile"], cwd=COQ)
        if rc != 0:
            raise RuntimeError("coq_makefile failed: " + out)


TRANSLATOR = dict(ok=True, msg="")


def run_translator():
    """regenerate coq/Generated.v from /repo's sources (written only when the content changes)"""
    rc, out = sh([sys.executable, os.path.join(VERIF, "translator", "gen.py")], env=dict(ENV, VERIF_REPO=REPO))
    TRANSLATOR["ok"] = rc == 0
    TRANSLATOR["msg"] = out.strip()[-1500:]
    return rc == 0


def coq_make(targets=None, timeout=3000):
    """Full .vo build (never -vos) of the development, incremental; -k so that a file which no longer
    compiles only affects the properties that depend on it (see coq_deps)."""
    with Lock("coq"):
        run_translator()
        coq_makefile()
        cmd = ["make", "-k", "-j%d" % NPROC] + (targets or [])
        rc, out = sh(cmd, cwd=COQ, timeout=timeout)
        return rc == 0, out


def coq_failed_files(out):
    return set(re.findall(r'File "\./([\w/]+)\.v", line \d+, characters [\d-]+:\s*\n\s*Error', out)) | \
        set(re.findall(r"\[(?:\./)?([\w/]+)\.vo\] Error", out))


def coq_deps(vfile):
    """transitive MC dependencies of a .v file (module names), from its Require lines"""
    seen, todo = set(), [vfile]
    while todo:
        f = todo.pop()
        try:
            src = strip_comments(open(os.path.join(COQ, f)).read())
        except OSError:
            continue
        for m in re.finditer(r"From\s+MC\s+Require\s+(?:Import|Export)?\s*([\w\s.]+?)\.\s", src):
            for mod in m.group(1).split():
                if mod not in seen:
                    seen.add(mod)
                    todo.append(mod.replace(".", "/") + ".v")
    return seen


FORBIDDEN = re.compile(r"\b(Admitted|admit|Axiom|Axioms|Parameter|Parameters|Conjecture|Conjectures|"
                       r"Unset\s+Guard|bypass_check|Admit\s+Obligations|type-in-type|impredicative-set)\b")


def strip_comments(src):
    out, depth, i = [], 0, 0
    while i < len(src):
        if src.startswith("(*", i):
            depth += 1; i += 2
        elif src.startswith("*)", i) and depth > 0:
            depth -= 1; i += 2
        else:
            if depth == 0:
                out.append(src[i])
            i += 1
    return "".join(out)


def coq_hygiene():
    """No Admitted/admit/Axiom/Parameter/... anywhere in the development (comments excluded);
    Variable/Hypothesis only inside sections."""
    bad = []
    for root, _, fs in os.walk(COQ):
        for f in fs:
            if not f.endswith(".v"):
                continue
            p = os.path.join(root, f)
            src = strip_comments(open(p).read())
            for m in FORBIDDEN.finditer(src):
                bad.append("%s: %s" % (os.path.relpath(p, VERIF), m.group(0)))
            depth = 0
            for line in src.split("\n"):
                s = line.strip()
                if re.match(r"Section\s+\w+", s):
                    depth += 1
                elif re.match(r"End\s+\w+\s*\.", s) and depth > 0:
                    depth -= 1
                elif depth == 0 and re.match(r"(Variable|Variables|Hypothesis|Hypotheses|Context)\b", s):
                    bad.append("%s: %s outside a section" % (os.path.relpath(p, VERIF), s[:40]))
    return bad


def stage_a(prop, make_targets=None):
    """Build the development, compile Properties/<prop>.v, check pinned theorems + assumptions.
    Returns dict(ok, obligations, discharged, theorems, assumptions, failures, checker_cmd)."""
    res = dict(ok=False, obligations=0, discharged=0, theorems=[], assumptions={}, failures=[],
               checker_cmd="make -C coq (coq_makefile, full .vo) && coqc -Q coq MC coq/Properties/%s.v" % prop)
    pfile = os.path.join(COQ, "Properties", prop + ".v")
    src = strip_comments(open(pfile).read())
    thms = re.findall(r"^\s*Theorem\s+(\w+)", src, re.M)
    res["theorems"] = thms
    res["obligations"] = len(thms)
    bad = coq_hygiene()
    if bad:
        res["failures"].append("forbidden constructs: " + "; ".join(bad[:10]))
    # the property file may contain only Theorem/Example statements closed by exact / computation
    ok, out = coq_make(make_targets)
    if not ok:
        failed = coq_failed_files(out)
        mine = coq_deps(os.path.join("Properties", prop + ".v"))
        if not failed or (failed & mine):
            res["failures"].append("coq build failed (%s):\n%s" % (", ".join(sorted(failed & mine)) or "?", out[-3000:]))
            return res
        res["unrelated_build_failures"] = sorted(failed)
    if "Generated" in coq_deps(os.path.join("Properties", prop + ".v")) and not TRANSLATOR["ok"]:
        res["failures"].append("translator failed (the generated part of the model is not tied to the source): " + TRANSLATOR["msg"])
        return res
    with Lock("coq"):
        rc, out = sh(["coqc", "-Q", ".", "MC", os.path.join("Properties", prop + ".v")], cwd=COQ, timeout=1800)
    if rc != 0:
        res["failures"].append("coqc Properties/%s.v failed:\n%s" % (prop, out[-3000:]))
        return res
    # parse Print Assumptions output: blocks separated by the known header lines
    blocks = re.split(r"(?m)^(?=Closed under the global context|Axioms:)", out)
    blocks = [b.strip() for b in blocks if b.strip()]
    printed = re.findall(r"Print Assumptions\s+(\w+)", src)
    closed = 0
    for name, b in zip(printed, blocks):
        res["assumptions"][name] = b.split("\n")[0] if b.startswith("Closed") else b
        if b.startswith("Closed under the global context"):
            closed += 1
        else:
            names = set(re.findall(r"^(\S+)\s*:", b, re.M)) - {"Axioms"}
            if names <= AXIOM_ALLOWLIST:
                closed += 1
            else:
                res["failures"].append("theorem %s depends on axioms: %s" % (name, sorted(names)))
    missing = [t for t in thms if t not in printed]
    if missing:
        res["failures"].append("no Print Assumptions for: %s" % missing)
    if len(blocks) != len(printed):
        res["failures"].append("Print Assumptions output count %d != %d" % (len(blocks), len(printed)))
    res["discharged"] = min(closed, len(thms)) if not missing else 0
    if os.environ.get("VERIF_CURRENT_TIER") == "thorough" and not res["failures"]:
        # independent re-check of the compiled property file and everything it depends on
        ok2, out2 = coqchk(["Properties." + prop])
        res["coqchk"] = out2[-900:]
        res["checker_cmd"] += " && coqchk -silent -o -Q coq MC MC.Properties.%s" % prop
        if not ok2 or "Axioms: <none>" not in out2 or "type-in-type: <none>" not in out2 or "unsafe (co)fixpoints: <none>" not in out2 or "positivity is assumed: <none>" not in out2:
            res["failures"].append("coqchk: " + out2[-1500:])
    res["ok"] = not res["failures"] and res["discharged"] == res["obligations"] and res["obligations"] > 0
    return res


def coqchk(prop_files, timeout=3000):
    """Independent re-check of compiled files and their dependencies; returns (ok, axioms text)."""
    mods = ["MC." + f for f in prop_files]
    with Lock("coq"):
        rc, out = sh(["coqchk", "-silent", "-o", "-Q", ".", "MC"] + mods, cwd=COQ, timeout=timeout)
    return rc == 0, out[-2000:]


# ----------------------------------------------------------------------------------------
# Stage B: in-Coq evaluation of the model on cases
def obs_to_coq(x):
    if isinstance(x, bool):
        return "(OZ %d)" % int(x)
    if isinstance(x, int):
        return "(OZ (%d))" % x
    if x is None:
        return "(OL [])"
    if isinstance(x, str):
        return "(OL [%s])" % "; ".join("(OZ %d)" % ord(c) for c in x)
    return "(OL [%s])" % "; ".join(obs_to_coq(y) for y in x)


def zlist(l):
    return "[" + "; ".join("(%d)" % int(x) for x in l) + "]"


def nlist(l):
    return "[" + "; ".join("%d%%N" % int(x) for x in l) + "]"


def coq_str(s):
    """a Rust/Python string as list of code points (list N)"""
    return nlist([ord(c) for c in s])


def _parse_obs(tok, i):
    # grammar: OZ n | OZ (-n) | OL [ a; b ]  (possibly parenthesised)
    if tok[i] == "(":
        v, i = _parse_obs(tok, i + 1)
        assert tok[i] == ")", tok[i]
        return v, i + 1
    if tok[i] == "OZ":
        i += 1
        if tok[i] == "(":
            v = int(tok[i + 1]); assert tok[i + 2] == ")"
            return v, i + 3
        return int(tok[i]), i + 1
    if tok[i] == "OL":
        i += 1
        assert tok[i] == "["
        i += 1
        items = []
        while tok[i] != "]":
            v, i = _parse_obs(tok, i)
            items.append(v)
            if tok[i] == ";":
                i += 1
        return items, i + 1
    raise ValueError("unexpected token %r" % tok[i])


def parse_mismatches(text):
    """parse '= [(3, OL [...]); ...] : list (Z * obs)'"""
    m = re.search(r"=\s*(.*?)\s*:\s*list \(Z \* obs\)", text, re.S)
    if not m:
        raise ValueError("cannot parse Coq output: " + text[-500:])
    body = m.group(1)
    tok = re.findall(r"OZ|OL|-?\d+|[\[\]();,]", body)
    # outer list of pairs
    assert tok[0] == "["
    i = 1
    res = []
    while tok[i] != "]":
        assert tok[i] == "("
        idx = int(tok[i + 1]); assert tok[i + 2] == ","
        v, i = _parse_obs(tok, i + 3)
        assert tok[i] == ")"
        i += 1
        res.append((idx, v))
        if tok[i] == ";":
            i += 1
    return res


def coq_eval_cases(tag, imports, cases, chunk=400, timeout=1500, preamble=""):
    """cases: list of (model_expr : obs as Coq text, expected : python obs).
    Evaluates every model_expr with vm_compute inside Coq and compares with [expected] there.
    Returns (mismatches: list of (index, model_obs), error or None)."""
    d = os.path.join(BUILD, "cases", tag)
    shutil.rmtree(d, ignore_errors=True)
    os.makedirs(d)
    files = []
    for k in range(0, len(cases), chunk):
        part = cases[k:k + chunk]
        fn = os.path.join(d, "cases_%d.v" % (k // chunk))
        with open(fn, "w") as f:
            f.write("From Coq Require Import ZArith NArith List String.\nFrom MC Require Import Obs %s.\n" % " ".join(imports))
            f.write("Import ListNotations.\nOpen Scope Z_scope.\nSet Printing Width 1000000.\nSet Printing Depth 1000000.\n")
            f.write(preamble + "\n")
            f.write("Definition cases : list (obs * obs) := [\n")
            f.write(";\n".join("(%s, %s)" % (m, obs_to_coq(e)) for m, e in part))
            f.write("].\nEval vm_compute in (mismatches cases).\n")
        files.append((k, fn))
    procs = []
    mism, err = [], None
    pending = list(files)
    running = []
    while pending or running:
        while pending and len(running) < NPROC:
            k, fn = pending.pop(0)
            p = subprocess.Popen(["coqc", "-noglob", "-w", "-abstract-large-number", "-Q", COQ, "MC", fn], cwd=d, env=ENV,
                                 stdout=open(fn + ".out", "w"), stderr=subprocess.STDOUT, text=True)
            running.append((k, fn, p, time.time()))
        still = []
        for k, fn, p, t0 in running:
            if p.poll() is None:
                if time.time() - t0 > timeout:
                    p.kill(); err = "coqc timeout on " + fn
                else:
                    still.append((k, fn, p, t0))
                continue
            out = open(fn + ".out").read()
            if p.returncode != 0:
                err = "coqc failed on %s:\n%s" % (fn, out[-2000:])
                continue
            try:
                for idx, v in parse_mismatches(out):
                    mism.append((k + idx, v))
            except Exception as e:  # noqa
                err = "parse error on %s: %s" % (fn, e)
        running = still
        if running:
            time.sleep(0.05)
    mism.sort()
    return mism, err


# ----------------------------------------------------------------------------------------
# Stage B: cargo builds of harness crates, cached by the content hash of /repo
def cargo_build(crate, profile="dev", features=None, rustflags=None, timeout=3000, bin_name=None):
    """Build harness/<crate> against /repo's working tree; returns (binary path or None, output)."""
    src = os.path.join(VERIF, "harness", crate)
    tgt = os.path.join(BUILD, "target-" + crate)
    lock = os.path.join(REPO, "Cargo.lock")
    with Lock("cargo-" + crate):
        if os.path.exists(lock) and not os.path.exists(os.path.join(src, "Cargo.lock")):
            shutil.copy(lock, os.path.join(src, "Cargo.lock"))
        cmd = ["cargo", "build", "--offline", "--target-dir", tgt]
        if profile == "release":
            cmd.append("--release")
        if features:
            cmd += ["--features", ",".join(features)]
        env = dict(ENV)
        if rustflags:
            env["RUSTFLAGS"] = rustflags
        rc, out = sh(cmd, cwd=src, timeout=timeout, env=env)
        if rc != 0:
            return None, out
        b = os.path.join(tgt, "release" if profile == "release" else "debug", bin_name or crate.replace("-", "_"))
        if not os.path.exists(b):
            b = os.path.join(tgt, "release" if profile == "release" else "debug", bin_name or crate)
        return b, out


def run_lines(binary, lines, timeout=1800, args=()):
    p = subprocess.run([binary] + list(args), input="\n".join(lines) + "\n", stdout=subprocess.PIPE,
                       stderr=subprocess.PIPE, text=True, timeout=timeout, env=dict(ENV, RUST_BACKTRACE="0"))
    return p.returncode, p.stdout.split("\n")[:-1] if p.stdout.endswith("\n") else p.stdout.split("\n"), p.stderr


# ----------------------------------------------------------------------------------------
# known findings
def known_findings(prop):
    """lines 'finding: property=Cnn key=<key> <text>' of known_findings.txt for this property"""
    res = []
    p = os.path.join(VERIF, "known_findings.txt")
    if os.path.exists(p):
        for line in open(p):
            line = line.strip()
            m = re.match(r"finding:\s+property=(\w+)\s+key=(\S+)\s+(.*)", line)
            if m and m.group(1) == prop:
                res.append((m.group(2), m.group(3)))
    return res


# ----------------------------------------------------------------------------------------
class Check:
    """One run of one property's check."""

    def __init__(self, prop, tier, seed, level="proof"):
        self.prop, self.tier, self.seed, self.level = prop, tier, seed, level
        self.t0 = time.time()
        self.rng = random.Random((seed << 8) ^ int(hashlib.sha256(prop.encode()).hexdigest()[:6], 16))
        self.cov = dict(obligations=0, discharged=0, checker_cmd="", trusted_base=[],
                        evaluations=0, distinct_nontrivial=0, rule="", samples=[],
                        traces_validated_against_impl=0)
        self.assumptions = []
        self.violations = []     # list of (replay_path, found_input: bool)
        self.known_hits = []
        self.notes = []

    def add_stage_a(self, a):
        self.cov["obligations"] = a["obligations"]
        self.cov["discharged"] = a["discharged"]
        self.cov["checker_cmd"] = a["checker_cmd"]
        self.cov["pinned_theorems"] = a["theorems"]
        self.cov["print_assumptions"] = a["assumptions"]
        self.cov["stage_a_failures"] = a["failures"]

    def violation(self, replay_obj, found_input, tag=""):
        os.makedirs(REPLAYS, exist_ok=True)
        blob = json.dumps(replay_obj, sort_keys=True, indent=1, default=str)
        h = hashlib.sha256(blob.encode()).hexdigest()[:12]
        path = os.path.join(REPLAYS, "%s-%s%s.json" % (self.prop, tag, h))
        with open(path, "w") as f:
            f.write(blob)
        rel = os.path.relpath(path, VERIF)
        self.violations.append((rel, found_input))
        return rel

    def known(self, key, what):
        self.known_hits.append((key, what))

    def finish(self):
        self.cov["samples"] = self.cov["samples"][:12]
        ev = dict(property_id=self.prop, tier=self.tier, seed=self.seed, level=self.level,
                  coverage=self.cov, assumptions=self.assumptions,
                  wall_s=round(time.time() - self.t0, 2), violations=len(self.violations))
        if self.notes:
            ev["coverage"]["notes"] = self.notes
        os.makedirs(EVID, exist_ok=True)
        with open(os.path.join(EVID, self.prop + ".json"), "w") as f:
            json.dump(ev, f, indent=1, default=str)
        for key, what in sorted(set(self.known_hits)):
            print("KNOWN-FINDING: property=%s %s" % (self.prop, what))
        for rel, found in self.violations:
            print("VIOLATION property=%s replay=%s%s" % (self.prop, rel, "" if found else " no-failing-input-found"))
        sys.stdout.flush()
        return 1 if self.violations else 0


TRUSTED_COMMON = [
    "Coq 8.16.1 kernel (coqc; coqchk in the thorough tier); vm_compute used for Examples and for evaluating the model in the correspondence; no native_compute",
    "no axioms: every pinned theorem prints 'Closed under the global context' (checked on every run); no Axiom/Parameter/Admitted in the development (grep on every run)",
    "hand-written Gallina model of the Rust code, tied to /repo's working tree by differential correspondence on generated cases (testing, not proof)",
    "correspondence harness: python case generator, Rust harness crate built against /repo, obs encoding and in-Coq comparison (lib/common.py, coq/Obs.v)",
    "x86_64 target (64-bit usize); Rust language semantics of the transliterated functions",
]


# ----------------------------------------------------------------------------------------
# generic flow for properties whose implementation side is a line-oriented harness binary
class BuildError(Exception):
    pass


def impl_outputs(spec, cases):
    """run the implementation (all profiles of the spec); returns {profile: [obs]} or raises BuildError"""
    res = {}
    for prof in spec.PROFILES:
        b, out = cargo_build(spec.CRATE, prof)
        if b is None:
            raise BuildError(out)
        rc, lines, err = run_lines(b, [spec.rust_line(c) for c in cases])
        if rc != 0 or len(lines) != len(cases):
            raise BuildError("%s %s run failed rc=%s (%d lines for %d cases): %s" % (spec.CRATE, prof, rc, len(lines), len(cases), err[-1000:]))
        res[prof] = [json.loads(x) for x in lines]
    return res


def run_core_prop(chk, spec):
    chk.cov["trusted_base"] = TRUSTED_COMMON + spec.TRUSTED
    chk.assumptions = spec.ASSUME
    a = stage_a(spec.PROP, None)
    chk.add_stage_a(a)
    cases = spec.cases_for(chk.rng, chk.tier)
    chk.cov["rule"] = spec.RULE
    tie_broken, outs, mism = None, None, []
    try:
        outs = impl_outputs(spec, cases)
    except BuildError as e:
        tie_broken = dict(kind="harness-build-or-run-failed", detail=str(e)[-3000:])
    P = spec.PROFILES
    if outs:
        evals = [(spec.model_expr(c), outs[p][i]) for p in P for i, c in enumerate(cases)]
        mm, err = coq_eval_cases(spec.PROP, spec.IMPORTS, evals, chunk=getattr(spec, "CHUNK", 400))
        if err:
            tie_broken = dict(kind="model-evaluation-failed", detail=err)
        mism = [(P[k // len(cases)], k % len(cases), v) for k, v in mm]
        chk.cov["evaluations"] = len(evals)
        chk.cov["traces_validated_against_impl"] = len(evals) - len(mm)
        chk.cov["distinct_nontrivial"] = len({json.dumps(c) for c in cases if spec.nontrivial(c)})
        chk.cov["disagreements"] = len(mism)
        kinds = {}
        for c in cases:
            kinds[c[0]] = kinds.get(c[0], 0) + 1
        chk.cov["case_kinds"] = kinds
        if hasattr(spec, "distribution"):
            chk.cov["input_distribution"] = spec.distribution(cases)
        chk.cov["exhaustive"] = bool(getattr(spec, "EXHAUSTIVE", False))
        chk.cov["samples"] = [dict(case=spec.rust_line(c), impl=outs[P[0]][i]) for i, c in list(enumerate(cases))[:3] + list(enumerate(cases))[-3:]] + \
            [dict(pinned_theorem=t) for t in a["theorems"][:6]]
    broken = (not a["ok"]) or tie_broken or mism
    found = []
    if outs:
        for p in P:
            for i, c in enumerate(cases):
                why = spec.predicate(c, outs[p][i])
                if why:
                    found.append((p, c, outs[p][i], why))
    if broken and not found and outs:
        extra = spec.search_cases(chk.seed)
        try:
            o2 = impl_outputs(spec, extra)
            for p in P:
                for i, c in enumerate(extra):
                    why = spec.predicate(c, o2[p][i])
                    if why:
                        found.append((p, c, o2[p][i], why))
        except BuildError:
            pass
    # known findings are matched on the failing-case key
    kf = dict(known_findings(spec.PROP))
    fresh = []
    for f in found:
        key = spec.finding_key(f[1]) if hasattr(spec, "finding_key") else None
        if key and key in kf:
            chk.known(key, kf[key])
        else:
            fresh.append(f)
    if fresh:
        p, c, o, why = min(fresh, key=lambda f: len(json.dumps(f[1])))
        chk.violation(dict(property=spec.PROP, kind="failing-input", profile=p, case=spec.rust_line(c), implementation_returned=o,
                           property_requires=why, how_to_replay="./check %s --replay <this file>" % spec.PROP,
                           other_failing_cases=len(fresh) - 1), True)
    elif (not a["ok"]) or tie_broken or [m for m in mism if not _is_known(spec, cases[m[1]], kf)]:
        detail = dict(property=spec.PROP, kind="no-failing-input-found",
                      stage_a_failures=a["failures"], tie=tie_broken, correspondence=spec.CHANNEL,
                      first_disagreements=[dict(profile=p, case=spec.rust_line(cases[i]), implementation=outs[p][i], model=v)
                                           for p, i, v in mism[:5]] if outs else [])
        chk.violation(detail, False)


def _is_known(spec, case, kf):
    return hasattr(spec, "finding_key") and spec.finding_key(case) in kf


def replay_core_prop(chk, spec, rep):
    if "case" not in rep:
        print("replay file names no failing input (%s); re-running the check instead" % rep.get("kind"))
        run_core_prop(chk, spec)
        return chk.finish()
    c = spec.parse_case(rep["case"])
    outs = impl_outputs(spec, [c])
    bad = False
    for p in spec.PROFILES:
        why = spec.predicate(c, outs[p][0])
        print("replay %s [%s]: implementation returned %s -> %s" % (spec.rust_line(c), p, outs[p][0], why or "property holds"))
        bad |= bool(why)
    if bad:
        print("VIOLATION property=%s replay=(replayed case)" % spec.PROP)
    return 1 if bad else 0
