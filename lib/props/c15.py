"""C15 — Path and JSON-path strings split into keys exactly as documented."""
import itertools
from common import *

PROP = "C15"
CRATE = "rs-core"
IMPORTS = ["Str", "Str_tie"]
PROFILES = ["dev"]
CHANNEL = "C15 channel: rs-core (PathIter, JsonPathIter, Path/JsonPath IntoKeys+Transcode) vs coq/Str.v via Str_tie.v"
TRUSTED = ["modelled, not verified: str::split_at / get / find / strip_prefix / char::len_utf8 (split_at_bytes, find_str, utf8_len), itoa (itoa_aux)"]
ASSUME = ["strings are valid UTF-8 (Rust str invariant)"]
EXHAUSTIVE = False
CHUNK = 600

SEPS = [47, 46, 233, 128512]            # '/', '.', 'é' (2 bytes), '😀' (4 bytes)
ALPHA = [47, 233, 97, 8364, 128512, 46, 39, 91, 93, 49]   # / é a € 😀 . ' [ ] 1

# the fixed type of harness/rs-core/src/strings.rs (Fixed): node -> (items, leaf)
INNER = lambda: [("x", None), ("long_name", ("hom", 12, None))]


def fixed_nodes():
    """all nodes of Fixed as (indices, items=[(name or None, index)], leaf)"""
    inner = [(("x", 0), None), (("long_name", 1), ("hom", 12))]
    top = [("a", None), ("renamed", "tuple"), ("c", "arr"), ("d", "inner")]
    nodes = [([], [], False)]

    def add_inner(idx, items):
        nodes.append((idx, items, False))
        nodes.append((idx + [0], items + [("x", 0)], True))
        nodes.append((idx + [1], items + [("long_name", 1)], False))
        for k in range(12):
            nodes.append((idx + [1, k], items + [("long_name", 1), (None, k)], True))
    nodes.append(([0], [("a", 0)], True))
    nodes.append(([1], [("renamed", 1)], False))
    nodes.append(([1, 0], [("renamed", 1), (None, 0)], True))
    add_inner([1, 1], [("renamed", 1), (None, 1)])
    nodes.append(([2], [("c", 2)], False))
    for k in range(3):
        add_inner([2, k], [("c", 2), (None, k)])
    add_inner([3], [("d", 3)])
    return nodes


def cases_for(rng, tier):
    L = 3 if tier == "quick" else 5
    cases = []
    strings = [list(t) for n in range(L + 1) for t in itertools.product(ALPHA, repeat=n)]
    if tier == "thorough":
        # length-5 strings: sample a third of them for the path channel to bound the Coq time
        pass
    for s in strings:
        for sep in SEPS:
            if tier == "thorough" and len(s) == 5 and rng.random() > 0.25:
                continue
            cases.append(("spath", sep, s))
        cases.append(("sjson", s))
    # structured JSON paths: names in random notations
    nrand = 400 if tier == "quick" else 20000
    for _ in range(nrand):
        k = rng.randint(1, 6)
        names = []
        for _ in range(k):
            n = rng.choice([[], [97], [98, 99], [49, 50], [233], [128512, 97], [47], [95, 120]])
            names.append(n)
        kinds = [rng.randint(0, 3) for _ in names]
        s = []
        for kd, n in zip(kinds, names):
            s += [[46] + n, [46, 39] + n + [39], [91] + n + [93], [91, 39] + n + [39, 93]][kd]
        cases.append(("sjson", s, names))
    # random longer strings (valid and malformed)
    for _ in range(nrand):
        s = [rng.choice(ALPHA + [rng.randint(32, 0x2FF), rng.randint(0x10000, 0x10FFF)]) for _ in range(rng.randint(6, 40))]
        cases.append(("spath", rng.choice(SEPS + [124, 8364]), s))
        cases.append(("sjson", s))
    for idx, items, leaf in fixed_nodes():
        cases.append(("swrite", idx, items, leaf))
    return cases


def search_cases(seed):
    return cases_for(random.Random(seed + 31), "quick") + \
        [("spath", sep, list(t)) for t in itertools.product(ALPHA, repeat=4) for sep in SEPS] + \
        [("sjson", list(t)) for t in itertools.product(ALPHA, repeat=4)]


def rust_line(c):
    if c[0] == "spath":
        return "spath %d %s" % (c[1], " ".join(map(str, c[2])))
    if c[0] == "sjson":
        return "sjson " + " ".join(map(str, c[1]))
    return "swrite " + " ".join(map(str, c[1]))


def parse_case(text):
    t = text.split()
    if t[0] == "spath":
        return ("spath", int(t[1]), [int(x) for x in t[2:]])
    if t[0] == "sjson":
        return ("sjson", [int(x) for x in t[1:]])
    idx = [int(x) for x in t[1:]]
    for i, items, leaf in fixed_nodes():
        if i == idx:
            return ("swrite", i, items, leaf)
    raise ValueError(text)


def coq_items(items):
    return "[" + "; ".join("(%s, %d%%N)" % ("Some " + coq_str(n) if n is not None else "None", i) for n, i in items) + "]"


def model_expr(c):
    if c[0] == "spath":
        return "spath %d%%N %s" % (c[1], nlist(c[2]))
    if c[0] == "sjson":
        return "sjson %s" % nlist(c[1])
    return "swrite %s %s" % (coq_items(c[2]), "true" if c[3] else "false")


def nontrivial(c):
    return c[0] == "swrite" or len(c[-1] if c[0] == "spath" else c[1]) > 0


def distribution(cases):
    d = {}
    for c in cases:
        n = len(c[2]) if c[0] == "spath" else len(c[1])
        k = "%s/len%s" % (c[0], n if n < 6 else "6+")
        d[k] = d.get(k, 0) + 1
    return d


def pysplit(s, sep):
    out, cur = [], []
    for ch in s:
        if ch == sep:
            out.append(cur); cur = []
        else:
            cur.append(ch)
    out.append(cur)
    return out


def predicate(c, o):
    try:
        if o == [-999]:
            return "panic"
        if c[0] == "spath":
            new, root, extra, nkeys = o
            sp = pysplit(c[2], c[1])
            if new != sp:
                return "PathIter::new yields %r, splitting at every separator gives %r" % (new, sp)
            if root != sp[1:]:
                return "PathIter::root yields %r, expected %r" % (root, sp[1:])
            if extra != 0:
                return "PathIter yielded items after returning None (not fused)"
            if nkeys != len(sp) - 1:
                return "Path as IntoKeys yields %d keys, expected %d" % (nkeys, len(sp) - 1)
            return None
        if c[0] == "sjson":
            keys, rest, extra, nkeys = o
            if extra != 0:
                return "JsonPathIter yielded items after returning None (not fused)"
            if nkeys != len(keys):
                return "JsonPath as IntoKeys yields %d keys, the iterator %d" % (nkeys, len(keys))
            if len(c) > 2 and keys != c[2]:
                return "notations of %r parsed to %r" % (c[2], keys)
            return None
        if c[0] == "swrite":
            names = [[ord(ch) for ch in (n if n is not None else str(i))] for n, i in c[2]]
            for part in o:
                if part[0] == -1:
                    return "transcode of node %r failed" % (c[1],)
                w, depth, leaf, back, fix = part
                if back != names:
                    return "written form %r parses back to %r, node keys are %r" % (w, back, names)
                if depth != len(names) or bool(leaf) != c[3] or fix != 1:
                    return "written form of %r re-resolves to a different node" % (c[1],)
            return None
    except Exception as e:
        return "malformed observation %r (%s)" % (o, e)
    return None


RULE = ("path strings: every string over the 10-symbol alphabet {/, é, a, €, 😀, ., ', [, ], 1} up to length 3 (quick) / 4 plus a quarter of "
        "length 5 (thorough) x separators {/, ., é, 😀}; JSON paths: the same strings, plus generated key lists in random mixtures of the four "
        "notations, plus random longer strings; plus every node of a fixed nested type written as Path (3 separators) and JsonPath and parsed back; "
        "iterators are polled 3 times past the end; distinct = distinct case tuples; non-trivial = non-empty string or a node write")


def run(chk):
    import sys
    run_core_prop(chk, sys.modules[__name__])


def replay(chk, rep):
    import sys
    return replay_core_prop(chk, sys.modules[__name__], rep)
