"""C03 — decided on generated programs; see props/gencommon.py and coq/Properties/C03.v"""
from props.gencommon import run_gen_prop, replay_gen

PROFILES = ("dev", "release") if "C03" == "C16" else ("dev",)


def run(chk):
    run_gen_prop(chk, "C03", profiles=PROFILES)


def replay(chk, rep):
    return replay_gen(chk, "C03", rep)
