"""C04 — decided on generated programs; see props/gencommon.py and coq/Properties/C04.v"""
from props.gencommon import run_gen_prop, replay_gen

PROFILES = ("dev", "release") if "C04" == "C16" else ("dev",)


def run(chk):
    run_gen_prop(chk, "C04", profiles=PROFILES)


def replay(chk, rep):
    return replay_gen(chk, "C04", rep)
