"""C11 — decided on generated programs; see props/gencommon.py and coq/Properties/C11.v"""
from props.gencommon import run_gen_prop, replay_gen

PROFILES = ("dev", "release") if "C11" == "C16" else ("dev",)


def run(chk):
    run_gen_prop(chk, "C11", profiles=PROFILES)


def replay(chk, rep):
    return replay_gen(chk, "C11", rep)
