"""Shared flow of the properties decided on generated programs (C01-C04, C06, C09, C11, C12, C16):
Stage A (pinned theorems), Stage B (the shared generated-program run; only the disagreements that
lie in this property's channel count), Stage C (the property text evaluated on the
implementation's outputs, first on the disagreeing cases, then on everything that was run)."""
import json, collections
from common import *
from gen import driver as D, spec as SP, schema as S, program as P

PANIC = [-999]


def is_panic(o):
    return o == PANIC or (isinstance(o, list) and PANIC in o[:1])


# ------------------------------------------------------------------ helpers on observations
def res_kind(r):
    """('ok', d) | ('err', kind, depth, msg) | ('panic',) from a res obs / tres obs"""
    if r == PANIC:
        return ("panic",)
    if r[0] == 0:
        return ("ok", r[1])
    return ("err", r[1], r[2], r[3])


KIND = {0: "Absent", 1: "TooShort", 2: "NotFound", 3: "TooLong", 4: "Access", 5: "Invalid", 6: "Inner", 7: "Finalization"}


def op_text(op):
    return {k: v for k, v in op.items() if not k.startswith("_")}


# ------------------------------------------------------------------ the property predicates
def pred_c16(prog, case, outs, tables):
    bad = []
    for j, (op, o) in enumerate(zip(case["ops"], outs)):
        if o == PANIC or (op["op"] == "iter" and isinstance(o, list) and len(o) > 1 and isinstance(o[1], list) and PANIC in o[1]):
            cls = "none"
            if op["op"] == "iter" and op.get("_known") and _collapsed_count(prog, op) < len(SP.enum(prog.t, op["d"])):
                cls = op["_known"]
            bad.append((j, "operation panicked", cls))
    return bad


def pred_c04(prog, case, outs, tables):
    bad = []
    for j, (op, o) in enumerate(zip(case["ops"], outs)):
        if o == PANIC:
            continue
        if op.get("_steps") is None and op["op"] == "transcode":
            # malformed / mutated key: whatever it resolves to, the target must hold that node's key
            want, steps = ref_res(prog, op)
            if want[0] == "err" and want[1] in (2, 3):
                fd = SP.fail_depth(steps, op["tg"])
                want2 = ("err", 1, fd, 0) if fd else want
                if res_kind(o[0]) != want2:
                    bad.append((j, "key does not denote a node (%s at depth %d); transcode reports %r" % (KIND[want[1]], want[2], o[0])))
            if want[0] == "ok" or (want[0] == "err" and want[1] == 1):
                leaf = want[0] == "ok"
                rend = SP.render(steps, op["tg"])
                r = res_kind(o[0])
                if rend is not None and (r[0] != "ok" or o[0][1] != [len(steps), int(leaf)] or o[1] != rend):
                    bad.append((j, "key resolves to node %r (leaf=%s); transcode gave %r / %r, expected %r" % ([s_[0] for s_ in steps], leaf, o[0], o[1], rend)))
            continue
        st = op.get("_steps")
        if st is None:
            continue
        st = [tuple(x) for x in st]
        if op["op"] == "transcode":
            tg = op["tg"]
            want = SP.render(st, tg)
            r = res_kind(o[0])
            if want is None:
                fd = SP.fail_depth(st, tg)
                if r != ("err", 1, fd, 0):
                    bad.append((j, "capacity error expected at key %s, got %r" % (fd, o[0])))
                continue
            if r[0] != "ok" or o[0][1] != [len(st), int(op["_leaf"])]:
                bad.append((j, "key denoting node %r (depth %d, leaf=%s) resolved to %r" % ([s[0] for s in st], len(st), op["_leaf"], o[0])))
            elif o[1] != want:
                bad.append((j, "transcoded key %r differs from the node's key %r" % (o[1], want)))
        elif op["op"] == "rawtrav":
            fa = op.get("fail_at")
            calls = [[s[0], ([[ord(c) for c in s[1]]] if s[1] is not None else []), s[2]] for s in st]
            if fa is not None and fa < len(st):
                if o[1] != calls[:fa] or res_kind(o[0]) != ("err", 6, fa + 1, 0):
                    bad.append((j, "callback failing at call %d: result %r, calls %r" % (fa, o[0], o[1])))
            else:
                if o[1] != calls:
                    bad.append((j, "callback trace %r, node steps %r" % (o[1], calls)))
                exp = ("ok", len(st)) if op["_leaf"] else ("err", 1, len(st), 0)
                if res_kind(o[0]) != exp:
                    bad.append((j, "traversal result %r, expected %r" % (o[0], exp)))
    return bad


def _Rrel(r, rt):
    """Python copy of the relation R of C02 (Tree_proofs.v)"""
    if r[0] == "panic" or rt[0] == "panic":
        return True
    if r[0] == "ok":
        return rt[0] == "ok"
    k, d = r[1], r[2]
    if k in (1, 2, 3):
        return rt == ("err", k, d, 0)
    # the payload is only touched (Inner, kind 6) and validators / conversions only run (Invalid, kind 5) for keys that the
    # traversal classifies as a leaf
    if k == 6:
        return rt == ("ok", d)
    if k == 5:
        return rt[0] == "ok" and d <= rt[1]
    # Absent / Access at depth d: d keys were consumed before; the key that is not found at depth dn was the dn-th one,
    # so only dn - 1 keys can have been consumed
    if rt[0] != "ok" and rt[1] == 2:
        return d < rt[2]
    rtd = rt[1] if rt[0] == "ok" else rt[2]
    return d <= rtd


REFK = {"ok": None, "tooshort": 1, "notfound": 2, "toolong": 3}


def ref_res(prog, op):
    kind, d, steps = SP.ref_traverse(prog.t, op["keys"])
    return ("ok", d) if kind == "ok" else ("err", REFK[kind], d, 0), steps


def _absent_check(prog, case, outs, bad):
    """an Option::None / inactive variant on the path makes every value operation fail with Absent at that depth and
    leaves the tree unchanged (no callbacks, deny or other gates on the path)"""
    val = prog.states[case["state"]]
    for j, (op, o) in enumerate(zip(case["ops"], outs)):
        if op["op"] not in ("ser", "de", "ref", "mut") or op.get("_steps") is None or o == PANIC or op.get("oracle"):
            continue
        st = [tuple(x) for x in op["_steps"]]
        try:
            ra = SP.ref_absent(prog.t, val, st)
        except Exception:
            ra = None
        if ra is None or ra[0] != "absent":
            continue
        r = res_kind(o[0]) if op["op"] in ("ser", "de") else (("ok", 0) if (o[0][0] == 0) else ("err", o[0][1], o[0][2], o[0][3]))
        if r[0] == "ok" or not (r[1] == 0 and r[2] == ra[1]):
            bad.append((j, "node %r is absent at run time (noticed after %d keys): %s must report Absent(%d), got %r" % ([s_[0] for s_ in st], ra[1], op["op"], ra[1], o[0])))
        elif o[-1] != [1]:
            bad.append((j, "%s failed with Absent but changed the tree" % op["op"]))


def pred_c02(prog, case, outs, tables):
    bad = []
    _absent_check(prog, case, outs, bad)
    # the type-level traversal against the documented walk, for every key (valid or malformed)
    for j, (op, o) in enumerate(zip(case["ops"], outs)):
        if o == PANIC:
            continue
        if op["op"] == "rawtrav" and op.get("fail_at") is None:
            want, _ = ref_res(prog, op)
            if res_kind(o[0]) != want:
                bad.append((j, "traversal reports %r, the documented walk gives %r" % (o[0], want)))
        if op["op"] in ("ser", "ref", "de", "mut"):
            want, _ = ref_res(prog, op)
            r = res_kind(o[0]) if not (op["op"] == "mut" and o[0][0] == 0) else ("ok", None)
            if not (r[0] == "err" and r[1] == 7) and not _Rrel(r, want):
                bad.append((j, "%s reports %r, the documented walk of this key gives %r" % (op["op"], o[0], want)))
    groups = collections.defaultdict(dict)
    for j, (op, o) in enumerate(zip(case["ops"], outs)):
        if "_grp" in op and o != PANIC:
            groups[op["_grp"]][op["op"]] = (j, o)
    for g, m in groups.items():
        if "transcode" not in m:
            continue
        jt, ot = m["transcode"]
        rt = res_kind(ot[0])
        if rt[0] == "ok":
            rt = ("ok", ot[0][1][0]) if ot[0][1][1] else ("err", 1, ot[0][1][0], 0)
        for name in ("ser", "ref", "de", "mut"):
            if name not in m:
                continue
            j, o = m[name]
            r = res_kind(o[0]) if not (name == "mut" and o[0][0] == 0) else ("ok", None)
            if r[0] == "err" and r[1] == 7:
                continue
            if not _Rrel(r, rt):
                bad.append((j, "%s reports %r but the type-level traversal of the same key reports %r" % (name, o[0], ot[0])))
    # valid keys: outcome class of the walk
    for j, (op, o) in enumerate(zip(case["ops"], outs)):
        st = op.get("_steps")
        if st is None or o == PANIC or op["op"] not in ("ser", "ref", "de", "mut"):
            continue
        r = res_kind(o[0]) if not (op["op"] == "mut" and o[0][0] == 0) else ("ok", None)
        if r[0] == "err" and r[1] in (2, 3):
            bad.append((j, "valid key for node %r classified %s" % ([s[0] for s in st], KIND[r[1]])))
        if r[0] == "err" and r[1] == 1 and (op["_leaf"] or r[2] != len(st)):
            bad.append((j, "valid key for node %r classified TooShort(%d)" % ([s[0] for s in st], r[2])))
        if r[0] == "err" and r[2] > len(st):
            bad.append((j, "error depth %d beyond the %d keys given" % (r[2], len(st))))
    return bad


def pred_c01(prog, case, outs, tables):
    """history: snapshots change only through accepted writes, by exactly one leaf; read-back returns the written value"""
    bad = []
    snap = None
    last_write = None
    for j, (op, o) in enumerate(zip(case["ops"], outs)):
        if o == PANIC:
            continue
        if op["op"] == "snap":
            snap = o
            continue
        if op["op"] not in ("ser", "de", "ref", "mut") or snap is None:
            continue
        delta = o[-1]
        new = snap if delta == [1] else delta[1]
        a, b = SP.snap_leaves(snap), SP.snap_leaves(new)
        changed = [p for p in set(a) | set(b) if a.get(p) != b.get(p)]
        if op["op"] in ("ser", "ref"):
            if changed:
                bad.append((j, "a read changed the tree at %r" % (changed,)))
        else:
            if op["op"] == "de":
                r = res_kind(o[0])
                accepted = r[0] == "ok" or (r[0] == "err" and r[1] == 5)
            else:
                accepted = o[0][0] == 0 and o[0][1] == 1
            if len(changed) > 1:
                bad.append((j, "a write changed %d leaves: %r" % (len(changed), changed)))
            if changed and not accepted:
                bad.append((j, "a failed access (%r) changed the tree at %r" % (o[0], changed)))
            if changed and op.get("_steps") is None:
                # a key that was not written for a particular node: the documented resolution decides which leaf it designates
                try:
                    want, _st = ref_res(prog, op)
                except Exception:
                    want = None
                if want is not None and want[0] != "ok":
                    bad.append((j, "the key does not designate a leaf (%s at depth %d by the documented walk), yet the write changed %r" % (KIND.get(want[1], "?"), want[2], changed)))
            if changed and op.get("_steps") is not None:
                # the key was written for a node: if that node is absent at run time (Option::None / another enum, Result
                # or Bound variant on the path) the key designates nothing that exists, and nothing may change
                try:
                    ra = SP.ref_absent(prog.t, prog.states[case["state"]], [tuple(x) for x in op["_steps"]])
                except Exception:
                    ra = None
                if ra is not None and ra[0] == "absent":
                    bad.append((j, "node %r is absent at run time (noticed after %d keys), yet the write changed %r" % ([s_[0] for s_ in op["_steps"]], ra[1], changed)))
            if accepted and op.get("_steps") is not None and op.get("_tid") and j in tables:
                ent = [e for e in tables[j] if e[0] == op["_tid"]]
                if ent and ent[0][1] == 1:
                    last_write = (json.dumps(op["_steps"]), op["_tid"], ent[0][2])
                    if changed:
                        v = b[changed[0]]
                        if v[0] != 0 or v[2] != ent[0][2]:
                            bad.append((j, "leaf holds %r after writing %r" % (v, ent[0][2])))
        # read back through an equivalent key
        if op.get("_readback") and last_write and last_write[0] == json.dumps(op["_steps"]):
            r = res_kind(o[0]) if op["op"] == "ser" else (("ok", 0) if o[0][0] == 0 and len(o[0]) == 2 and isinstance(o[0][1], list) else ("err",))
            if r[0] == "ok":
                try:
                    if op["op"] == "ser":
                        got = json.loads(bytes(o[1]).decode())
                        if got != SP.val_json(last_write[2]):
                            bad.append((j, "read back %r after writing %r" % (got, SP.val_json(last_write[2]))))
                    elif o[0][1][1] != last_write[2]:
                        bad.append((j, "read back %r after writing %r" % (o[0][1][1], last_write[2])))
                except Exception:
                    pass
        if op["op"] in ("de", "mut"):
            if not (op.get("_steps") is not None and last_write and last_write[0] == json.dumps(op["_steps"])):
                if changed:
                    last_write = None
        snap = new
    return bad


def _iter_expect(prog, op):
    """expected item list of an iteration op, or None when the property text does not pin it down"""
    D = op["d"]
    tg = op["tg"]
    root = op.get("_root")
    if op.get("root") is not None and root is None:
        return None
    root = [tuple(x) for x in (root or [])]
    if len(root) > D:
        return "rooterr"
    sub = SP.subtree(prog.t, root)
    items = []
    nodes = SP.enum(sub, D - len(root))
    if len(nodes) > 5000:
        return None       # the reference enumeration is cut off at 5000 nodes (arrays with thousands of elements): not judged
    for st, leaf in nodes:
        full = root + st
        r = SP.render(full, tg, D)
        if r is None:
            fd = SP.fail_depth(full, tg, D)
            it = [1, fd]
            if items and items[-1] == it and False:
                continue
            items.append(it)
        else:
            items.append([0, r, len(full), int(leaf)])
    return items


def _iter_expect_collapsed(prog, op):
    """expected items of an iteration (rooted or not) when all nodes below one failing key prefix are reported once"""
    D, tg = op["d"], op["tg"]
    root = [tuple(x) for x in (op.get("_root") or [])]
    items, last = [], None
    for st0, leaf in SP.enum(SP.subtree(prog.t, root), D - len(root)):
        st = root + st0
        r = SP.render(st, tg, D)
        if r is not None:
            items.append([0, r, len(st), int(leaf)]); last = None
        else:
            fd = SP.fail_depth(st, tg, D)
            key = tuple(x[0] for x in st[:fd])
            if key != last:
                items.append([1, fd]); last = key
    return items


def _collapsed_count(prog, op):
    """number of items when all nodes below one failing key prefix are reported by a single error item"""
    D, tg = op["d"], op["tg"]
    n, last = 0, None
    for st, leaf in SP.enum(prog.t, D):
        fd = SP.fail_depth(st, tg, D) if SP.render(st, tg, D) is None else None
        if fd is None:
            n += 1; last = None
        else:
            key = tuple(x[0] for x in st[:fd])
            if key != last:
                n += 1; last = key
    return n


def _dedup_err(items, tg, prog, op):
    """nodes sharing a failing prefix are reported by one error item"""
    return items


def pred_iter(prog, case, outs, tables, rooted):
    bad = []
    for j, (op, o) in enumerate(zip(case["ops"], outs)):
        if op["op"] == "iter" and op.get("_known") and rooted:
            # ExactSize::len() must be the number of items still to come, before and after every step
            full = len(SP.enum(prog.t, op["d"]))
            coll = _collapsed_count(prog, op)
            cls = op["_known"] if coll < full else "none"
            if o == PANIC:
                bad.append((j, "exact-size iteration into a %d byte path panicked (%d nodes, %d items when failing prefixes collapse)" % (op["tg"]["cap"], full, coll), cls))
            elif isinstance(o, list) and len(o) > 2 and o[0] == 0 and [2] in o[1]:
                items = [it for it in o[1] if it != [2]]
                want = [len(items) - i for i in range(len(items) + 1)] + [0, 0]
                if o[2] != want:
                    bad.append((j, "ExactSize len() sequence %r, items actually yielded %d (remaining lengths %r)" % (o[2][:8], len(items), want[:8]), cls))
            continue
        if op["op"] == "iter" and o == PANIC and not op.get("_known"):
            r0 = bool((op.get("root") is not None and op.get("_root") != []) or "cap" in op["tg"] or op["d"] < prog.maxd or op.get("exact"))
            if r0 == rooted:
                bad.append((j, "iteration panicked instead of terminating"))
            continue
        if op["op"] != "iter" or o == PANIC or op.get("_known"):
            continue
        # (re-)rooting at the tree root with an empty key is an iteration over the whole tree: judged with the unrooted ones
        is_rooted = bool((op.get("root") is not None and op.get("_root") != []) or "cap" in op["tg"] or op["d"] < prog.maxd or op.get("exact"))
        if is_rooted != rooted:
            continue
        if op.get("root") is not None:
            rs = op.get("_root")
            if rs is not None and len(rs) > op["d"]:
                if o[0] != 1:
                    bad.append((j, "root deeper than the depth limit accepted"))
                continue
        if o[0] != 0:
            if op.get("_root") is not None:
                bad.append((j, "rooting at an existing node failed: %r" % (o,)))
            continue
        items = o[1]
        exp = _iter_expect(prog, op)
        if exp is None or exp == "rooterr":
            continue
        if len(items) > op.get("max", 600):
            if len(exp) + 3 <= op.get("max", 600):
                bad.append((j, "iteration does not terminate: %d items yielded, the type has %d nodes to yield" % (len(items), len(exp))))
            continue
        got = [it for it in items if it != [2]]
        if op.get("resolve"):
            for it in got:
                if it[0] == 0 and len(it) > 4 and it[4] != [] and it[4] != [0, [it[2], it[3]]]:
                    bad.append((j, "yielded key %r (depth %d, leaf=%d) resolves to %r" % (it[1], it[2], it[3], it[4])))
                    break
            got = [it[:4] if it[0] == 0 else it for it in got]
        if PANIC in items:
            bad.append((j, "iteration panicked")); continue
        # fused: everything after the first None is None
        if [2] in items and any(it != [2] for it in items[items.index([2]):]):
            bad.append((j, "items after the end of the iteration (not fused)"))
        if "cap" in op["tg"]:
            # capacity errors: every encodable node is yielded in order, the others are reported as errors
            ok_got = [it for it in got if it[0] == 0]
            ok_exp = [it for it in exp if it[0] == 0]
            if ok_got != ok_exp:
                bad.append((j, "with limited capacity the encodable nodes are %d, yielded %d (or in another order)" % (len(ok_exp), len(ok_got))))
            if len(got) > len(exp):
                bad.append((j, "more items (%d) than nodes (%d)" % (len(got), len(exp))))
            # one error item, carrying the failing depth, per key prefix that cannot be written
            if (op.get("root") is None or op.get("_root") is not None) and not op.get("root0") and len(op.get("_root") or []) <= op["d"]:
                expc = _iter_expect_collapsed(prog, op)
                if got != expc and not bad:
                    k = next((i for i, (a, b) in enumerate(zip(got, expc)) if a != b), min(len(got), len(expc)))
                    bad.append((j, "with limited capacity: %d items, expected %d (one Err(depth) per key prefix that does not fit); first difference at item %d: %r vs %r"
                                % (len(got), len(expc), k, got[k] if k < len(got) else None, expc[k] if k < len(expc) else None)))
        elif got != exp:
            k = next((i for i, (a, b) in enumerate(zip(got, exp)) if a != b), min(len(got), len(exp)))
            bad.append((j, "iteration yields %d items, the type has %d nodes to yield; first difference at item %d: %r vs %r"
                        % (len(got), len(exp), k, got[k] if k < len(got) else None, exp[k] if k < len(exp) else None)))
        if op.get("exact") and o[2]:
            n = len(exp)
            want = [n - i for i in range(n + 1)] + [0, 0]
            if o[2] != want:
                bad.append((j, "ExactSize len() sequence %r, expected %r" % (o[2][:8], want[:8])))
    return bad


def pred_c03(prog, case, outs, tables):
    return pred_iter(prog, case, outs, tables, False)


def pred_c11(prog, case, outs, tables):
    return pred_iter(prog, case, outs, tables, True)


def pred_c06(prog, case, outs, tables):
    bad = []
    m = SP.metadata(prog.t)
    for j, (op, o) in enumerate(zip(case["ops"], outs)):
        if o == PANIC:
            continue
        if op["op"] == "meta":
            want = [m["count"], m["depth"], m["length"], m["bits"]]
            if o[0] != want:
                bad.append((j, "Metadata (count, max_depth, max_length, max_bits) = %r, exact values are %r" % (o[0], want)))
            if o[1] != SP.skeleton(prog.t):
                bad.append((j, "a user Walk sees a structure different from the declared children"))
    # sufficient for sizing key buffers: a buffer sized from what the implementation's own Metadata reports holds the
    # key of every node (Packed: max_bits <= 63; Path: max_length + max_depth * separator bytes; Indices: max_depth)
    rep = None
    for op, o in zip(case["ops"], outs):
        if op["op"] == "meta" and o != PANIC:
            rep = o[0]
    if rep is not None:
        for j, (op, o) in enumerate(zip(case["ops"], outs)):
            if o == PANIC or op["op"] != "transcode" or op.get("_steps") is None or "fail_at" in op:
                continue
            tg = op["tg"]
            fits = None
            if tg["t"] == "packed":
                fits = rep[3] <= 63
            elif tg["t"] == "path" and "cap" in tg:
                fits = tg["cap"] >= rep[2] + rep[1] * len(chr(tg["sep"]).encode())
            elif tg["t"] == "idx" and "cap" in tg:
                fits = tg["cap"] >= rep[1]
            if fits and res_kind(o[0])[0] != "ok":
                bad.append((j, "Metadata reports (count, max_depth, max_length, max_bits) = %r, so a %s target%s holds every key; transcoding node %s into it failed: %r"
                            % (rep, tg["t"], (" of capacity %d" % tg["cap"]) if "cap" in tg else "", [s[0] for s in op["_steps"]], o[0])))
    return bad


def pred_c09(prog, case, outs, tables):
    bad = []
    m = dict(SP.metadata(prog.t))
    for op, o in zip(case["ops"], outs):
        if op["op"] == "meta" and o != PANIC:
            m["bits"] = o[0][3]          # what the implementation's Metadata reports
    words = {}
    for j, (op, o) in enumerate(zip(case["ops"], outs)):
        if o == PANIC:
            continue
        if op["op"] == "transcode" and op["tg"]["t"] == "packed" and op.get("_steps") is not None:
            # the packed key of a node is the concatenation of its (width, index) fields, if they fit a word
            want = SP.render([tuple(x) for x in op["_steps"]], op["tg"])
            if want is not None and (res_kind(o[0])[0] != "ok" or o[1] != want):
                bad.append((j, "node %s has the packed key %d (fields fit the word); transcode gave %r / %r" % ([s[0] for s in op["_steps"]], want, o[0], o[1])))
        if op["op"] == "transcode" and op["tg"]["t"] == "packed" and op.get("_steps") is not None and res_kind(o[0])[0] == "ok":
            w = o[1]
            key = json.dumps([s[0] for s in op["_steps"]])
            if w in words and words[w] != key:
                bad.append((j, "nodes %s and %s share the packed key %d" % (words[w], key, w)))
            words[w] = key
            ln = 63 - ((w & -w).bit_length() - 1)
            if ln > m["bits"]:
                bad.append((j, "packed key of node %s uses %d bits, max_bits is %d" % (key, ln, m["bits"])))
        if op["op"] == "iter" and op["tg"]["t"] == "packed" and op.get("root") is None and op["d"] >= prog.maxd and o[0] == 0:
            ws = [it[1] for it in o[1] if it[0] == 0]
            if m["bits"] <= 63 and ws != sorted(ws):
                bad.append((j, "packed keys of the leaves are not increasing in iteration order"))
            if len(set(ws)) != len(ws):
                bad.append((j, "two leaves share a packed key"))
    return bad


def pred_c12(prog, case, outs, tables):
    bad = []
    for j, (op, o) in enumerate(zip(case["ops"], outs)):
        st = op.get("_steps")
        if st is None or o == PANIC or op["op"] not in ("ser", "ref", "de", "mut"):
            continue
        log = o[-2]
        orc = op.get("oracle", {})
        writes = op["op"] in ("de", "mut")
        attrs = SP.path_attrs(prog.t, [tuple(x) for x in st])
        # expected log along the path
        exp, stop = [], None
        oname = {"ser": "OSer", "de": "ODe", "ref": "ORef", "mut": "OMut"}[op["op"]]
        for f, d in attrs:
            if oname in f.get("deny", {}):
                stop = ("Access", d, f["deny"][oname]); break
            cid = f.get("getmut") if writes else f.get("get")
            if cid:
                exp.append([1 if writes else 0, cid, 0])
                if "fail" in orc.get(str(cid), {}):
                    stop = ("Access", d, orc[str(cid)]["fail"]); break
        getters = [e for e in log if e[0] != 2]
        r = res_kind(o[0]) if not (op["op"] == "mut" and o[0][0] == 0) else ("ok", None)
        reached = r[0] == "ok" or (r[0] == "err" and r[1] in (3, 5, 6, 7)) or (stop is not None and r == ("err", 4, stop[1], stop[2]))
        if getters != exp[:len(getters)] or (reached and getters != exp):
            bad.append((j, "getter calls %r, expected top-down %r" % (getters, exp)))
        if stop and not reached and r[0] == "err" and r[2] <= stop[1]:
            continue      # an absent variant / failed wrapper above pre-empted the accessor
        if stop:
            if r != ("err", 4, stop[1], stop[2]):
                bad.append((j, "denied/failed accessor at depth %d (message m%d) reported as %r" % (stop[1], stop[2], o[0])))
            if [e for e in log if e[0] == 2]:
                bad.append((j, "validator ran although an accessor failed"))
            continue
        # deny short-circuits per operation: a deny declared for another operation must not stop this one
        if r[0] == "err" and r[1] == 4 and r[3] != 0:
            for f, d in attrs:
                if d == r[2] and r[3] in [m for on, m in f.get("deny", {}).items() if on != oname] and oname not in f.get("deny", {}) \
                        and not ((f.get("getmut") if writes else f.get("get")) and r[3] == orc.get(str(f.get("getmut") if writes else f.get("get")), {}).get("fail")):
                    bad.append((j, "%s stopped at depth %d by the deny message m%d declared for another operation (%r)" % (op["op"], d, r[3], f.get("deny"))))
        vals = [e for e in log if e[0] == 2]
        if op["op"] != "de" and vals:
            bad.append((j, "validator ran on a %s" % op["op"]))
        if op["op"] == "de":
            ids = [e[1] for e in vals]
            if len(set(ids)) != len(ids):
                bad.append((j, "a validator ran twice"))
            expv = [f["val"] for f, d in reversed(attrs) if f.get("val")]
            if r[0] == "ok" and ids != expv:
                bad.append((j, "validators %r ran, expected bottom-up %r" % (ids, expv)))
            if ids and ids != expv[:len(ids)]:
                bad.append((j, "validators %r ran, expected a prefix of the bottom-up chain %r" % (ids, expv)))
            # a failing validator is the last one and decides the result
            for n_, e in enumerate(vals):
                ans = orc.get(str(e[1]), {})
                if "fail" in ans:
                    dep = [d for f, d in attrs if f.get("val") == e[1]][0]
                    if n_ != len(vals) - 1:
                        bad.append((j, "validators ran above a failing validator"))
                    if r != ("err", 5, dep, ans["fail"]):
                        bad.append((j, "failing validator at depth %d reported as %r" % (dep, o[0])))
            # each validator receives what came from below (possibly replaced)
            cur = None
            for e in vals:
                dep = [d for f, d in attrs if f.get("val") == e[1]][0]
                below = (len(st) - dep) if cur is None else cur + (cur_dep - dep)
                if e[2] != below:
                    bad.append((j, "validator %d received depth %d, expected %d" % (e[1], e[2], below)))
                ans = orc.get(str(e[1]), {})
                cur = ans["replace"] if "replace" in ans else e[2]
                cur_dep = dep
            # the depth returned to the caller is what the outermost validator returned, counted up to the root
            if r[0] == "ok":
                want = len(st) if cur is None else cur + cur_dep
                if r[1] != want:
                    bad.append((j, "deserialize returned depth %d, the validators along the path make it %d" % (r[1], want)))
    return bad


def pred_c05(prog, case, outs, tables):
    """reading a leaf by key and writing the produced bytes back by the same key is the identity on the tree"""
    bad = []
    for j, (op, o) in enumerate(zip(case["ops"], outs)):
        if op["op"] != "rt" or o == PANIC or not isinstance(o, list) or not o:
            continue
        if o[0] == 1:
            r2, fin, delta = o[1], o[2], o[5]
            if delta != [1]:
                bad.append((j, "%s get then set by the same key changed the tree (set returned %r)" % ("postcard" if op.get("pc") else "json", r2)))
            elif r2 == [0] and not fin:
                bad.append((j, "%s set did not consume exactly the bytes get produced" % ("postcard" if op.get("pc") else "json")))
            elif r2 and r2[0] == 1 and len(r2) > 1 and r2[1] in (1, 2, 3):
                # the key resolved to a leaf for the read; the same key cannot be too short / not found / too long for the write
                bad.append((j, "%s get by this key succeeded, set of the produced bytes by the same key fails with %s: the bytes cannot be written back"
                            % ("postcard" if op.get("pc") else "json", KIND.get(r2[1], "?"))))
    # writing a value and reading it back by the same key returns that value
    ops = case["ops"]
    for j in range(len(ops) - 1):
        w, r = ops[j], ops[j + 1]
        if w["op"] != "de" or not r.get("_readback") or r["op"] != "ser" or w.get("_steps") != r.get("_steps"):
            continue
        ow, orr = outs[j], outs[j + 1]
        if ow == PANIC or orr == PANIC or res_kind(ow[0])[0] != "ok" or not ow[1] or res_kind(orr[0])[0] != "ok":
            continue
        try:
            want = json.loads(bytes(w["payload"]).decode())
            got = json.loads(bytes(orr[1]).decode())
        except Exception:
            continue
        if got != want:
            bad.append((j + 1, "wrote %r, read back %r by the same key" % (want, got)))
    return bad


PREDS = {"C05": pred_c05, "C01": pred_c01, "C02": pred_c02, "C03": pred_c03, "C04": pred_c04, "C06": pred_c06, "C09": pred_c09,
         "C11": pred_c11, "C12": pred_c12, "C16": pred_c16}


# ------------------------------------------------------------------ channels: which disagreements belong to which property
def in_channel(prop, prog, op, impl, model):
    o = op["op"]
    if prop == "C16":
        return impl == PANIC or model == PANIC or PANIC in (impl[1] if o == "iter" and isinstance(impl, list) and len(impl) > 1 and isinstance(impl[1], list) else [])
    if impl == PANIC or model == PANIC:
        return prop == "C16"
    def differs(i):
        try:
            return impl[i] != model[i]
        except Exception:
            return True
    if prop == "C01":
        return o in ("ser", "de", "ref", "mut") and (differs(-1) or (o == "ser" and differs(1)) or (o == "ref" and differs(0) and impl[0][0] == 0 and model[0][0] == 0))
    if prop == "C02":
        if o == "transcode":
            return differs(0)
        return o in ("ser", "de", "ref", "mut", "rawtrav") and differs(0)
    if prop == "C04":
        return o in ("transcode", "rawtrav")
    if prop == "C05":
        return o == "rt" or (o == "ser" and bool(op.get("_readback")) and differs(1))
    if prop == "C12":
        return o in ("ser", "de", "ref", "mut") and (differs(-2) or (differs(0) and bool(op.get("oracle"))) or (differs(0) and SP_has_attrs(prog)))
    if prop == "C06":
        return o == "meta"
    if prop == "C09":
        return (o == "transcode" and op["tg"]["t"] == "packed") or (o == "iter" and op["tg"]["t"] == "packed") or (o == "meta" and impl[0][3] != model[0][3])
    if o != "iter":
        return False
    rooted = op.get("root") is not None or "cap" in op["tg"] or op["d"] < prog.maxd or bool(op.get("exact"))
    return rooted if prop == "C11" else (not rooted if prop == "C03" else False)


def SP_has_attrs(prog):
    return S.has_kind(prog.t, ("struct", "enum"))


def run_gen_prop(chk, prop, profiles=("dev",), trusted=(), assume=(), rule=""):
    chk.cov["trusted_base"] = TRUSTED_COMMON + [
        "generated programs: python schema generator, Rust emitter (derive input, scripted callbacks, plain-field snapshot), Coq term emitter (lib/gen)",
        "the codec of leaf values (serde-json-core on the value's own serde impl) enters the tree model as a table obtained from the dependency crate itself",
        "modelled, not verified: the Rust semantics of impls.rs / leaf.rs / key.rs / iter.rs / walk.rs / node.rs and of the derive expansion (coq/Tree.v)"] + list(trusted)
    chk.assumptions = list(assume)
    a = stage_a(prop, None)
    chk.add_stage_a(a)
    pred = PREDS[prop]
    tie_broken = None
    total_ops = ch_ops = 0
    mism_in, found = [], []
    distinct = set()
    samples = []
    nprog = 0
    for prof in profiles:
        r = D.run_all(chk.seed, chk.tier, prof)
        if r["build_err"]:
            tie_broken = dict(kind="harness-build-or-run-failed", profile=prof, detail=r["build_err"][-3000:])
            continue
        if r["err"]:
            tie_broken = dict(kind="model-evaluation-failed", profile=prof, detail=r["err"][-2000:])
        pmap = {p.pid: p for p in r["progs"]}
        nprog = len(r["progs"])
        for i, c in enumerate(r["cases"]):
            outs, tables = r["impl"][i]
            prg = pmap[c["p"]]
            if prg.only and prg.only != prop:
                continue            # dedicated stream of another property (outside this property's precondition)
            total_ops += len(c["ops"])
            for j, op in enumerate(c["ops"]):
                if op["op"] in RELEVANT[prop]:
                    ch_ops += 1
                    distinct.add(json.dumps(op_text(op), sort_keys=True) + str(c["p"]))
            for j, mv in r["mism"].get(i, []):
                if j < len(c["ops"]) and c["ops"][j].get("_known"):
                    continue        # dedicated stream: judged by the predicate and matched against known_findings.txt
                if j < len(c["ops"]) and in_channel(prop, pmap[c["p"]], c["ops"][j], outs[j], mv):
                    mism_in.append((prof, i, j, mv))
            for item in pred(pmap[c["p"]], c, outs, tables):
                j, why = item[0], item[1]
                cls = item[2] if len(item) > 2 else (prg.cls if (prg.only == prop and _by_name(c["ops"][j].get("keys"))) else "none")
                found.append((prof, i, j, why, cls))
        if not samples and r["cases"]:
            c = r["cases"][0]
            for j, op in enumerate(c["ops"]):
                if op["op"] in RELEVANT[prop] and len(samples) < 4:
                    samples.append(dict(program=S.rust_type(pmap[c["p"]].t), op=op_text(op), impl=_short(r["impl"][0][0][j])))
        chk.cov.setdefault("wall_parts", {})[prof] = r["wall"]
    chk.cov["rule"] = rule or ("generated derive programs (random schemas over every built-in impl and derive attribute, 2 runtime states each), "
                               "operation lists per program and state; counted: operations in this property's channel; distinct = distinct (program, operation) pairs; "
                               "non-trivial = every counted operation exercises a by-key access or iteration on a generated type")
    chk.cov["programs"] = nprog
    chk.cov["evaluations"] = ch_ops
    chk.cov["distinct_nontrivial"] = len(distinct)
    chk.cov["all_operations_run"] = total_ops
    chk.cov["traces_validated_against_impl"] = ch_ops - len(mism_in)
    chk.cov["disagreements"] = len(mism_in)
    chk.cov["samples"] = samples + [dict(pinned_theorem=t) for t in a["theorems"][:6]]
    # known findings
    kf = dict(known_findings(prop))
    fresh = []
    for f in found:
        key = finding_key(prop, f)
        if key in kf:
            chk.known(key, kf[key])
        else:
            fresh.append(f)
    if fresh:
        prof, i, j, why = fresh[0][:4]
        r = D.run_all(chk.seed, chk.tier, prof)
        c = r["cases"][i]
        prog = {p.pid: p for p in r["progs"]}[c["p"]]
        defs = []
        S.rust_defs(prog.t, defs, set())
        chk.violation(dict(property=prop, kind="failing-input", profile=prof, rust_type=S.rust_type(prog.t), rust_definitions=defs,
                           runtime_state=S.rust_build(prog.t, prog.states[c["state"]]), operation=op_text(c["ops"][j]),
                           operation_index=j, history=[op_text(o) for o in c["ops"][:j]] if prop == "C01" else "not needed",
                           implementation_returned=r["impl"][i][0][j], property_requires=why,
                           seed=chk.seed, tier=chk.tier, program_id=c["p"], state=c["state"],
                           how_to_replay="./check %s --replay <this file>" % prop, other_failing_operations=len(fresh) - 1), True)
    elif (not a["ok"]) or tie_broken or mism_in:
        first = []
        for prof, i, j, mv in mism_in[:5]:
            r = D.run_all(chk.seed, chk.tier, prof)
            c = r["cases"][i]
            first.append(dict(profile=prof, program=S.rust_type({p.pid: p for p in r["progs"]}[c["p"]].t), operation=op_text(c["ops"][j]),
                              implementation=_short(r["impl"][i][0][j]), model=_short(mv)))
        chk.violation(dict(property=prop, kind="no-failing-input-found", stage_a_failures=a["failures"], tie=tie_broken,
                           correspondence="%s channel of the generated-program correspondence (harness/rs-gen vs coq/Tree.v via Tree_tie.v)" % prop,
                           first_disagreements=first), False)


def _short(o, n=600):
    s = json.dumps(o)
    return o if len(s) <= n else s[:n] + "..."


def _by_name(spec):
    """does the key source address children by name?"""
    if not isinstance(spec, dict):
        return False
    if spec.get("k") == "chain":
        return _by_name(spec.get("a")) or _by_name(spec.get("b"))
    return spec.get("k") in ("names", "path", "json")


def finding_key(prop, f):
    return f[4] if len(f) > 4 else "none"


RELEVANT = {"C05": ("rt", "de", "ser"), "C01": ("ser", "de", "ref", "mut"), "C02": ("transcode", "ser", "de", "ref", "mut", "rawtrav"),
            "C03": ("iter",), "C04": ("transcode", "rawtrav"), "C06": ("meta", "transcode"), "C09": ("transcode", "iter", "meta"),
            "C11": ("iter",), "C12": ("ser", "de", "ref", "mut"), "C16": ("transcode", "ser", "de", "ref", "mut", "rawtrav", "iter", "meta")}


def replay_gen(chk, prop, rep):
    """re-run the recorded (seed, tier, program, state) case on the current tree and re-evaluate the predicate"""
    if rep.get("kind") != "failing-input":
        print("replay file names no failing input; re-running the check")
        run_gen_prop(chk, prop)
        return chk.finish()
    r = D.run_all(rep["seed"], rep["tier"], rep["profile"])
    if r["build_err"]:
        print("harness does not build: " + r["build_err"][-500:]); return 1
    pmap = {p.pid: p for p in r["progs"]}
    bad = 0
    for i, c in enumerate(r["cases"]):
        if c["p"] == rep["program_id"] and c["state"] == rep["state"]:
            kf = dict(known_findings(prop))
            for item in PREDS[prop](pmap[c["p"]], c, r["impl"][i][0], r["impl"][i][1]):
                j, why = item[0], item[1]
                if len(item) > 2 and item[2] in kf:
                    continue       # a recorded finding, not a violation
                if j == rep["operation_index"]:
                    print("replay: operation %s -> %s: %s" % (json.dumps(op_text(c["ops"][j])), json.dumps(_short(r["impl"][i][0][j])), why))
                    bad = 1
    if not bad:
        print("replay: the recorded operation satisfies the property on the current tree")
    else:
        print("VIOLATION property=%s replay=(replayed case)" % prop)
    return bad
