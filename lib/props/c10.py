"""C10 — see coq/Properties/C10.v and lib/props/mqttprops.py"""
from . import mqttprops as MP

PROP = "C10"


def run(chk):
    MP.run_mqtt_prop(chk, PROP)


def replay(chk, rep):
    return MP.replay_mqtt(chk, PROP, rep)
