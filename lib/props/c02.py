"""C02 — decided on generated programs; see props/gencommon.py and coq/Properties/C02.v"""
from props.gencommon import run_gen_prop, replay_gen

PROFILES = ("dev", "release") if "C02" == "C16" else ("dev",)


def run(chk):
    run_gen_prop(chk, "C02", profiles=PROFILES)


def replay(chk, rep):
    return replay_gen(chk, "C02", rep)
