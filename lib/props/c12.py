"""C12 — decided on generated programs; see props/gencommon.py and coq/Properties/C12.v"""
from props.gencommon import run_gen_prop, replay_gen

PROFILES = ("dev", "release") if "C12" == "C16" else ("dev",)


def run(chk):
    run_gen_prop(chk, "C12", profiles=PROFILES)


def replay(chk, rep):
    return replay_gen(chk, "C12", rep)
