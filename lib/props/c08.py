"""C08 — Packed key arithmetic is a lossless stack of bit fields."""
from common import *

W = 1 << 64
EMPTY = 1 << 63


def tz(w):
    return (w & -w).bit_length() - 1


def gen_fields(rng, mode):
    """field lists: (width, value) with value < 2^width"""
    fs = []
    if mode == "fill":        # total exactly 63
        left = 63
        while left > 0:
            b = rng.choice([0, 1, 2, 3, 7, 8, 31, 32, 63, rng.randint(0, 63)])
            b = min(b, left)
            fs.append(b); left -= b
            if rng.random() < 0.15:
                fs.append(0)
    elif mode == "over":      # one bit too many at some point
        left = 63
        while left >= 0:
            b = rng.choice([1, 2, 5, 16, 33, rng.randint(1, 63)])
            if b > left:
                fs.append(b); break
            fs.append(b); left -= b
        fs.append(rng.randint(0, 5))
    elif mode == "wide":      # widths of a whole word or more
        fs = [rng.randint(0, 20), rng.choice([64, 65, 100, 127]), 1]
    else:
        n = rng.randint(0, 12)
        fs = [rng.choice([0, 1, 1, 2, 3, 4, 8, 13, rng.randint(0, 63)]) for _ in range(n)]
    out = []
    for b in fs:
        if b == 0:
            v = 0
        elif b >= 64:
            v = rng.choice([0, 1, W - 1])
        else:
            v = rng.choice([0, (1 << b) - 1, rng.randrange(1 << b)])
        out.append((b, v))
    return out


def rand_word(rng):
    k = rng.random()
    if k < 0.2:
        return 1 << rng.randint(0, 63)
    if k < 0.4:
        e = rng.randint(1, 63)
        return max(1, min(W - 1, (1 << e) + rng.choice([-1, 1])))
    if k < 0.5:
        return rng.choice([1, 2, 3, W - 1, W - 2, EMPTY, EMPTY + 1, EMPTY - 1])
    if k < 0.75:   # structured: x bits then marker then zeros
        t = rng.randint(0, 63)
        x = rng.randrange(1 << (63 - t))
        return ((2 * x + 1) << t)
    return rng.randrange(1, W)


def gen_cases(rng, n):
    cases = []
    for i in range(n):
        k = i % 10
        if k < 4:
            mode = ["fill", "over", "rand", "wide"][k]
            w0 = EMPTY if rng.random() < 0.8 else rand_word(rng)
            cases.append(("pseq", w0, gen_fields(rng, mode)))
        elif k < 6:
            cases.append(("plsb", rand_word(rng)))
        elif k == 6:
            n_ = rng.choice([0, 1, 2, 3, 4, W - 1, W - 2, (1 << rng.randint(0, 63)) + rng.choice([-1, 0, 1]), rng.randrange(W)])
            cases.append(("pbits", max(0, min(W - 1, n_))))
        elif k == 7 or k == 8:
            cases.append(("ppop", rand_word(rng), rng.choice([0, 1, 2, 62, 63, 64, 65, rng.randint(0, 70)])))
        else:
            b = rng.choice([0, 1, 2, 62, 63, 64, rng.randint(0, 66)])
            v = 0 if b == 0 else rng.randrange(1 << min(b, 64))
            cases.append(("ppush", rand_word(rng), b, v))
    # fixed boundary cases
    for e in range(64):
        cases.append(("plsb", 1 << e))
        cases.append(("pbits", 1 << e)); cases.append(("pbits", (1 << e) - 1))
    cases.append(("pseq", EMPTY, [(2, 3), (1, 0), (0, 0), (3, 5)]))
    cases.append(("pseq", EMPTY, [(63, (1 << 63) - 1)]))
    cases.append(("pseq", EMPTY, [(1, 1)] * 63))
    cases.append(("pseq", EMPTY, [(1, 1)] * 64))
    cases.append(("pseq", EMPTY, [(0, 0)] * 5 + [(63, 5), (0, 0)]))
    return cases


def rust_line(c):
    if c[0] == "pseq":
        return "pseq %d %s" % (c[1], " ".join("%d %d" % f for f in c[2]))
    return " ".join(str(x) for x in c)


def model_expr(c):
    if c[0] == "pseq":
        return "pseq %d [%s]" % (c[1], "; ".join("(%d, %d)" % f for f in c[2]))
    return "%s %s" % (c[0], " ".join("%d" % x for x in c[1:]))


def nontrivial(c):
    return not (c[0] == "pseq" and len(c[2]) == 0)


# ---- the property itself, evaluated on what the implementation returned ----
def predicate(c, o):
    """returns None if the property holds on this case, else a description"""
    try:
        if o == [-999]:
            return "panic"
        if c[0] == "pseq":
            w0, fs = c[1], c[2]
            pushes, lsb, pops = o
            w = w0; cap = tz(w0); pushed = []
            for (b, v), (r, st) in zip(fs, pushes):
                fits = b < 64 and b <= cap
                if fits:
                    if r != [cap - b]:
                        return "push of %d bits with %d free returned %r" % (b, cap, r)
                    if st[1] != (63 - cap) + b or st[2] != cap - b:
                        return "len after push of %d bits: %r (expected %d)" % (b, st, 63 - cap + b)
                    cap -= b; w = st[0]; pushed.append((b, v))
                else:
                    if r != []:
                        return "push of %d bits with %d free succeeded: %r" % (b, cap, r)
                    if st[0] != w:
                        return "failed push changed the key"
                    break
            if w0 == EMPTY:
                tot = sum(b for b, _ in pushed)
                cat = 0
                for b, v in pushed:
                    cat = (cat << b) | v
                if lsb != (1 << tot) | cat:
                    return "into_lsb does not preserve the fields: %d" % lsb
                for (b, v), (r, st) in zip(pushed, pops):
                    if r != [v]:
                        return "pop of %d bits returned %r, pushed %d" % (b, r, v)
                if pushed and len(pops) == len(pushed) and (pops[-1][1][0] != EMPTY or pops[-1][1][3] != 1):
                    return "key not EMPTY after popping everything"
            return None
        if c[0] == "plsb":
            v = c[1]
            il, fl, r1, r2, nfl, st = o
            if r1 != v or r2 != v:
                return "LSB round trip is not the identity on %d" % v
            if not (0 < il < W and 0 < fl < W):
                return "LSB conversion left the non-zero words"
            if nfl != [fl]:
                return "new_from_lsb differs from from_lsb"
            # the stored fields are preserved: x below the marker
            t = tz(v); x = v >> (t + 1)
            if il != (1 << (63 - t)) | x:
                return "into_lsb lost stored bits"
            return None
        if c[0] == "pbits":
            n, bits = c[1], o
            if bits < 1 or n >= (1 << bits) or (n > 0 and (1 << (bits - 1)) > n):
                return "bits_for(%d) = %d is not minimal/non-zero" % (n, bits)
            return None
        if c[0] == "ppop":
            w, bits = c[1], c[2]
            r, st = o
            ln = 63 - tz(w)
            if bits > ln or bits >= 64:
                if r != [] or st[0] != w:
                    return "pop of %d bits from %d stored did not fail cleanly" % (bits, ln)
            else:
                x = w >> (tz(w) + 1)
                if r != [x >> (ln - bits)] or st[1] != ln - bits:
                    return "pop of %d bits returned %r" % (bits, r)
            return None
        if c[0] == "ppush":
            w, bits, v = c[1], c[2], c[3]
            r, st = o
            cap = tz(w)
            if bits > cap or bits >= 64:
                if r != [] or st[0] != w:
                    return "push of %d bits into %d free did not fail cleanly" % (bits, cap)
            else:
                if r != [cap - bits] or st[1] != 63 - cap + bits:
                    return "push of %d bits returned %r" % (bits, r)
            return None
    except Exception as e:  # malformed observation
        return "malformed observation %r (%s)" % (o, e)
    return None


PROP = "C08"
CRATE = "rs-core"
IMPORTS = ["Packed", "Packed_tie"]
PROFILES = ["dev", "release"]
CHANNEL = "C08 channel: rs-core (Packed) vs coq/Packed.v via Packed_tie.v"
RULE = ("cases = generated field sequences (fill to 63 bits, overflow by one, zero widths, widths >= 64, random; "
        "80% from EMPTY, 20% from random words), LSB conversions, bits_for, single pop/push on boundary (2^k, 2^k+-1, extremes), "
        "structured ((2x+1)<<t) and uniform words, each run in the dev and release profile; distinct = distinct case tuples; "
        "non-trivial = not an empty field sequence")
TRUSTED = ["modelled, not verified: usize::trailing_zeros/leading_zeros (tz_aux / Z.log2), NonZero, shifts (Z.shiftl/shiftr with explicit mod 2^64)"]
ASSUME = ["64-bit usize", "push_lsb is called with value < 2^bits (its documented precondition / debug_assert)"]


def cases_for(rng, tier):
    return gen_cases(rng, 1500 if tier == "quick" else 60000)


def search_cases(seed):
    return gen_cases(random.Random(seed + 7919), 20000)


def parse_case(text):
    case = text.split()
    if case[0] == "pseq":
        nums = [int(x) for x in case[2:]]
        return ("pseq", int(case[1]), list(zip(nums[0::2], nums[1::2])))
    return tuple([case[0]] + [int(x) for x in case[1:]])


def run(chk):
    import sys
    run_core_prop(chk, sys.modules[__name__])


def replay(chk, rep):
    import sys
    return replay_core_prop(chk, sys.modules[__name__], rep)
