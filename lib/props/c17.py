"""C17 — The Python client resolves each request exactly once from its own responses."""
import itertools, subprocess
from common import *

PROP = "C17"
CODES = {"Error": 1, "Weird": 2, "NoSuch": 3}
PAYLOADS = ["", "/a", "/a/b", "5", "true", "x y", "é", "\"s\""]


def gen_dispatch(rng, nreq, nmsg, exhaustive_order=None):
    modes = [rng.choice([1, 1, 2, 2, 0]) for _ in range(nreq)]
    # well-formed response sequence per request, then interleave, then sprinkle junk
    seqs = []
    for i, m in enumerate(modes):
        if m == 0:
            seqs.append([]); continue
        k = rng.choice([0, 0, 1, 2, 3]) if m == 2 else rng.choice([0, 0, 0, 1])
        s = [dict(cd=i, code="Continue", payload=rng.choice(PAYLOADS[1:])) for _ in range(k)]
        fin = rng.random()
        if fin < 0.55:
            s.append(dict(cd=i, code="Ok", payload=rng.choice(PAYLOADS) if m == 1 else rng.choice(["", "", "/z"])))
        elif fin < 0.8:
            s.append(dict(cd=i, code=rng.choice(list(CODES)), payload=rng.choice(PAYLOADS)))
        # else: no final message (stays pending)
        if rng.random() < 0.3:
            s.append(dict(cd=i, code=rng.choice(["Ok", "Continue", "Error"]), payload="late"))
        seqs.append(s)
    msgs = []
    idx = [0] * nreq
    order = [i for i, s in enumerate(seqs) for _ in s]
    rng.shuffle(order)
    for i in order:
        msgs.append(seqs[i][idx[i]]); idx[i] += 1
    junk = []
    for _ in range(rng.randint(0, 4)):
        j = rng.randint(0, 5)
        base = dict(cd=rng.randrange(max(1, nreq)), code=rng.choice(["Ok", "Continue", "Error"]), payload=rng.choice(PAYLOADS))
        if j == 0:
            base["topic_ok"] = False
        elif j == 1:
            base["cd"] = 1000 + rng.randint(0, 9)
        elif j == 2:
            base["cd"] = None
        elif j == 3:
            base["code"] = None
            base[rng.choice(["empty_user", "extra_user", "plain"])] = True
        elif j == 4:
            base = dict(noprops=True, payload="raw")
        else:
            base["cd"] = 1000
        junk.append(base)
    for jm in junk:
        msgs.insert(rng.randint(0, len(msgs)), jm)
    return modes, msgs[:nmsg]


def cases_for(rng, tier):
    cases = []
    n = 400 if tier == "quick" else 20000
    for i in range(n):
        modes, msgs = gen_dispatch(rng, rng.randint(1, 6), 40)
        cases.append(dict(kind="dispatch", client="sync" if i % 2 == 0 else "async", requests=[dict(mode=m) for m in modes], messages=msgs))
        if i % 2 == 1:
            # the asynchronous publish may return late (QoS 1): responses arriving meanwhile belong to the request all the same
            cases[-1]["publish_yields"] = rng.choice([0, 0, 1, 3, 8])
    # exhaustive interleavings of two short response sequences
    a = [dict(cd=0, code="Continue", payload="/a"), dict(cd=0, code="Ok", payload="")]
    b = [dict(cd=1, code="Continue", payload="/b"), dict(cd=1, code="Error", payload="no")]
    for mask in itertools.combinations(range(4), 2):
        ms, ia, ib = [], 0, 0
        for pos in range(4):
            if pos in mask:
                ms.append(a[ia]); ia += 1
            else:
                ms.append(b[ib]); ib += 1
        for client in ("sync", "async"):
            cases.append(dict(kind="dispatch", client=client, requests=[dict(mode=2), dict(mode=1)], messages=ms))
    atoms = ["", "/", "/a", "/a/b", "c", "d/e", "/x/"]
    lim = 3 if tier == "quick" else 4
    for k in range(1, lim + 1):
        for t in itertools.product(atoms, repeat=k):
            cases.append(dict(kind="normalize", paths=list(t)))
    for _ in range(50 if tier == "quick" else 2000):
        cases.append(dict(kind="normalize", paths=[rng.choice(atoms + ["é/ü", "//", "a/"]) for _ in range(rng.randint(1, 8))]))
    return cases


def coq_msg(m):
    if m.get("noprops"):
        return "{| topic_ok := %s; mcd := None; mcode := None; body := %s |}" % ("true" if m.get("topic_ok", True) else "false", coq_str(m.get("payload", "")))
    cd = m.get("cd")
    code = m.get("code")
    cc = "None" if code is None else ("Some Continue" if code == "Continue" else ("Some Ok" if code == "Ok" else "Some (Other %d%%N)" % CODES.get(code, 9)))
    return "{| topic_ok := %s; mcd := %s; mcode := %s; body := %s |}" % (
        "true" if m.get("topic_ok", True) else "false", "None" if cd is None else "(Some %d%%N)" % cd, cc, coq_str(m.get("payload", "")))


def model_expr(c):
    if c["kind"] == "dispatch":
        return "py_case %s %s [%s]" % ("true" if c["client"] == "sync" else "false", nlist([r["mode"] for r in c["requests"]]),
                                        "; ".join(coq_msg(m) for m in c["messages"]))
    return "py_normalize [%s]" % "; ".join(coq_str(p) for p in c["paths"])


def canon(c, o):
    """implementation output -> obs"""
    if isinstance(o, list) and o and o[0] == "harness-error":
        return [-999]
    if c["kind"] == "normalize":
        return [[([ord(ch) for ch in x] if x is not None else [-1]) for x in o[0]], [ord(ch) for ch in o[1]]]
    outs = []
    for r in o[0]:
        k = r[0]
        s = lambda x: [ord(ch) for ch in x]
        if k == "value":
            outs.append([0, s(r[1])])
        elif k == "values":
            outs.append([1, [s(x) for x in r[1]]])
        elif k == "notaleaf":
            outs.append([2, [s(x) for x in r[1]]])
        elif k == "failed":
            outs.append([3, CODES.get(r[1], 9), s(r[2])])
        elif k == "assert":
            outs.append([4])
        elif k == "pending":
            outs.append([5])
        elif k == "none":
            outs.append([6])
        else:
            outs.append([-998, s(str(r))])
    return [outs, o[1]]


def expected_own(c, i, mode):
    """the property text, per request: from its own messages only"""
    if mode == 0:
        return [6]
    ret = []
    for m in c["messages"]:
        if m.get("noprops") or not m.get("topic_ok", True) or m.get("cd") != i or m.get("code") is None:
            continue
        p = [ord(ch) for ch in m.get("payload", "")]
        if m["code"] == "Continue":
            ret.append(p)
        elif m["code"] == "Ok":
            if p:
                ret.append(p)
            if mode == 1:
                return [0, ret[0]] if len(ret) == 1 else [2, ret]
            return [1, ret] if ret else [4]
        else:
            return [3, CODES.get(m["code"], 9), p]
    return [5]


def predicate(c, o):
    if o == [-999]:
        return "harness error"
    if c["kind"] == "dispatch":
        for i, rq in enumerate(c["requests"]):
            want = expected_own(c, i, rq["mode"])
            if o[0][i] != want:
                return "request %d (response=%d) resolved to %r; its own responses give %r" % (i, rq["mode"], o[0][i], want)
        return None
    cur = []
    for p, got in zip(c["paths"], o[0]):
        pp = [ord(ch) for ch in p]
        if p.startswith("/") or not p:
            want = pp
            cur = [ord(ch) for ch in p[:p.rfind("/")]] if "/" in p else []
        else:
            want = cur + [47] + pp
        if got != want:
            return "path %r normalised to %r, expected %r" % (p, got, want)
        if got and got[0] != 47:
            return "result neither empty nor absolute"
    return None


def impl(cases):
    p = subprocess.run([sys.executable, os.path.join(VERIF, "harness", "py", "run.py")], input="\n".join(json.dumps(c) for c in cases) + "\n",
                       stdout=subprocess.PIPE, stderr=subprocess.PIPE, text=True, timeout=3000, env=dict(ENV, VERIF_REPO=REPO))
    lines = p.stdout.split("\n")[:-1]
    if p.returncode != 0 or len(lines) != len(cases):
        raise BuildError("python harness failed rc=%s (%d/%d lines): %s" % (p.returncode, len(lines), len(cases), p.stderr[-1500:]))
    return [canon(c, json.loads(l)) for c, l in zip(cases, lines)]


def run(chk):
    chk.cov["trusted_base"] = TRUSTED_COMMON[:3] + [
        "stub paho / aiomqtt modules (harness/py/stubs): Properties.json() shape, Message/MQTTMessage attributes, publish recording",
        "the driver harness/py/run.py (threads for the sync client, a real asyncio loop for the async client)",
        "modelled, not verified: CPython, asyncio, threading, uuid; the model is the sequential dispatcher both clients funnel every message through"]
    chk.assumptions = ["correlation data of concurrent requests are pairwise distinct (uuid1)", "messages are dispatched one at a time (paho callback thread / asyncio task)"]
    a = stage_a(PROP, None)
    chk.add_stage_a(a)
    cases = cases_for(chk.rng, chk.tier)
    tie, outs, mism = None, None, []
    try:
        outs = impl(cases)
    except BuildError as e:
        tie = dict(kind="harness-failed", detail=str(e)[-2000:])
    if outs:
        mm, err = coq_eval_cases(PROP, ["Py", "Py_tie"], [(model_expr(c), o) for c, o in zip(cases, outs)], chunk=300)
        if err:
            tie = dict(kind="model-evaluation-failed", detail=err[-1500:])
        mism = mm
        chk.cov["evaluations"] = len(cases)
        chk.cov["traces_validated_against_impl"] = len(cases) - len(mm)
        chk.cov["distinct_nontrivial"] = len({json.dumps(c, sort_keys=True) for c in cases if (c["kind"] == "normalize" or c["messages"])})
        chk.cov["disagreements"] = len(mm)
        kinds = {}
        for c in cases:
            k = c["kind"] + "/" + c.get("client", "")
            kinds[k] = kinds.get(k, 0) + 1
        chk.cov["case_kinds"] = kinds
        chk.cov["samples"] = [dict(case=cases[i], impl=outs[i]) for i in (0, 1, len(cases) - 1)] + [dict(pinned_theorem=t) for t in a["theorems"][:5]]
    chk.cov["rule"] = ("1-6 concurrent get/set/list/dump requests with well-formed response sequences (0-3 Continue, Ok / error / no final, late duplicates) "
                       "interleaved at random plus junk (foreign topic, unknown / missing correlation data, missing code, no properties), both clients; all "
                       "interleavings of two short sequences; all path sequences over 7 atoms up to length 3 (4 thorough) plus random ones; "
                       "distinct = distinct cases; non-trivial = at least one message or a path sequence")
    found = []
    if outs:
        for c, o in zip(cases, outs):
            why = predicate(c, o)
            if why:
                found.append((c, o, why))
    if found:
        c, o, why = min(found, key=lambda f: len(json.dumps(f[0])))
        chk.violation(dict(property=PROP, kind="failing-input", case=c, implementation_returned=o, property_requires=why,
                           how_to_replay="./check C17 --replay <this file>", other_failing_cases=len(found) - 1), True)
    elif (not a["ok"]) or tie or mism:
        chk.violation(dict(property=PROP, kind="no-failing-input-found", stage_a_failures=a["failures"], tie=tie,
                           correspondence="C17 channel: harness/py (real sync/async clients over stub paho/aiomqtt) vs coq/Py.v via Py_tie.v",
                           first_disagreements=[dict(case=cases[i], implementation=outs[i], model=v) for i, v in mism[:4]] if outs else []), False)


def replay(chk, rep):
    if "case" not in rep:
        run(chk)
        return chk.finish()
    o = impl([rep["case"]])[0]
    why = predicate(rep["case"], o)
    print("replay: %s -> %s" % (json.dumps(o), why or "property holds"))
    if why:
        print("VIOLATION property=C17 replay=(replayed case)")
    return 1 if why else 0
