"""Flow of the MQTT properties C07, C10, C13, C14: Stage A (theorems over coq/Mqtt.v with the
translator-generated table), Stage B (step-by-step correspondence of the real client with the model,
shared run in mqttcommon), Stage C (the property text evaluated directly on the implementation's
packet log by `analyze`, which does not use the Coq model: search for a concrete failing history)."""
import json
from common import *
from . import mqttcommon as M

TOO_LARGE = list(b"Serialized value too large")


def code_of(p):
    c = [v for k, v in p["props"]["user"] if k == "code"]
    return c[0] if c else None


def analyze(sched, res):
    """-> list of (property, step, text): what the property texts require and the log does not show"""
    V = []
    prefix = sched["prefix"]
    if res.get("new") == "refused":
        # MqttClient::new refused the configuration (its asserts): fine for a prefix that leaves no room for
        # <prefix>/settings<longest path> in a topic buffer; for any other prefix no dump is ever published
        if sched.get("kind") == "prefix-over":
            return V
        return [("C10", 0, "MqttClient::new refused the prefix of %d bytes although <prefix>/settings<path> fits the topic buffer for every leaf: nothing is ever published" % len(prefix))]
    all_leaves = [p for p, _ in res["leaves"]]
    big_cfg = sched.get("buffer", 4096) < 2048
    walk = dict(kind="dump", leaves=list(all_leaves), pos=0, cd=None, resp=None, initial=True)   # MqttClient::new
    ep = dict(alive=False, sub_t=None, dump_started=False, alive_n=0, sub_n=0, live_since=None)
    seen_connect = False
    connack_k = None
    for k, st in enumerate(res["steps"]):
        sin = sched["steps"][k]
        if st["update"].get("panic"):
            V.append(("C14", k, "update() panicked"))
            if st["before"]["state"] == "Multipart":
                V.append(("C10" if not st["before"]["resp"] else "C07", k, "the pending walk ended in a panic with %d leaves unpublished" % st["before"]["remaining"]))
            break
        b, a, now = st["before"], st["after"], st["now"]
        vals = dict((p, v) for p, v in st["values"])
        pubs = [p for p in st["packets"] if p["t"] == "pub" and not p["dup"]]
        subs = [p for p in st["packets"] if p["t"] == "sub"]
        conns = [p for p in st["packets"] if p["t"] == "connect"]
        h = st.get("handled")
        orc = st.get("oracle") or {}
        # ---------------------------------------------------------------- C14: change flag
        is_set = h is not None and h["topic"].startswith(prefix + "/settings") and bool(h.get("payload"))
        if st["changed"] and not (is_set and orc.get("changed")):
            V.append(("C14", k, "settings modified without an accepted Set request"))
        want_flag = bool(is_set and orc.get("set_ok"))
        if bool(st["update"].get("ok")) != want_flag:
            V.append(("C14", k, "update() returned %r, an accepted write %s in this call" % (st["update"], "happened" if want_flag else "did not happen")))
        if is_set and bool(orc.get("changed")) != bool(st["changed"]):
            V.append(("C14", k, "Set request: tree %s but reference says %s" % ("changed" if st["changed"] else "unchanged", orc)))
            if orc.get("changed") and st["before"]["state"] in ("Alive", "Subscribe", "Wait", "Init"):
                V.append(("C13", k, "a Set delivered during the start-up sequence (state %s) was not applied: it cannot be reflected in the initial dump" % st["before"]["state"]))
        # ---------------------------------------------------------------- epoch bookkeeping
        reset_first = (not b["connected"]) or sin.get("api") == "reset"
        if reset_first:
            ep = dict(alive=False, sub_t=None, dump_started=False, alive_n=0, sub_n=0, live_since=None)
        state0 = "Connect" if reset_first else b["state"]
        if sin.get("api") == "dump" and st.get("api") and st["api"].get("dump") and not reset_first:
            walk = dict(kind="dump", leaves=list(st["api"]["leaves"] or []), pos=0, cd=None, resp=None, initial=False)
            state0 = "Multipart"
        rest = list(pubs)
        # ---------------------------------------------------------------- state action
        def take(expected, prop, what):
            nonlocal rest
            got = rest[:len(expected)]
            ok = len(got) == len(expected) and all(match(g, e) for g, e in zip(got, expected))
            if not ok:
                V.append((prop, k, "%s: expected %s, client sent %s" % (what, json.dumps(expected)[:500], json.dumps([brief(g) for g in rest])[:500])))
                # publications on a response topic that no request handled in this call and no pending list answer asks for
                for g in rest:
                    if not g["topic"].startswith(prefix + "/settings") and g["topic"] != prefix + "/alive" \
                            and not (h is not None and g["topic"] == h.get("resp")) and not (prop == "C07"):
                        V.append(("C07", k, "response %s sent for a request that was not received" % json.dumps(brief(g))[:300]))
            rest = rest[len(expected):] if ok else []
            return ok
        if state0 == "Alive":
            if a["state"] != "Alive" or any(p["topic"] == prefix + "/alive" for p in pubs):
                take([dict(topic=prefix + "/alive", payload=[49], retain=1, code=None, cd=None)], "C13", "alive message")
                if ep["alive"] or ep["sub_t"] is not None:
                    V.append(("C13", k, "alive published twice / after the subscription in one connection epoch"))
                ep["alive"] = True
        elif state0 == "Subscribe":
            if subs:
                s0 = subs[0]
                if s0["filter"] != prefix + "/settings/#" or not s0["nolocal"] or len(subs) != 1:
                    V.append(("C13", k, "subscription %r is not <prefix>/settings/# without local echo, once" % subs))
                if not ep["alive"]:
                    V.append(("C13", k, "subscribed before the alive message"))
                if ep["sub_t"] is not None:
                    V.append(("C13", k, "subscribed twice in one connection epoch"))
                ep["sub_t"] = now
                ep["live_since"] = None
            elif a["state"] in ("Wait", "Init", "Multipart", "Single"):
                V.append(("C13", k, "left the Subscribe state without sending a SUBSCRIBE"))
        elif state0 == "Multipart" and walk is not None:
            # how far the walk went is visible in the iterator itself
            new_walk = starts_multipart(h, orc, st)
            consumed = (len(walk["leaves"]) - walk["pos"]) if (new_walk or a["state"] == "Single") else (b["remaining"] - a["remaining"])
            if consumed < 0 or walk["pos"] + consumed > len(walk["leaves"]) or (not new_walk and b["remaining"] != len(walk["leaves"]) - walk["pos"]):
                V.append(("C10" if walk["kind"] == "dump" else "C07", k, "the pending walk holds %d leaves where %d of %r are left" % (b["remaining"], len(walk["leaves"]) - walk["pos"], walk["leaves"])))
                consumed = max(0, min(consumed, len(walk["leaves"]) - walk["pos"]))
            chunk = walk["leaves"][walk["pos"]:walk["pos"] + consumed]
            exp = []
            if walk["kind"] == "dump":
                for p in chunk:
                    v = vals.get(p, {})
                    if "v" not in v:
                        continue
                    exp.append(dict(topic=prefix + "/settings" + p, payload=v["v"], alt=(TOO_LARGE, "Error"), retain=0, code="Ok", cd=walk["cd"]))
                took = take(exp, "C10", "dump of %r" % chunk)
                if took and exp and walk["initial"]:
                    if ep["sub_t"] is None or now < ep["sub_t"] + 2000:
                        V.append(("C13", k, "initial dump published at %d ms, subscription sent at %r" % (now, ep["sub_t"])))
                    ep["dump_started"] = True
                if not took and walk["initial"]:
                    V.append(("C13", k, "the dump after the (re)connection does not publish the settings: expected %s, client sent %s" % (json.dumps(exp)[:300], json.dumps([brief(g) for g in pubs])[:300])))
            else:
                exp = [dict(topic=walk["resp"], payload=list(p.encode()), retain=0, code="Continue", cd=walk["cd"]) for p in chunk]
                done = walk["pos"] + consumed == len(walk["leaves"]) and (a["state"] == "Single" or new_walk)
                if done:
                    exp.append(dict(topic=walk["resp"], payload=[], retain=0, code="Ok", cd=walk["cd"]))
                take(exp, "C07", "list answer %r%s" % (chunk, " + final Ok" if done else ""))
            walk["pos"] += consumed
            if a["state"] == "Single" or new_walk:
                if walk["pos"] != len(walk["leaves"]):
                    V.append(("C10" if walk["kind"] == "dump" else "C07", k, "walk finished with leaves left"))
                walk = None
        # ---------------------------------------------------------------- the request handled in this call
        resp_exp = None
        if h is not None:
            resp_exp = expected_response(h, orc, prefix, starts_multipart(h, orc, st))
        if resp_exp is not None:
            kind, exp = resp_exp
            able = b["can_publish"] and a["can_publish"] and not big_cfg and len(h.get("resp", "")) <= 128
            hit = [p for p in rest if match(p, exp)]
            if kind == "must" and able and len(hit) != 1:
                V.append(("C07", k, "request %s: expected exactly one response %s, client sent %s" % (json.dumps(h)[:300], json.dumps(exp)[:300], json.dumps([brief(g) for g in rest])[:400])))
            if len(hit) > 1:
                V.append(("C07", k, "response duplicated: %s" % json.dumps([brief(g) for g in rest])[:400]))
            for p in hit[:1]:
                rest.remove(p)
        # C14: response topic / correlation data longer than the client can cache: one Error response where a
        # response topic is named, otherwise ignored; never accepted as a multipart request
        if h is not None and not h.get("payload") and "internal" in orc and (len(h.get("resp", "")) > 128 or len(h.get("cd", [])) > 32) \
                and "msg2" not in sin and not sin.get("api"):
            if b["state"] == "Single" and b["connected"] and a["state"] == "Multipart":
                V.append(("C14", k, "request %s with an over-long response topic / correlation data was accepted as a multipart request" % json.dumps(h)[:300]))
        # C10: a dump requested over MQTT (empty payload on an internal node, no response topic) by an idle client is started
        if h is not None and not h.get("payload") and "internal" in orc and "resp" not in h and len(h.get("cd", [])) <= 32 \
                and "msg2" not in sin and not sin.get("api") and b["state"] == "Single" and b["connected"] and a["connected"] and not reset_first and b["can_publish"] and a["can_publish"] and not big_cfg:
            # (a client that cannot publish discards empty-payload requests before looking at them: minimq's NotReady)
            if not starts_multipart(h, orc, st) and a["state"] != "Multipart":
                V.append(("C10", k, "dump request %s delivered to the idle client was not started (state %s afterwards, nothing pending)" % (json.dumps(h)[:200], a["state"])))
        # start of a multipart answer requested over MQTT
        if h is not None and starts_multipart(h, orc, st) and not (state0 in ("Single", "Multipart")):
            V.append(("C07", k, "multipart request %s accepted in state %s: the initial dump / another answer is still pending" % (json.dumps(h)[:200], state0)))
        if h is not None and starts_multipart(h, orc, st):
            walk = dict(kind="list" if "resp" in h else "dump", leaves=list(orc["internal"]), pos=0, cd=h.get("cd"), resp=h.get("resp"), initial=False)
        # whatever is left was not asked for
        for p in rest:
            V.append(("C13" if p["topic"] == prefix + "/alive" else "C07", k, "unexplained publication %s" % json.dumps(brief(p))[:300]))
        # ---------------------------------------------------------------- protocol packets
        for c in conns:
            w = c.get("will")
            if not w or w["topic"] != prefix + "/alive" or w["payload"] != [] or not w["retain"]:
                V.append(("C13", k, "CONNECT without a retained empty will on the alive topic: %r" % (w,)))
            walk_keep = walk
            ep = dict(alive=False, sub_t=None, dump_started=False, alive_n=0, sub_n=0, live_since=None)
        if subs and state0 != "Subscribe":
            V.append(("C13", k, "SUBSCRIBE sent outside the start-up sequence"))
        if st.get("connack") and not st["connack"]["session_present"]:
            ep = dict(alive=False, sub_t=None, dump_started=False, alive_n=0, sub_n=0, live_since=None)
        if a["state"] == "Connect":
            ep = dict(alive=False, sub_t=None, dump_started=False, alive_n=0, sub_n=0, live_since=None)
        # initial walk is re-armed by the start-up sequence itself
        if a["state"] == "Multipart" and b["state"] == "Init" and not reset_first:
            walk = dict(kind="dump", leaves=list(all_leaves), pos=0, cd=None, resp=None, initial=True)
            if ep["sub_t"] is None or now < ep["sub_t"] + 2000:
                V.append(("C13", k, "initial dump started at %d ms, subscription sent at %r" % (now, ep["sub_t"])))
        # liveness of the start-up sequence: every connection (CONNACK delivered) is followed by the alive message
        if any(p["topic"] == prefix + "/alive" for p in pubs):
            connack_k = None
        if st.get("connack") and st.get("wire_before", True):
            connack_k = k
        elif connack_k is not None:
            if not b["connected"] or not a["connected"] or not b["can_publish"] or sin.get("api") == "reset":
                connack_k = k if a["connected"] else None      # interrupted / no capacity: start counting again
            elif k - connack_k >= 5:
                V.append(("C13", k, "connected at step %d (CONNACK delivered), no alive message %d calls later" % (connack_k, k - connack_k)))
                connack_k = None
        # liveness of the start-up sequence: once the timeout has passed on a healthy connection the dump starts within two calls
        if ep["sub_t"] is not None and not ep["dump_started"] and now >= ep["sub_t"] + 2000 and b["connected"] and a["connected"] and b["can_publish"]:
            ep["live_since"] = ep["live_since"] if ep["live_since"] is not None else k
            if k - ep["live_since"] >= 3 and any("v" in v for v in vals.values()) and a["state"] in ("Wait",):
                V.append(("C13", k, "no initial dump %d calls after the dump timeout elapsed (subscription at %d ms, now %d ms)" % (k - ep["live_since"], ep["sub_t"], now)))
        # ... and in one connection epoch the first multipart the client completes is that full dump: it does not get
        # back to Single without having published it (epochs in which the application called dump() are not judged:
        # API calls are outside what C13 quantifies over)
        if sin.get("api") == "dump":
            ep["api_dump"] = True
        if a["state"] == "Single" and b["state"] in ("Wait", "Init", "Multipart") and ep["sub_t"] is not None and not ep["dump_started"] \
                and not ep.get("api_dump") and not reset_first and any("v" in v for v in vals.values()) and not ep.get("single_flagged"):
            ep["single_flagged"] = True
            V.append(("C13", k, "the client is idle again (state Single) without having published the full settings dump of this connection (subscription at %r ms)" % ep["sub_t"]))
        # the client must be back to accepting multipart requests when a walk is over
        if walk is None and a["state"] == "Multipart":
            V.append(("C10", k, "no walk pending but the client still refuses multipart requests"))
    return V


def brief(p):
    return dict(topic=p["topic"], payload=p["payload"] if len(p["payload"]) < 60 else p["payload"][:60] + ["..."], retain=p["retain"], code=code_of(p), cd=p["props"]["cd"])


def match(p, e):
    if p["topic"] != e["topic"] or p["props"]["cd"] != e.get("cd") or p["retain"] != e.get("retain", 0):
        return False
    if "qos" in e and p["qos"] != e["qos"]:
        return False
    c = code_of(p)
    if e.get("any_error"):
        return c == "Error"
    if p["payload"] == e["payload"] and c == e["code"]:
        return True
    alt = e.get("alt")
    return bool(alt) and p["payload"] == alt[0] and c == alt[1]


starts_multipart = M.starts_multipart


def expected_response(h, orc, prefix, started):
    """('must' | 'may', expected message) or None: the immediate answer the property text asks for"""
    topic = h["topic"]
    if not topic.startswith(prefix + "/settings") and not (topic.startswith(prefix) and topic[len(prefix):].startswith("/settings")):
        return None
    cd = h.get("cd")
    if h.get("payload"):
        if "resp" not in h:
            return None
        if orc.get("set_ok"):
            return ("must", dict(topic=h["resp"], payload=list(b"OK"), code="Ok", cd=cd))
        return ("must", dict(topic=h["resp"], payload=list(orc.get("set_err", "").encode()), code="Error", cd=cd))
    if "get" in orc:
        e = dict(topic=h.get("resp", topic), payload=orc["get"], code="Ok", cd=cd)
        if orc.get("overflow") and len(orc["get"]) > 64:
            if "resp" not in h:
                return ("may", e)
            e["alt"] = (list(orc["overflow"].encode()), "Error")
        return ("must", e)
    if "err" in orc:
        return ("must", dict(topic=h["resp"], payload=list(orc["err"].encode()), code="Error", cd=cd)) if "resp" in h else None
    if "internal" in orc:
        if "resp" not in h:
            return None
        if len(h["resp"]) > 128 or len(cd or []) > 32:
            return ("must", dict(topic=h["resp"], payload=[], any_error=True, cd=cd))
        # refused while busy: one Error; otherwise the answer comes from the list pump
        if not started:
            return ("must", dict(topic=h["resp"], payload=[], any_error=True, cd=cd))
        return None
    return None


# ------------------------------------------------------------------------------------------ flow
RULES = {
    "C07": "requests (Set/Get/List/Dump, invalid and foreign topics, response topic / correlation data around the 128/32 limits) interleaved with update() calls, acknowledgement back-pressure, partial socket writes, connection faults and API calls",
    "C10": "initial, API and MQTT-requested dumps of four settings types under acknowledgement back-pressure, partial socket writes, concurrent requests, absent leaves and values around the transmit-buffer size",
    "C13": "connection drops, refused connects, session-present / session-absent reconnects, withheld SUBACKs, clock advances, early retained Sets",
    "C14": "arbitrary request topics / payloads / properties in every protocol state; values around the transmit-buffer size",
}


def channel(prop, sched, res, k, exp, got):
    """is the first disagreement of a schedule (step k) about this property's part of the client?"""
    st = res["steps"][k] if k < len(res["steps"]) else None
    if st is None or exp is None or got is None or exp == [-999] or got == [-999] or len(exp) < 6 or len(got) < 6:
        return prop == "C14"
    props = set()
    b = st["before"]
    d_state, d_pend, d_out, d_ch = exp[0] != got[0], exp[1:4] != got[1:4], exp[4] != got[4], exp[5] != got[5]
    startup = ("Connect", "Alive", "Subscribe", "Wait", "Init")
    handled = st.get("handled") is not None
    if d_ch:
        props.add("C14")
    if d_state and (b["state"] in startup or 0 in (exp[0], got[0])):
        props.add("C13")
    if [o for o in (exp[4] + got[4]) if o and (o[0] == 0 or (o[0] == 1 and o[3] == 1))] and d_out:
        props.add("C13")
    if (d_pend or d_out or d_state) and (b["state"] == "Multipart" or sched["steps"][k].get("api") == "dump"):
        props.add("C07" if b["resp"] else "C10")
    if handled and (d_out or d_pend or (d_state and b["state"] not in startup)):
        props.add("C07")
        if st["handled"].get("payload"):
            props.add("C14")
    return prop in props if props else True


def run_mqtt_prop(chk, prop):
    chk.cov["trusted_base"] = TRUSTED_COMMON[:3] + [
        "translator/gen.py: regenerates coq/Generated.v (statemachine! transition table, MAX_TOPIC_LENGTH, MAX_CD_LENGTH, DUMP_TIMEOUT, response codes, topic suffixes) from miniconf_mqtt/src/lib.rs on every run; a block it cannot parse is a broken tie",
        "hand-written model coq/Mqtt.v of update()/poll()/iter_list()/iter_dump()/dump()/reset(): one step per update() over an explicit environment record",
        "environment, modelled as inputs and NOT verified: minimq (connection state, can_publish / send quota, retransmission, SessionReset, serialization into its transmit buffer), embedded-nal socket, the clock, the broker; the settings tree enters through an oracle (json::get/set_by_key on a clone)",
        "harness/rs-mqtt: in-memory socket and MQTT5 broker stub (packet decoder, CONNACK/SUBACK/PUBACK generation, withheld acknowledgements, partial writes, drops); observation = what the client hands to send()",
        "lib/props/mqttcommon.build_envs: reconstruction of the environment record of each call from the observed probes and packets (act_ok, slots, accepted, can_after, poll event); cfg-feature `verif` probes in miniconf_mqtt (state, iterator, can_publish)",
    ]
    chk.assumptions = ["client buffers hold one maximal response (checked per request: larger responses are treated as environment verdicts)",
                       "the broker delivers nothing on a connection before its CONNACK", "at most one request is delivered per update() call by minimq (poll returns after one PUBLISH)"]
    a = stage_a(prop, None)
    chk.add_stage_a(a)
    r = M.run_all(chk.seed, chk.tier)
    tie = None
    mism_in, found = [], []
    steps = hsteps = 0
    kinds, states = {}, {}
    if r["build_err"]:
        tie = dict(kind="harness-build-or-run-failed", detail=r["build_err"][-3000:])
    else:
        if r["err"]:
            tie = dict(kind="model-evaluation-failed", detail=r["err"][-2000:])
        for i, (s, res) in enumerate(zip(r["scheds"], r["res"])):
            kinds[s["kind"]] = kinds.get(s["kind"], 0) + 1
            steps += len(res["steps"])
            for st in res["steps"]:
                if "before" in st:
                    states[st["before"]["state"]] = states.get(st["before"]["state"], 0) + 1
                if st.get("handled") is not None:
                    hsteps += 1
            if i in r["mism"] and not s.get("known"):
                diffs, v = r["mism"][i]
                k = diffs[0]
                exp = M.impl_step_obs(res["steps"][k]) if k < len(res["steps"]) else None
                got = v[k] if k < len(v) else None
                if channel(prop, s, res, k, exp, got):
                    mism_in.append((i, k, exp, got))
            for (p, k, why) in analyze(s, res):
                if p == prop:
                    cls = "none"
                    if s.get("known") and ("panic" in why) and _unacked(res, k) >= 10:
                        cls = s["known"]
                    found.append((i, k, why, cls))
    chk.cov["rule"] = ("schedules of update() calls on the real client over an in-memory broker: " + RULES[prop] +
                       "; counted: update() calls compared step by step with the model; distinct = distinct schedules; non-trivial = every schedule connects and runs the start-up sequence at least once")
    chk.cov["schedules"] = len(r["scheds"])
    chk.cov["schedule_kinds"] = kinds
    chk.cov["update_calls_by_state"] = states
    chk.cov["requests_handled"] = hsteps
    chk.cov["evaluations"] = steps
    chk.cov["distinct_nontrivial"] = len(r["scheds"]) if r["res"] else 0
    chk.cov["disagreements"] = len(mism_in)
    chk.cov["traces_validated_against_impl"] = (len(r["scheds"]) - len(r["mism"])) if r["res"] else 0
    chk.cov["translator"] = TRANSLATOR["msg"] or "ok"
    chk.cov["samples"] = [dict(pinned_theorem=t) for t in a["theorems"][:8]]
    if r["res"]:
        s0, r0 = r["scheds"][0], r["res"][0]
        chk.cov["samples"] += [dict(schedule_kind=s0["kind"], settings=s0["settings"], step=k, input=s0["steps"][k], observed=M.impl_step_obs(r0["steps"][k])) for k in (1, 4, 5)]
    kf = dict(known_findings(prop))
    fresh = []
    for f in found:
        key = f[3]
        if key in kf:
            chk.known(key, kf[key])
        else:
            fresh.append(f)
    if fresh:
        i, k, why = min(fresh, key=lambda f: (f[1], len(r["scheds"][f[0]]["steps"])))[:3]
        s = dict(r["scheds"][i])
        s["steps"] = s["steps"][:k + 1]
        chk.violation(dict(property=prop, kind="failing-input", schedule=s, failing_step=k, property_requires=why,
                           observed_step=(_short(r["res"][i]["steps"][k]) if k < len(r["res"][i]["steps"]) else dict(new=r["res"][i].get("new"))), seed=chk.seed, tier=chk.tier,
                           how_to_replay="./check %s --replay <this file>" % prop, other_failing=len(fresh) - 1), True)
    elif (not a["ok"]) or tie or mism_in:
        first = [dict(schedule_kind=r["scheds"][i]["kind"], settings=r["scheds"][i]["settings"], step=k, input=r["scheds"][i]["steps"][k] if k < len(r["scheds"][i]["steps"]) else None,
                      implementation=_short(e), model=_short(g)) for i, k, e, g in mism_in[:4]]
        chk.violation(dict(property=prop, kind="no-failing-input-found", stage_a_failures=a["failures"], tie=tie,
                           correspondence="%s channel of the MQTT correspondence (harness/rs-mqtt vs coq/Mqtt.v via Mqtt_tie.v, table from translator/gen.py)" % prop,
                           first_disagreements=first), False)


def _unacked(res, k):
    """QoS1 publications the client has sent on the current connection that the broker has not acknowledged (it never
    acknowledges in these schedules once `ack` is off): what minimq has to track"""
    n = 0
    for st in res["steps"][:k + 1]:
        for p in st.get("packets", []):
            if p["t"] == "connect":
                n = 0
            elif p["t"] == "pub" and p.get("qos", 0) > 0 and not p["dup"]:
                n += 1
    return n


def _short(o, n=1500):
    s = json.dumps(o)
    return o if len(s) <= n else s[:n] + "..."


def replay_mqtt(chk, prop, rep):
    if "schedule" not in rep:
        run_mqtt_prop(chk, prop)
        return chk.finish()
    res = M.run_impl([rep["schedule"]])[0]
    v = [x for x in analyze(rep["schedule"], res) if x[0] == prop]
    for p, k, why in v[:5]:
        print("replay: step %d: %s" % (k, why))
    if not v:
        print("replay: property holds on this schedule")
    else:
        print("VIOLATION property=%s replay=(replayed schedule)" % prop)
    return 1 if v else 0
