"""C18 — Device responses decode in the Python client to the device's actual state.
End to end on the implementations: the real Python clients (sync and async, over stub transports)
encode the requests, the real Rust client on the in-memory broker answers them, its packets are fed
unchanged into the Python dispatchers (harness/py/run.py, kind e2e).  Model side: coq/E2E.v."""
import json, subprocess
from common import *
from . import mqttcommon as M

PROP = "C18"
FAMILY = {
    "S1": dict(init=[dict(o=True), dict(o=False), dict(o=True, slen=40)],
               leaves=["/a", "/b/0", "/b/1", "/o", "/i/x", "/i/s"], internal=["", "/b", "/i"],
               sets={"/a": [7, 4000000000, -1, "x"], "/b/0": [True, False, 1], "/o": [3, 300, None], "/i/x": [255, 256], "/i/s": ["hello", "é", 5, "lab/ch0"]}),
    "S2": dict(init=[{}], leaves=["/x", "/y"], internal=[""], sets={"/x": [1, -2147483648, 2147483648], "/y": [0, [1]]}),
    "S3": dict(init=[dict(e=True), dict(e=False)],
               leaves=["/v", "/arr/0/0", "/arr/0/1", "/arr/1/0", "/arr/1/1", "/e/p", "/e/q", "/renamed/0", "/renamed/1/p", "/renamed/1/q"],
               internal=["", "/arr", "/arr/1", "/e", "/renamed", "/renamed/1"],
               sets={"/v": [5, 100, 101], "/arr/0/1": [9], "/e/p": [-3], "/e/q": [None, 65535], "/renamed/0": [True], "/renamed/1/q": [7, None]}),
    "S4": dict(init=[{}], leaves=["/only"], internal=[""], sets={"/only": [1, 255, 999]}),
}
BAD = ["/nope", "/a/b", "/b/2", "/i/x/y", "x", "/", "/b/01", "/settings", "/settings/a", "/settings/x", "/settings/only", "/settings/v"]


def cases_for(rng, tier, rs_bin):
    cases = []
    # every leaf and internal node of every type, every request kind, both clients
    for sname, F in FAMILY.items():
        for init in F["init"]:
            for client in ("sync", "async"):
                reqs = [dict(api="get", path=p) for p in F["leaves"]] + [dict(api="list", path=p) for p in F["internal"]] + \
                       [dict(api="get", path=p) for p in F["internal"][:2]] + [dict(api="list", path=F["leaves"][0])] + \
                       [dict(api="get", path="/settings" + F["leaves"][0]), dict(api="list", path="/settings"),
                        dict(api="set", path="/settings" + list(F["sets"])[0], value=F["sets"][list(F["sets"])[0]][0])]   # no node is called "settings"
                cases.append(dict(kind="e2e", client=client, settings=sname, init=init, rs_bin=rs_bin, requests=reqs))
                reqs = []
                for leaf, vs in F["sets"].items():
                    for v in vs:
                        reqs += [dict(api="set", path=leaf, value=v), dict(api="get", path=leaf)]
                reqs += [dict(api="dump", path=p) for p in F["internal"][:2]] + [dict(api="list", path="")]
                cases.append(dict(kind="e2e", client=client, settings=sname, init=init, rs_bin=rs_bin, requests=reqs[:40]))
    # a leaf whose JSON value does not fit the device's transmit buffer (1 KiB configuration, 700-byte string): the
    # device answers Get / List-on-a-leaf with an Error response; after a short value is written it answers normally
    for client in ("sync", "async"):
        reqs = [dict(api="get", path="/i/s"), dict(api="list", path="/i/s"), dict(api="get", path="/a"), dict(api="list", path="/i"),
                dict(api="set", path="/i/s", value="short"), dict(api="get", path="/i/s")]
        cases.append(dict(kind="e2e", client=client, settings="S1", init=dict(o=True, slen=700), buffer=1024, rs_bin=rs_bin, requests=reqs))
    n = 12 if tier == "quick" else 300
    for i in range(n):
        sname = rng.choice(list(FAMILY))
        F = FAMILY[sname]
        reqs = []
        for _ in range(rng.randint(3, 14)):
            k = rng.random()
            if k < 0.3:
                reqs.append(dict(api="get", path=rng.choice(F["leaves"] + F["internal"] + BAD)))
            elif k < 0.6:
                leaf = rng.choice(list(F["sets"]) + BAD[:3])
                reqs.append(dict(api="set", path=leaf, value=rng.choice(F["sets"].get(leaf, [1]) + [None, "s", [1, 2], {"a": 1}])))
            elif k < 0.85:
                reqs.append(dict(api="list", path=rng.choice(F["internal"] + F["leaves"][:2] + BAD[:3])))
            else:
                reqs.append(dict(api="dump", path=rng.choice(F["internal"] + F["leaves"][:1])))
        cases.append(dict(kind="e2e", client="sync" if i % 2 else "async", settings=sname, init=rng.choice(F["init"]), rs_bin=rs_bin, requests=reqs))
    return cases


def impl(cases):
    p = subprocess.run([sys.executable, os.path.join(VERIF, "harness", "py", "run.py")], input="\n".join(json.dumps(c) for c in cases) + "\n",
                       stdout=subprocess.PIPE, stderr=subprocess.PIPE, text=True, timeout=3000, env=dict(ENV, VERIF_REPO=REPO))
    lines = p.stdout.split("\n")[:-1]
    if p.returncode != 0 or len(lines) != len(cases):
        raise BuildError("python harness failed rc=%s (%d/%d lines): %s" % (p.returncode, len(lines), len(cases), p.stderr[-1500:]))
    return [json.loads(l) for l in lines]


def judged(rec):
    """the requests the property speaks about: delivered to an idle device that is able to publish"""
    return rec["handled"] and rec["state"] == "Single" and rec["can_publish"]


def large(rec):
    """the device holds a value that minimq's transmit buffer cannot hold (its verdict, observed: the value was not sent)"""
    o = rec["oracle"] or {}
    return "get" in o and bool(o.get("overflow")) and len(o["get"]) > 64 and not rec.get("value_sent", True)


def expected(rq, rec):
    """the property text: what the Python caller must get, from the device's own state (oracle)"""
    o = rec["oracle"] or {}
    api = rq["api"]
    if api == "dump":
        return ["none"]
    if api == "set":
        if o.get("set_ok"):
            return ["value", "OK"]
        return ["failed", "Error", o.get("set_err", o.get("err", "?"))]
    if "get" in o and large(rec):
        return ["failed", "Error", o["overflow"]]
    if "get" in o:
        v = bytes(o["get"]).decode()
        if api == "get":
            return ["value", json.dumps(json.loads(v), separators=(",", ":"), ensure_ascii=False)]
        return ["values", [v]]          # list on a leaf: the single Ok message carries the value
    if "internal" in o:
        # get() documents "Must be a leaf node": on an internal node the outcome is not specified (with exactly
        # one leaf below, the client hands the leaf's *path* to json.loads); not judged
        return ["values", o["internal"]] if api == "list" else None
    if "err" in o:
        return ["failed", "Error", o["err"]]
    return ["?"]


def canon(r):
    k = r[0]
    s = lambda x: [ord(ch) for ch in x]
    if k == "value":
        return [0, s(r[1])]
    if k == "values":
        return [1, [s(x) for x in r[1]]]
    if k == "notaleaf":
        return [2, [s(x) for x in r[1]]]
    if k == "failed":
        return [3, 1 if r[1] == "Error" else 9, s(r[2])]
    if k == "assert":
        return [4]
    if k == "pending":
        return [5]
    if k == "none":
        return [6]
    return [-998, s(str(r))]


def model_expr(case, rq, sent, rec):
    o = rec["oracle"] or {}
    mode = dict(get=1, set=1, list=2, dump=0)[rq["api"]]
    topic = sent["topic"]
    pref = "dt/dev/settings"
    if large(rec):
        ans = "(AGetLarge %s)" % M.coq_bytes(M.b2l(o["overflow"]))
    elif "get" in o:
        ans = "(AGet %s)" % M.coq_bytes(o["get"])
    elif "internal" in o:
        ans = "(AInternal [%s])" % "; ".join(M.coq_bytes(M.b2l(x)) for x in o["internal"])
    elif o.get("set_ok"):
        ans = "ASetOk"
    elif "set_err" in o:
        ans = "(ASetErr %s)" % M.coq_bytes(M.b2l(o["set_err"]))
    else:
        ans = "(AErr %s)" % M.coq_bytes(M.b2l(o.get("err", "")))
    im = "{| m_settings := %s; m_empty := %s; m_resp := %s; m_cd := %s; m_ans := %s; m_reply_ok := true |}" % (
        M.coq_opt_bytes(M.b2l(topic)) if topic.startswith(pref) else "None", "true" if not sent["payload"] else "false",
        M.coq_opt_bytes(M.b2l(sent["resp"])) if sent["resp"] else "None", M.coq_opt_bytes(sent["cd"]) if sent["cd"] is not None else "None", ans)
    return "e2e_case %d%%N %s %s %s" % (mode, "true" if case["client"] == "sync" else "false", M.coq_bytes(M.b2l("dt/dev/response")), im)


def check_layout(sent, rq):
    """the request encoding the device expects (topic layout, 16-byte correlation data)"""
    if sent["topic"] != "dt/dev/settings" + rq["path"]:
        return "request topic %r is not <prefix>/settings<path>" % sent["topic"]
    if rq["api"] != "dump":
        if sent["resp"] != "dt/dev/response":
            return "response topic %r is not <prefix>/response" % sent["resp"]
        if sent["cd"] is None or not (0 < len(sent["cd"]) <= 32):
            return "correlation data of %r bytes: the device caches at most 32" % (None if sent["cd"] is None else len(sent["cd"]))
    return None


def run(chk):
    chk.cov["trusted_base"] = TRUSTED_COMMON[:3] + [
        "translator/gen.py -> coq/Generated.v: response-code wire strings (ResponseCode variants), the Python literals compared against, response-topic suffix, correlation-data length, cache limits",
        "composition model coq/E2E.v: Mqtt.v (device) -> to_py (a client subscribed to its response topic) -> Py.v (dispatcher); MQTT transport, broker routing and UTF-8 decoding are the environment",
        "harness/py/run.py (kind e2e): real sync / async clients over stub paho / aiomqtt, the real Rust client via harness/rs-mqtt as a subprocess, packets fed to _dispatch in emission order",
        "the device-side oracle: json::get/set_by_key and the node iterator on a clone of the settings (harness/rs-mqtt tree_oracle)"]
    chk.assumptions = ["requests are judged when they reach an idle device (state Single) that can publish; others are counted as skipped",
                       "JSON values used are integers, booleans, null and strings without escapes (canonical compact form on both sides)"]
    a = stage_a(PROP, None)
    chk.add_stage_a(a)
    tie, outs, mism, found = None, None, [], []
    b, out = cargo_build("rs-mqtt")
    cases = []
    if b is None:
        tie = dict(kind="harness-build-failed", detail=out[-3000:])
    else:
        cases = cases_for(chk.rng, chk.tier, b)
        try:
            outs = impl(cases)
        except BuildError as e:
            tie = dict(kind="harness-failed", detail=str(e)[-2000:])
    judged_n = skipped = 0
    kinds = {}
    evals, where = [], []
    if outs:
        for ci, (c, o) in enumerate(zip(cases, outs)):
            if isinstance(o, list) and o and o[0] == "harness-error":
                found.append((ci, -1, "python harness error: %r" % (o,)))
                continue
            results, inflight, records, packets, sent = o
            for i, rq in enumerate(c["requests"]):
                if i >= len(records) or i >= len(sent):
                    found.append((ci, i, "request was not published by the Python client"))
                    continue
                lay = check_layout(sent[i], rq)
                if lay:
                    found.append((ci, i, lay))
                if not judged(records[i]):
                    skipped += 1
                    continue
                judged_n += 1
                kinds[rq["api"]] = kinds.get(rq["api"], 0) + 1
                want = expected(rq, records[i])
                if want is None:
                    skipped += 1
                    judged_n -= 1
                    continue
                if results[i] != want:
                    found.append((ci, i, "%s %s: Python caller got %r, the device holds %r" % (rq["api"], rq["path"], results[i], want)))
                evals.append((model_expr(c, rq, sent[i], records[i]), canon(results[i])))
                where.append((ci, i))
        mm, err = coq_eval_cases(PROP, ["Generated", "Mqtt", "E2E", "E2E_tie"], evals, chunk=120)
        if err:
            tie = dict(kind="model-evaluation-failed", detail=err[-1500:])
        mism = mm
    chk.cov["rule"] = ("for each of 4 settings types (and their runtime variants): every leaf (get), every internal node (list, get), every leaf with 1-4 values incl. rejected ones (set + read back), "
                       "dumps, invalid paths; plus random request mixes; both Python clients; counted: requests that reached the idle device; distinct = distinct (type, request) pairs; "
                       "non-trivial = every counted request produced device packets that went through the Python dispatcher")
    chk.cov["cases"] = len(cases)
    chk.cov["evaluations"] = judged_n
    chk.cov["skipped_not_idle"] = skipped
    chk.cov["request_kinds"] = kinds
    chk.cov["distinct_nontrivial"] = len({json.dumps([cases[ci]["settings"], cases[ci]["init"], cases[ci]["requests"][i]], sort_keys=True) for ci, i in where})
    chk.cov["traces_validated_against_impl"] = judged_n - len(mism)
    chk.cov["disagreements"] = len(mism)
    chk.cov["translator"] = TRANSLATOR["msg"] or "ok"
    chk.cov["samples"] = [dict(pinned_theorem=t) for t in a["theorems"][:9]]
    if outs and where:
        ci, i = where[0]
        chk.cov["samples"].append(dict(settings=cases[ci]["settings"], request=cases[ci]["requests"][i], python_result=outs[ci][0][i], device=outs[ci][2][i]))
    if found:
        ci, i, why = min(found, key=lambda f: (len(cases[f[0]]["requests"]), f[1]))
        c = dict(cases[ci])
        c["requests"] = c["requests"][:i + 1] if i >= 0 else c["requests"]
        chk.violation(dict(property=PROP, kind="failing-input", case=c, failing_request=i, property_requires=why,
                           how_to_replay="./check C18 --replay <this file>", other_failing=len(found) - 1), True)
    elif (not a["ok"]) or tie or mism:
        first = []
        for k, v in mism[:4]:
            ci, i = where[k]
            first.append(dict(settings=cases[ci]["settings"], request=cases[ci]["requests"][i], python=outs[ci][0][i], model=v))
        chk.violation(dict(property=PROP, kind="no-failing-input-found", stage_a_failures=a["failures"], tie=tie,
                           correspondence="C18: harness/py e2e (real Python clients + real Rust client) vs coq/E2E.v via E2E_tie.v", first_disagreements=first), False)


def replay(chk, rep):
    if "case" not in rep:
        run(chk)
        return chk.finish()
    b, out = cargo_build("rs-mqtt")
    c = dict(rep["case"], rs_bin=b)
    o = impl([c])[0]
    bad = []
    if isinstance(o, list) and o and o[0] == "harness-error":
        bad.append(str(o))
    else:
        results, inflight, records, packets, sent = o
        for i, rq in enumerate(c["requests"]):
            lay = check_layout(sent[i], rq) if i < len(sent) else "not published"
            if lay:
                bad.append(lay)
            if i < len(records) and judged(records[i]) and expected(rq, records[i]) is not None and results[i] != expected(rq, records[i]):
                bad.append("%s %s: got %r, device holds %r" % (rq["api"], rq["path"], results[i], expected(rq, records[i])))
    for x in bad[:5]:
        print("replay: " + x)
    if not bad:
        print("replay: property holds on this case")
    else:
        print("VIOLATION property=C18 replay=(replayed case)")
    return 1 if bad else 0
