"""Shared machinery of the MQTT properties (C07, C10, C13, C14, C18): schedule generation, the
real client on the in-memory broker (harness/rs-mqtt), reconstruction of what each update()
observed of its environment, evaluation of the Coq model (coq/Mqtt.v) on exactly that, and the
property predicates evaluated on the implementation's packet log."""
import json, os, pickle, hashlib, subprocess, random
from common import *

PREFIX = "dt/dev"
SETTINGS = {
    "S1": dict(leaves=["/a", "/b/0", "/b/1", "/o", "/i/x", "/i/s"], internal=["", "/b", "/i"],
               vals={"/a": ["7", "4000000000", "-1", "\"x\""], "/b/0": ["true", "false", "1"], "/b/1": ["true"], "/o": ["3", "300"],
                     "/i/x": ["255", "256"], "/i/s": ["\"hello\"", "\"" + "y" * 700 + "\""]}),
    "S2": dict(leaves=["/x", "/y"], internal=[""], vals={"/x": ["1", "-2147483648", "2147483648"], "/y": ["0", "[1]"]}),
    "S3": dict(leaves=["/v", "/arr/0/0", "/arr/0/1", "/arr/1/0", "/arr/1/1", "/e/p", "/e/q", "/renamed/0", "/renamed/1/p", "/renamed/1/q"],
               internal=["", "/arr", "/arr/1", "/e", "/renamed", "/renamed/1"],
               vals={"/v": ["5", "100", "101", "200"], "/arr/0/1": ["9"], "/e/p": ["-3"], "/e/q": ["null", "65535"], "/renamed/0": ["true"],
                     "/renamed/1/q": ["7"]}),
    "S4": dict(leaves=["/only"], internal=[""], vals={"/only": ["1", "255", "999"]}),
}
STATE_ID = {"Connect": 0, "Alive": 1, "Subscribe": 2, "Wait": 3, "Init": 4, "Multipart": 5, "Single": 6}
CODE_ID = {"Ok": 0, "Continue": 1, "Error": 2}


def gen_msg(rng, sname, phase):
    S = SETTINGS[sname]
    k = rng.random()
    resp = rng.choice([PREFIX + "/response", PREFIX + "/response", None, "other/topic", "r" * rng.choice([127, 128, 129, 200])])
    cd = rng.choice([None, [1, 2, 3], list(range(16)), list(range(32)), list(range(33)), [0]])
    m = dict(resp=resp, cd=cd)
    if rng.random() < 0.15:
        m["cd_first"] = True
    if k < 0.3:      # set
        leaf = rng.choice(S["leaves"])
        val = rng.choice(S["vals"].get(leaf, ["1"]) + ["", "x", "1 2"]) if rng.random() < 0.8 else rng.choice(["null", "{}", "[", "\"é\"", " ", "\n", "\r\n", "\t "])
        m.update(topic=PREFIX + "/settings" + leaf, payload=list(val.encode()))
        if not val:
            m["payload"] = list(b"0")
    elif k < 0.5:    # get leaf
        m.update(topic=PREFIX + "/settings" + rng.choice(S["leaves"]), payload=[])
    elif k < 0.7:    # list / dump on an internal node
        m.update(topic=PREFIX + "/settings" + rng.choice(S["internal"]), payload=[])
        if rng.random() < 0.35:
            m["resp"] = None
    elif k < 0.85:   # invalid / odd paths
        p = rng.choice(["/nope", "/a/b", "/b/2", "/b", "/i/x/y", "x", "/", "//", "/é", "/b/01", "/b/+1", "/e/p"])
        m.update(topic=PREFIX + "/settings" + p, payload=rng.choice([[], list(b"1")]))
        if rng.random() < 0.3:   # the "/settings" segment repeated: the path is "/settings<...>", which no tree here has
            leaf = rng.choice(S["leaves"] + S["internal"])
            m.update(topic=PREFIX + "/settings/settings" + leaf, payload=rng.choice([[], list(rng.choice(S["vals"].get(leaf, ["1"])).encode())]))
    else:            # foreign topics
        t = rng.choice([PREFIX + "/other", PREFIX + "/alive", "x/y", PREFIX + "/setting", PREFIX + "x/settings/a", PREFIX + "/response"])
        m.update(topic=t, payload=rng.choice([[], list(b"1")]))
    if m["resp"] is None:
        m.pop("resp")
    if m["cd"] is None:
        m.pop("cd")
    return m


def gen_schedule(rng, kind):
    sname = rng.choice(["S1", "S1", "S2", "S3", "S3", "S4"])
    init = dict(o=rng.random() < 0.5, e=rng.random() < 0.6)
    sched = dict(settings=sname, init=init, prefix=PREFIX, buffer=rng.choice([4096, 8192]), kind=kind)
    n = rng.randint(50, 110)
    steps = [dict(dt=rng.choice([50, 100, 100, 200, 400, 900])) for _ in range(n)]
    if kind == "oversize":
        sched["settings"] = sname = "S1"
        sched["init"]["slen"] = rng.choice([0, 300, 590, 700, 880])
        sched["buffer"] = rng.choice([1024, 2048, 4096])
    if kind in ("normal", "oversize", "requests"):
        for i in range(n):
            if i > 8 and rng.random() < (0.35 if kind == "requests" else 0.2):
                steps[i]["msg"] = gen_msg(rng, sname, None)
    if kind == "requests":       # pipelined requests: two readable before one update()
        for i in range(9, n):
            if "msg" in steps[i] and rng.random() < 0.3:
                steps[i]["msg2"] = gen_msg(rng, sname, None)
    if kind == "startup":        # requests of every kind while the start-up sequence runs (incl. the call that notices the timeout)
        for i in range(n):
            steps[i]["dt"] = rng.choice([50, 100, 200, 400])
        for i in range(4, min(n, 40)):
            if rng.random() < 0.6:
                m = gen_msg(rng, sname, None)
                if rng.random() < 0.5:
                    m.update(topic=PREFIX + "/settings" + rng.choice(SETTINGS[sname]["internal"]), payload=[])
                    m.pop("user", None)
                steps[i]["msg"] = m
        for i in range(40, n):
            if rng.random() < 0.1:
                steps[i]["drop"] = True
            elif rng.random() < 0.3:
                steps[i]["msg"] = gen_msg(rng, sname, None)
    if kind == "pingwrite":      # keep-alive pings written a byte at a time while dumps are in progress
        sched["settings"] = sname = rng.choice(["S3", "S1"])
        sched["keepalive"] = 1
        for i in range(n):
            steps[i]["dt"] = rng.choice([300, 400, 600])
        k0 = rng.randint(8, 16)
        steps[k0]["max_write"] = rng.choice([1, 1, 2, 3])
        for i in range(k0 + 1, n):
            r = rng.random()
            if r < 0.05:
                steps[i]["max_write"] = rng.choice([1, 2, 1 << 20])
            elif r < 0.15:
                steps[i]["msg"] = gen_msg(rng, sname, None)
            elif r < 0.2:
                steps[i]["api"] = "dump"
    if kind in ("early", "faults", "startup") and rng.random() < 0.5:
        # the 32-bit millisecond clock of the device may be about to wrap when it connects
        sched["t0"] = rng.choice([2**32 - 300, 2**32 - 1500, 2**32 - 2100, 2**32 - 60000, 2**31 - 1000])
    if kind == "early":          # (retained) sets delivered between subscription and initial dump
        for i in range(6, min(n, 30)):
            if rng.random() < 0.3:
                leaf = rng.choice(SETTINGS[sname]["leaves"])
                steps[i]["msg"] = dict(topic=PREFIX + "/settings" + leaf, payload=list(rng.choice(SETTINGS[sname]["vals"].get(leaf, ["1"])).encode()), retain=True)
        for i in range(30, n):
            if rng.random() < 0.15:
                steps[i]["msg"] = gen_msg(rng, sname, None)
        if rng.random() < 0.5:   # the broker acknowledges the alive message late: the client cannot publish meanwhile
            k0 = rng.randint(0, 4)
            steps[k0]["ack"] = False
            k1 = rng.randint(10, 28)
            steps[k1]["ack"] = True
            steps[k1]["release_acks"] = True
    if kind == "faults":
        for i in range(n):
            r = rng.random()
            if r < 0.06:
                steps[i]["drop"] = True
            elif r < 0.09:
                steps[i]["session_present"] = rng.random() < 0.5
            elif r < 0.10:
                steps[i]["suback"] = False
                if i + rng.choice([2, 30]) < n:
                    steps[min(n - 1, i + rng.choice([2, 30]))]["suback"] = True
            elif r < 0.12:
                steps[i]["refuse_connect"] = True
                if i + 3 < n:
                    steps[i + 3]["refuse_connect"] = False
            elif r < 0.2 and i > 8:
                steps[i]["msg"] = gen_msg(rng, sname, None)
    if kind == "backpressure":
        sched["receive_max"] = rng.choice([1, 2, 3, None])
        if sched["receive_max"] is None:
            sched.pop("receive_max")
        for i in range(n):
            r = rng.random()
            if r < 0.08:
                steps[i]["ack"] = False
            elif r < 0.16:
                steps[i]["ack"] = True
                steps[i]["release_acks"] = True
            elif r < 0.22:
                steps[i]["max_write"] = rng.choice([1, 5, 17, 64])
            elif r < 0.27:
                steps[i]["max_write"] = 1 << 20
            elif r < 0.40 and i > 8:
                m = gen_msg(rng, sname, None)
                steps[i]["msg"] = m
    if kind == "api":
        for i in range(n):
            r = rng.random()
            if r < 0.07:
                steps[i]["api"] = "dump"
                p = rng.choice(SETTINGS[sname]["internal"] + SETTINGS[sname]["leaves"] + ["/nope", None])
                if p is not None:
                    steps[i]["api_path"] = p
            elif r < 0.09:
                steps[i]["api"] = "reset"
            elif r < 0.2 and i > 8:
                steps[i]["msg"] = gen_msg(rng, sname, None)
    if kind in ("backpressure", "faults", "normal") and rng.random() < 0.5:
        # a short keep-alive: PINGREQ / PINGRESP traffic competes for the socket with the publications
        # (requests are always delivered with QoS 0: the client subscribes with maximum QoS 0)
        sched["keepalive"] = rng.choice([1, 2, 5])
    sched["steps"] = steps
    return sched


KINDS = ["normal", "requests", "early", "faults", "backpressure", "api", "oversize", "startup", "pingwrite"]


def schedules_for(rng, tier):
    n = 90 if tier == "quick" else 1350
    scheds = [gen_schedule(random.Random(rng.getrandbits(64)), KINDS[i % len(KINDS)]) for i in range(n)]
    # dedicated stream (matched against known_findings.txt, not compared with the model): a session-state buffer that
    # holds more than minimq's 10 tracked publications, and a broker that withholds its acknowledgements
    for j in range(2 if tier == "quick" else 8):
        r = random.Random(rng.getrandbits(64))
        k = r.randint(0, 4) if j == 0 else r.randint(0, 9)    # withheld from before the initial dump: always overflows
        steps = [dict(dt=400) for _ in range(40)]
        steps[k]["ack"] = False
        scheds.append(dict(settings="S3", init=dict(e=True), prefix=PREFIX, buffer=16384, session=8192, tx=1024, kind="inflight",
                           known="minimq-inflight-overflow", steps=steps))
    # prefixes at the limit of the topic buffer: <prefix>/settings<longest path> of exactly MAX_TOPIC_LENGTH bytes must work
    # like any other prefix; one byte more and the constructor must refuse (its assert), or the dump could not build its topic
    for j in range(2 if tier == "quick" else 8):
        r = random.Random(rng.getrandbits(64))
        sname = r.choice(["S1", "S2", "S3", "S4"])
        fit = 128 - len("/settings") - max(len(p.encode()) for p in SETTINGS[sname]["leaves"])
        over = j % 2 == 1
        s = gen_schedule(r, "normal")
        s.update(settings=sname, prefix="p" * (fit + (1 if over else 0)), kind="prefix-over" if over else "prefix-fit")
        for st in s["steps"]:
            for key in ("msg", "msg2"):
                if key in st:
                    m = st[key]
                    if m["topic"].startswith(PREFIX):
                        m["topic"] = s["prefix"] + m["topic"][len(PREFIX):]
                    if m.get("resp") == PREFIX + "/response":
                        m["resp"] = "r/resp"
        scheds.append(s)
    return scheds


# ------------------------------------------------------------------ run + cache
def run_impl(scheds):
    b, out = cargo_build("rs-mqtt")
    if b is None:
        raise BuildError(out)
    rc, lines, err = run_lines(b, [json.dumps(s) for s in scheds], timeout=3000)
    if rc != 0 or len(lines) != len(scheds):
        raise BuildError("rs-mqtt run failed rc=%s (%d/%d): %s" % (rc, len(lines), len(scheds), err[-1000:]))
    return [json.loads(l) for l in lines]


def b2l(s):
    return list(s.encode()) if isinstance(s, str) else list(s)


def coq_bytes(b):
    return "[" + "; ".join("%d%%N" % x for x in b) + "]"


def coq_opt_bytes(b):
    return "None" if b is None else "(Some %s)" % coq_bytes(b)


def pub_packets(step):
    """the step's publications and subscriptions in observation form (retransmissions aside)"""
    outs = []
    for p in step.get("packets", []):
        if p["t"] == "sub":
            outs.append([0, b2l(p["filter"]), p["nolocal"]])
        elif p["t"] == "pub" and not p["dup"]:
            code = [v for k, v in p["props"]["user"] if k == "code"]
            outs.append([1, b2l(p["topic"]), p["payload"], p["retain"], CODE_ID.get(code[0], 9) if code else -1,
                         [p["props"]["cd"]] if p["props"]["cd"] is not None else []])
    return outs


def impl_step_obs(step):
    if step["update"].get("panic"):
        return [-999]
    a = step["after"]
    outs = pub_packets(step)
    return [STATE_ID[a["state"]], int(a["resp"]), int(a["cd"]), a["remaining"], outs, int(bool(step["update"].get("ok")))]


def _code_of(p):
    c = [v for k, v in p["props"]["user"] if k == "code"]
    return c[0] if c else None


def starts_multipart(h, orc, st):
    """does the request handled in this call start a multipart answer? (accepted only when idle;
    judged from the pending iterator, which the request replaces)"""
    b, a = st["before"], st["after"]
    if h is None or "internal" not in orc or h.get("payload"):
        return False
    if len(h.get("resp", "")) > 128 or len(h.get("cd", [])) > 32:
        return False
    if a["state"] != "Multipart" or a["resp"] != ("resp" in h) or a["cd"] != ("cd" in h) or a["remaining"] != len(orc["internal"]):
        return False
    if b["state"] == "Init":
        return False    # this call started the initial dump itself (state action), before the request was handled
    if b["state"] != "Multipart":
        return True     # (whether the client was allowed to accept it is checked by the caller)
    # a pending walk may have completed earlier in this very call
    if a["iter_root"] != b["iter_root"] or a["resp"] != b["resp"] or a["cd"] != b["cd"] or a["remaining"] > b["remaining"] or b["remaining"] == 0:
        return True
    if a["remaining"] < b["remaining"]:
        return False
    # same shape before and after: accepted only if the pending walk (which still had leaves) completed in
    # this very call, which needs publish capacity and leaves its publications behind
    pubs = [p for p in st["packets"] if p["t"] == "pub" and not p["dup"]]
    if not b["can_publish"] or not pubs:
        return False
    if "resp" in h:
        return not any(p["topic"] == h["resp"] and _code_of(p) == "Error" and p["props"]["cd"] == h.get("cd") for p in pubs)
    return True


def build_envs(sched, res):
    """what each update() observed of its environment -> Coq env terms (None if the run panicked before)"""
    envs = []
    all_leaves = [p for p, _ in res["leaves"]]
    prefix = sched["prefix"]
    ever_connack = False
    max_write = 1 << 62
    for st_in, st in zip(sched["steps"], res["steps"]):
        if "max_write" in st_in:
            max_write = st_in["max_write"]
        if "after" not in st:
            envs.append(None)
            continue
        b, a = st["before"], st["after"]
        pubs = [p for p in st["packets"] if p["t"] == "pub" and not p["dup"]]
        subs = [p for p in st["packets"] if p["t"] == "sub"]
        # effective state at the time of the state action (after api / reset-if-disconnected) is the model's business;
        # we only supply observed environment answers
        lossy = False       # the packets are observed where the client hands them to the socket
        if lossy:
            # nothing reaches the broker: whether minimq accepted alive()/subscribe() only shows in the transition
            act_ok = (b["state"], a["state"]) in (("Alive", "Subscribe"), ("Subscribe", "Wait"))
        elif b["state"] == "Alive" and b["connected"] and st_in.get("api") is None:
            act_ok = b["can_publish"]          # a priori: publish() fails only with NotReady
        else:
            act_ok = bool(subs) or any(p["topic"] == prefix + "/alive" for p in pubs)
        # pump iterations
        slots = 0
        if b["state"] == "Multipart" or (st_in.get("api") == "dump"):
            consumed = b["remaining"] - a["remaining"]
            if a["state"] == "Multipart" and consumed >= 0 and a["resp"] == b["resp"] and a["iter_root"] == b["iter_root"]:
                slots = consumed
            else:
                slots = 5000         # ran to completion (or was reset): the model decides where it stops
        if b["state"] in ("Init",) or st_in.get("api") == "dump":
            slots = 0 if b["state"] != "Multipart" else slots
        # leaf values at emission time; too-large verdicts are minimq's (observed)
        toolarge = {p["topic"][len(prefix + "/settings"):] for p in pubs
                    if bytes(p["payload"]) == b"Serialized value too large" and p["topic"].startswith(prefix + "/settings")}
        vals = []
        for pth, v in st["values"]:
            if pth in toolarge:
                vals.append("(%s, PTooLarge)" % coq_bytes(b2l(pth)))
            elif "v" in v:
                vals.append("(%s, PVal %s)" % (coq_bytes(b2l(pth)), coq_bytes(v["v"])))
            else:
                vals.append("(%s, PAbsent)" % coq_bytes(b2l(pth)))
        # api call
        api = "ApiNone"
        if st_in.get("api") == "reset":
            api = "ApiReset"
        elif st_in.get("api") == "dump":
            lv = st["api"].get("leaves") if st.get("api") else None
            api = "(ApiDump None)" if lv is None else "(ApiDump (Some [%s]))" % "; ".join(coq_bytes(b2l(x)) for x in lv)
        # poll event
        poll = "NoMsg"
        accepted = "None"
        # minimq reports SessionReset for a CONNACK without session-present only if it had an active
        # session before (session_state.was_reset): not for the first CONNACK it ever receives
        if st.get("connack") and not st["connack"]["session_present"] and ever_connack and st.get("wire_before", True):
            poll = "SessionReset"
        if st.get("connack") and st.get("wire_before", True):
            ever_connack = True
        m = st.get("handled")
        if m is not None and poll == "NoMsg":
            topic = m["topic"]
            is_settings = topic.startswith(prefix) and topic[len(prefix):].startswith("/settings")
            orc = st.get("oracle") or {}
            ovf = orc.get("overflow")
            if "get" in orc and ovf and len(orc["get"]) > 64 and not any(p["payload"] == orc["get"] for p in pubs):
                ans = "(AGetLarge %s)" % coq_bytes(b2l(ovf))       # minimq's verdict on its transmit buffer (observed)
            elif "get" in orc:
                ans = "(AGet %s)" % coq_bytes(orc["get"])
            elif "internal" in orc:
                ans = "(AInternal [%s])" % "; ".join(coq_bytes(b2l(x)) for x in orc["internal"])
            elif "err" in orc:
                ans = "(AErr %s)" % coq_bytes(b2l(orc["err"]))
            elif orc.get("set_ok"):
                ans = "ASetOk"
            elif "set_err" in orc:
                ans = "(ASetErr %s)" % coq_bytes(b2l(orc["set_err"]))
            else:
                ans = "(AErr [])"
            resp_seen = any(p["topic"] == m.get("resp", topic) and not (b["state"] == "Multipart" and False) for p in pubs
                            if p["topic"] != prefix + "/alive")
            quiet_state = b["state"] in ("Wait", "Init", "Single", "Connect") and st_in.get("api") is None
            reply_ok = True
            # outside the property's precondition (buffers hold one maximal response with a <=128 byte topic):
            # whether minimq can serialize the response is its verdict, observed
            big = len(m.get("resp", "")) > 128 or sched.get("buffer", 4096) < 2048
            if big and not starts_multipart(m, orc, st):
                reply_ok = any(p["topic"] == m.get("resp", topic) for p in pubs)
            # minimq's own packets (PINGREQ under a short keep-alive, anything under partial writes) can take the
            # socket inside poll(), before the handler runs: then the capacity is only known from what was accepted
            if not (b["can_publish"] and quiet_state and not sched.get("keepalive") and max_write >= (1 << 20)):
                accepted = "(Some %d%%nat)" % len(pubs)
            poll = "(Msg {| m_settings := %s; m_empty := %s; m_resp := %s; m_cd := %s; m_ans := %s; m_reply_ok := %s |})" % (
                coq_opt_bytes(b2l(topic)) if is_settings else "None", "true" if not m.get("payload") else "false",
                coq_opt_bytes(b2l(m["resp"])) if "resp" in m else "None", coq_opt_bytes(m["cd"]) if "cd" in m else "None", ans,
                "true" if reply_ok else "false")
        envs.append("({| conn := %s; now := %d%%N; act_ok := %s; slots := %d%%nat; accepted := %s; can_after := %s; vals := vals_of [%s]; all_leaves := [%s]; api := %s; poll := %s |}, %s)" % (
            "true" if b["connected"] else "false", st["now"], "true" if act_ok else "false", slots, accepted, "true" if a["can_publish"] else "false", "; ".join(vals),
            "; ".join(coq_bytes(b2l(x)) for x in all_leaves), api, poll, "true" if lossy else "false"))
    return envs


def _response_seen(m, pubs, prefix, orc):
    """was a single response to this request published in this step? (only consulted when capacity is not known a priori)"""
    target = m.get("resp", m["topic"] if "get" in orc else None)
    if target is None:
        return True
    cd = m.get("cd")
    for p in pubs:
        if p["topic"] == target and p["props"]["cd"] == cd:
            code = [v for k, v in p["props"]["user"] if k == "code"]
            if code and code[0] in ("Ok", "Error") and (("get" in orc) or p["topic"] != prefix + "/settings"):
                return True
    return False


def run_all(seed, tier):
    """shared run of the MQTT harness + model evaluation, cached per (repo, machinery, seed, tier)"""
    h = hashlib.sha256()
    for f in ["lib/props/mqttcommon.py", "harness/rs-mqtt/src/main.rs", "coq/Mqtt.v", "coq/Mqtt_tie.v", "coq/Generated.v"]:
        h.update(open(os.path.join(VERIF, f), "rb").read())
    key = "%s-%s-%d-%s" % (repo_hash(), h.hexdigest()[:12], seed, tier)
    cache = os.path.join(BUILD, "mqtt", "cache-%s.pkl" % key)
    with Lock("mqtt-run-" + tier):
        if os.path.exists(cache):
            return pickle.load(open(cache, "rb"))
        rng = random.Random(seed * 104729 + 11)
        scheds = schedules_for(rng, tier)
        out = dict(scheds=scheds, res=None, mism={}, err=None, build_err=None)
        try:
            out["res"] = run_impl(scheds)
        except BuildError as e:
            out["build_err"] = str(e)[-3000:]
        if out["res"]:
            cases = []
            for s, r in zip(scheds, out["res"]):
                envs = build_envs(s, r)
                envs = [e for e in envs if e is not None]
                expected = [impl_step_obs(st) for st in r["steps"]][:len(envs) + 1]
                if len(expected) > len(envs):
                    # the run ended in a panic: the model gets the environment of that step as far as known
                    expected = expected[:len(envs)]
                leaves = "[%s]" % "; ".join(coq_bytes(b2l(p_)) for p_, _ in r["leaves"])
                cases.append(("mq_run %s %s [%s]" % (coq_bytes(b2l(s["prefix"])), leaves, ";\n ".join(envs)), expected))
            # compare step by step: one Coq case per schedule, mismatches located afterwards
            mm, err = coq_eval_cases("mqtt-" + tier, ["Generated", "Mqtt", "Mqtt_tie"], cases, chunk=max(1, len(cases) // (NPROC * 2) + 1))
            out["err"] = err
            for i, v in mm:
                exp = cases[i][1]
                diffs = [k for k in range(max(len(exp), len(v))) if k >= len(exp) or k >= len(v) or exp[k] != v[k]]
                out["mism"][i] = (diffs, v)
        os.makedirs(os.path.dirname(cache), exist_ok=True)
        for f in sorted(os.listdir(os.path.dirname(cache)))[:-4]:
            os.remove(os.path.join(os.path.dirname(cache), f))
        pickle.dump(out, open(cache, "wb"))
        return out
