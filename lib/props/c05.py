"""C05 — Leaf values survive get/set through JSON and postcard unchanged.
Stage A: coq/Properties/C05.v.  Stage B: harness/rs-codec (json / postcard helpers on a derive(Tree)
struct holding every leaf type of the family, every buffer length from 0 to len+1) vs coq/Ser.v.
Stage C: the property text on the implementation's answers, including the leaf types that have no
model (floats, serde structs, serde enums)."""
import json, struct
from common import *

PROP = "C05"
INT = {"u8_": ("U8", 0, 255), "i8_": ("I8", -128, 127), "u16_": ("U16", 0, 65535), "i16_": ("I16", -32768, 32767),
       "u32_": ("U32", 0, 2**32 - 1), "i32_": ("I32", -2**31, 2**31 - 1), "u64_": ("U64", 0, 2**64 - 1), "i64_": ("I64", -2**63, 2**63 - 1)}
STR_CHARS = ["a", "Z", "0", " ", "~", "é", "ß", "€", "中", "😀", "/", "'", "{", ","]
TAGS = ["A", "Bb", "Ccc"]


# ------------------------------------------------------------------ typed values: (coq type, coq value, json text)
def t_int(k):
    return "(TInt %s)" % k


def v_int(rng, k):
    kind, lo, hi = None, None, None
    for _, (kk, l, h) in INT.items():
        if kk == k:
            lo, hi = l, h
    r = rng.random()
    if r < 0.35:
        z = rng.choice([lo, hi, 0, lo + 1, hi - 1, 1, -1 if lo < 0 else 2, 127, 128, 255, 256, 16383, 16384, 2**21 - 1, 2**21, 2**28, 2**35, 2**42, 2**49, 2**56, 2**63 - 1,
                        9, 10, 99, 100, 999, 1000])
        z = min(max(z, lo), hi)
    elif r < 0.7:
        z = rng.randint(lo, hi)
    else:
        b = rng.randint(0, 64)
        z = min(max(rng.choice([1, -1]) * rng.getrandbits(b) if b else 0, lo), hi)
    return "(LInt (%d)%%Z)" % z, str(z)


def v_str(rng, cap):
    s = ""
    while True:
        c = rng.choice(STR_CHARS) if rng.random() < 0.9 else chr(rng.choice([0x7f, 0x80, 0x7ff, 0x800, 0xffff, 0x10000, 0x10ffff, 0xd7ff, 0xe000]))
        if len((s + c).encode()) > cap or rng.random() < 0.15:
            break
        s += c
    return "(LStr [%s])" % "; ".join("%d%%N" % ord(ch) for ch in s), json.dumps(s, ensure_ascii=False)


def gen_typed(rng, path):
    """-> (coq lty, coq lval, json text) for the modelled leaves"""
    if path in INT or path in ("a/0", "a/1", "opt"):
        k = INT[path][0] if path in INT else ("I32" if path.startswith("a/") else "U16")
        v, j = v_int(rng, k)
        return t_int(k), v, j
    if path == "b":
        b = rng.random() < 0.5
        return "TBool", "(LBool %s)" % ("true" if b else "false"), "true" if b else "false"
    if path == "unit":
        return "TUnit", "LUnit", "null"
    if path in ("o8", "o32"):
        k = "I8" if path == "o8" else "U32"
        if rng.random() < 0.3:
            return "(TOpt %s)" % t_int(k), "(LOpt None)", "null"
        v, j = v_int(rng, k)
        return "(TOpt %s)" % t_int(k), "(LOpt (Some %s))" % v, j
    if path == "arr":
        a, b = v_int(rng, "U16"), v_int(rng, "U16")
        return "(TArr 2 %s)" % t_int("U16"), "(LArr [%s; %s])" % (a[0], b[0]), "[%s,%s]" % (a[1], b[1])
    if path == "tup":
        a = v_int(rng, "U8")
        b = rng.random() < 0.5
        return "(TTup [%s; TBool])" % t_int("U8"), "(LArr [%s; LBool %s])" % (a[0], "true" if b else "false"), "[%s,%s]" % (a[1], "true" if b else "false")
    if path in ("s8", "s32"):
        cap = 8 if path == "s8" else 32
        v, j = v_str(rng, cap)
        return "(TStr %d%%N)" % cap, v, j
    if path == "tag":
        n = rng.randrange(3)
        return "TTag", "(LTag %d%%N)" % n, json.dumps(TAGS[n])
    if path == "nested":
        a = v_int(rng, "I16")
        o = []
        for _ in range(2):
            if rng.random() < 0.4:
                o.append(("(LOpt None)", "null"))
            else:
                x = v_int(rng, "U8")
                o.append(("(LOpt (Some %s))" % x[0], x[1]))
        b = rng.random() < 0.5
        s = v_str(rng, 8)
        t = "(TTup [%s; TArr 2 (TOpt %s); TTup [TBool; TStr 8%%N]])" % (t_int("I16"), t_int("U8"))
        v = "(LArr [%s; LArr [%s; %s]; LArr [LBool %s; %s]])" % (a[0], o[0][0], o[1][0], "true" if b else "false", s[0])
        j = "[%s,[%s,%s],[%s,%s]]" % (a[1], o[0][1], o[1][1], "true" if b else "false", s[1])
        return t, v, j
    if path == "inner/e":
        n = rng.randrange(3)
        return MODE_T, "(LTag %d%%N)" % n, json.dumps(MODES[n])
    if path == "inner/st":
        x = v_int(rng, "I16")
        on = rng.random() < 0.5
        name = v_str(rng, 6)
        if rng.random() < 0.4:
            k = ("(LOpt None)", "null")
        else:
            kv = v_int(rng, "U8")
            k = ("(LOpt (Some %s))" % kv[0], kv[1])
        m = rng.randrange(3)
        t = "(TStruct [(%s, %s); (%s, TBool); (%s, TStr 6%%N); (%s, TStruct [(%s, TOpt %s); (%s, %s)])])" % (
            cs("x"), t_int("I16"), cs("on"), cs("name"), cs("inner"), cs("k"), t_int("U8"), cs("m"), MODE_T)
        v = "(LArr [%s; LBool %s; %s; LArr [%s; LTag %d%%N]])" % (x[0], "true" if on else "false", name[0], k[0], m)
        j = '{"x":%s,"on":%s,"name":%s,"inner":{"k":%s,"m":"%s"}}' % (x[1], "true" if on else "false", name[1], k[1], MODES[m])
        return t, v, j
    raise ValueError(path)


def cs(s):
    return "[%s]" % "; ".join("%d%%N" % ord(ch) for ch in s)


MODES = ["Off", "Slow", "Fast"]
MODE_T = "(TEnum [%s])" % "; ".join("[%s]" % "; ".join("%d%%N" % ord(ch) for ch in m) for m in MODES)
MODELLED = list(INT) + ["b", "unit", "o8", "o32", "arr", "tup", "s8", "s32", "tag", "nested", "a/0", "a/1", "opt", "inner/e", "inner/st"]


def f32_text(rng):
    r = rng.random()
    if r < 0.3:
        bits = rng.choice([0, 1, 0x007fffff, 0x00800000, 0x7f7fffff, 0x3f800000, 0x3dcccccd, 0x80000001, 0xbf800000, 0x00000002, 0x7f7ffffe])
    else:
        bits = rng.getrandbits(32)
    f = struct.unpack("<f", struct.pack("<I", bits))[0]
    if f != f or f in (float("inf"), float("-inf")):
        f = 1.5
    return repr(f) if "e" in repr(f) or "." in repr(f) else repr(f) + ".0"


def f64_text(rng):
    r = rng.random()
    if r < 0.3:
        bits = rng.choice([0, 1, 0x000fffffffffffff, 0x0010000000000000, 0x7fefffffffffffff, 0x3ff0000000000000, 0x3fb999999999999a, 0x8000000000000001, 0x3fd5555555555555])
    else:
        bits = rng.getrandbits(64)
    f = struct.unpack("<d", struct.pack("<Q", bits))[0]
    if f != f or f in (float("inf"), float("-inf")):
        f = 0.1
    return repr(f)


def gen_unmodelled(rng):
    if rng.random() < 0.5:
        return "inner/f", f32_text(rng)
    return "inner/g", f64_text(rng)


def cases_for(rng, tier):
    n = 40 if tier == "quick" else 1500
    cases = []
    for p in MODELLED:
        for _ in range(n):
            t, v, j = gen_typed(rng, p)
            cases.append(dict(path="/" + p, init=j, t=t, v=v))
    for _ in range(n * 3):
        p, j = gen_unmodelled(rng)
        cases.append(dict(path="/" + p, init=j))
    return cases


def canon(o):
    """implementation output -> obs in the layout of Ser_tie.c05_case"""
    if o.get("panic") or "json" not in o or "pc" not in o:
        return [-999]
    js = [int(x[0] == 1) for x in o["json_sweep"]]
    ps = [int(x[0] == 1) for x in o["pc_sweep"]]
    jset = [1, o["json_set_back"], 1] if isinstance(o["json_set_back"], int) else [0]
    jtr = 2 if o["json_trailing"] == "finalization" else (1 if isinstance(o["json_trailing"], int) else 0)
    pset = [1, o["pc_set_back"], 1] if isinstance(o["pc_set_back"], list) else [0]
    ptr = -1 if not o["pc"] else int(bool(o.get("pc_truncated_ok")))
    return [1, o["json"], js, jset, jtr, o["pc"], ps, pset, ptr]


def predicate(c, o):
    """the property text on the implementation's answers (no model involved)"""
    if o.get("panic"):
        return "panic"
    if not isinstance(o.get("set0"), int):
        return "initial value %s rejected: %r" % (c["init"], o.get("set0"))
    if "json" not in o:
        return "json::get failed: %r" % o.get("json_err")
    text = bytes(o["json"])
    if text != c["init"].encode() and "inner/f" not in c["path"] and "inner/g" not in c["path"]:
        return "reading back gave %r, canonical encoding of the value written is %r" % (text, c["init"].encode())
    n = len(text)
    for cap, (ok, m, same) in enumerate(o["json_sweep"]):
        if cap < n and ok != 0:
            return "json::get into %d bytes (value needs %d) did not fail: %r" % (cap, n, (ok, m, same))
        if cap >= n and (ok != 1 or m != n or same is not True):
            return "json::get into %d bytes (value needs %d) returned %r" % (cap, n, (ok, m, same))
    if not o["read_pure"]:
        return "json::get modified the tree"
    if o["json_set_back"] != n:
        return "json::set of the produced bytes returned %r, %d bytes were produced" % (o["json_set_back"], n)
    if not o["json_identity"]:
        return "json get then set by the same key changed the tree"
    if "pc" not in o:
        return "postcard get failed: %r" % o.get("pc_err")
    pn = len(o["pc"])
    for cap, (ok, m, same) in enumerate(o["pc_sweep"]):
        if cap < pn and ok != 0:
            return "postcard get into %d bytes (value needs %d) did not fail" % (cap, pn)
        if cap >= pn and (ok != 1 or m != pn or same is not True):
            return "postcard get into %d bytes (value needs %d) returned %r" % (cap, pn, (ok, m, same))
    if not o["pc_read_pure"]:
        return "postcard get modified the tree"
    if o["pc_set_back"] != [9, 8, 7]:
        return "postcard set of the produced bytes + 3 returned remainder %r" % (o["pc_set_back"],)
    if not o["pc_identity"]:
        return "postcard get then set by the same key changed the tree"
    return None


def impl(cases):
    b, out = cargo_build("rs-codec")
    if b is None:
        raise BuildError(out)
    rc, lines, err = run_lines(b, [json.dumps(dict(path=c["path"], init=c["init"])) for c in cases], timeout=3000)
    if rc != 0 or len(lines) != len(cases):
        raise BuildError("rs-codec run failed rc=%s (%d/%d): %s" % (rc, len(lines), len(cases), err[-1000:]))
    return [json.loads(l) for l in lines]


def run(chk):
    # part 1: generated tree types (every container impl / derive attribute): get then set by the same key
    from props.gencommon import run_gen_prop
    run_gen_prop(chk, PROP)
    gen_cov = dict(chk.cov)
    # part 2: the codecs themselves on one struct holding every leaf type
    run_codec(chk)
    chk.cov["generated_programs"] = dict(programs=gen_cov.get("programs"), get_set_operations=gen_cov.get("evaluations"),
                                         distinct=gen_cov.get("distinct_nontrivial"), disagreements=gen_cov.get("disagreements"))
    chk.cov["evaluations"] = chk.cov.get("evaluations", 0) + (gen_cov.get("evaluations") or 0)
    chk.cov["distinct_nontrivial"] = chk.cov.get("distinct_nontrivial", 0) + (gen_cov.get("distinct_nontrivial") or 0)
    chk.cov["traces_validated_against_impl"] = chk.cov.get("traces_validated_against_impl", 0) + (gen_cov.get("traces_validated_against_impl") or 0)
    chk.cov["trusted_base"] = gen_cov["trusted_base"] + chk.cov["trusted_base"][len(TRUSTED_COMMON):]


def run_codec(chk):
    chk.cov["trusted_base"] = TRUSTED_COMMON + [
        "hand-written codec models coq/Ser.v (serde-json-core compact JSON; postcard varint / zigzag / length-prefixed strings), canonical encodings only",
        "modelled, not verified: serde-json-core, postcard, heapless, the serde impls of core types and of #[derive(Serialize, Deserialize)] structs / unit-variant enums (declaration order, variant names / indices); floats (ryu / float parsing) have no model and are decided on the implementation only (Stage C)",
        "the tree-level theorems are generic in the codec (Tree.run's wr / rd); that the model of impls.rs / leaf.rs is faithful is the business of the C01/C02 correspondence"]
    chk.assumptions = ["strings contain no character that needs a JSON escape; no nested Option / Option<()> (serde_json_core reads Some(()) back as None)"]
    a = dict(ok=True, failures=chk.cov.get("stage_a_failures", []), theorems=chk.cov.get("pinned_theorems", []))
    cases = cases_for(chk.rng, chk.tier)
    tie, outs, mism, found = None, None, [], []
    try:
        outs = impl(cases)
    except BuildError as e:
        tie = dict(kind="harness-build-or-run-failed", detail=str(e)[-3000:])
    if outs:
        idx = [i for i, c in enumerate(cases) if "t" in c]
        evals = [("c05_case %s %s" % (cases[i]["t"], cases[i]["v"]), canon(outs[i])) for i in idx]
        mm, err = coq_eval_cases(PROP, ["Codec", "Ser", "Ser_tie"], evals, chunk=150)
        if err:
            tie = dict(kind="model-evaluation-failed", detail=err[-1500:])
        mism = [(idx[k], v) for k, v in mm]
        for c, o in zip(cases, outs):
            why = predicate(c, o)
            if why:
                found.append((c, o, why))
        kinds = {}
        for c in cases:
            kinds[c["path"]] = kinds.get(c["path"], 0) + 1
        chk.cov["case_kinds"] = kinds
        chk.cov["evaluations"] = len(cases)
        chk.cov["modelled_cases"] = len(idx)
        chk.cov["buffer_lengths_swept"] = sum(len(o.get("json_sweep", [])) + len(o.get("pc_sweep", [])) for o in outs)
        chk.cov["distinct_nontrivial"] = len({(c["path"], c["init"]) for c in cases})
        chk.cov["traces_validated_against_impl"] = len(idx) - len(mism)
        chk.cov["disagreements"] = len(mism)
        chk.cov["samples"] = [dict(case=dict(path=cases[i]["path"], init=cases[i]["init"]), impl=canon(outs[i])) for i in (0, len(idx) // 2, len(idx) - 1)]
    chk.cov["samples"] = chk.cov.get("samples", []) + [dict(pinned_theorem=t) for t in a["theorems"][:9]]
    chk.cov["rule"] = ("per leaf type (u8..i64, bool, unit, Option, array, tuple, String<8>/<32> incl. 2/3/4-byte UTF-8, string tag, nested tuple, array / Option of leaves, "
                       "nested serde struct, serde enum; f32, f64 incl. subnormals without model): random and extreme values; for each: json::set, json::get into every buffer length 0..len+1, set back, trailing data; postcard get into every "
                       "buffer length, set back with a 3-byte remainder, truncated input; counted: (leaf, value) cases; distinct = distinct (leaf, text); non-trivial = every case reads and writes a leaf by key")
    if found:
        c, o, why = min(found, key=lambda f: len(f[0]["init"]))
        chk.violation(dict(property=PROP, kind="failing-input", case=dict(path=c["path"], init=c["init"]), implementation_returned=o, property_requires=why,
                           how_to_replay="./check C05 --replay <this file>", other_failing_cases=len(found) - 1), True)
    elif (tie or mism) and not chk.violations:
        chk.violation(dict(property=PROP, kind="no-failing-input-found", stage_a_failures=a["failures"], tie=tie,
                           correspondence="C05: harness/rs-codec vs coq/Ser.v via Ser_tie.v",
                           first_disagreements=[dict(case=dict(path=cases[i]["path"], init=cases[i]["init"]), implementation=canon(outs[i]), model=v) for i, v in mism[:4]] if outs else []), False)


def replay(chk, rep):
    if "case" not in rep:
        if rep.get("kind") == "failing-input" and "program_id" in rep:
            from props.gencommon import replay_gen
            return replay_gen(chk, PROP, rep)
        run(chk)
        return chk.finish()
    o = impl([rep["case"]])[0]
    why = predicate(rep["case"], o)
    print("replay: %s -> %s" % (json.dumps(o)[:600], why or "property holds"))
    if why:
        print("VIOLATION property=C05 replay=(replayed case)")
    return 1 if why else 0
