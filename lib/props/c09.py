"""C09 — decided on generated programs; see props/gencommon.py and coq/Properties/C09.v"""
from props.gencommon import run_gen_prop, replay_gen

PROFILES = ("dev", "release") if "C09" == "C16" else ("dev",)


def run(chk):
    run_gen_prop(chk, "C09", profiles=PROFILES)


def replay(chk, rep):
    return replay_gen(chk, "C09", rep)
