"""Build the generated programs against /repo, run the operation lists on the implementation,
evaluate the same lists on the Coq model (vm_compute inside coqc) and report, per operation,
where the two observations differ.  The result of a run is cached under the content hash of
/repo + generator sources + seed + tier, so that all properties served by this harness share it."""
import json, os, random, re, subprocess, sys, time, hashlib, pickle
import common as C
from . import schema as S
from . import program as P

NSHARDS = 8
GEN_FILES = ["gen/schema.py", "gen/program.py", "gen/driver.py", "gen/ops.py", "gen/corpus.py", "gen/spec.py"]


def gen_version():
    h = hashlib.sha256()
    for f in GEN_FILES:
        p = os.path.join(C.VERIF, "lib", f)
        if os.path.exists(p):
            h.update(open(p, "rb").read())
    for root, _, fs in os.walk(os.path.join(C.VERIF, "harness", "rs-gen", "common")):
        for f in sorted(fs):
            if f.endswith((".rs", ".toml")):
                h.update(open(os.path.join(root, f), "rb").read())
    for f in ["Tree.v", "Tree_tie.v", "Codec.v", "Str.v", "Packed.v", "Obs.v"]:
        h.update(open(os.path.join(C.COQ, f), "rb").read())
    return h.hexdigest()[:12]


def programs_for(seed, tier):
    n = 48 if tier == "quick" else 320
    rng = random.Random(seed * 1000003 + 17)
    progs = []
    from . import corpus
    for t, states in corpus.curated():
        progs.append(P.Program(len(progs), t, states))
    for t, states, only, cls in corpus.dedicated():
        progs.append(P.Program(len(progs), t, states, only=only, cls=cls))
    while len(progs) < n:
        r = random.Random(rng.getrandbits(64))
        progs.append(P.make_program(len(progs), r, depth=r.choice([2, 3, 3, 4])))
    return progs


def build(progs, tier, profile="dev"):
    root = os.path.join(C.BUILD, "gen", "ws-%s" % tier)
    shards = [[] for _ in range(NSHARDS)]
    # balance by node count
    order = sorted(progs, key=lambda p: -len(p.nodes))
    load = [0] * NSHARDS
    for p in order:
        k = load.index(min(load))
        shards[k].append(p); load[k] += len(p.nodes) + 10
    P.emit_workspace(root, shards, os.path.join(C.VERIF, "harness", "rs-gen", "common"), C.REPO)
    with C.Lock("cargo-gen-" + tier):
        cmd = ["cargo", "build", "--offline", "--workspace"] + (["--release"] if profile == "release" else [])
        rc, out = C.sh(cmd, cwd=root, timeout=3400)
    if rc != 0:
        return None, out
    where = {}
    for k, sh in enumerate(shards):
        for p in sh:
            where[p.pid] = os.path.join(root, "target", "release" if profile == "release" else "debug", "shard%d" % k)
    return where, out


def run_impl(where, cases):
    """cases: list of dict(p=pid, state=.., ops=[..]); returns list of (outs, tables) or raises"""
    by_bin = {}
    for i, c in enumerate(cases):
        by_bin.setdefault(where[c["p"]], []).append(i)
    res = [None] * len(cases)
    procs = []
    for b, idxs in by_bin.items():
        inp = "\n".join(json.dumps(cases[i]) for i in idxs) + "\n"
        p = subprocess.Popen([b], stdin=subprocess.PIPE, stdout=subprocess.PIPE, stderr=subprocess.PIPE, text=True,
                             env=dict(C.ENV, RUST_BACKTRACE="0"))
        procs.append((p, idxs, inp))
    import threading
    outs = {}

    def comm(p, inp, key):
        outs[key] = p.communicate(inp, timeout=1500)
    th = [threading.Thread(target=comm, args=(p, inp, k)) for k, (p, idxs, inp) in enumerate(procs)]
    [t.start() for t in th]
    [t.join() for t in th]
    for k, (p, idxs, inp) in enumerate(procs):
        so, se = outs[k]
        lines = so.split("\n")[:-1]
        if p.returncode != 0 or len(lines) != len(idxs):
            raise C.BuildError("shard run failed rc=%s lines=%d/%d: %s" % (p.returncode, len(lines), len(idxs), se[-800:]))
        for i, line in zip(idxs, lines):
            o = json.loads(line)
            if o == [-999] or not (isinstance(o, list) and len(o) == 2):
                raise C.BuildError("case %d: harness-level failure %r" % (i, o))
            res[i] = (o[0], {t[0]: t[1] for t in o[1]})
    return res


def coq_eval(progs, cases, impl, tag):
    """evaluate every case on the model; returns {case index: [(op index, model obs)]} and error"""
    d = os.path.join(C.BUILD, "cases", tag)
    import shutil
    shutil.rmtree(d, ignore_errors=True)
    os.makedirs(d)
    pmap = {p.pid: p for p in progs}
    nfiles = max(1, min(C.NPROC * 2, len(cases)))
    groups = [[] for _ in range(nfiles)]
    sizes = [0] * nfiles
    for i in sorted(range(len(cases)), key=lambda i: -len(cases[i]["ops"])):
        k = sizes.index(min(sizes))
        groups[k].append(i); sizes[k] += len(cases[i]["ops"]) + 5
    files = []
    for k, idxs in enumerate(groups):
        if not idxs:
            continue
        fn = os.path.join(d, "g%d.v" % k)
        with open(fn, "w") as f:
            f.write("From Coq Require Import ZArith NArith List.\nFrom MC Require Import Obs Str Packed Tree Codec Tree_tie.\n"
                    "Import ListNotations.\nOpen Scope Z_scope.\nSet Printing Width 1000000.\nSet Printing Depth 1000000.\n")
            done = set()
            for i in idxs:
                c = cases[i]
                p = pmap[c["p"]]
                if p.pid not in done:
                    f.write("Definition t%d : node := %s.\n" % (p.pid, S.coq_node(p.t)))
                    done.add(p.pid)
                outs, tables = impl[i]
                ops = "; ".join("(%s)" % P.coq_op(op, tables.get(j)) for j, op in enumerate(c["ops"]))
                exp = "; ".join(C.obs_to_coq(o) for o in outs)
                f.write("Eval vm_compute in (mismatches (combine (run_ops t%d %s [%s]) [%s])).\n"
                        % (p.pid, S.coq_value(p.states[c["state"]]), ops, exp))
        files.append((idxs, fn))
    res, err = {}, None
    running, pending = [], list(files)
    while pending or running:
        while pending and len(running) < C.NPROC:
            idxs, fn = pending.pop(0)
            pr = subprocess.Popen(["coqc", "-noglob", "-w", "-abstract-large-number", "-Q", C.COQ, "MC", fn], cwd=d, env=C.ENV,
                                  stdout=open(fn + ".out", "w"), stderr=subprocess.STDOUT, text=True)
            running.append((idxs, fn, pr, time.time()))
        still = []
        for idxs, fn, pr, t0 in running:
            if pr.poll() is None:
                if time.time() - t0 > 2400:
                    pr.kill(); err = "coqc timeout on " + fn
                else:
                    still.append((idxs, fn, pr, t0))
                continue
            out = open(fn + ".out").read()
            if pr.returncode != 0:
                err = "coqc failed on %s:\n%s" % (fn, out[-1500:])
                continue
            parts = re.findall(r"=\s*(.*?)\s*:\s*list \(Z \* obs\)", out, re.S)
            if len(parts) != len(idxs):
                err = "coqc output count mismatch on %s" % fn
                continue
            for i, part in zip(idxs, parts):
                mm = C.parse_mismatches("= %s : list (Z * obs)" % part)
                if mm:
                    res[i] = mm
        running = still
        if running:
            time.sleep(0.05)
    return res, err


def run_all(seed, tier, profile="dev", want_cases=None):
    """returns dict(progs, cases, impl, mism, err, build_out) — cached per (repo, generator, seed, tier, profile)"""
    from . import ops as O
    key = "%s-%s-%d-%s-%s" % (C.repo_hash(), gen_version(), seed, tier, profile)
    cache = os.path.join(C.BUILD, "gen", "cache-%s.pkl" % key)
    with C.Lock("gen-run-%s-%s" % (tier, profile)):
        if os.path.exists(cache):
            return pickle.load(open(cache, "rb"))
        t0 = time.time()
        progs = programs_for(seed, tier)
        res = dict(progs=progs, cases=[], impl=None, mism={}, err=None, build_err=None, wall={})
        where, out = build(progs, tier, profile)
        res["wall"]["build"] = time.time() - t0
        if where is None:
            res["build_err"] = out[-4000:]
        else:
            rng = random.Random(seed * 7919 + 3)
            cases = []
            for p in progs:
                for st in range(len(p.states)):
                    cases.append(dict(p=p.pid, state=st, ops=O.ops_for(random.Random(rng.getrandbits(64)), p, st, tier)))
            res["cases"] = cases
            t1 = time.time()
            try:
                res["impl"] = run_impl(where, cases)
            except C.BuildError as e:
                res["build_err"] = str(e)
            res["wall"]["impl"] = time.time() - t1
            if res["impl"]:
                t2 = time.time()
                res["mism"], res["err"] = coq_eval(progs, cases, res["impl"], "gen-%s-%s" % (tier, profile))
                res["wall"]["coq"] = time.time() - t2
        os.makedirs(os.path.dirname(cache), exist_ok=True)
        # keep only the latest few caches
        olds = sorted([f for f in os.listdir(os.path.dirname(cache)) if f.startswith("cache-")],
                      key=lambda f: os.path.getmtime(os.path.join(os.path.dirname(cache), f)))
        for f in olds[:-6]:
            os.remove(os.path.join(os.path.dirname(cache), f))
        pickle.dump(res, open(cache, "wb"))
        return res
