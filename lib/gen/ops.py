"""Operation lists for one (program, runtime state) case."""
import random
from . import schema as S
from . import program as P


def targets_for(rng, steps, which=None):
    need_idx = len(steps)
    names = [P.name_of(s) for s in steps]
    path_len = lambda sep: sum(len((chr(sep) + n).encode()) for n in names)
    json_len = sum(len((".%s" % s[1]).encode()) if s[1] is not None else len("[%d]" % s[0]) for s in steps)
    all_t = {
        "unit": dict(t="unit"),
        "idx": dict(t="idx", cap=rng.choice([need_idx, need_idx + 2, max(0, need_idx - 1), rng.randint(0, need_idx + 1)])),
        "u8": dict(t="u8", cap=need_idx + 1),
        "path": (lambda sep: dict(t="path", sep=sep, cap=rng.choice([path_len(sep), path_len(sep) + 3, max(0, path_len(sep) - 1), rng.randint(0, path_len(sep) + 1)])))(rng.choice([47, 46, 233, 128512])),
        "json": dict(t="json", cap=rng.choice([json_len, json_len + 5, max(0, json_len - 1), rng.randint(0, json_len + 1)])),
        "packed": dict(t="packed"),
    }
    if which:
        return [all_t[w] for w in which]
    return list(all_t.values())


def ops_for(rng, p, st, tier):
    quick = tier == "quick"
    ops = [dict(op="snap")]
    nodes = p.nodes
    if len(nodes) > 150:
        # very large type: the per-node sweeps use the first (deepest-first) nodes, the last ones and a sample in between
        nodes = nodes[:30] + rng.sample(nodes[30:-12], 14) + nodes[-12:]
    type_level = st == 0
    if type_level:
        ops.append(dict(op="meta"))
    leaves = [n for n in nodes if n[1]]
    # ---- every node: transcode between representations, callback trace, chained keys, value ops
    for steps, leaf in nodes:
        if type_level:
            tnames = ["unit", "idx", "u8", "path", "json", "packed"]
            for w in (rng.sample(tnames, 3) if quick else tnames):
                ops.append(dict(op="transcode", keys=P.key_repr(rng, steps), tg=targets_for(rng, steps, [w])[0], _steps=steps, _leaf=leaf))
            ops.append(dict(op="rawtrav", keys=P.key_repr(rng, steps), _steps=steps, _leaf=leaf))
            if steps and rng.random() < 0.3:
                ops.append(dict(op="rawtrav", keys=P.key_repr(rng, steps), fail_at=rng.randrange(len(steps)), _steps=steps, _leaf=leaf))
            for j in range(len(steps) + 1):
                if (quick and rng.random() < 0.5) or (len(steps) > 12 and rng.random() < 0.9):
                    continue
                ops.append(dict(op="transcode", keys=P.key_chain(rng, steps, j), tg=targets_for(rng, steps, [rng.choice(["idx", "path", "unit"])])[0], _steps=steps, _leaf=leaf))
        # reads through a random representation, with scripted callbacks
        if not quick or rng.random() < 0.7:
            ops.append(dict(op="ser", keys=P.key_repr(rng, steps), oracle=P.oracle_for(rng, p.t), _steps=steps, _leaf=leaf))
        if not quick or rng.random() < 0.5:
            ops.append(dict(op="ref", keys=P.key_repr(rng, steps), oracle=P.oracle_for(rng, p.t), _steps=steps, _leaf=leaf))
        if not leaf and rng.random() < 0.3:
            ops.append(dict(op="de", keys=P.key_repr(rng, steps), payload=list(b"1"), oracle=P.oracle_for(rng, p.t), _steps=steps, _leaf=leaf))
    # ---- dedicated programs (recorded findings): the inputs that exhibit the finding are not left to chance
    if type_level and getattr(p, "cls", None) == "dup-names":
        for steps, leaf in nodes:
            for kind in ("names", "path", "json"):
                for w in ("idx", "path"):
                    ops.append(dict(op="transcode", keys=P.key_repr(rng, steps, kind), tg=targets_for(rng, steps, [w])[0], _steps=steps, _leaf=leaf))
    # ---- C05: read by key, write the produced bytes back by the same key (JSON and postcard)
    for steps, leaf in nodes:
        if leaf or rng.random() < 0.2:
            for pc in (False, True):
                if quick and rng.random() < 0.3:
                    continue
                ops.append(dict(op="rt", pc=pc, keys=P.key_repr(rng, steps), oracle=P.oracle_for(rng, p.t) if rng.random() < 0.3 else {}, _steps=steps, _leaf=leaf))
    # ---- write / read-back histories on the leaves
    nhist = (12 if quick else 40) + len(leaves)
    for i in range(nhist):
        if not leaves:
            break
        steps, _ = leaves[i % len(leaves)] if i < len(leaves) else rng.choice(leaves)
        tid = P.leaf_tid(p.t, steps) or 1
        mode = rng.choice(["valid"] * 6 + ["trailing", "ws", "junk", "other", "partial"])
        if mode == "other":
            txt = P.payload_for(rng, rng.choice([1, 6, 9, 13, 12]), "valid")
        else:
            txt = P.payload_for(rng, tid, mode)
        orc = P.oracle_for(rng, p.t) if rng.random() < 0.6 else {}
        kind = "de" if rng.random() < 0.75 else "mut"
        ops.append(dict(op=kind, keys=P.key_repr(rng, steps), payload=list(txt.encode()), oracle=orc, _steps=steps, _leaf=True, _tid=tid))
        # read back through an equivalent key in another representation
        ops.append(dict(op=rng.choice(["ser", "ser", "ref"]), keys=P.key_repr(rng, steps), oracle={}, _steps=steps, _leaf=True, _readback=True))
    # ---- compound leaves: a payload whose first elements are valid and a later one is not, then read back
    for steps, _ in leaves:
        tid = P.leaf_tid(p.t, steps) or 1
        if tid in (12, 14):
            ops.append(dict(op="de", keys=P.key_repr(rng, steps), payload=list(P.payload_for(rng, tid, "valid").encode()), oracle={}, _steps=steps, _leaf=True, _tid=tid))
            ops.append(dict(op="de", keys=P.key_repr(rng, steps), payload=list(P.payload_for(rng, tid, "partial").encode()), oracle={}, _steps=steps, _leaf=True, _tid=tid))
            ops.append(dict(op="ser", keys=P.key_repr(rng, steps), oracle={}, _steps=steps, _leaf=True, _readback=True))
    # ---- malformed / surplus / truncated keys on every operation
    nbad = 25 if quick else 120
    for _ in range(nbad):
        steps, _ = rng.choice(nodes)
        k = P.mutate_key(rng, steps)
        o = rng.choice(["ser", "de", "ref", "mut", "transcode", "transcode", "rawtrav"])
        if o == "transcode":
            ops.append(dict(op=o, keys=k, tg=targets_for(rng, steps, [rng.choice(["unit", "idx", "path", "json", "packed"])])[0]))
        elif o == "rawtrav":
            ops.append(dict(op=o, keys=k))
        elif o in ("de", "mut"):
            ops.append(dict(op=o, keys=k, payload=list(P.payload_for(rng, rng.choice([1, 6, 9]), "valid").encode()), oracle=P.oracle_for(rng, p.t)))
        else:
            ops.append(dict(op=o, keys=k, oracle=P.oracle_for(rng, p.t)))
    # ---- the five operations on one and the same key (C02)
    for g in range(10 if quick else 40):
        steps, leaf = rng.choice(nodes)
        k = P.key_repr(rng, steps) if rng.random() < 0.5 else P.mutate_key(rng, steps)
        orc = P.oracle_for(rng, p.t) if rng.random() < 0.5 else {}
        pay = list(P.payload_for(rng, P.leaf_tid(p.t, steps) or 1, "valid").encode())
        ops.append(dict(op="transcode", keys=k, tg=dict(t="unit"), _grp=g))
        ops.append(dict(op="ser", keys=k, oracle=orc, _grp=g))
        ops.append(dict(op="ref", keys=k, oracle=orc, _grp=g))
        ops.append(dict(op="de", keys=k, payload=pay, oracle=orc, _grp=g))
        ops.append(dict(op="mut", keys=k, payload=pay, oracle=orc, _grp=g))
    # ---- iteration (type level)
    if type_level:
        maxd = p.maxd
        for d in [d for d in p.depths if d <= maxd + 1]:
            for tg in [dict(t="idxd"), dict(t="path", sep=47), dict(t="packed"), dict(t="unit"), dict(t="json"), dict(t="path", sep=233)]:
                if quick and d < maxd and rng.random() < 0.6:
                    continue
                ops.append(dict(op="iter", d=d, tg=tg, max=600, resolve=(d >= maxd and tg["t"] != "unit")))
        ops.append(dict(op="iter", d=maxd, tg=dict(t="path", sep=47), exact=True, max=600))
        ops.append(dict(op="iter", d=maxd + 1, tg=dict(t="idxd"), exact=True, max=600))
        # the exact-size wrapper on a target that runs out of capacity above leaf depth (outside what the
        # wrapper can count: dedicated stream, matched against the known finding exactsize-capacity)
        for _ in range(2 if quick else 6):
            ops.append(dict(op="iter", d=maxd, tg=dict(t="path", sep=47, cap=rng.randint(1, 12)), exact=True, max=600, _known="exactsize-capacity"))
        # rooted iteration, any representation of the root
        internal = [n for n in nodes if not n[1]]
        for steps, leaf in rng.sample(nodes, min(len(nodes), 6 if quick else 20)):
            d = rng.choice([x for x in p.depths if len(steps) <= x <= maxd + 1] or [maxd])
            ops.append(dict(op="iter", d=d, tg=rng.choice([dict(t="path", sep=47), dict(t="idxd"), dict(t="packed")]),
                            root=P.key_repr(rng, steps), _root=steps, max=600))
        # rooted iteration into a target that runs out of capacity (at, above or below the root depth)
        for steps, leaf in rng.sample(nodes, min(len(nodes), 3 if quick else 10)):
            d = rng.choice([x for x in p.depths if len(steps) <= x <= maxd + 1] or [maxd])
            tg = rng.choice([dict(t="path", sep=47, cap=rng.randint(0, 14)), dict(t="idx", cap=rng.randint(0, maxd)), dict(t="json", cap=rng.randint(0, 14))])
            ops.append(dict(op="iter", d=d, tg=tg, root=P.key_repr(rng, steps), _root=steps, max=600))
        # re-rooting a used iterator
        for _ in range(2 if quick else 8):
            a, b = rng.choice(nodes), rng.choice(nodes)
            d = maxd + rng.randint(0, 1)
            ops.append(dict(op="iter", d=d, tg=dict(t="path", sep=47), root0=P.key_repr(rng, a[0]), root=P.key_repr(rng, b[0]), _root=b[0], _root0=a[0],
                            pre_steps=rng.randint(0, 3), max=600))
        # capacity-limited targets
        for _ in range(4 if quick else 16):
            d = maxd + rng.randint(0, 1)
            tg = rng.choice([dict(t="path", sep=47, cap=rng.randint(0, 12)), dict(t="idx", cap=rng.randint(0, maxd)),
                             dict(t="json", cap=rng.randint(0, 12))])
            op = dict(op="iter", d=d, tg=tg, max=600)
            if rng.random() < 0.4 and internal:
                rs = rng.choice(internal)[0]
                op["root"] = P.key_repr(rng, rs); op["_root"] = rs
            ops.append(op)
    if getattr(p, "ro", False):
        ops = [o for o in ops if o["op"] in ("snap", "meta", "transcode", "rawtrav", "ser", "iter")]
    elif getattr(p, "noany", False):
        ops = [o for o in ops if o["op"] not in ("ref", "mut")]
    return ops
