"""Programs (generated tree types with runtime states), key representations and operation
lists; emission of the sharded cargo workspace and of the Coq case terms."""
import json, os, random, shutil, hashlib
from . import schema as S

SEPS = [47, 233]          # separators available for iteration targets; keys also use 46, 124, 8364, 128512
KEY_SEPS = [47, 46, 124, 233, 8364, 128512]


class Program:
    def __init__(self, pid, t, states, only=None, cls=None):
        self.pid, self.t, self.states = pid, t, states
        self.only, self.cls = only, cls       # dedicated stream: judged only for this property, failures of class cls
        self.nodes = S.nodes(t)
        self.maxd = S.max_depth(t)
        # iteration depths that are compiled and exercised (all of them unless the type is very deep)
        self.depths = list(range(0, self.maxd + 3)) if self.maxd <= 12 else sorted({0, 1, 2, self.maxd // 2, self.maxd - 1, self.maxd, self.maxd + 1, self.maxd + 2})
        self.rust_ty = S.rust_type(t)
        # RangeInclusive implements TreeKey + TreeSerialize only: such programs run the read-only operations
        self.ro = S.has_kind(t, ("rangeincl",)) or S.has_gate(t, S.REF_RO)
        # rc::Weak / sync::Weak have no TreeAny: everything but ref_any / mut_any
        self.noany = (not self.ro) and S.has_gate(t, tuple(S.WEAK) + S.REF_NOANY)


def make_program(pid, rng, depth=3):
    g = S.Gen(rng)
    t = g.ty(depth, top=True)
    while len(S.nodes(t, 2000)) > 60:        # keep types small enough for node x representation sweeps
        g = S.Gen(rng)
        t = g.ty(depth, top=True)
    states = [S.value(rng, t) for _ in range(2)]
    return Program(pid, t, states)


# ---------------------------------------------------------------------- leaf info along a path
def leaf_tid(t, steps):
    """type id of the leaf reached by the index steps (through gates/flatten), or None"""
    for (i, _, _) in steps:
        while True:
            ch = S.children(t)
            if ch is None:
                return None
            if ch[0] == "pass":
                t = ch[1]
                continue
            break
        lk, cs = ch
        t = cs[0][1] if lk[0] == "homog" else cs[i][1]
    while True:
        ch = S.children(t)
        if ch is None:
            return 20 if t["k"] == "strleaf" else t["tid"]
        if ch[0] == "pass":
            t = ch[1]
            continue
        return None


# ---------------------------------------------------------------------- keys
def bits_for(n):
    return max(1, n.bit_length())


def packed_word(steps):
    w, used = 0, 0
    for (i, _, n) in steps:
        b = bits_for(n - 1)
        w = (w << b) | i
        used += b
    if used > 63:
        return None
    return ((w << 1) | 1) << (63 - used)


def key_ints(idx, w="usize"):
    return dict(k="ints", w=w, v=[str(i) for i in idx])


def key_names(names):
    return dict(k="names", v=list(names))


def name_of(step):
    return step[1] if step[1] is not None else str(step[0])


def key_path(names, sep):
    c = chr(sep)
    return dict(k="path", sep=sep, s="".join(c + n for n in names))


def key_json(steps, rng=None):
    s = ""
    for st in steps:
        if st[1] is not None:
            kind = rng.choice([0, 1, 3]) if rng else 0
            s += [".%s", ".'%s'", "[%s]", "['%s']"][kind] % st[1]
        else:
            kind = rng.choice([0, 1, 2, 3]) if rng else 2
            s += [".%s", ".'%s'", "[%s]", "['%s']"][kind] % st[0]
    return dict(k="json", s=s)


def key_repr(rng, steps, kind=None):
    """a key source denoting the node with these steps, in a random (or given) representation"""
    kinds = ["ints", "names", "path", "json", "packed", "wide"]
    kind = kind or rng.choice(kinds)
    idx = [s[0] for s in steps]
    if kind == "ints":
        return key_ints(idx, rng.choice(["usize", "u8", "u64", "isize", "i32"]) if all(i < 128 for i in idx) else "usize")
    if kind == "wide":
        return key_ints(idx, rng.choice(["u128", "i128"]))
    if kind == "names":
        return key_names([name_of(s) for s in steps])
    if kind == "path":
        names = [name_of(s) for s in steps]
        seps = [c for c in KEY_SEPS if not any(chr(c) in n for n in names)]
        return key_path(names, rng.choice(seps))
    if kind == "json":
        return key_json(steps, rng)
    if kind == "packed":
        w = packed_word(steps)
        if w is None:
            return key_ints(idx)
        return dict(k="packed", w=str(w))
    raise ValueError(kind)


def key_chain(rng, steps, j):
    a = key_repr(rng, steps[:j], rng.choice(["ints", "names", "path", "packed", "json"]))
    b = key_repr(rng, steps[j:], rng.choice(["ints", "names", "path", "json"]))
    return dict(k="chain", a=a, b=b)


def mutate_key(rng, steps):
    """malformed / off-by-one / surplus / truncated keys around a valid one"""
    m = rng.randint(0, 10)
    names = [name_of(s) for s in steps]
    idx = [s[0] for s in steps]
    if m == 0 and steps:      # out of range index at some level
        j = rng.randrange(len(steps))
        idx2 = list(idx); idx2[j] = steps[j][2] + rng.choice([0, 1, 1000])
        return key_ints(idx2, "usize")
    if m == 1 and steps:      # unknown / odd name, numerals beyond the machine word
        j = rng.randrange(len(steps))
        n2 = list(names); n2[j] = rng.choice(["zz", "", " 1", "-0", "0x1", "1e0", n2[j] + "x", n2[j].upper() + "_",
                                              "18446744073709551616", "1844674407370955161%d" % (6 + steps[j][0] % 4),
                                              "99999999999999999999999999", "0000000000000000000000%d" % steps[j][0], "+%d" % steps[j][0]])
        if rng.random() < 0.5:
            return key_path(n2, rng.choice([47, 124])) if not any("/" in x or "|" in x for x in n2) else key_names(n2)
        return key_names(n2)
    if m == 2:                # surplus keys
        extra = [rng.choice(["0", "a", "f0", "1"]) for _ in range(rng.randint(1, 2))]
        return key_names(names + extra)
    if m == 3 and steps:      # truncated
        return key_repr(rng, steps[:rng.randrange(len(steps))])
    if m == 4 and steps:      # non-canonical but valid numerals for numbered levels
        n2 = [n if s[1] is not None else rng.choice(["+%d", "0%d", "00%d"]) % s[0] for n, s in zip(names, steps)]
        return key_names(n2)
    if m == 5 and steps:      # huge / negative integers in wide types
        j = rng.randrange(len(steps))
        idx2 = list(idx); idx2[j] = rng.choice([-1, 2**64, 2**64 + idx[j], -(2**64) + idx[j], 2**63])
        return key_ints(idx2, "i128")
    if m == 6:                # random packed word
        return dict(k="packed", w=str(rng.choice([1, 2**63, 2**64 - 1, rng.randrange(1, 2**64), (rng.randrange(1, 2**16) << 48) | (1 << 47)])))
    if m == 7 and steps:      # packed with surplus bits
        w = packed_word(steps + [(rng.randint(0, 1), None, 2)])
        return dict(k="packed", w=str(w)) if w else key_names(names + ["0"])
    if m == 8:                # a chain whose first source runs past the node (surplus keys / bits) and whose second source is empty
        extra = [rng.choice(["0", "a", "f0", "1"]) for _ in range(rng.randint(1, 2))]
        a = key_names(names + extra)
        if rng.random() < 0.4:
            w = packed_word(steps + [(rng.randint(0, 1), None, 2)])
            if w:
                a = dict(k="packed", w=str(w))
        return dict(k="chain", a=a, b=rng.choice([key_ints([]), key_names([]), key_path([], 47)]))
    if m == 9 and steps:      # a chain split inside the key with surplus keys in the second source
        j = rng.randrange(len(steps) + 1)
        return dict(k="chain", a=key_repr(rng, steps[:j], rng.choice(["ints", "names", "path"])), b=key_names(names[j:] + [rng.choice(["0", "a"])]))
    if m == 10 and steps:     # a packed key that ends inside the bit group of its last level
        w = packed_word(steps)
        width = bits_for(steps[-1][2] - 1)
        if w and width > 1:
            p = (w & -w).bit_length() - 1
            k = rng.randint(1, width - 1)
            return dict(k="packed", w=str(((w >> (p + k + 1)) << (p + k + 1)) | (1 << (p + k))))
    return key_repr(rng, steps)


def coq_keys(spec):
    k = spec["k"]
    if k == "ints":
        return "(KIter [%s])" % "; ".join("KInt (%s)" % v for v in spec["v"])
    if k == "names":
        return "(KIter [%s])" % "; ".join("KStr %s" % S.coq_str(v) for v in spec["v"])
    if k == "path":
        return "(KIter (map KStr (root_keys %d%%N %s)))" % (spec["sep"], S.coq_str(spec["s"]))
    if k == "json":
        return "(KIter (map KStr (json_keys %s)))" % S.coq_str(spec["s"])
    if k == "packed":
        return "(KPacked %s)" % spec["w"]
    if k == "chain":
        return "(KChain %s %s)" % (coq_keys(spec["a"]), coq_keys(spec["b"]))
    raise ValueError(k)


# ---------------------------------------------------------------------- targets
def coq_target(tg):
    t = tg["t"]
    cap = tg.get("cap", 2000)
    if t == "unit":
        return "TgUnit"
    if t in ("idx", "idxd"):
        return "(TgIndices %d%%nat)" % cap
    if t == "u8":
        return "(TgIndices8 %d%%nat)" % cap
    if t == "path":
        return "(TgPath %d%%N %d%%nat)" % (tg["sep"], cap)
    if t == "json":
        return "(TgJson %d%%nat)" % cap
    if t == "packed":
        return "TgPacked"
    raise ValueError(t)


# ---------------------------------------------------------------------- payloads
def payload_for(rng, tid, mode="valid"):
    """JSON text for a leaf of type tid"""
    if mode == "junk":
        return rng.choice(["", "x", "{", "[1", "\"A", "nul", "1 2", "  ", "-", "1.5", "[1,2,3]", "\"Zz\"", "truefalse", "256", "-129"])
    if mode == "partial":
        # valid first elements, a later one invalid / missing / surplus (compound leaves only)
        if tid == 12:
            return rng.choice(['[7,"x"]', "[7,70000]", "[7]", "[7,8,9]", "[7,-1]", "[7,null]"])
        if tid == 14:
            return rng.choice(["[7,2]", "[7]", "[7,null]", "[9,true,1]", "[7,\"true\"]"])
        mode = "valid"
        tid = rng.choice([1, 6, 9, 13, 12])
    if tid in S.INT_RANGE:
        lo, hi = S.INT_RANGE[tid]
        v = rng.choice([lo, hi, 0, 1, rng.randint(lo, hi), hi + 1, lo - 1])
        s = str(v)
    elif tid == 9:
        s = rng.choice(["true", "false"])
    elif tid == 10:
        s = "null"
    elif tid == 11:
        s = rng.choice(["null", str(rng.randint(-128, 127))])
    elif tid == 12:
        s = "[%d,%d]" % (rng.randint(0, 65535), rng.randint(0, 65535))
    elif tid == 13:
        s = '"%s"' % "".join(rng.choice("abcXYZ_ é€9") for _ in range(rng.randint(0, 5)))
    elif tid == 14:
        s = "[%d,%s]" % (rng.randint(0, 255), rng.choice(["true", "false"]))
    elif tid == 20:
        s = '"%s"' % rng.choice(S.TAGS + ["Zz"])
    else:
        s = "0"
    if mode == "trailing":
        s += rng.choice([" 1", "x", ",", " ]"])
    elif mode == "ws":
        s = rng.choice([" ", "\n", "\t "]) + s + rng.choice(["", " ", "\n"])
    return s


# ---------------------------------------------------------------------- operations
def oracle_for(rng, t):
    ids = []

    def go(t):
        if t["k"] in ("struct", "enum"):
            for f in (t["fields"] if t["k"] == "struct" else t["variants"]):
                for key in ("get", "getmut", "val"):
                    if f.get(key):
                        ids.append((f[key], key))
                if f.get("t") and not f.get("skip"):
                    go(f["t"])
        else:
            ch = S.children(t)
            if ch is None:
                return
            if ch[0] == "pass":
                go(ch[1])
            else:
                seen = set()
                for _, c in ch[1]:
                    if id(c) not in seen:
                        seen.add(id(c)); go(c)
    go(t)
    o = {}
    for cid, kind in ids:
        r = rng.random()
        if r < 0.2:
            o[str(cid)] = dict(fail=rng.randint(1, 15))
        elif r < 0.3 and kind == "val":
            o[str(cid)] = dict(replace=rng.randint(0, 9))
    return o


def coq_oracle(o):
    items = []
    for k, v in sorted(o.items(), key=lambda kv: int(kv[0])):
        if "fail" in v:
            items.append("(%s%%N, CbFail %d%%N)" % (k, v["fail"]))
        elif "replace" in v:
            items.append("(%s%%N, CbOk (Some %d%%nat))" % (k, v["replace"]))
    return "[" + "; ".join(items) + "]"


def obs_to_lval(o):
    tag = o[0]
    if tag == 0:
        return "(LInt (%d))" % o[1]
    if tag == 1:
        return "(LBool %s)" % ("true" if o[1] else "false")
    if tag == 2:
        return "LUnit"
    if tag == 3:
        return "(LOpt None)" if o[1] == [] else "(LOpt (Some %s))" % obs_to_lval(o[1][0])
    if tag == 4:
        return "(LArr [%s])" % "; ".join(obs_to_lval(x) for x in o[1])
    if tag == 5:
        return "(LStr [%s])" % "; ".join("%d%%N" % c for c in o[1])
    if tag == 6:
        return "(LTag %d%%N)" % o[1]
    raise ValueError(o)


def coq_table(tbl):
    items = []
    for tid, code, val, fin in tbl:
        if code == 1:
            items.append("(%d%%N, WOk %s %s)" % (tid, obs_to_lval(val), "true" if fin else "false"))
        elif code == 2:
            items.append("(%d%%N, WInvalid)" % tid)
        else:
            items.append("(%d%%N, WInner)" % tid)
    return "[" + "; ".join(items) + "]"


def coq_op(op, table=None):
    o = op["op"]
    if o == "transcode":
        return "OpTranscode %s %s" % (coq_keys(op["keys"]), coq_target(op["tg"]))
    if o == "rawtrav":
        fa = op.get("fail_at")
        return "OpRawTrav %s %s" % (coq_keys(op["keys"]), "None" if fa is None else "(Some %d%%nat)" % fa)
    if o == "meta":
        return "OpMeta"
    if o == "snap":
        return "OpSnap"
    orc = coq_oracle(op.get("oracle", {}))
    if o == "ser":
        return "OpSer %s %s" % (coq_keys(op["keys"]), orc)
    if o == "ref":
        return "OpRef %s %s" % (coq_keys(op["keys"]), orc)
    if o == "rt":
        return "OpRt %s %s" % (coq_keys(op["keys"]), orc)
    if o == "de":
        return "OpDe %s %s %s" % (coq_keys(op["keys"]), coq_table(table), orc)
    if o == "mut":
        return "OpMut %s %s %s" % (coq_keys(op["keys"]), coq_table(table), orc)
    if o == "iter":
        opt = lambda k: ("(Some %s)" % coq_keys(op[k])) if op.get(k) else "None"
        tg = dict(op["tg"], cap=op["d"]) if op["tg"]["t"] == "idxd" else op["tg"]
        return "OpIter %s %d%%nat %s %s %d%%nat %s %d%%nat %s" % (coq_target(tg), op["d"], opt("root0"), opt("root"), op.get("pre_steps", 0),
                                               "true" if op.get("exact") else "false", op.get("max", 2000), "true" if op.get("resolve") else "false")
    raise ValueError(o)


# ---------------------------------------------------------------------- workspace emission
MAIN_HEAD = """#![allow(unused_imports, dead_code, non_snake_case, unused_variables, unused_mut, clippy::all)]
use miniconf::{Deny, Leaf, StrLeaf, Tree};
use rsgen_common::*;
use std::borrow::Cow;
use std::cell::{Cell, RefCell};
use std::ops::{Bound, Range, RangeFrom, RangeInclusive, RangeTo};
use std::rc::Rc;
use std::sync::{Arc, Mutex, RwLock};
use std::io::{BufRead, Write};
"""


def emit_shard(progs):
    out = [MAIN_HEAD]
    for p in progs:
        defs = []
        S.rust_defs(p.t, defs, set())
        builds = "\n".join("            %d => %s," % (i, S.rust_build(p.t, v)) for i, v in enumerate(p.states))
        ds = ", ".join(str(d) for d in p.depths)
        out.append("mod p%d {\n    use super::*;\n%s\n    pub type Top = %s;\n    pub fn build(state: usize, keep: &mut Vec<Box<dyn std::any::Any>>) -> Top {\n        match state {\n%s\n            _ => panic!(\"state\"),\n        }\n    }\n    %s!(case, Top, build, [%s]);\n}\n"
                   % (p.pid, "\n".join("    " + l for d in defs for l in d.split("\n")), p.rust_ty, builds, "impl_case_ro" if p.ro else ("impl_case_noany" if p.noany else "impl_case"), ds))
    arms = "\n".join("            %d => p%d::case(&case)," % (p.pid, p.pid) for p in progs)
    out.append("""fn main() {
    std::panic::set_hook(Box::new(|_| {}));
    let stdin = std::io::stdin();
    let stdout = std::io::stdout();
    let mut out = std::io::BufWriter::new(stdout.lock());
    for line in stdin.lock().lines() {
        let line = line.unwrap();
        let case: serde_json::Value = serde_json::from_str(&line).unwrap();
        let o = match case["p"].as_u64().unwrap() {
%s
            _ => l(vec![z(-995)]),
        };
        writeln!(out, "{o}").unwrap();
    }
}
""" % arms)
    return "\n".join(out)


def emit_workspace(root, shards, common_path, repo="/repo", release=False):
    os.makedirs(root, exist_ok=True)
    members = []
    for k, progs in enumerate(shards):
        d = os.path.join(root, "shard%d" % k)
        os.makedirs(os.path.join(d, "src"), exist_ok=True)
        members.append("shard%d" % k)
        cargo = """[package]
name = "shard%d"
version = "0.0.0"
edition = "2021"

[dependencies]
rsgen-common = { path = "%s" }
miniconf = { path = "%s/miniconf", features = ["json-core", "postcard", "derive", "std"] }
serde_json = "1"
heapless = { version = "0.8", features = ["serde"] }
""" % (k, common_path, repo)
        _write_if_changed(os.path.join(d, "Cargo.toml"), cargo)
        _write_if_changed(os.path.join(d, "src", "main.rs"), emit_shard(progs))
    ws = "[workspace]\nmembers = [%s]\nresolver = \"2\"\n\n[profile.dev]\ndebug = 0\nopt-level = 0\n\n[profile.release]\noverflow-checks = false\ndebug-assertions = false\nopt-level = 1\n" % ", ".join('"%s"' % m for m in members)
    _write_if_changed(os.path.join(root, "Cargo.toml"), ws)
    # stale shards
    for d in os.listdir(root):
        if d.startswith("shard") and d not in members:
            shutil.rmtree(os.path.join(root, d))
    lock = os.path.join(repo, "Cargo.lock")
    if os.path.exists(lock) and not os.path.exists(os.path.join(root, "Cargo.lock")):
        shutil.copy(lock, os.path.join(root, "Cargo.lock"))


def _write_if_changed(path, text):
    if os.path.exists(path) and open(path).read() == text:
        return
    with open(path, "w") as f:
        f.write(text)
