"""Python-side statement of the properties on generated schemas (used only by the Stage C search
for a concrete failing input: what the *property text* requires of the implementation's
output, independent of the Coq model)."""
import json
from . import schema as S
from . import program as P


def resolve(t):
    """strip transparent levels"""
    while True:
        ch = S.children(t)
        if ch is not None and ch[0] == "pass":
            t = ch[1]
        else:
            return t, ch


def enum(t, D, limit=5000):
    """depth-first enumeration with cut-off D: leaves of depth <= D and internal nodes at depth D"""
    out = []

    def go(t, steps):
        if len(out) > limit:
            return
        t, ch = resolve(t)
        if ch is None:
            out.append((steps, True)); return
        if len(steps) == D:
            out.append((steps, False)); return
        lk, cs = ch
        n = S.lk_len(lk)
        for i in range(n):
            c = cs[0][1] if lk[0] == "homog" else cs[i][1]
            nm = lk[1][i] if lk[0] == "named" else None
            go(c, steps + [(i, nm, n)])
    go(t, [])
    return out


def subtree(t, steps):
    for (i, _, _) in steps:
        t, ch = resolve(t)
        lk, cs = ch
        t = cs[0][1] if lk[0] == "homog" else cs[i][1]
    return t


def bits_for(n):
    return max(1, n.bit_length())


def render(steps, tg, D=None):
    t = tg["t"]
    if t == "unit":
        return []
    if t in ("idx", "idxd", "u8"):
        cap = D if t == "idxd" else tg.get("cap", 2000)
        if t in ("idx",) and cap > 64 and D is not None:
            cap = 64      # the iteration harness holds at most 64 indices (common/src/keys.rs: TI); transcode uses the capacity as given
        if len(steps) > cap or (t == "u8" and any(s[0] > 255 for s in steps)):
            return None
        return [s[0] for s in steps] + [0] * (cap - len(steps))
    if t == "path":
        s = "".join(chr(tg["sep"]) + P.name_of(x) for x in steps)
        return None if len(s.encode()) > tg.get("cap", 2000) else [ord(c) for c in s]
    if t == "json":
        s = "".join((".%s" % x[1]) if x[1] is not None else ("[%d]" % x[0]) for x in steps)
        return None if len(s.encode()) > tg.get("cap", 2000) else [ord(c) for c in s]
    if t == "packed":
        w = P.packed_word(steps)
        return w
    raise ValueError(t)


def fail_depth(steps, tg, D=None):
    """1-based index of the first key whose encoding does not fit, or None"""
    for d in range(1, len(steps) + 1):
        if render(steps[:d], tg, D) is None:
            return d
    return None


def metadata(t):
    t, ch = resolve(t)
    if ch is None:
        return dict(count=1, depth=0, length=0, bits=0)
    lk, cs = ch
    n = S.lk_len(lk)
    b = bits_for(n - 1)
    if lk[0] == "homog":
        m = metadata(cs[0][1])
        return dict(count=n * m["count"], depth=1 + m["depth"], length=len(str(n - 1)) + m["length"], bits=b + m["bits"])
    ms = [metadata(c) for _, c in cs]
    names = [len((lk[1][i] if lk[0] == "named" else str(i)).encode()) for i in range(n)]
    return dict(count=sum(m["count"] for m in ms), depth=1 + max(m["depth"] for m in ms),
                length=max(nl + m["length"] for nl, m in zip(names, ms)), bits=b + max(m["bits"] for m in ms))


def skeleton(t):
    t, ch = resolve(t)
    if ch is None:
        return []
    lk, cs = ch
    if lk[0] == "named":
        lo = [0, [[ord(c) for c in n] for n in lk[1]]]
    else:
        lo = [1 if lk[0] == "numbered" else 2, lk[1]]
    return [lo, [skeleton(c) for _, c in cs]]


def path_attrs(t, steps):
    """derive attributes (field dicts) met along the path, top-down, with the depth (keys consumed) of each"""
    out = []
    d = 0
    i = 0
    while True:
        k = t["k"]
        if k in ("struct", "enum") and t["flatten"]:
            f = S.retained(t)[0]
            out.append((f, d)); t = f["t"]; continue
        ch = S.children(t)
        if ch is None:
            break
        if ch[0] == "pass":
            t = ch[1]; continue
        if i >= len(steps):
            break
        lk, cs = ch
        idx = steps[i][0]
        a, c = (cs[0] if lk[0] == "homog" else cs[idx])
        d += 1; i += 1
        if a is not None:
            out.append((a, d))
        t = c
    return out


def val_json(o):
    tag = o[0]
    if tag == 0:
        return o[1]
    if tag == 1:
        return bool(o[1])
    if tag == 2:
        return None
    if tag == 3:
        return None if o[1] == [] else val_json(o[1][0])
    if tag == 4:
        return [val_json(x) for x in o[1]]
    if tag == 5:
        return "".join(chr(c) for c in o[1])
    if tag == 6:
        return S.TAGS[o[1]]
    raise ValueError(o)


def snap_leaves(s, path=()):
    """flatten a snapshot obs into {path: leaf obs}"""
    k = s[0]
    if k == 0:
        return {path: s}
    if k == 1:
        return {path + ("g",): ("state", s[1]), **(snap_leaves(s[2], path + ("g",)) if len(s) > 2 else {})} if False else \
            dict([((path + ("gs",)), ("state", s[1]))] + (list(snap_leaves(s[2], path + ("g",)).items()) if len(s) > 2 else []))
    if k == 2:
        out = {}
        for i, c in enumerate(s[1]):
            out.update(snap_leaves(c, path + (i,)))
        return out
    if k == 3:
        return dict([((path + ("act",)), ("active", s[1]))] + (list(snap_leaves(s[2], path + ("s",)).items()) if len(s) > 2 else []))
    raise ValueError(s)


# ---------------------------------------------------------------------- reference key resolution
# (the documented semantics of key sources and of the top-down walk, written independently in Python;
#  used only by the Stage C search)
W64 = 1 << 64


class IterKeys:
    def __init__(self, items):
        self.items = list(items)

    def next(self, lk):
        if not self.items:
            return "short"
        return find(self.items.pop(0), lk)

    def fin(self):
        if self.items:
            self.items.pop(0)
            return False
        return True


class PackedKeys:
    def __init__(self, w):
        self.w = w

    def next(self, lk):
        n = S.lk_len(lk)
        bits = bits_for(n - 1)
        if bits >= 64:
            return "short"
        nw = (self.w << bits) % W64
        if nw == 0:
            return "short"
        v = (self.w >> (63 - bits)) >> 1
        self.w = nw
        return v if v < n else "notfound"

    def fin(self):
        return self.w == 1 << 63


class ChainKeys:
    def __init__(self, a, b):
        self.a, self.b = a, b

    def next(self, lk):
        r = self.a.next(lk)
        return self.b.next(lk) if r == "short" else r

    def fin(self):
        return self.a.fin() and self.b.fin()


def parse_usize(s):
    if s.startswith("+"):
        s = s[1:]
    if not s or any(c not in "0123456789" for c in s):
        return None
    v = int(s)
    return v if v < W64 else None


def find(item, lk):
    kind, v = item
    n = S.lk_len(lk)
    if kind == "int":
        return v if 0 <= v < W64 and v < n else "notfound"
    if lk[0] == "named":
        return lk[1].index(v) if v in lk[1] else "notfound"
    i = parse_usize(v)
    return i if i is not None and i < n else "notfound"


def json_split(s):
    out = []
    while True:
        for op, close, brk in ((".'", "'", False), (".", None, True), ("['", "']", False), ("[", "]", False)):
            if s.startswith(op):
                rest = s[len(op):]
                if brk:
                    ends = [i for i in (rest.find("."), rest.find("[")) if i >= 0]
                    e = min(ends) if ends else len(rest)
                    out.append(rest[:e]); s = rest[e:]
                else:
                    e = rest.find(close)
                    if e < 0:
                        return out
                    out.append(rest[:e]); s = rest[e + len(close):]
                break
        else:
            return out


def make_keys(spec):
    k = spec["k"]
    if k == "ints":
        return IterKeys([("int", int(v)) for v in spec["v"]])
    if k == "names":
        return IterKeys([("str", v) for v in spec["v"]])
    if k == "path":
        return IterKeys([("str", v) for v in spec["s"].split(chr(spec["sep"]))[1:]])
    if k == "json":
        return IterKeys([("str", v) for v in json_split(spec["s"])])
    if k == "packed":
        return PackedKeys(int(spec["w"]))
    if k == "chain":
        return ChainKeys(make_keys(spec["a"]), make_keys(spec["b"]))
    raise ValueError(k)


def ref_traverse(t, spec):
    """documented outcome of the type-level traversal: (('ok'|'tooshort'|'notfound'|'toolong'), depth, steps)"""
    keys = make_keys(spec)
    steps = []
    while True:
        t, ch = resolve(t)
        if ch is None:
            return ("ok" if keys.fin() else "toolong", len(steps), steps)
        lk, cs = ch
        r = keys.next(lk)
        if r == "short":
            return ("tooshort", len(steps), steps)
        if r == "notfound":
            return ("notfound", len(steps) + 1, steps)
        n = S.lk_len(lk)
        steps.append((r, lk[1][r] if lk[0] == "named" else None, n))
        t = cs[0][1] if lk[0] == "homog" else cs[r][1]


# ---------------------------------------------------------------------- runtime presence (documented value-level semantics)
def ref_absent(t, val, steps):
    """walk type and runtime value along the index steps of a node: ('absent', depth) for the first Option::None /
    inactive variant met (depth = keys consumed when it is noticed), ('present',) if there is none, or None when the
    path crosses something this reference does not judge (gates other than Option / Box, flatten, callbacks, deny)"""
    d = 0
    i = 0
    while True:
        k = t["k"]
        if k == "gate":
            if t["g"] == "Option":
                if val[1] == 1:
                    return ("absent", d)
                t, val = t["t"], val[2]
                continue
            if t["g"] == "Box" and val[1] == 0:
                t, val = t["t"], val[2]
                continue
            return None
        if k in ("leaf", "strleaf"):
            return ("present",) if i == len(steps) else None
        if k == "deny":
            return None
        if i == len(steps):
            return ("present",)
        idx = steps[i][0]
        if k in ("struct", "enum") and t["flatten"]:
            return None
        if k == "struct":
            fs = S.retained(t)
            f = fs[idx]
            if f.get("deny") or f.get("get") or f.get("getmut") or f.get("val") or f.get("defer"):
                return None
            t, val = f["t"], val[1][idx]
        elif k == "enum":
            fs = S.retained(t)
            f = fs[idx]
            d += 1
            i += 1
            if val[1] != idx:
                return ("absent", d)      # the absent-variant check comes before the variant's deny / accessors
            if f.get("deny") or f.get("get") or f.get("getmut") or f.get("val") or f.get("defer"):
                return None
            t, val = f["t"], val[2]
            continue
        elif k == "arr":
            t, val = t["t"], val[1][idx]
        elif k == "tuple":
            t, val = t["ts"][idx], val[1][idx]
        elif k in ("result", "bound"):
            d += 1
            i += 1
            if val[1] != idx:
                return ("absent", d)
            t, val = (t["t"] if (k == "bound" or idx == 0) else t["e"]), val[2]
            continue
        elif k in ("range", "rangeincl", "rangefrom", "rangeto"):
            t, val = t["t"], val[1][idx]
        else:
            return None
        d += 1
        i += 1
