"""Curated programs run before the random ones (coverage of every impl row and attribute;
minimised failing cases are appended here)."""
from . import schema as S


def curated():
    return []
