"""Curated programs run before the random ones: every impl row and derive attribute, lengths that
straddle powers of ten and two, nodes whose widest child is not the deepest, deep nesting of
callbacks.  Minimised failing cases found by earlier runs are appended here."""
import random
from . import schema as S


def L(tid=1):
    return dict(k="leaf", tid=tid)


def F(name, t, **kw):
    f = dict(name=name, rename=None, skip=False, defer=False, t=t, deny={}, get=None, getmut=None, val=None)
    f.update(kw)
    return f


def ST(name, fields, style="named", flatten=False):
    return dict(k="struct", name=name, style=style, flatten=flatten, fields=fields)


def EN(name, variants, flatten=False):
    return dict(k="enum", name=name, flatten=flatten, variants=variants)


def V(name, t, **kw):
    v = dict(name=name, rename=None, skip=False, unit=False, t=t, deny={}, get=None, getmut=None, val=None)
    v.update(kw)
    return v


def G(g, t):
    return dict(k="gate", g=g, t=t)


def A(n, t):
    return dict(k="arr", n=n, t=t)


def curated():
    rng = random.Random(20260930)
    out = []
    # 1. tuple struct with 12 fields, the longest path through index 10
    inner = ST("C1i", [F("value", L(6))])
    out.append(ST("C1", [F("f%d" % i, (inner if i == 10 else L(1 + i % 9))) for i in range(12)], style="tuple"))
    # 2. every range / result / bound impl, Result with arms of different shape
    out.append(ST("C2", [F("r", dict(k="range", t=L(6))), F("rf", dict(k="rangefrom", t=A(2, L(1)))), F("rt", dict(k="rangeto", t=L(9))),
                         F("res", dict(k="result", t=A(2, L(1)), e=L(6))), F("b", dict(k="bound", t=ST("C2b", [F("x", L(2)), F("y", L(3))]))),
                         F("o", G("Option", dict(k="range", t=L(1))))]))
    # 3. widest child is not the deepest child; widths around powers of two
    mid = ST("C3m", [F("a", ST("C3n", [F("b", L(1))]))])
    out.append(ST("C3", [F("narrow", mid), F("wide", A(16, L(1))), F("w17", A(17, L(9))), F("t3", dict(k="tuple", ts=[L(1), L(2), L(3)])),
                         F("t4", dict(k="tuple", ts=[L(1), L(2), L(3), L(6)])), F("t5", dict(k="tuple", ts=[L(1)] * 5))]))
    # 4. array lengths around powers of ten
    out.append(ST("C4", [F("a9", A(9, L(1))), F("a10", A(10, L(1))), F("a11", A(11, L(1))), F("a99", A(99, L(9))), F("a100", A(100, L(9))),
                         F("a101", A(101, A(2, L(1))))]))
    # 5. every wrapper, nested, with callbacks at three levels, deny, defer, rename, skip, flatten, enum
    deep = ST("C5d", [F("x", L(6), val=31), F("d", L(1), deny={"OSer": 3, "ORef": 4}), F("sk", dict(k="skipped", v=5), skip=True),
                      F("y", A(2, L(1)), get=32, getmut=33)])
    mid5 = ST("C5m", [F("a", deep, get=21, getmut=22, val=23), F("bb", deep, rename="r_b", defer=True, getmut=24),
                      F("e", EN("C5e", [V("A", L(6)), dict(name="U", rename=None, skip=False, unit=True, t=None, deny={}, get=None, getmut=None, val=None),
                                        V("B", deep, rename="bee", deny={"ODe": 7})]))])
    flat = ST("C5f", [F("f0", mid5, val=12)], style="tuple", flatten=True)
    out.append(ST("C5", [F("g", flat, getmut=11, val=13), F("o", G("Option", mid5), val=14),
                         F("w", dict(k="tuple", ts=[G("Box", L(1)), G("Cell", L(6)), G("RefCell", L(9)), G("Cow", L(13)), G("Rc", L(1)),
                                                     G("Arc", A(2, L(2))), G("Mutex", L(6)), G("RwLock", L(1))])),
                         F("s", dict(k="strleaf")), F("dn", dict(k="deny", tid=6))]))
    # 6. compound leaves (arrays / tuples / Option inside one Leaf): partially valid payloads
    out.append(ST("C6", [F("p", L(12)), F("q", L(14)), F("o", L(11)), F("s", L(13)), F("g", G("Option", L(12))), F("a", A(2, L(14)))]))
    # 7. 21 levels of 8-field structs (3 bits each): the packed keys of the deepest leaves need exactly 63 bits
    #    (all of a Packed word); one leaf position one level further down (64 bits) does not fit
    def wide(k):
        if k == 0:
            return ST("C7_0", [F("f0", L(3))] + [F("f%d" % i, (ST("C7x", [F("p", L(1)), F("q", L(9))]) if i == 5 else L(1 + i % 9))) for i in range(1, 8)])
        return ST("C7_%d" % k, [F("f0", wide(k - 1))] + [F("f%d" % i, L(1 + (i + k) % 9)) for i in range(1, 8)])
    out.append(wide(20))
    # 8. names that are longer in bytes than in characters (renames with non-ASCII text) on the longest path
    out.append(ST("C8", [F("a", L(1)), F("gr", ST("C8g", [F("ma", ST("C8m", [F("la", L(6), rename="l\u00e4nge"), F("x", L(1))]), rename="ma\u00df"), F("y", L(3))]),
                                         rename="Gr\u00f6\u00dfe"), F("zz", A(3, L(2)))]))
    # 9-12. RangeInclusive (implements TreeKey + TreeSerialize only): as the root over an internal node, inside an array,
    #       behind Option over a tuple, and inside a tuple next to other children
    RI = lambda t: dict(k="rangeincl", t=t)
    out.append(RI(A(4, L(6))))
    out.append(A(2, RI(L(1))))
    out.append(G("Option", RI(dict(k="tuple", ts=[L(1), A(3, L(9))]))))
    out.append(dict(k="tuple", ts=[RI(L(6)), L(3), RI(A(2, L(2)))]))
    # 14-16. rc::Weak / sync::Weak (TreeKey + TreeSerialize + TreeDeserialize, no TreeAny), alive and dead: as the root
    #         over an internal node, inside an array, behind Option and inside a tuple
    out.append(G("RcWeak", A(2, L(6))))
    out.append(A(2, G("ArcWeak", dict(k="tuple", ts=[L(1), L(9)]))))
    out.append(dict(k="tuple", ts=[G("Option", G("RcWeak", L(3))), L(1), G("ArcWeak", A(2, L(2)))]))
    # 17-19. reference wrappers: &mut T (all traits), &RefCell / &Mutex / &RwLock (no TreeAny; borrowed / poisoned states),
    #         plain &T (TreeKey + TreeSerialize only)
    out.append(dict(k="tuple", ts=[G("RefMut", A(2, L(6))), L(1), G("RefMut", L(9))]))
    out.append(dict(k="tuple", ts=[G("RefRefCell", A(2, L(3))), G("RefMutex", L(6)), G("RefRwLock", dict(k="tuple", ts=[L(1), L(9)])), G("RefRefCell", L(1))]))
    out.append(dict(k="tuple", ts=[G("Ref", L(6)), L(2), G("Ref", A(3, L(1)))]))
    # 20. deny on enum variants with no accessor above them: the absent-variant check precedes the variant's deny
    out.append(ST("C20", [F("e", EN("C20e", [V("A", L(6)), V("B", L(1), deny={"OSer": 3, "ORef": 4}),
                                              V("C", ST("C20c", [F("x", L(2))]), deny={"ODe": 5, "OMut": 6})])), F("z", L(9))]))
    # 21. RangeTo / RangeFrom on the bit-widest path (their own level costs one bit)
    out.append(ST("C21", [F("gain", L(1)), F("below", A(4, dict(k="rangeto", t=L(6)))), F("from", A(2, dict(k="rangefrom", t=L(3))))]))
    # 13. 63 nested one-element arrays (one bit per level): max_bits is exactly the capacity of a Packed word
    t63 = L(1)
    for _ in range(63):
        t63 = A(1, t63)
    out.append(t63)
    res = []
    for t in out:
        res.append((t, [S.value(rng, t) for _ in range(3 if (S.has_gate(t, tuple(S.WEAK) + S.REF_NOANY) or t.get("name") == "C20") else 2)]))
    return res


def dedicated():
    """programs outside the properties' preconditions, run only in the stream of the named property and
    matched against known_findings.txt: (type, states, property, finding class)"""
    rng = random.Random(20261001)
    # the derive macro accepts two retained children with the same name (rename collision)
    dup = ST("Dup", [F("a", L(1)), F("b", L(3), rename="a"), F("c", A(2, L(1)))])
    return [(dup, [S.value(rng, dup) for _ in range(2)], "C04", "dup-names")]
