"""Random tree types ("programs") for the generated-program harness: a schema is a nested dict;
from it we emit (i) Rust type definitions with #[derive(Tree)] and attributes, scripted
callbacks, a constructor per runtime state and a plain-field-access snapshot, and (ii) the
same schema / runtime value as terms of the Coq model (coq/Tree.v)."""
import random

# leaf payload types: tid -> (rust type, is Copy)
LEAF = {1: ("u8", True), 2: ("i8", True), 3: ("u16", True), 4: ("i16", True), 5: ("u32", True), 6: ("i32", True),
        7: ("u64", True), 8: ("i64", True), 9: ("bool", True), 10: ("()", True), 11: ("Option<i8>", True),
        12: ("[u16; 2]", True), 13: ("heapless::String<8>", False), 14: ("(u8, bool)", True)}
INT_RANGE = {1: (0, 255), 2: (-128, 127), 3: (0, 65535), 4: (-32768, 32767), 5: (0, 2**32 - 1), 6: (-2**31, 2**31 - 1),
             7: (0, 2**64 - 1), 8: (-2**63, 2**63 - 1)}
TAGS = ["A", "Bb", "Ccc"]
GATES = ["Option", "Box", "Cell", "RefCell", "Cow", "Rc", "Arc", "Mutex", "RwLock"]
GATE_COQ = {"Option": "GOption", "Box": "GBox", "Cell": "GCell", "RefCell": "GRefCell", "Cow": "GCow", "Rc": "GRc",
            "Arc": "GArc", "Mutex": "GMutex", "RwLock": "GRwLock", "RcWeak": "GRcWeak", "ArcWeak": "GArcWeak"}
# rc::Weak / sync::Weak implement TreeKey + TreeSerialize + TreeDeserialize but not TreeAny: curated programs only
# (corpus.py), run through the runner without ref_any / mut_any
WEAK = {"RcWeak": ("std::rc::Weak", "Rc"), "ArcWeak": ("std::sync::Weak", "Arc")}
# reference wrappers (leaked boxes): &mut T has all four traits (blanket impls); &RefCell / &Mutex / &RwLock have TreeKey +
# TreeSerialize (through &T) + TreeDeserialize (interior mutability), no TreeAny; plain &T only TreeKey + TreeSerialize
GATE_COQ.update({"RefMut": "GRefMut", "RefRefCell": "GRefRefCell", "RefMutex": "GMutex", "RefRwLock": "GRwLock", "Ref": "GBox"})
REF_NOANY = ("RefRefCell", "RefMutex", "RefRwLock")
REF_RO = ("Ref",)
OPS = ["OSer", "ODe", "ORef", "OMut"]
DENY_KEYS = {"OSer": "serialize", "ODe": "deserialize", "ORef": "ref_any", "OMut": "mut_any"}


class Gen:
    def __init__(self, rng):
        self.rng = rng
        self.nstruct = 0
        self.ncb = 0
        self.defs = []      # rust definitions in dependency order

    # ------------------------------------------------------------------ random schemas
    def leaf(self, copy_only=False):
        tid = self.rng.choice([t for t in LEAF if (LEAF[t][1] or not copy_only)])
        return dict(k="leaf", tid=tid)

    def cb(self):
        self.ncb += 1
        return self.ncb

    def simple(self, depth, copy_only=True):
        """leaf / array / tuple of leaves: Copy + Clone types for Cell and Cow"""
        r = self.rng.random()
        if depth <= 0 or r < 0.5:
            return self.leaf(copy_only)
        if r < 0.75:
            return dict(k="arr", n=self.rng.choice([1, 2, 3]), t=self.simple(depth - 1, copy_only))
        return dict(k="tuple", ts=[self.simple(depth - 1, copy_only) for _ in range(self.rng.randint(1, 3))])

    def ty(self, depth, top=False):
        rng = self.rng
        if depth <= 0:
            r = rng.random()
            if r < 0.8:
                return self.leaf()
            if r < 0.9:
                return dict(k="strleaf")
            return dict(k="deny", tid=rng.choice([1, 6, 9]))
        r = rng.random()
        if top or r < 0.32:
            return self.struct(depth)
        if r < 0.42:
            return self.enum(depth)
        if r < 0.54:
            return dict(k="arr", n=rng.choice([1, 2, 3, 4, 5, 9, 10, 11]) if rng.random() < 0.8 else rng.choice([16, 17, 100]),
                        t=self.ty(depth - 1))
        if r < 0.62:
            return dict(k="tuple", ts=[self.ty(depth - 1) for _ in range(rng.choice([1, 2, 2, 3, 3, 4, 8]))])
        if r < 0.80:
            g = rng.choice(GATES)
            if g == "Cell":
                return dict(k="gate", g=g, t=self.simple(min(depth - 1, 1), True))
            if g == "Cow":
                return dict(k="gate", g=g, t=self.simple(min(depth - 1, 1), False))
            return dict(k="gate", g=g, t=self.ty(depth - 1))
        if r < 0.84:
            return dict(k="result", t=self.ty(depth - 1), e=self.ty(depth - 1))
        if r < 0.87:
            return dict(k="bound", t=self.ty(depth - 1))
        if r < 0.91:
            return dict(k="range", t=self.ty(depth - 1))
        if r < 0.93:
            return dict(k="rangefrom", t=self.ty(depth - 1))
        if r < 0.95:
            return dict(k="rangeto", t=self.ty(depth - 1))
        return self.leaf()

    def attrs(self, allow_cb=True):
        rng = self.rng
        a = dict(deny={}, get=None, getmut=None, val=None)
        if rng.random() < 0.12:
            for o in OPS:
                if rng.random() < 0.4:
                    a["deny"][o] = rng.randint(1, 15)
        if allow_cb:
            if rng.random() < 0.15:
                a["get"] = self.cb()
            if rng.random() < 0.15:
                a["getmut"] = self.cb()
            if rng.random() < 0.22:
                a["val"] = self.cb()
        return a

    def struct(self, depth):
        rng = self.rng
        self.nstruct += 1
        name = "S%d" % self.nstruct
        style = "named" if rng.random() < 0.7 else "tuple"
        flatten = rng.random() < 0.12
        n = 1 if flatten else rng.choice([1, 2, 2, 3, 3, 4, 5])
        fields = []
        for i in range(n):
            f = dict(name="f%d" % i, rename=None, skip=False, defer=False, t=self.ty(depth - 1))
            f.update(self.attrs())
            if style == "named" and rng.random() < 0.15:
                f["rename"] = "r%d_%s" % (i, rng.choice(["x", "long_name", "Q"]))
            if style == "named" and not flatten and rng.random() < 0.10:
                f["defer"] = True     # #[tree(typ=.., defer=self.h<i>)] f<i>: ()  +  #[tree(skip)] h<i>: T
            fields.append(f)
        # skipped fields: anywhere in a named struct, only at the end of a tuple struct
        if rng.random() < 0.25:
            sk = dict(name="s%d" % len(fields), rename=None, skip=True, defer=False, t=dict(k="skipped", v=rng.randint(0, 99)),
                      deny={}, get=None, getmut=None, val=None)
            if style == "named":
                fields.insert(rng.randint(0, len(fields)), sk)
            else:
                fields.append(sk)
        s = dict(k="struct", name=name, style=style, flatten=flatten, fields=fields)
        return s

    def enum(self, depth):
        rng = self.rng
        self.nstruct += 1
        name = "E%d" % self.nstruct
        flatten = rng.random() < 0.12
        n = 1 if flatten else rng.choice([1, 2, 2, 3])
        variants = []
        for i in range(n):
            v = dict(name="V%d" % i, rename=("w%d" % i if rng.random() < 0.15 else None), skip=False, unit=False, t=self.ty(depth - 1))
            v.update(self.attrs(allow_cb=False))
            v["val"] = None
            variants.append(v)
        if rng.random() < 0.4:   # unit / skipped variants do not appear in the tree
            variants.insert(rng.randint(0, len(variants)), dict(name="U", rename=None, skip=False, unit=True, t=None, deny={}, get=None, getmut=None, val=None))
        if rng.random() < 0.2:
            variants.insert(rng.randint(0, len(variants)), dict(name="K", rename=None, skip=True, unit=False, t=dict(k="skipped", v=7), deny={}, get=None, getmut=None, val=None))
        return dict(k="enum", name=name, flatten=flatten, variants=variants)


# ---------------------------------------------------------------------- structure helpers
def retained(s):
    if s["k"] == "struct":
        return [f for f in s["fields"] if not f["skip"]]
    return [v for v in s["variants"] if not v["skip"] and not v["unit"]]


def key_name(f):
    return f["rename"] or f["name"]


def children(t):
    """(lookup, [(attrs or None, child type)]) for internal nodes; None for leaves; ('pass', child) for transparent"""
    k = t["k"]
    if k in ("leaf", "strleaf", "deny"):
        return None
    if k == "gate":
        return ("pass", t["t"])
    if k == "arr":
        return (("homog", t["n"]), [(None, t["t"])])
    if k == "tuple":
        return (("numbered", len(t["ts"])), [(None, x) for x in t["ts"]])
    if k == "result":
        return (("named", ["Ok", "Err"]), [(None, t["t"]), (None, t["e"])])
    if k == "bound":
        return (("named", ["Included", "Excluded"]), [(None, t["t"]), (None, t["t"])])
    if k in ("range", "rangeincl"):
        return (("named", ["start", "end"]), [(None, t["t"]), (None, t["t"])])
    if k == "rangefrom":
        return (("named", ["start"]), [(None, t["t"])])
    if k == "rangeto":
        return (("named", ["end"]), [(None, t["t"])])
    if k in ("struct", "enum"):
        fs = retained(t)
        if t["flatten"]:
            return ("pass", fs[0]["t"])
        if k == "struct" and t["style"] == "tuple":
            return (("numbered", len(fs)), [(f, f["t"]) for f in fs])
        return (("named", [key_name(f) for f in fs]), [(f, f["t"]) for f in fs])
    raise ValueError(k)


def lk_len(lk):
    return len(lk[1]) if lk[0] == "named" else lk[1]


def nodes(t, limit=400):
    """all nodes as list of (steps, is_leaf); a step is (index, name or None, len).  Homogeneous arrays are expanded
    up to a few indices (first, second, last)."""
    out = []

    def go(t, steps):
        if len(out) >= limit:
            return
        ch = children(t)
        if ch is None:
            out.append((steps, True))
            return
        if ch[0] == "pass":
            go(ch[1], steps)
            return
        lk, cs = ch
        out.append((steps, False))
        n = lk_len(lk)
        if lk[0] == "homog":
            idxs = sorted(set([0, 1, n - 1]) & set(range(n)))
            for i in idxs:
                go(cs[0][1], steps + [(i, None, n)])
        else:
            for i, (_, c) in enumerate(cs):
                nm = lk[1][i] if lk[0] == "named" else None
                go(c, steps + [(i, nm, n)])
    go(t, [])
    return out


def max_depth(t):
    ch = children(t)
    if ch is None:
        return 0
    if ch[0] == "pass":
        return max_depth(ch[1])
    return 1 + max(max_depth(c) for _, c in ch[1])


def has_kind(t, kinds):
    if t["k"] in kinds:
        return True
    ch = children(t)
    if ch is None:
        return False
    if ch[0] == "pass":
        return has_kind(ch[1], kinds)
    return any(has_kind(c, kinds) for _, c in ch[1])


def has_gate(t, gates):
    if t["k"] == "gate" and t["g"] in gates:
        return True
    ch = children(t)
    if ch is None:
        return False
    if ch[0] == "pass":
        return has_gate(ch[1], gates)
    return any(has_gate(c, gates) for _, c in ch[1])


# ---------------------------------------------------------------------- Rust emission
def rust_type(t):
    k = t["k"]
    if k == "leaf":
        return "Leaf<%s>" % LEAF[t["tid"]][0]
    if k == "strleaf":
        return "StrLeaf<Tag3>"
    if k == "deny":
        return "Deny<%s>" % LEAF[t["tid"]][0]
    if k == "gate":
        inner = rust_type(t["t"])
        return {"Option": "Option<%s>", "Box": "Box<%s>", "Cell": "Cell<%s>", "RefCell": "RefCell<%s>", "Cow": "Cow<'static, %s>",
                "Rc": "Rc<%s>", "Arc": "Arc<%s>", "Mutex": "Mutex<%s>", "RwLock": "RwLock<%s>",
                "RcWeak": "std::rc::Weak<%s>", "ArcWeak": "std::sync::Weak<%s>", "RefMut": "&'static mut %s", "Ref": "&'static %s",
                "RefRefCell": "&'static RefCell<%s>", "RefMutex": "&'static Mutex<%s>", "RefRwLock": "&'static RwLock<%s>"}[t["g"]] % inner
    if k == "arr":
        return "[%s; %d]" % (rust_type(t["t"]), t["n"])
    if k == "tuple":
        return "(%s,)" % ", ".join(rust_type(x) for x in t["ts"])
    if k == "result":
        return "Result<%s, %s>" % (rust_type(t["t"]), rust_type(t["e"]))
    if k == "bound":
        return "Bound<%s>" % rust_type(t["t"])
    if k == "range":
        return "Range<%s>" % rust_type(t["t"])
    if k == "rangeincl":
        return "RangeInclusive<%s>" % rust_type(t["t"])
    if k == "rangefrom":
        return "RangeFrom<%s>" % rust_type(t["t"])
    if k == "rangeto":
        return "RangeTo<%s>" % rust_type(t["t"])
    if k in ("struct", "enum"):
        return t["name"]
    if k == "skipped":
        return "u32"
    raise ValueError(k)


def attr_list(f, typ=None):
    a = []
    if f.get("rename"):
        a.append('rename = "%s"' % f["rename"])
    if f.get("skip"):
        a.append("skip")
    if f.get("get"):
        a.append("get = self.g%d()" % f["get"])
    if f.get("getmut"):
        a.append("get_mut = self.gm%d()" % f["getmut"])
    if f.get("val"):
        a.append("validate = self.v%d" % f["val"])
    if f.get("deny"):
        a.append("deny(%s)" % ", ".join('%s = "m%d"' % (DENY_KEYS[o], m) for o, m in sorted(f["deny"].items())))
    if typ:
        a += typ
    return ("#[tree(%s)] " % ", ".join(a)) if a else ""


def rust_defs(t, out, seen):
    """append struct/enum definitions (dependencies first)"""
    k = t["k"]
    for sub in ([t.get("t")] if isinstance(t.get("t"), dict) else []) + ([t.get("e")] if "e" in t else []) + list(t.get("ts", [])):
        if sub is not None:
            rust_defs(sub, out, seen)
    if k == "struct":
        if t["name"] in seen:
            return
        seen.add(t["name"])
        for f in t["fields"]:
            if not f["skip"]:
                rust_defs(f["t"], out, seen)
        lines, snaps, impls = [], [], []
        named = t["style"] == "named"
        for i, f in enumerate(t["fields"]):
            fty = rust_type(f["t"])
            acc = ("self.%s" % f["name"]) if named else ("self.%d" % i)
            if f["defer"]:
                acc = "self.h_%s" % f["name"]
            if f["defer"]:
                lines.append('    %s%s: (),' % (attr_list(f, ['typ = "%s"' % fty, "defer = self.h_%s" % f["name"]]), f["name"]))
                lines.append('    #[tree(skip)] h_%s: %s,' % (f["name"], fty))
                snaps.append("self.h_%s.snap()" % f["name"])
            else:
                lines.append("    %s%s%s," % (attr_list(f), (f["name"] + ": ") if named else "", fty))
                if not f["skip"]:
                    snaps.append("%s.snap()" % acc)
            if f["get"]:
                impls.append("    fn g%d(&self) -> Result<&%s, &'static str> { log_get(%d); get_outcome(%d).map(|_| &%s) }" % (f["get"], fty, f["get"], f["get"], acc))
            if f["getmut"]:
                impls.append("    fn gm%d(&mut self) -> Result<&mut %s, &'static str> { log_getmut(%d); get_outcome(%d).map(|_| &mut %s) }" % (f["getmut"], fty, f["getmut"], f["getmut"], acc))
            if f["val"]:
                impls.append("    fn v%d(&mut self, depth: usize) -> Result<usize, &'static str> { log_val(%d, depth); val_outcome(%d, depth) }" % (f["val"], f["val"], f["val"]))
        # skipped fields last in the snapshot
        for i, f in enumerate(t["fields"]):
            if f["skip"]:
                acc = ("self.%s" % f["name"]) if named else ("self.%d" % i)
                snaps.append("l(vec![z(0), z(0), l(vec![z(0), z(%s)])])" % acc)
        fl = "#[tree(flatten)]\n" if t["flatten"] else ""
        if named:
            out.append("#[derive(Tree)]\n%spub struct %s {\n%s\n}" % (fl, t["name"], "\n".join(lines)))
        else:
            out.append("#[derive(Tree)]\n%spub struct %s(\n%s\n);" % (fl, t["name"], "\n".join(lines)))
        if impls:
            out.append("impl %s {\n%s\n}" % (t["name"], "\n".join(impls)))
        out.append("impl Snap for %s { fn snap(&self) -> Obs { prod(vec![%s]) } }" % (t["name"], ", ".join(snaps)))
    elif k == "enum":
        if t["name"] in seen:
            return
        seen.add(t["name"])
        lines, arms = [], []
        j = 0
        for v in t["variants"]:
            if v["unit"]:
                lines.append("    %s," % v["name"])
                arms.append("Self::%s => sum(-1, None)" % v["name"])
            elif v["skip"]:
                lines.append("    #[tree(skip)] %s(u32)," % v["name"])
                arms.append("Self::%s(_) => sum(-1, None)" % v["name"])
            else:
                rust_defs(v["t"], out, seen)
                vattr = ('#[tree(rename = "%s")] ' % v["rename"]) if v.get("rename") else ""
                fattr = attr_list(dict(v, rename=None))
                lines.append("    %s%s(%s%s)," % (vattr, v["name"], fattr, rust_type(v["t"])))
                arms.append("Self::%s(x) => sum(%d, Some(x.snap()))" % (v["name"], j))
                j += 1
        fl = "#[tree(flatten)]\n" if t["flatten"] else ""
        out.append("#[derive(Tree)]\n%spub enum %s {\n%s\n}" % (fl, t["name"], "\n".join(lines)))
        out.append("impl Snap for %s { fn snap(&self) -> Obs { match self { %s } } }" % (t["name"], ", ".join(arms)))


# ---------------------------------------------------------------------- runtime values
def leaf_value(rng, tid):
    if tid in INT_RANGE:
        lo, hi = INT_RANGE[tid]
        return ("int", rng.choice([lo, hi, 0, 1, rng.randint(lo, hi)]))
    if tid == 9:
        return ("bool", rng.random() < 0.5)
    if tid == 10:
        return ("unit",)
    if tid == 11:
        return ("opt", None if rng.random() < 0.3 else ("int", rng.randint(-128, 127)))
    if tid == 12:
        return ("arr", [("int", rng.randint(0, 65535)) for _ in range(2)])
    if tid == 13:
        return ("str", "".join(rng.choice("abXY_é7 ") for _ in range(rng.randint(0, 4))))
    if tid == 14:
        return ("arr", [("int", rng.randint(0, 255)), ("bool", rng.random() < 0.5)])
    raise ValueError(tid)


def value(rng, t):
    """runtime value description: ('leaf', tid, v) | ('gate', state, inner) | ('prod', [..], [skipped consts]) | ('sum', active or None, inner)"""
    k = t["k"]
    if k in ("leaf", "deny"):
        return ("leaf", t["tid"], leaf_value(rng, t["tid"]))
    if k == "strleaf":
        return ("leaf", 20, ("tag", rng.randint(0, 2)))
    if k == "gate":
        g = t["g"]
        st = 0
        r = rng.random()
        if g == "Option" and r < 0.3:
            return ("gate", 1, None)
        if g in WEAK and r < 0.4:
            return ("gate", 1, None)          # dead: the last strong reference is gone
        if g in ("RefCell", "Rc", "Arc", "Mutex", "RwLock", "RefRefCell", "RefMutex", "RefRwLock") and r < 0.3:
            st = 2
        elif g in ("RefCell", "RefRefCell") and r < 0.5:
            st = 3            # an outstanding shared borrow: reads and &mut access work, try_borrow_mut does not
        if g == "Cow" and r < 0.5:
            return ("gate", 0, value(rng, t["t"]), "borrowed")
        return ("gate", st, value(rng, t["t"]))
    if k == "arr":
        return ("prod", [value(rng, t["t"]) for _ in range(t["n"])], [])
    if k == "tuple":
        return ("prod", [value(rng, x) for x in t["ts"]], [])
    if k == "result":
        i = rng.randint(0, 1)
        return ("sum", i, value(rng, t["t"] if i == 0 else t["e"]))
    if k == "bound":
        i = rng.choice([0, 1, None])
        return ("sum", i, value(rng, t["t"]) if i is not None else None)
    if k in ("range", "rangeincl"):
        return ("prod", [value(rng, t["t"]), value(rng, t["t"])], [])
    if k in ("rangefrom", "rangeto"):
        return ("prod", [value(rng, t["t"])], [])
    if k == "struct":
        return ("prod", [value(rng, f["t"]) for f in t["fields"] if not f["skip"]],
                [f["t"]["v"] for f in t["fields"] if f["skip"]])
    if k == "enum":
        r = retained(t)
        others = [v for v in t["variants"] if v["unit"] or v["skip"]]
        if others and rng.random() < 0.25:
            return ("sum", None, None, rng.choice(others)["name"])
        i = rng.randrange(len(r))
        return ("sum", i, value(rng, r[i]["t"]))
    raise ValueError(k)


def rust_leaf(tid, v):
    if v[0] == "int":
        return "%d%s" % (v[1], LEAF[tid][0] if tid in INT_RANGE else "")
    if v[0] == "bool":
        return "true" if v[1] else "false"
    if v[0] == "unit":
        return "()"
    if v[0] == "opt":
        return "None" if v[1] is None else "Some(%d)" % v[1][1]
    if v[0] == "arr":
        if tid == 12:
            return "[%s]" % ", ".join(str(x[1]) for x in v[1])
        return "(%d, %s)" % (v[1][0][1], "true" if v[1][1][1] else "false")
    if v[0] == "str":
        return 'heapless::String::try_from("%s").unwrap()' % v[1]
    if v[0] == "tag":
        return "Tag3::%s" % TAGS[v[1]]
    raise ValueError(v)


def rust_build(t, val):
    k = t["k"]
    if k == "leaf":
        return "Leaf(%s)" % rust_leaf(val[1], val[2])
    if k == "deny":
        return "Deny(%s)" % rust_leaf(val[1], val[2])
    if k == "strleaf":
        return "StrLeaf(%s)" % rust_leaf(20, val[2])
    if k == "gate":
        g, st = t["g"], val[1]
        if g == "Option":
            return "None" if st == 1 else "Some(%s)" % rust_build(t["t"], val[2])
        if g in WEAK:
            strong, wity = WEAK[g][1], rust_type(t["t"])
            if st == 1:       # dead: built from a strong reference that is dropped at once
                dummy = rust_build(t["t"], value(random.Random(7), t["t"]))
                return "{ let r: %s<%s> = %s::new(%s); %s::downgrade(&r) }" % (strong, wity, strong, dummy, strong)
            return "{ let r: %s<%s> = %s::new(%s); let w = %s::downgrade(&r); keep.push(Box::new(r)); w }" % (strong, wity, strong, rust_build(t["t"], val[2]), strong)
        inner = rust_build(t["t"], val[2])
        if g == "Box":
            return "Box::new(%s)" % inner
        if g == "Cell":
            return "Cell::new(%s)" % inner
        if g == "Cow":
            if len(val) > 3 and val[3] == "borrowed":
                return "Cow::Borrowed(Box::leak(Box::new(%s)))" % inner
            return "Cow::Owned(%s)" % inner
        ity = rust_type(t["t"])      # explicit types: method calls on the fresh wrapper need them (Cow inside Rc)
        if g == "RefMut":
            return "{ let r: &'static mut %s = Box::leak(Box::new(%s)); r }" % (ity, inner)
        if g == "Ref":
            return "{ let r: &'static %s = Box::leak(Box::new(%s)); r }" % (ity, inner)
        if g == "RefRefCell":
            return "{ let c: &'static RefCell<%s> = Box::leak(Box::new(RefCell::new(%s))); %sc }" % (ity, inner, "std::mem::forget(c.borrow_mut()); " if st == 2 else ("std::mem::forget(c.borrow()); " if st == 3 else ""))
        if g in ("RefMutex", "RefRwLock"):
            cell, lock = ("Mutex", "lock") if g == "RefMutex" else ("RwLock", "write")
            return ("{ let m: &'static %s<%s> = Box::leak(Box::new(%s::new(%s))); %sm }" % (cell, ity, cell, inner, (
                "let _ = std::panic::catch_unwind(std::panic::AssertUnwindSafe(|| { let _g = m.%s().unwrap(); panic!(\"poison\") })); " % lock) if st == 2 else ""))
        if g == "RefCell":
            return "{ let c: RefCell<%s> = RefCell::new(%s); %sc }" % (ity, inner, "std::mem::forget(c.borrow_mut()); " if st == 2 else ("std::mem::forget(c.borrow()); " if st == 3 else ""))
        if g in ("Rc", "Arc"):
            return "{ let r: %s<%s> = %s::new(%s); %sr }" % (g, ity, g, inner, "keep.push(Box::new(r.clone())); " if st == 2 else "")
        if g in ("Mutex", "RwLock"):
            lock = "lock" if g == "Mutex" else "write"
            return ("{ let m: %s<%s> = %s::new(%s); %sm }" % (g, ity, g, inner, (
                "let _ = std::panic::catch_unwind(std::panic::AssertUnwindSafe(|| { let _g = m.%s().unwrap(); panic!(\"poison\") })); " % lock) if st == 2 else ""))
    if k == "arr":
        return "[%s]" % ", ".join(rust_build(t["t"], v) for v in val[1])
    if k == "tuple":
        return "(%s,)" % ", ".join(rust_build(x, v) for x, v in zip(t["ts"], val[1]))
    if k == "result":
        return ("Ok(%s)" if val[1] == 0 else "Err(%s)") % rust_build(t["t"] if val[1] == 0 else t["e"], val[2])
    if k == "bound":
        if val[1] is None:
            return "Bound::Unbounded"
        return ("Bound::Included(%s)" if val[1] == 0 else "Bound::Excluded(%s)") % rust_build(t["t"], val[2])
    if k == "range":
        return "(%s)..(%s)" % (rust_build(t["t"], val[1][0]), rust_build(t["t"], val[1][1]))
    if k == "rangeincl":
        return "(%s)..=(%s)" % (rust_build(t["t"], val[1][0]), rust_build(t["t"], val[1][1]))
    if k == "rangefrom":
        return "(%s).." % rust_build(t["t"], val[1][0])
    if k == "rangeto":
        return "..(%s)" % rust_build(t["t"], val[1][0])
    if k == "struct":
        vs = iter(val[1])
        parts = []
        for f in t["fields"]:
            if f["skip"]:
                e = "%du32" % f["t"]["v"]
                parts.append(("%s: %s" % (f["name"], e)) if t["style"] == "named" else e)
            else:
                e = rust_build(f["t"], next(vs))
                if f["defer"]:
                    parts.append("%s: ()" % f["name"])
                    parts.append("h_%s: %s" % (f["name"], e))
                else:
                    parts.append(("%s: %s" % (f["name"], e)) if t["style"] == "named" else e)
        return ("%s { %s }" if t["style"] == "named" else "%s(%s)") % (t["name"], ", ".join(parts))
    if k == "enum":
        if val[1] is None:
            nm = val[3]
            v = [x for x in t["variants"] if x["name"] == nm][0]
            return "%s::%s%s" % (t["name"], nm, "(7)" if v["skip"] else "")
        r = retained(t)
        return "%s::%s(%s)" % (t["name"], r[val[1]]["name"], rust_build(r[val[1]]["t"], val[2]))
    raise ValueError(k)


# ---------------------------------------------------------------------- Coq emission
def coq_str(s):
    return "[" + "; ".join("%d%%N" % ord(c) for c in s) + "]"


def coq_attrs(f):
    if f is None:
        return "no_attrs"
    if not f.get("deny") and not f.get("get") and not f.get("getmut") and not f.get("val"):
        return "no_attrs"
    deny = "(fun o => match o with %s end)" % " ".join("| %s => %s" % (o, ("Some %d%%N" % f["deny"][o]) if o in f["deny"] else "None") for o in OPS) \
        if f.get("deny") else "(fun _ => None)"
    opt = lambda x: ("(Some %d%%N)" % x) if x else "None"
    return "{| a_deny := %s; a_get := %s; a_getmut := %s; a_val := %s |}" % (deny, opt(f.get("get")), opt(f.get("getmut")), opt(f.get("val")))


def coq_lookup(lk):
    if lk[0] == "named":
        return "(Named [%s])" % "; ".join(coq_str(n) for n in lk[1])
    return "(%s %d%%N)" % ("Numbered" if lk[0] == "numbered" else "Homog", lk[1])


HK = {"tuple": "HTuple", "result": "HResult", "bound": "HBound", "range": "HRange", "rangeincl": "HRangeIncl", "rangefrom": "HRangeFrom", "rangeto": "HRangeTo"}


def coq_node(t):
    k = t["k"]
    if k == "leaf":
        return "(NLeaf KLeaf)"
    if k == "strleaf":
        return "(NLeaf KStrLeaf)"
    if k == "deny":
        return "(NLeaf KDeny)"
    if k == "gate":
        return "(NGate %s %s)" % (GATE_COQ[t["g"]], coq_node(t["t"]))
    if k == "arr":
        return "(NHom %d%%N %s)" % (t["n"], coq_node(t["t"]))
    ch = children(t)
    if k in ("struct", "enum"):
        fs = retained(t)
        if t["flatten"]:
            return "(NFlat %s %s %s)" % ("true" if k == "enum" else "false", coq_attrs(fs[0]), coq_node(fs[0]["t"]))
        hk = "HEnum" if k == "enum" else ("HStruct" if t["style"] == "named" else "HTupleStruct")
    else:
        hk = HK[k]
    lk, cs = ch
    return "(NHet %s %s [%s])" % (hk, coq_lookup(lk), "; ".join("(%s, %s)" % (coq_attrs(a), coq_node(c)) for a, c in cs))


def coq_lval(v):
    if v[0] == "int":
        return "(LInt (%d))" % v[1]
    if v[0] == "bool":
        return "(LBool %s)" % ("true" if v[1] else "false")
    if v[0] == "unit":
        return "LUnit"
    if v[0] == "opt":
        return "(LOpt None)" if v[1] is None else "(LOpt (Some %s))" % coq_lval(v[1])
    if v[0] == "arr":
        return "(LArr [%s])" % "; ".join(coq_lval(x) for x in v[1])
    if v[0] == "str":
        return "(LStr %s)" % coq_str(v[1])
    if v[0] == "tag":
        return "(LTag %d%%N)" % v[1]
    raise ValueError(v)


def coq_value(val):
    k = val[0]
    if k == "leaf":
        return "(VLeaf (%d%%N, %s))" % (val[1], coq_lval(val[2]))
    if k == "gate":
        st = ["GSok", "GSabsent", "GSblocked", "GSshared"][val[1]]
        return "(VGate %s %s)" % (st, coq_value(val[2]) if val[2] is not None else "(VProd [])")
    if k == "prod":
        sk = ["(VLeaf (0%%N, LInt %d))" % c for c in val[2]]
        return "(VProd [%s])" % "; ".join([coq_value(v) for v in val[1]] + sk)
    if k == "sum":
        if val[1] is None:
            return "(VSum None (VProd []))"
        return "(VSum (Some %d%%nat) %s)" % (val[1], coq_value(val[2]))
    raise ValueError(k)
