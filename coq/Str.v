(* Executable model of the string splitters: PathIter (node.rs:193-238) and JsonPathIter
   (jsonpath.rs:58-82) on UTF-8 strings.  A str is a list of Unicode scalar values; byte
   offsets are sums of UTF-8 widths; str::split_at / str::get(n..) / &s[n..] at an offset that
   is out of range or not a char boundary is an explicit failure (Rust: panic resp. None). *)
From Coq Require Import List NArith Bool Arith.
Import ListNotations.

Definition str := list N.

Definition utf8_len (c : N) : nat :=
  if (c <? 128)%N then 1 else if (c <? 2048)%N then 2 else if (c <? 65536)%N then 3 else 4.
Fixpoint wsum (s : str) : nat := match s with [] => 0 | c :: r => utf8_len c + wsum r end.

(* str::split_at: None = "byte index is not a char boundary / out of range" *)
Fixpoint split_at_bytes (s : str) (pos : nat) : option (str * str) :=
  match pos with
  | O => Some ([], s)
  | _ => match s with
         | [] => None
         | c :: r => if utf8_len c <=? pos
                     then match split_at_bytes r (pos - utf8_len c) with
                          | Some (a, b) => Some (c :: a, b) | None => None end
                     else None
         end
  end.
(* str::get(n..) *)
Definition get_from (s : str) (n : nat) : option str :=
  match split_at_bytes s n with Some (_, b) => Some b | None => None end.

(* ---------------- PathIter ---------------- *)
(* s.chars().map_while(|c| (c != S).then_some(c.len_utf8())).sum() *)
Fixpoint pos_of (S : N) (s : str) : nat :=
  match s with [] => 0 | c :: r => if (c =? S)%N then 0 else utf8_len c + pos_of S r end.

Inductive step_res := Panic | Yield (seg : option str) (st : option str).
Definition path_next (S : N) (st : option str) : step_res :=
  match st with
  | None => Yield None None
  | Some s => match split_at_bytes s (pos_of S s) with
              | None => Panic
              | Some (l, r) => Yield (Some l) (get_from r (utf8_len S))
              end
  end.

(* all segments, with explicit fuel (never exhausted for fuel > length + 1, see Str_proofs) *)
Fixpoint collect (fuel : nat) (S : N) (st : option str) : list str :=
  match fuel with O => [] | Datatypes.S f =>
  match path_next S st with
  | Yield (Some seg) st' => seg :: collect f S st'
  | _ => []
  end end.
(* PathIter::new(Some(s)) collected *)
Definition path_keys_new (S : N) (s : str) : list str := collect (length s + 2) S (Some s).
(* PathIter::root(s): one next() is discarded *)
Definition path_root_state (S : N) (s : str) : option (option str) :=
  match path_next S (Some s) with Yield _ st => Some st | Panic => None end.
Definition root_keys (S : N) (s : str) : list str := tl (path_keys_new S s).

(* Path::transcode callback output for a list of names *)
Definition path_write (S : N) (names : list str) : str := concat (map (cons S) names).

(* ---------------- JsonPathIter ---------------- *)
Fixpoint strip_prefix (p s : str) : option str :=
  match p with
  | [] => Some s
  | a :: p' => match s with [] => None | c :: s' => if (a =? c)%N then strip_prefix p' s' else None end
  end.
Definition is_prefix (p s : str) : bool := match strip_prefix p s with Some _ => true | None => false end.
(* str::find(&str): byte offset of the first occurrence *)
Fixpoint find_str (p s : str) {struct s} : option nat :=
  if is_prefix p s then Some 0 else
  match s with
  | [] => None
  | c :: r => match find_str p r with Some n => Some (utf8_len c + n) | None => None end
  end.
(* str::find(&[char]).unwrap_or(len) *)
Fixpoint find_any_or_len (cs : list N) (s : str) : nat :=
  match s with [] => 0 | c :: r => if existsb (N.eqb c) cs then 0 else utf8_len c + find_any_or_len cs r end.

Definition DOT := 46%N. Definition QUOTE := 39%N. Definition LBR := 91%N. Definition RBR := 93%N.
Inductive jclose := CBreak (cs : list N) | CCont (pat : str).
Definition jrules : list (str * jclose) :=
  [ ([DOT; QUOTE], CCont [QUOTE]); ([DOT], CBreak [DOT; LBR]);
    ([LBR; QUOTE], CCont [QUOTE; RBR]); ([LBR], CCont [RBR]) ].

Inductive jres := JPanic | JNone | JSome (seg rest : str).
Definition jcut (rest : str) (e sep : nat) : jres :=
  match split_at_bytes rest e with
  | None => JPanic
  | Some (next, rest') => match get_from rest' sep with None => JPanic | Some r => JSome next r end
  end.
Fixpoint json_try (rules : list (str * jclose)) (s : str) : jres :=
  match rules with
  | [] => JNone
  | (open, close) :: r =>
      match strip_prefix open s with
      | Some rest =>
          match close with
          | CBreak cs => jcut rest (find_any_or_len cs rest) 0
          | CCont pat => match find_str pat rest with None => JNone | Some e => jcut rest e (wsum pat) end
          end
      | None => json_try r s
      end
  end.
Definition json_next (s : str) : jres := json_try jrules s.

Fixpoint json_collect (fuel : nat) (s : str) : list str :=
  match fuel with O => [] | S f =>
  match json_next s with JSome seg rest => seg :: json_collect f rest | _ => [] end end.
Definition json_keys (s : str) : list str := json_collect (length s + 1) s.

(* the notations of one key *)
Inductive jnot := NDot | NDotQuoted | NBracket | NBracketQuoted.
Definition jrender (k : jnot) (n : str) : str :=
  match k with
  | NDot => DOT :: n
  | NDotQuoted => DOT :: QUOTE :: n ++ [QUOTE]
  | NBracket => LBR :: n ++ [RBR]
  | NBracketQuoted => LBR :: QUOTE :: n ++ [QUOTE; RBR]
  end.
Fixpoint jrender_all (ks : list jnot) (ns : list str) : str :=
  match ks, ns with k :: ks', n :: ns' => jrender k n ++ jrender_all ks' ns' | _, _ => [] end.

(* decimal rendering of an index (itoa) *)
Fixpoint itoa_aux (fuel : nat) (n : N) (acc : str) : str :=
  match fuel with O => acc | S f =>
    let acc' := (48 + n mod 10)%N :: acc in
    if (n <? 10)%N then acc' else itoa_aux f (n / 10) acc' end.
Definition itoa (n : N) : str := itoa_aux 40 n [].

(* JsonPath::transcode callback output: named -> .name, unnamed -> [index] *)
Definition json_write_one (name : option str) (index : N) : str :=
  match name with Some n => jrender NDot n | None => jrender NBracket (itoa index) end.
