(* Observation builders for the C15 correspondence (harness/rs-core/src/strings.rs). *)
From Coq Require Import List NArith ZArith.
From MC Require Import Obs Str.
Import ListNotations.

Definition Ostr (s : str) : obs := OL (map ON s).

Definition spath (S : N) (s : str) : obs :=
  OL [Olist Ostr (path_keys_new S s); Olist Ostr (root_keys S s); OZ 0; Onat (length (root_keys S s))].

Fixpoint json_run (fuel : nat) (s : str) : list str * str :=
  match fuel with O => ([], s) | S f =>
  match json_next s with
  | JSome seg rest => let '(k, r) := json_run f rest in (seg :: k, r)
  | _ => ([], s)
  end end.

Definition sjson (s : str) : obs :=
  let '(k, r) := json_run (length s + 1) s in
  OL [Olist Ostr k; Ostr r; OZ 0; Onat (length k)].

(* items: (name if named, index) along the path of a node; depth and leaf flag as known from the type *)
Definition swrite_path (S : N) (items : list (option str * N)) (leaf : bool) : obs :=
  let names := map (fun it => match fst it with Some n => n | None => itoa (snd it) end) items in
  let w := path_write S names in
  OL [Ostr w; Onat (length items); OB leaf; Olist Ostr (root_keys S w); OZ 1].
Definition swrite_json (items : list (option str * N)) (leaf : bool) : obs :=
  let w := concat (map (fun it => json_write_one (fst it) (snd it)) items) in
  OL [Ostr w; Onat (length items); OB leaf; Olist Ostr (json_keys w); OZ 1].
Definition swrite (items : list (option str * N)) (leaf : bool) : obs :=
  OL [swrite_path 47 items leaf; swrite_path 233 items leaf; swrite_path 128512 items leaf; swrite_json items leaf].
