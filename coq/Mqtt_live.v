(* C13 / C10 progress: under a healthy environment the start-up sequence is actually carried out —
   six update() calls from Connect publish alive, subscribe, wait for the timer, and dump every leaf. *)
From Coq Require Import List NArith Lia Bool Arith.
From MC Require Import Generated Mqtt Mqtt_proofs Mqtt_run.
Import ListNotations.

(* connected, minimq accepts what it is handed, nobody calls the API, no request, no session reset *)
Definition healthy (e : env) : Prop :=
  conn e = true /\ act_ok e = true /\ api e = ApiNone /\ poll e = NoMsg.

Lemma healthy_step e m : healthy e ->
  step e m = match state_action e m with Some (m1, o1) => Some (m1, o1 ++ [], false) | None => None end.
Proof.
  intros (Hc & Ha & Hapi & Hp). unfold step, api_action, poll_action, bind. rewrite Hapi, Hc, Hp.
  destruct (state_action e m) as [[m1 o1]|]; reflexivity.
Qed.

Theorem startup_progress e1 e2 e3 e4 e5 e6 m :
  healthy e1 -> healthy e2 -> healthy e3 -> healthy e4 -> healthy e5 -> healthy e6 ->
  st m = Connect ->
  (now e3 + DUMP_TIMEOUT_MS <= now e4)%N ->            (* the clock has passed the dump timeout at the 4th call *)
  (length (all_leaves e5) < slots e6)%nat ->           (* enough publish capacity in the 6th call *)
  exists m1 m2 m3 m4 m5 m6,
    step e1 m = Some (m1, [], false) /\ st m1 = Alive /\
    step e2 m1 = Some (m2, [ALIVE_PUB], false) /\ st m2 = Subscribe /\
    step e3 m2 = Some (m3, [OSub], false) /\ st m3 = Wait /\ timeout m3 = Some (now e3 + DUMP_TIMEOUT_MS)%N /\
    step e4 m3 = Some (m4, [], false) /\ st m4 = Init /\
    step e5 m4 = Some (m5, [], false) /\ st m5 = Multipart /\ pd m5 = pend0 (all_leaves e5) /\
    step e6 m5 = Some (m6, flat_map (dump_msg e6 None) (all_leaves e5), false) /\ st m6 = Single /\ p_rem (pd m6) = [].
Proof.
  intros H1 H2 H3 H4 H5 H6 Hs Ht Hcap.
  pose proof H1 as (Hc1 & Ha1 & _). pose proof H2 as (Hc2 & Ha2 & _). pose proof H3 as (Hc3 & Ha3 & _).
  (* 1: Connect -> Alive *)
  set (m1 := {| st := Alive; timeout := timeout m; pd := pd m |}).
  assert (E1 : step e1 m = Some (m1, [], false)).
  { rewrite (healthy_step _ _ H1). unfold state_action, bind, process. rewrite Hs, Hc1, fire_connect. reflexivity. }
  (* 2: Alive -> Subscribe *)
  set (m2 := {| st := Subscribe; timeout := timeout m; pd := pd m |}).
  assert (E2 : step e2 m1 = Some (m2, [ALIVE_PUB], false)).
  { rewrite (healthy_step _ _ H2). unfold state_action, bind, process. cbn [st m1]. rewrite Ha2, fire_alive. reflexivity. }
  (* 3: Subscribe -> Wait, timer armed *)
  set (m3 := {| st := Wait; timeout := Some (now e3 + DUMP_TIMEOUT_MS)%N; pd := pd m |}).
  assert (E3 : step e3 m2 = Some (m3, [OSub], false)).
  { rewrite (healthy_step _ _ H3). unfold state_action, bind, process. cbn [st m2]. rewrite Ha3, fire_subscribe. reflexivity. }
  (* 4: Wait -> Init once the timer has expired *)
  set (m4 := {| st := Init; timeout := timeout m3; pd := pd m |}).
  assert (E4 : step e4 m3 = Some (m4, [], false)).
  { rewrite (healthy_step _ _ H4). unfold state_action, process_or, process. cbn [st m3].
    assert (Hto : timed_out m3 (now e4) = true) by (unfold timed_out; cbn [timeout m3]; apply N.leb_le; exact Ht).
    rewrite fire_tick, Hto. reflexivity. }
  (* 5: Init -> Multipart with the full leaf list *)
  set (m5 := {| st := Multipart; timeout := timeout m3; pd := pend0 (all_leaves e5) |}).
  assert (E5 : step e5 m4 = Some (m5, [], false)).
  { rewrite (healthy_step _ _ H5). unfold state_action, do_dump, process. cbn [st m4]. rewrite fire_init_multipart. reflexivity. }
  (* 6: the pump publishes every leaf and completes *)
  destruct (pump_dump_completes e6 (slots e6) m5 eq_refl Hcap) as (m6 & o & Hp & Hs6 & Hr6 & Ho).
  assert (E6 : step e6 m5 = Some (m6, o ++ [], false)).
  { rewrite (healthy_step _ _ H6). unfold state_action. cbn [st m5 pd p_resp pend0]. rewrite Hp. reflexivity. }
  exists m1, m2, m3, m4, m5, m6. rewrite E1, E2, E3, E4, E5, E6. rewrite app_nil_r, Ho.
  repeat split; reflexivity || assumption.
Qed.
