(* Observation builders for the MQTT correspondence (harness/rs-mqtt). *)
From Coq Require Import List NArith ZArith Bool.
From MC Require Import Obs Generated Mqtt.
Import ListNotations.

Definition Obytes (b : bytes) : obs := OL (map ON b).
Definition sm_id (s : sm) : Z :=
  match s with Connect => 0 | Alive => 1 | Subscribe => 2 | Wait => 3 | Init => 4 | Multipart => 5 | Single => 6 end%Z.
Definition code_id (c : option code) : Z :=
  match c with None => (-1) | Some COk => 0 | Some CContinue => 1 | Some CError => 2 end%Z.

Definition ALIVE := [47; 97; 108; 105; 118; 101]%N.
Definition SETTINGS := [47; 115; 101; 116; 116; 105; 110; 103; 115]%N.
Definition topic_bytes (prefix : bytes) (t : topic) : bytes :=
  match t with TAlive => prefix ++ ALIVE | TSettings p => prefix ++ SETTINGS ++ p | TOther b => b end.

Definition out_obs (prefix : bytes) (o : out) : obs :=
  match o with
  | OSub => OL [OZ 0; Obytes (prefix ++ SETTINGS ++ [47; 35]%N); OZ 1]
  | OPub t pl r c cd => OL [OZ 1; Obytes (topic_bytes prefix t); Obytes pl; OB r; OZ (code_id c); Oopt Obytes cd]
  end.

(* lossy: the TCP connection was already down when update() was called: what the client hands to
   minimq in that call never reaches the broker (environment), so the packets are not compared *)
Definition step_obs (prefix : bytes) (x : option (mstate * list out * bool)) (lossy : bool) : obs :=
  match x with
  | None => OL [OZ (-999)]
  | Some (m, o, ch) =>
      OL [OZ (sm_id (st m)); OB (match p_resp (pd m) with Some _ => true | None => false end);
          OB (match p_cd (pd m) with Some _ => true | None => false end);
          Onat (length (p_rem (pd m))); OL (if lossy then [] else map (out_obs prefix) o); OB ch]
  end.

(* leaf values as an association list *)
Fixpoint bytes_eqb (a b : bytes) : bool :=
  match a, b with [], [] => true | x :: a', y :: b' => (x =? y)%N && bytes_eqb a' b' | _, _ => false end.
Definition vals_of (l : list (path * pubval)) : path -> pubval :=
  fun p => (fix go l := match l with [] => PAbsent | (q, v) :: r => if bytes_eqb p q then v else go r end) l.

Fixpoint zip_obs (prefix : bytes) (xs : list (option (mstate * list out * bool))) (ls : list bool) : list obs :=
  match xs, ls with
  | x :: xr, l :: lr => step_obs prefix x l :: zip_obs prefix xr lr
  | x :: xr, [] => step_obs prefix x false :: zip_obs prefix xr []
  | [], _ => []
  end.
Definition mq_run (prefix : bytes) (leaves : list path) (es : list (env * bool)) : obs :=
  OL (zip_obs prefix (run (map fst es) (init_state leaves)) (map snd es)).
