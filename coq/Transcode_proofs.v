(* C04: what the traversal callback sees, the index form of a key, chained key sources. *)
From Coq Require Import List NArith ZArith Lia Bool Arith PeanoNat.
From MC Require Import Str Packed Tree Spec Tree_proofs NoPanic.
Import ListNotations.

Definition idx_key (c : call) : key := KInt (Z.of_N (fst (fst c))).

Lemma find_int_lt i lk : (i < lk_len lk)%N -> (i < 18446744073709551616)%N -> find (KInt (Z.of_N i)) lk = Some i.
Proof.
  intros H1 H2. unfold find. rewrite N2Z.id.
  replace ((0 <=? Z.of_N i)%Z && (Z.of_N i <? 18446744073709551616)%Z) with true.
  - destruct (N.ltb_spec i (lk_len lk)); [reflexivity|lia].
  - symmetry. apply andb_true_iff. split; [apply Z.leb_le; lia|apply Z.ltb_lt; lia].
Qed.

(* sibling counts are machine words *)
Fixpoint small (t : node) : Prop :=
  match t with
  | NLeaf _ => True
  | NGate _ t' => small t'
  | NFlat _ _ t' => small t'
  | NHet _ lk cs => (lk_len lk <= 18446744073709551615)%N /\
      (fix all (cs : list (attrs * node)) : Prop := match cs with [] => True | c :: r => small (snd c) /\ all r end) cs
  | NHom n t' => (n <= 18446744073709551615)%N /\ small t'
  end.

Definition reached (r : res) : Prop := match r with ROk _ | RErr (TooShort _) => True | _ => False end.

Lemma tincr_reached (y : tout) : reached (fst (tincr y)) -> reached (fst y).
Proof. destruct y as [[d|[]] cs]; simpl; auto. Qed.

(* Callback trace: the callback is invoked once per consumed key, in order; the reported depth is
   the number of callbacks (Ok, TooShort, TooLong) resp. one more than it (NotFound). *)
Theorem calls_count : forall t k pre r calls, trav nofail t k pre = (r, calls) ->
  exists new, calls = new ++ pre /\
    match r with
    | ROk d | RErr (TooShort d) | RErr (TooLong d) => length new = d
    | RErr (NotFound d) => S (length new) = d
    | _ => True
    end.
Proof.
  induction t as [lk|g t IH|s a t IH|h lk cs IH|n t IH] using node_ind'; intros k pre r calls E.
  - cbn [trav] in E. destruct (kfin k); injection E as <- <-; exists []; split; reflexivity.
  - cbn [trav] in E. eapply IH. exact E.
  - cbn [trav] in E. eapply IH. exact E.
  - cbn [trav] in E. destruct (knext k lk) as [[i| |] k'].
    + unfold nofail at 1 in E. rewrite andb_false_r in E. unfold reports in E.
      set (c := (i, lk_name lk i, lk_len lk)) in *.
      assert (G : forall j r0 calls0,
        (fix pick (cs : list (attrs * node)) (j : nat) {struct cs} : tout :=
           match cs with [] => (RErr Unreachable, c :: pre) | (_, t') :: r => match j with O => trav nofail t' k' (c :: pre) | S j' => pick r j' end end) cs j = (r0, calls0) ->
        exists new, calls0 = new ++ c :: pre /\ match r0 with
          | ROk d | RErr (TooShort d) | RErr (TooLong d) => length new = d | RErr (NotFound d) => S (length new) = d | _ => True end).
      { clear E. induction IH as [|[a t'] rr Ht _ IHr]; intros j r0 calls0 Ej.
        - injection Ej as <- <-. exists []. split; reflexivity.
        - destruct j as [|j]; [eapply Ht; exact Ej|eapply IHr; exact Ej]. }
      destruct ((fix pick (cs : list (attrs * node)) (j : nat) {struct cs} : tout :=
           match cs with [] => (RErr Unreachable, c :: pre) | (_, t') :: r => match j with O => trav nofail t' k' (c :: pre) | S j' => pick r j' end end) cs (N.to_nat i)) as [r0 calls0] eqn:Ep.
      destruct (G _ _ _ Ep) as (new & -> & Hn). simpl in E. injection E as <- <-.
      exists (new ++ [c]). split; [rewrite <- app_assoc; reflexivity|].
      rewrite app_length. simpl. destruct r0 as [d|[]]; simpl; lia || exact I.
    + injection E as <- <-. exists []. split; reflexivity.
    + injection E as <- <-. exists []. split; reflexivity.
  - cbn [trav] in E. destruct (knext k (Homog n)) as [[i| |] k'].
    + unfold nofail at 1 in E. destruct (trav nofail t k' ((i, None, n) :: pre)) as [r0 calls0] eqn:Ep.
      destruct (IH _ _ _ _ Ep) as (new & -> & Hn). simpl in E. injection E as <- <-.
      exists (new ++ [(i, None, n)]). split; [rewrite <- app_assoc; reflexivity|].
      rewrite app_length. simpl. destruct r0 as [d|[]]; simpl; lia || exact I.
    + injection E as <- <-. exists []. split; reflexivity.
    + injection E as <- <-. exists []. split; reflexivity.
Qed.

(* Index form and fixpoint: if a key (in any representation, chained or not) reaches a node (leaf:
   Ok, internal: TooShort), then the indices reported to the callback, used as a key, reach the same
   node with the same depth and type and produce the same callback trace again. *)
Theorem index_form_fixpoint : forall t k pre r calls, wf t -> small t ->
  trav nofail t k pre = (r, calls) -> reached r ->
  exists new, calls = new ++ pre /\ trav nofail t (KIter (map idx_key (rev new))) pre = (r, calls).
Proof.
  induction t as [lk|g t IH|s a t IH|h lk cs IH|n t IH] using node_ind'; intros k pre r calls Hw Hs E Hr.
  - cbn [trav] in E. destruct (kfin k); injection E as <- <-; [|exfalso; exact Hr].
    exists []. split; reflexivity.
  - cbn [trav] in *. eapply IH; eauto.
  - cbn [trav] in *. eapply IH; eauto.
  - cbn [trav] in E. destruct (knext k lk) as [[i| |] k'] eqn:Ek.
    + unfold nofail at 1 in E. rewrite andb_false_r in E. unfold reports in E.
      set (c := (i, lk_name lk i, lk_len lk)) in *.
      pose proof (knext_bound _ _ _ _ Ek) as Hb. destruct Hw as (Hlen & Hne & Hall). destruct Hs as [Hsm Hsall].
      set (pk := fun (kk : keys) => (fix pick (cs : list (attrs * node)) (j : nat) {struct cs} : tout :=
           match cs with [] => (RErr Unreachable, c :: pre) | (_, t') :: r => match j with O => trav nofail t' kk (c :: pre) | S j' => pick r j' end end)).
      change (tincr (pk k' cs (N.to_nat i)) = (r, calls)) in E.
      assert (G : forall j r0 calls0, pk k' cs j = (r0, calls0) -> reached r0 ->
        exists new, calls0 = new ++ c :: pre /\ pk (KIter (map idx_key (rev new))) cs j = (r0, calls0)).
      { clear E Hne Hlen Hb. induction IH as [|[a t'] rr Ht _ IHr]; intros j r0 calls0 Ej Hr0.
        - simpl in Ej. injection Ej as <- <-. exfalso. exact Hr0.
        - destruct Hall as [Hwx Hwr]. destruct Hsall as [Hsx Hsr].
          destruct j as [|j]; [eapply Ht; eauto|]. simpl in Ej |- *. eapply IHr; eauto. }
      destruct (pk k' cs (N.to_nat i)) as [r0 calls0] eqn:Ep.
      simpl in E. injection E as <- <-.
      assert (Hr0 : reached r0) by (destruct r0 as [d|[]]; simpl in *; auto).
      destruct (G _ _ _ Ep Hr0) as (new & -> & Hp).
      exists (new ++ [c]). split; [rewrite <- app_assoc; reflexivity|].
      rewrite rev_app_distr. cbn [rev app map]. cbn [trav knext].
      unfold idx_key at 1. cbn [fst].
      assert (Hi64 : (i < 18446744073709551616)%N) by (clear - Hb Hsm; lia).
      change (fst (fst c)) with i. rewrite (find_int_lt i lk Hb Hi64).
      unfold reports. unfold nofail at 1. cbn [andb].
      change (tincr (pk (KIter (map idx_key (rev new))) cs (N.to_nat i)) = (rshift 1 r0, new ++ c :: pre)).
      rewrite Hp. reflexivity.
    + injection E as <- <-. exists []. split; reflexivity.
    + injection E as <- <-. exfalso. exact Hr.
  - cbn [trav] in E. destruct (knext k (Homog n)) as [[i| |] k'] eqn:Ek.
    + unfold nofail at 1 in E. pose proof (knext_bound _ _ _ _ Ek) as Hb. simpl in Hb.
      destruct Hw as [Hn Hw]. destruct Hs as [Hsm Hs].
      destruct (trav nofail t k' ((i, None, n) :: pre)) as [r0 calls0] eqn:Ep.
      simpl in E. injection E as <- <-.
      assert (Hr0 : reached r0) by (destruct r0 as [d|[]]; simpl in *; auto).
      destruct (IH _ _ _ _ Hw Hs Ep Hr0) as (new & -> & Hp).
      exists (new ++ [(i, None, n)]). split; [rewrite <- app_assoc; reflexivity|].
      rewrite rev_app_distr. cbn [rev app map]. cbn [trav knext].
      unfold idx_key at 1. cbn [fst].
      assert (Hi64 : (i < 18446744073709551616)%N) by (clear - Hb Hsm; lia).
      change (fst (fst (i, @None str, n))) with i. rewrite (find_int_lt i (Homog n) Hb Hi64).
      unfold nofail at 1. rewrite Hp. reflexivity.
    + injection E as <- <-. exists []. split; reflexivity.
    + injection E as <- <-. exfalso. exact Hr.
Qed.

(* chaining two key sources behaves as their concatenation *)
Lemma knext_chain_iter a b lk :
  knext (KChain (KIter a) (KIter b)) lk =
  (fst (knext (KIter (a ++ b)) lk),
   match a with
   | [] => KChain (KIter []) (match b with [] => KIter [] | _ :: b' => KIter b' end)
   | _ :: a' => KChain (KIter a') (KIter b)
   end).
Proof.
  destruct a as [|x a']; simpl.
  - destruct b as [|y b']; simpl; [reflexivity|]. destruct (find y lk); reflexivity.
  - destruct (find x lk); reflexivity.
Qed.

Theorem chain_concat_trav cbf : forall t a b pre,
  trav cbf t (KChain (KIter a) (KIter b)) pre = trav cbf t (KIter (a ++ b)) pre.
Proof.
  induction t as [lk|g t IH|s at' t IH|h lk cs IH|n t IH] using node_ind'; intros a b pre.
  - cbn [trav kfin]. destruct a, b; reflexivity.
  - cbn [trav]. apply IH.
  - cbn [trav]. apply IH.
  - cbn [trav]. rewrite knext_chain_iter. unfold reports. cbn [andb].
    destruct a as [|x a'].
    + destruct b as [|y b']; [reflexivity|]. cbn [app knext fst].
      destruct (find y lk) as [i|]; [|reflexivity].
      destruct (cbf pre (i, lk_name lk i, lk_len lk)); [reflexivity|]. f_equal.
      generalize (N.to_nat i). induction IH as [|[a0 t'] r Ht _ IHr]; intros j; [reflexivity|].
      destruct j as [|j]; [apply (Ht [] b')|apply IHr].
    + cbn [app knext fst]. destruct (find x lk) as [i|]; [|reflexivity].
      destruct (cbf pre (i, lk_name lk i, lk_len lk)); [reflexivity|]. f_equal.
      generalize (N.to_nat i). induction IH as [|[a0 t'] r Ht _ IHr]; intros j; [reflexivity|].
      destruct j as [|j]; [apply (Ht a' b)|apply IHr].
  - cbn [trav]. rewrite knext_chain_iter.
    destruct a as [|x a'].
    + destruct b as [|y b']; [reflexivity|]. cbn [app knext fst].
      destruct (find y (Homog n)) as [i|]; [|reflexivity].
      destruct (cbf pre (i, None, n)); [reflexivity|]. f_equal. apply (IH [] b').
    + cbn [app knext fst]. destruct (find x (Homog n)) as [i|]; [|reflexivity].
      destruct (cbf pre (i, None, n)); [reflexivity|]. f_equal. apply (IH a' b).
Qed.
