(* C13 — After every (re)connection: alive, subscribe, wait, then one full dump.
   Only pinned statements, [exact] proofs and [Print Assumptions].
   Model: Mqtt.step (one update() call) over the environment record [env]; the transition table and
   DUMP_TIMEOUT_MS come from Generated.v (translator output).  minimq, the broker and the clock are
   the environment (DESIGN.md). *)
From Coq Require Import List NArith Arith.
From MC Require Import Generated Mqtt Mqtt_proofs Mqtt_run Mqtt_live.
Import ListNotations.

(* for EVERY history of environments (connection losses, session resets, API calls, clock readings,
   publish capacity, requests) every update() satisfies the start-up monitor [action_ok]:
   alive first and only once per epoch, then the subscription (which arms the timer), the decision
   to dump no earlier than DUMP_TIMEOUT after it, the full dump started once, and no settings value
   published before *)
Theorem C13_startup_monitor : forall leaves es, run_ok es (init_state leaves) g0.
Proof. exact startup_monitor. Qed.

(* the clauses of the monitor, spelled out (so that a weaker [action_ok] cannot go unnoticed) *)
Theorem C13_monitor_clauses : forall e g m0 m1 o1, action_ok e g m0 m1 o1 ->
  ((In (OPub TAlive T_ONE true None None) o1 \/ (st m0 = Alive /\ st m1 = Subscribe)) ->
     st m0 = Alive /\ st m1 = Subscribe /\ o1 = [OPub TAlive T_ONE true None None] /\ g = g0) /\
  ((In OSub o1 \/ (st m0 = Subscribe /\ st m1 = Wait)) ->
     st m0 = Subscribe /\ st m1 = Wait /\ o1 = [OSub] /\
     g = {| g_alive := true; g_sub := None; g_tick := None; g_dump := false |} /\
     timeout m1 = Some (now e + DUMP_TIMEOUT_MS)%N) /\
  (st m0 = Wait -> st m1 = Init -> o1 = [] /\ exists t, g_sub g = Some t /\ (t + DUMP_TIMEOUT_MS <= now e)%N) /\
  (st m0 = Init -> st m1 = Multipart -> o1 = [] /\ g_dump g = false /\ pd m1 = pend0 (all_leaves e)) /\
  (existsb is_settings_pub o1 = true -> g_dump g = true) /\
  (existsb is_proto o1 = true -> o1 = [OPub TAlive T_ONE true None None] \/ o1 = [OSub]).
Proof. exact (fun e g m0 m1 o1 H => H). Qed.

(* progress: the sequence is not only never violated but carried out — under a healthy environment
   (connected, minimq accepts what it is handed, no API call, no request, no session reset) six
   update() calls from Connect publish alive, subscribe, wait for the timer and dump every leaf *)
Theorem C13_startup_progress : forall e1 e2 e3 e4 e5 e6 m,
  healthy e1 -> healthy e2 -> healthy e3 -> healthy e4 -> healthy e5 -> healthy e6 ->
  st m = Connect ->
  (now e3 + DUMP_TIMEOUT_MS <= now e4)%N ->
  (length (all_leaves e5) < slots e6)%nat ->
  exists m1 m2 m3 m4 m5 m6,
    step e1 m = Some (m1, [], false) /\ st m1 = Alive /\
    step e2 m1 = Some (m2, [OPub TAlive T_ONE true None None], false) /\ st m2 = Subscribe /\
    step e3 m2 = Some (m3, [OSub], false) /\ st m3 = Wait /\ timeout m3 = Some (now e3 + DUMP_TIMEOUT_MS)%N /\
    step e4 m3 = Some (m4, [], false) /\ st m4 = Init /\
    step e5 m4 = Some (m5, [], false) /\ st m5 = Multipart /\ pd m5 = pend0 (all_leaves e5) /\
    step e6 m5 = Some (m6, flat_map (dump_msg e6 None) (all_leaves e5), false) /\ st m6 = Single /\ p_rem (pd m6) = [].
Proof. exact startup_progress. Qed.
Theorem C13_healthy_unfold : forall e, healthy e = (conn e = true /\ act_ok e = true /\ api e = ApiNone /\ poll e = NoMsg).
Proof. reflexivity. Qed.
(* the history variable is a function of the protocol transitions; any return to Connect clears it *)
Theorem C13_epoch_restarts : forall t g s, g_trans t g s Connect = g0.
Proof. exact g_trans_connect. Qed.
Theorem C13_subscribe_arms_timer : forall m t m', st m = Subscribe -> process m ESubscribe t = Some m' ->
  st m' = Wait /\ timeout m' = Some (t + DUMP_TIMEOUT_MS)%N.
Proof. exact subscribe_arms_timer. Qed.
Theorem C13_tick_waits_for_timer : forall m t m', st m = Wait -> process m ETick t = Some m' ->
  st m' = Init /\ exists d, timeout m = Some d /\ (d <= t)%N.
Proof. exact tick_waits_for_timer. Qed.
(* loss of the connection or of the broker session restarts the sequence *)
Theorem C13_disconnected_restarts : forall e m m' o ch, conn e = false -> step e m = Some (m', o, ch) -> st m' = Connect.
Proof. exact disconnected_restarts. Qed.
Theorem C13_session_reset_restarts : forall e m1 o1 m' o ch,
  poll e = SessionReset -> poll_action e m1 o1 = Some (m', o, ch) -> st m' = Connect.
Proof. exact session_reset_restarts. Qed.
(* every guard and action of the statemachine! block is one the model knows (timed_out, start_timeout):
   nothing else touches the timer *)
Theorem C13_table_known : sm_foreign = [].
Proof. reflexivity. Qed.
(* the dump timeout the code uses is the documented one *)
Theorem C13_timeout_value : DUMP_TIMEOUT_MS = 2000%N.
Proof. reflexivity. Qed.

(* non-vacuity: a healthy start-up reaches the dump with the expected outputs *)
Definition ex_env (t : N) : env :=
  {| conn := true; now := t; act_ok := true; slots := 8; accepted := None; can_after := true;
     vals := fun _ => PVal [49]%N; all_leaves := [[47; 97]; [47; 98]]%N; api := ApiNone; poll := NoMsg |}.
Example C13_ex :
  map (fun x => match x with Some (m, o, _) => (st m, o) | None => (Connect, []) end)
      (run (map ex_env [0; 10; 20; 30; 40; 2020; 2030; 2040; 2050]%N) (init_state [[47; 97]; [47; 98]]%N)) =
  [(Alive, []); (Subscribe, [OPub TAlive T_ONE true None None]); (Wait, [OSub]); (Wait, []); (Wait, []); (Init, []);
   (Multipart, []);
   (Single, [OPub (TSettings [47; 97]%N) [49]%N false (Some COk) None; OPub (TSettings [47; 98]%N) [49]%N false (Some COk) None]);
   (Single, [])].
Proof. vm_compute. reflexivity. Qed.

Print Assumptions C13_startup_monitor.
Print Assumptions C13_monitor_clauses.
Print Assumptions C13_epoch_restarts.
Print Assumptions C13_subscribe_arms_timer.
Print Assumptions C13_tick_waits_for_timer.
Print Assumptions C13_disconnected_restarts.
Print Assumptions C13_session_reset_restarts.
Print Assumptions C13_timeout_value.
Print Assumptions C13_table_known.
Print Assumptions C13_startup_progress.
Print Assumptions C13_healthy_unfold.
