(* C11 — Rooted and depth-limited iteration is exact, finite and fused.
   Only pinned statements, [exact] proofs and [Print Assumptions].
   Proved: rooted and depth-limited exactness, the state NodeIter::root produces for a root given
   in any key representation, fusedness, and the capacity-error clause: for ANY target the iteration is the total-target iteration of
   the pruned shape (Iter_cap.v).  ExactSize::len is exact for targets with capacity (Exact_proofs.v) and provably
   not otherwise (C11_exact_size_capacity_refuted: the recorded finding exactsize-capacity). *)
From Coq Require Import List NArith ZArith.
From MC Require Import Str Packed Tree Tree_proofs NoPanic Transcode_proofs Odometer Iter_proofs Meta_proofs Iter_cap Exact_proofs.
Import ListNotations.

(* iteration rooted at the node with index path p (a leaf or an internal node), depth limit
   |p| + D': exactly the enumeration with cut-off of the subtree below p, prefixed by p, then None.
   For p = [] this is depth-limited iteration: leaves of depth <= D and, once each, the internal
   nodes at depth D. *)
Theorem C11_iter_rooted : forall (t : node) (tg : target), NoPanic.wf t -> small t -> tg_total t tg ->
  forall D' p c, descend (shape_of t) p = Some c ->
  iter_collect (S (S (length (enum D' c)))) t tg
      {| i_idx := p ++ zeros D'; i_root := length p; i_depth := length p + D' + 1 |} =
  map (expect t tg D' p c) (enum D' c) ++ [IDone].
Proof. exact iter_rooted_node. Qed.

(* NodeIter::root(key), for a key in any representation and whatever the iterator did before:
   the state is cleared and sits on the node the key denotes *)
Theorem C11_root_state : forall t D k n st, NoPanic.wf t -> small t -> iter_root t D k = (n, Some st) ->
  exists p c, descend (shape_of t) p = Some c /\ length p <= D /\
    st = {| i_idx := p ++ zeros (D - length p); i_root := length p; i_depth := D + 1 |} /\
    n = (if is_leaf c then TLeaf (length p) else TInternal (length p)).
Proof. exact iter_root_state. Qed.

(* FusedIterator: a state with depth = root answers None and does not move; the state after the
   last item is such a state *)
Theorem C11_fused : forall t tg st, i_depth st = i_root st -> iter_next t tg st = (IDone, st).
Proof. exact iter_fused. Qed.
Theorem C11_end_is_fused : forall (t : node) (tg : target), NoPanic.wf t -> small t -> tg_total t tg ->
  forall D' p c q, descend (shape_of t) p = Some c -> maximal D' c q -> succ D' c q = None ->
  let st' := snd (iter_next t tg {| i_idx := p ++ pad D' q; i_root := length p; i_depth := length p + length q |}) in
  fst (iter_next t tg {| i_idx := p ++ pad D' q; i_root := length p; i_depth := length p + length q |}) = IDone /\
  iter_next t tg st' = (IDone, st').
Proof. exact iter_end_is_fused. Qed.

(* the loop of next() never runs out of its D+2 iterations (the model's fuel): it simulates the
   shape-level odometer, which returns an item or the end *)
Theorem C11_next_is_successor : forall D' sh p c q fuel,
  Odometer.wf sh -> descend sh p = Some c -> maximal D' c q -> length q < fuel ->
  loop (length p) fuel sh (p ++ pad D' q) (length p + length q) =
  match succ D' c q with
  | Some q' => Item (p ++ pad D' q') (length p + length q') (nodeleaf c q')
  | None => Done
  end.
Proof. exact next_is_succ_rooted. Qed.

(* non-vacuity: S { a: I, b: I, c } with I = { x, y, z }: re-rooting a used iterator *)
Definition ty_i := NHet HStruct (Named [[120%N]; [121%N]; [122%N]]) [(no_attrs, NLeaf KLeaf); (no_attrs, NLeaf KLeaf); (no_attrs, NLeaf KLeaf)].
Definition ex_t : node := NHet HStruct (Named [[97%N]; [98%N]; [99%N]]) [(no_attrs, ty_i); (no_attrs, ty_i); (no_attrs, NLeaf KLeaf)].
Example C11_ex :
  match iter_root ex_t 2 (KIter [KStr [98%N]]) with
  | (_, Some st) =>
      map (fun o => match o with IItem (ItOk (RdText s) d lf) => Some s | _ => None end) (iter_collect 5 ex_t (TgPath 47 100) st)
  | _ => []
  end = [Some [47; 98; 47; 120]; Some [47; 98; 47; 121]; Some [47; 98; 47; 122]; None]%N.
Proof. reflexivity. Qed.

(* ---- any target, including those that run out of capacity ------------------------------------
   [pshape cbf t pre]: the shape of t in which every child whose callback invocation fails (for a
   transcoding target: whose key cannot be written after the keys [pre]) is a leaf. *)
Theorem C11_pshape_unfold : forall cbf t pre, pshape cbf t pre =
  match t with
  | NLeaf _ => Leaf
  | NGate _ t' => pshape cbf t' pre
  | NFlat _ _ t' => pshape cbf t' pre
  | NHet h lk cs => Het (het_children cbf lk pre cs 0)
  | NHom n t' =>
      Het (map (fun j => let c := (N.of_nat j, @None str, n) in
                         if cbf pre c then Leaf else pshape cbf t' (c :: pre)) (seq 0 (N.to_nat n)))
  end.
Proof. intros cbf t pre. destruct t; reflexivity. Qed.
Theorem C11_het_children_nth : forall cbf lk pre cs j k a t', nth_error cs k = Some (a, t') ->
  nth_error (het_children cbf lk pre cs j) k =
  Some (let c := (N.of_nat (j + k), lk_name lk (N.of_nat (j + k)), lk_len lk) in
        if cbf pre c then Leaf else pshape cbf t' (c :: pre)).
Proof. exact het_children_nth. Qed.
(* the item next() returns for a node: an error item with its depth if the key cannot be written,
   the rendered key otherwise *)
Theorem C11_item_cap_unfold : forall t tg idx' d lf, item_cap t tg idx' d lf =
  match fst (transcode t tg (idx_keys idx')) with
  | TErr (TooShort _) => ItErr d
  | _ => ItOk (snd (transcode t tg (idx_keys idx'))) d lf
  end.
Proof. reflexivity. Qed.
(* iteration (rooted at any writable node p, any depth limit) into ANY target yields the depth-first
   enumeration with cut-off of the pruned subtree: every node whose key can be written, in order,
   each once; exactly one error item, carrying the failing depth, for every child whose key cannot
   be written, and nothing below it; then the end.  No hypothesis on the target. *)
Theorem C11_iter_rooted_cap : forall (t : node) (tg : target), NoPanic.wf t -> small t ->
  forall D' p c, descend (pshape (tg_fail tg) t []) p = Some c ->
  iter_collect (S (S (length (enum D' c)))) t tg
      {| i_idx := p ++ zeros D'; i_root := length p; i_depth := length p + D' + 1 |} =
  map (expect_cap t tg D' p c) (enum D' c) ++ [IDone].
Proof. exact iter_rooted_cap. Qed.
Theorem C11_iter_complete_cap : forall (t : node) (tg : target), NoPanic.wf t -> small t -> forall D,
  iter_collect (S (S (length (enum D (pshape (tg_fail tg) t []))))) t tg (iter_default D) =
  map (expect_cap t tg D [] (pshape (tg_fail tg) t [])) (enum D (pshape (tg_fail tg) t [])) ++ [IDone].
Proof. exact iter_complete_cap. Qed.
Theorem C11_expect_cap_unfold : forall t tg D' p c q, expect_cap t tg D' p c q =
  IItem (item_cap t tg (p ++ pad D' q) (length p + length q) (nodeleaf c q)).
Proof. reflexivity. Qed.
(* it terminates and stays ended *)
Theorem C11_iter_end_cap : forall (t : node) (tg : target), NoPanic.wf t -> small t ->
  forall D' p c q, descend (pshape (tg_fail tg) t []) p = Some c -> maximal D' c q -> succ D' c q = None ->
  let st' := snd (iter_next t tg {| i_idx := p ++ pad D' q; i_root := length p; i_depth := length p + length q |}) in
  fst (iter_next t tg {| i_idx := p ++ pad D' q; i_root := length p; i_depth := length p + length q |}) = IDone /\
  iter_next t tg st' = (IDone, st').
Proof. exact iter_end_cap. Qed.
(* non-vacuity: { a, long_name: { x, y }, b } into a 4-byte Path *)
Theorem C11_cap_example :
  pshape (tg_fail (TgPath 47 4)) Iter_cap.ex_t [] = Het [Leaf; Leaf; Leaf] /\
  iter_collect 6 Iter_cap.ex_t (TgPath 47 4) (iter_default 2) =
    [IItem (ItOk (RdText [47; 97]%N) 1 true); IItem (ItErr 1); IItem (ItOk (RdText [47; 98]%N) 1 true); IDone].
Proof. exact ex_cap. Qed.

(* ---- the exact-size wrapper: count starts at Metadata::count, minus one per Some -------------- *)
Theorem C11_es_unfold : forall t tg s, es_next t tg s =
  match iter_next t tg (fst s) with
  | (IItem it, st') => (IItem it, (st', (snd s - 1)%N))
  | (o, st') => (o, (st', snd s))
  end.
Proof. reflexivity. Qed.
(* with enough capacity and D >= max_depth: the number of items is Metadata::count, after the i-th item
   len() is the number of items still to come, after the end it is 0 *)
Theorem C11_exact_size_correct : forall t tg D, NoPanic.wf t -> small t -> tg_total t tg ->
  (m_depth (metadata t) <= N.of_nat D)%N ->
  let L := length (enum D (shape_of t)) in
  N.of_nat L = m_count (metadata t) /\
  es_collect (S (S L)) t tg (es_new t D) =
  combine (map (expect t tg D [] (shape_of t)) (enum D (shape_of t)) ++ [IDone])
          (map (fun i => N.of_nat (L - S i)) (seq 0 L) ++ [0%N]).
Proof. exact exact_size_correct. Qed.
(* without capacity it over-counts: 4 announced, 3 yielded, 1 left after the end *)
Theorem C11_exact_size_capacity_refuted :
  map snd (es_collect 6 Iter_cap.ex_t (TgPath 47 4) (es_new Iter_cap.ex_t 2)) = [3; 2; 1; 1]%N.
Proof. exact exact_size_capacity_refuted. Qed.

Print Assumptions C11_iter_rooted.
Print Assumptions C11_root_state.
Print Assumptions C11_fused.
Print Assumptions C11_end_is_fused.
Print Assumptions C11_next_is_successor.
Print Assumptions C11_pshape_unfold.
Print Assumptions C11_het_children_nth.
Print Assumptions C11_item_cap_unfold.
Print Assumptions C11_iter_rooted_cap.
Print Assumptions C11_iter_complete_cap.
Print Assumptions C11_expect_cap_unfold.
Print Assumptions C11_iter_end_cap.
Print Assumptions C11_cap_example.
Print Assumptions C11_es_unfold.
Print Assumptions C11_exact_size_correct.
Print Assumptions C11_exact_size_capacity_refuted.
