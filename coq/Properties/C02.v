(* C02 — Every by-key operation classifies a key as the documented top-down walk does.
   Only pinned statements, [exact] proofs and [Print Assumptions]. *)
From Coq Require Import List NArith ZArith.
From MC Require Import Str Packed Tree Spec Tree_proofs.
Import ListNotations.

(* For every schema (all built-in impls and derive expansions, any nesting), runtime value,
   callback oracle, codec behaviour, key source and each of the four value operations:
   the result computed bottom-up by the code (errors born at depth 0/1, incremented on the way
   up) is the result of one top-down walk that counts consumed keys — same outcome class,
   same depth, same new value, same callback log. *)
Theorem C02_ops_refine_walk :
  forall (L : Type) (wr : L -> leafres L) (rd : L -> bool) (orc : oracle) (o : op) (t : node)
         (d : nat) (v : value L) (k : keys),
    walk L wr rd orc o t d v k = eshift L d (run wr rd orc o t v k).
Proof. exact walk_is_run. Qed.
Theorem C02_ops_are_walk :
  forall (L : Type) (wr : L -> leafres L) (rd : L -> bool) (orc : oracle) (o : op) (t : node)
         (v : value L) (k : keys),
    walk L wr rd orc o t 0 v k = run wr rd orc o t v k.
Proof. exact walk0_is_run. Qed.

(* The structural part of the outcome (reached-leaf depth, too short, not found, too long) of
   every value operation equals that of the type-level traversal of the same key, unless an
   absent variant / failed accessor / value-level failure at a depth not deeper pre-empts it;
   the traversal itself never reports Absent, Access or Invalid, and does not see the value. *)
Theorem C02_structural_agreement :
  forall (L : Type) (wr : L -> leafres L) (rd : L -> bool) (orc : oracle) (o : op) (t : node)
         (v : value L) (k : keys) (pre : list call),
    R orc (fst (fst (run wr rd orc o t v k))) (fst (trav nofail t k pre)).
Proof. exact structural_agreement. Qed.
(* the relation, spelled out (so that a weaker R cannot go unnoticed): structural failures coincide
   exactly; an absent node / a failed accessor after d consumed keys can only pre-empt a traversal
   outcome that consumed at least d keys (for NotFound at depth d0: d < d0, the d0-th key being the
   offending one); the payload is only touched (Inner) and validators only run (Invalid) for keys
   that the traversal classifies as a leaf *)
Theorem C02_R_unfold : forall orc r rt, R orc r rt =
  match r with
  | ROk d => exists d0, rt = ROk d0 /\ (norepl orc -> d = d0)
  | RErr (TooShort d) => rt = RErr (TooShort d)
  | RErr (NotFound d) => rt = RErr (NotFound d)
  | RErr (TooLong d) => rt = RErr (TooLong d)
  | RErr (Absent d) | RErr (Access d _) =>
      match rt with RErr Unreachable => True | RErr (NotFound d0) => d < d0 | _ => d <= rdepth rt end
  | RErr (Inner d) => rt = ROk d
  | RErr (Invalid d _) => exists d0, rt = ROk d0 /\ d <= d0
  | RErr Unreachable => True
  end.
Proof. intros orc r rt. destruct r as [d|[]]; reflexivity. Qed.
Theorem C02_traversal_is_structural :
  forall (cbf : list call -> call -> bool) (t : node) (k : keys) (pre : list call),
    match fst (trav cbf t k pre) with
    | RErr (Absent _) | RErr (Access _ _) | RErr (Invalid _ _) => False
    | _ => True
    end.
Proof. exact trav_structural. Qed.

(* non-vacuity: struct { a: Option<[Leaf; 2]>, #[get, validate] b: (Leaf, Deny) } reaches every outcome kind *)
Definition ex_attrs : attrs := {| a_deny := fun _ => None; a_get := Some 1%N; a_getmut := None; a_val := Some 2%N |}.
Definition ex_t : node :=
  NHet HStruct (Named [[97%N]; [98%N]])
    [(no_attrs, NGate GOption (NHom 2 (NLeaf KLeaf)));
     (ex_attrs, NHet HTuple (Numbered 2) [(no_attrs, NLeaf KLeaf); (no_attrs, NLeaf KDeny)])].
Definition ex_v (present : bool) : value N :=
  VProd [VGate (if present then GSok else GSabsent) (VProd [VLeaf 1%N; VLeaf 2%N]); VProd [VLeaf 3%N; VLeaf 4%N]].
Definition ex_run (orc : oracle) (o : op) (v : value N) (ks : list key) :=
  fst (fst (run (fun _ => LOk 9%N) (fun _ => true) orc o ex_t v (KIter ks))).
Definition okorc : oracle := fun _ => CbOk None.
Definition badget : oracle := fun id => if (id =? 1)%N then CbFail 7%N else CbOk None.
Definition badval : oracle := fun id => if (id =? 2)%N then CbFail 8%N else CbOk None.
Example C02_ex_kinds :
  ex_run okorc OSer (ex_v true) [KStr [97%N]; KInt 1] = ROk 2 /\
  ex_run okorc OSer (ex_v false) [KStr [97%N]; KInt 1] = RErr (Absent 1) /\
  ex_run okorc OSer (ex_v true) [KStr [97%N]] = RErr (TooShort 1) /\
  ex_run okorc OSer (ex_v true) [KStr [97%N]; KInt 2] = RErr (NotFound 2) /\
  ex_run okorc OSer (ex_v true) [KStr [97%N]; KInt 1; KInt 0] = RErr (TooLong 2) /\
  ex_run okorc OSer (ex_v true) [KStr [98%N]; KInt 1] = RErr (Access 2 0%N) /\
  ex_run badget OSer (ex_v true) [KStr [98%N]; KInt 0] = RErr (Access 1 7%N) /\
  ex_run badval ODe (ex_v true) [KStr [98%N]; KInt 0] = RErr (Invalid 1 8%N).
Proof. repeat split. Qed.

Print Assumptions C02_ops_refine_walk.
Print Assumptions C02_ops_are_walk.
Print Assumptions C02_structural_agreement.
Print Assumptions C02_traversal_is_structural.
Print Assumptions C02_R_unfold.
