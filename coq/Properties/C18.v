(* C18 — Device responses decode in the Python client to the device's actual state.
   Only pinned statements, [exact] proofs and [Print Assumptions].
   Composition of the device model (Mqtt.v) with the Python dispatcher model (Py.v) through [to_py]
   (what a client subscribed to its response topic receives); code strings, topic suffix and
   correlation-data length are translator output (Generated.v). *)
From Coq Require Import List NArith Arith.
From MC Require Import Generated Mqtt Mqtt_proofs Mqtt_run E2E.
From MC Require Py.
Import ListNotations.

(* the two sides agree on the wire strings of the response codes ... *)
Theorem C18_codes_agree : py_decode (rc_str RcOk) = Py.Ok /\ py_decode (rc_str RcContinue) = Py.Continue /\
                          py_decode (rc_str RcError) = Py.Other ERR_TAG.
Proof. exact codes_agree. Qed.
(* ... on the topic layout and on a correlation-data length the device can cache *)
Theorem C18_constants_agree :
  py_response_suffix = RESPONSE /\ py_response_suffix_sync = RESPONSE /\
  (0 < py_cd_length)%N /\ (py_cd_length <= MAX_CD_LENGTH)%N /\
  py_code_key_is_code = true /\ py_request_topic_is_prefix_settings_path = true /\
  (N.of_nat (length RESPONSE) + 64 <= MAX_TOPIC_LENGTH)%N.
Proof. exact constants_agree. Qed.

(* get of a leaf: the JSON value the device holds *)
Theorem C18_get : forall rtp cdb q enc im, m_settings im = Some q -> m_reply_ok im = true ->
  m_resp im = Some rtp -> m_cd im = Some cdb ->
  forall m t b, m_empty im = true -> m_ans im = AGet b -> b <> [] ->
  exists m' o, on_message m im t = Some (m', o, false) /\
    Py.finish 1 (hd_error (py_result rtp cdb enc o)) = Py.Value b.
Proof. exact e2e_get. Qed.
(* accepted set: normal completion *)
Theorem C18_set_ok : forall rtp cdb q enc im, m_settings im = Some q -> m_reply_ok im = true ->
  m_resp im = Some rtp -> m_cd im = Some cdb ->
  forall m t, m_empty im = false -> m_ans im = ASetOk ->
  exists m' o, on_message m im t = Some (m', o, true) /\
    Py.finish 1 (hd_error (py_result rtp cdb enc o)) = Py.Value T_OK.
Proof. exact e2e_set_ok. Qed.
(* every Error response: an exception carrying the device's error code and text *)
Theorem C18_error : forall rtp cdb enc im, m_reply_ok im = true -> m_resp im = Some rtp -> m_cd im = Some cdb ->
  forall o txt, o = respond im txt CError ->
  forall mode, Py.finish mode (hd_error (py_result rtp cdb enc o)) = Py.Failed ERR_TAG txt.
Proof. exact e2e_error. Qed.
Theorem C18_set_err : forall q im, m_settings im = Some q -> m_reply_ok im = true ->
  forall m t txt, m_empty im = false -> m_ans im = ASetErr txt ->
  on_message m im t = Some (m, respond im txt CError, false).
Proof. exact e2e_set_err. Qed.
Theorem C18_get_err : forall q im, m_settings im = Some q -> m_reply_ok im = true ->
  forall m t txt, m_empty im = true -> m_ans im = AErr txt ->
  on_message m im t = Some (m, respond im txt CError, false).
Proof. exact e2e_get_err. Qed.
(* a leaf whose JSON value does not fit the device's transmit buffer: the same Error path, hence (C18_error)
   an exception carrying the device's text *)
Theorem C18_get_large : forall q im, m_settings im = Some q -> m_reply_ok im = true ->
  forall m t txt, m_empty im = true -> m_ans im = AGetLarge txt ->
  on_message m im t = Some (m, respond im txt CError, false).
Proof. exact e2e_get_large. Qed.
(* list: accepted when idle and within the cache limits, and answered over any schedule of
   update() calls that lets it finish by exactly the leaf paths below the node, in iteration order *)
Theorem C18_list_starts : forall rtp cdb q im, m_settings im = Some q -> m_reply_ok im = true ->
  m_resp im = Some rtp -> m_cd im = Some cdb ->
  forall m t leaves, m_empty im = true -> m_ans im = AInternal leaves -> st m = Single ->
  too_long MAX_TOPIC_LENGTH (Some rtp) = false -> too_long MAX_CD_LENGTH (Some cdb) = false ->
  exists m', on_message m im t = Some (m', [], false) /\ st m' = Multipart /\
    pd m' = {| p_rem := leaves; p_resp := Some rtp; p_cd := Some cdb |}.
Proof. exact e2e_list_starts. Qed.
Theorem C18_list : forall rtp cdb enc es m, st m = Multipart -> p_resp (pd m) = Some rtp -> p_cd (pd m) = Some cdb ->
  Forall quiet es -> snd (action_outs es m) = true ->
  Py.finish 2 (hd_error (snd (Py.run [(enc cdb, [])] (flat_map (to_py rtp enc) (concat (fst (action_outs es m))))))) =
  match p_rem (pd m) with [] => Py.AssertEmpty | L => Py.Values L end.
Proof. exact e2e_list. Qed.

Example C18_ex :
  let im := {| m_settings := Some [100]%N; m_empty := true; m_resp := Some [114]%N; m_cd := Some [1; 2]%N;
               m_ans := AInternal [[47; 97]; [47; 98]]%N; m_reply_ok := true |} in
  let e := {| conn := true; now := 9; act_ok := true; slots := 2; accepted := None; can_after := true;
              vals := fun _ => PAbsent; all_leaves := []; api := ApiNone; poll := NoMsg |} in
  match on_message {| st := Single; timeout := None; pd := pend0 [] |} im 5%N with
  | Some (m1, _, _) =>
      Py.finish 2 (hd_error (snd (Py.run [(7%N, [])] (flat_map (to_py [114]%N (fun _ => 7%N)) (concat (fst (action_outs [e; e] m1)))))))
  | None => Py.Pending end = Py.Values [[47; 97]; [47; 98]]%N.
Proof. vm_compute. reflexivity. Qed.

Print Assumptions C18_codes_agree.
Print Assumptions C18_constants_agree.
Print Assumptions C18_get.
Print Assumptions C18_set_ok.
Print Assumptions C18_error.
Print Assumptions C18_set_err.
Print Assumptions C18_get_err.
Print Assumptions C18_get_large.
Print Assumptions C18_list_starts.
Print Assumptions C18_list.
