(* C06 — Type-level metadata is exact and sufficient for sizing key buffers.
   Only pinned statements, [exact] proofs and [Print Assumptions]. *)
From Coq Require Import List NArith ZArith.
From MC Require Import Str Packed Tree Tree_proofs NoPanic Transcode_proofs Meta_proofs Names_proofs Bound_proofs.
Import ListNotations.
Local Open Scope N_scope.

(* [stats t]: one entry (depth, summed name length in bytes, summed packed bit width) per leaf, in
   key order.  For every well-formed schema: count = number of leaves, the three maxima are the
   maxima over the leaves. *)
Theorem C06_meta_exact : forall t, wf t -> stats t <> [] /\ exact0 (metadata t) (stats t).
Proof. exact meta_exact. Qed.
Theorem C06_count_exact : forall t, wf t -> m_count (metadata t) = N.of_nat (length (stats t)).
Proof. exact count_exact. Qed.
(* each maximum is attained by some leaf and exceeded by none *)
Theorem C06_depth_attained : forall t, wf t ->
  (exists s, In s (stats t) /\ sd s = m_depth (metadata t)) /\ (forall s, In s (stats t) -> sd s <= m_depth (metadata t)).
Proof. exact depth_attained. Qed.
Theorem C06_length_attained : forall t, wf t ->
  (exists s, In s (stats t) /\ sl s = m_length (metadata t)) /\ (forall s, In s (stats t) -> sl s <= m_length (metadata t)).
Proof. exact length_attained. Qed.
Theorem C06_bits_attained : forall t, wf t ->
  (exists s, In s (stats t) /\ sb s = m_bits (metadata t)) /\ (forall s, In s (stats t) -> sb s <= m_bits (metadata t)).
Proof. exact bits_attained. Qed.

(* any Walk sees every internal node with exactly its declared children and lookup, in order;
   Metadata is one such walk, the structure-recording walk another *)
Theorem C06_metadata_is_walk : forall t, no_homog_lookup t -> metadata t = walk_gen meta leaf_meta meta_internal t.
Proof. exact metadata_is_walk. Qed.
Theorem C06_skeleton_is_walk : forall t, skeleton t = walk_gen skel SkLeaf (fun cs lk => SkInt lk cs) t.
Proof. exact skeleton_is_walk. Qed.

(* non-vacuity: the doc-test of tree.rs (2, 4, 3) and [Leaf; 10] (longest key "9") *)
Definition foo := [102; 111; 111]. Definition bar := [98; 97; 114].
Definition ex_t : node := NHet HStruct (Named [foo; bar]) [(no_attrs, NLeaf KLeaf); (no_attrs, NHom 2 (NLeaf KLeaf))].
Example C06_ex : wf ex_t /\ metadata ex_t = {| m_count := 3; m_depth := 2; m_length := 4; m_bits := 2 |} /\
  metadata (NHom 10 (NLeaf KLeaf)) = {| m_count := 10; m_depth := 1; m_length := 1; m_bits := 4 |} /\
  stats ex_t = [(1, 3, 1); (2, 4, 2); (2, 4, 2)].
Proof. repeat split; try discriminate; reflexivity. Qed.

(* buffers sized from the metadata suffice: whatever key source is used and whatever node it reaches
   (or fails at), the callback is invoked at most max_depth times and the names / decimal indices it
   is given sum up to at most max_length bytes *)
Theorem C06_path_bound : forall t k pre r calls, wf t -> trav nofail t k pre = (r, calls) ->
  exists new, calls = new ++ pre /\ N.of_nat (length new) <= m_depth (metadata t) /\ csum new <= m_length (metadata t).
Proof. exact path_bound. Qed.
Theorem C06_itoa_bytes : forall i, i < 18446744073709551616 -> str_bytes (itoa i) = digits i.
Proof. exact itoa_bytes. Qed.
(* so a Path written for any node fits Metadata::max_length(separator) bytes *)
Theorem C06_path_buffer_suffices : forall sep t k r calls, wf t -> small t -> trav nofail t k [] = (r, calls) ->
  Forall (fun c : call => fst (fst c) < 18446744073709551616) calls ->
  N.of_nat (wsum (concat (map (call_text_path sep) (rev calls)))) <=
  m_length (metadata t) + m_depth (metadata t) * N.of_nat (utf8_len sep).
Proof. exact path_buffer_suffices. Qed.

Print Assumptions C06_meta_exact.
Print Assumptions C06_count_exact.
Print Assumptions C06_depth_attained.
Print Assumptions C06_length_attained.
Print Assumptions C06_bits_attained.
Print Assumptions C06_metadata_is_walk.
Print Assumptions C06_skeleton_is_walk.
Print Assumptions C06_path_bound.
Print Assumptions C06_itoa_bytes.
Print Assumptions C06_path_buffer_suffices.
