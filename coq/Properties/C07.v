(* C07 — MQTT Get/Set/List requests are answered once, correctly, and correlated.
   Only pinned statements, [exact] proofs and [Print Assumptions]. *)
From Coq Require Import List NArith Arith.
From MC Require Import Generated Mqtt Mqtt_proofs Mqtt_run.
Import ListNotations.

(* at most one immediate response per request, on the request's response topic (the request topic
   for a Get without one), carrying the request's correlation data *)
Theorem C07_one_response : forall m im t m' o ch, on_message m im t = Some (m', o, ch) ->
  o = [] \/ exists tp pl c, o = [OPub tp pl false (Some c) (m_cd im)] /\
            (tp = TOther (match m_resp im with Some r => r | None => match m_settings im with Some q => q | None => [] end end)).
Proof. exact on_message_one_response. Qed.

(* the exact answer, case by case, for a request the client is able to answer *)
Theorem C07_answers : forall m im t q, m_settings im = Some q -> m_reply_ok im = true ->
  on_message m im t =
  (if m_empty im then
     match m_ans im with
     | AGet b => Some (m, [OPub (TOther (match m_resp im with Some r => r | None => q end)) b false (Some COk) (m_cd im)], false)
     | AInternal leaves =>
         if sm_eqb (st m) Single then
           if too_long MAX_TOPIC_LENGTH (m_resp im) then Some (m, respond im T_RESP_LONG CError, false)
           else if too_long MAX_CD_LENGTH (m_cd im) then Some (m, respond im T_CD_LONG CError, false)
           else bind (process m EMultipart t) (fun m' =>
                  Some ({| st := st m'; timeout := timeout m';
                           pd := {| p_rem := leaves; p_resp := m_resp im; p_cd := m_cd im |} |}, [], false))
         else Some (m, respond im T_PENDING CError, false)
     | AErr txt | AGetLarge txt => Some (m, respond im txt CError, false)
     | _ => Some (m, [], false)
     end
   else
     match m_ans im with
     | ASetOk => Some (m, respond im T_OK COk, true)
     | ASetErr txt => Some (m, respond im txt CError, false)
     | _ => Some (m, [], false)
     end).
Proof. exact on_message_answers. Qed.
Theorem C07_respond : forall im payload c, m_reply_ok im = true ->
  respond im payload c = match m_resp im with Some r => [OPub (TOther r) payload false (Some c) (m_cd im)] | None => [] end.
Proof. exact respond_ok. Qed.

(* list: one Continue per leaf path in iteration order, then exactly one Ok with empty payload, all on
   the cached response topic with the cached correlation data; over any schedule of calls *)
Theorem C07_pump_list_det : forall t n m, st m = Multipart ->
  let rt := match p_resp (pd m) with Some r => TOther r | None => TOther [] end in
  exists m', pump_list n t m = Some (m', list_msgs rt (p_cd (pd m)) (firstn n (p_rem (pd m))) ++
                                     (if (length (p_rem (pd m)) <? n)%nat then [OPub rt [] false (Some COk) (p_cd (pd m))] else [])) /\
    p_rem (pd m') = skipn n (p_rem (pd m)) /\ p_resp (pd m') = p_resp (pd m) /\ p_cd (pd m') = p_cd (pd m) /\
    timeout m' = timeout m /\
    st m' = if (length (p_rem (pd m)) <? n)%nat then Single else Multipart.
Proof. exact pump_list_det. Qed.
Theorem C07_list_refines : forall es m rtb, st m = Multipart -> p_resp (pd m) = Some rtb -> Forall quiet es ->
  action_outs es m = list_spec es (p_rem (pd m)) (TOther rtb) (p_cd (pd m)).
Proof. exact list_refines. Qed.
Theorem C07_list_msgs : forall rt cd ps, list_msgs rt cd ps = map (fun p => OPub rt p false (Some CContinue) cd) ps.
Proof. reflexivity. Qed.

(* a list / dump request while another multipart answer (or the initial dump) is pending is refused
   and does not disturb the pending one *)
Theorem C07_busy_refusal : forall m im t m' o ch, st m <> Single -> on_message m im t = Some (m', o, ch) -> m' = m.
Proof. exact busy_refusal. Qed.
(* requests never touch the protocol state except to start a multipart answer from Single, which
   caches exactly the request's response topic and correlation data *)
Theorem C07_on_message_state : forall m im t m' o ch, on_message m im t = Some (m', o, ch) ->
  m' = m \/ (st m = Single /\ st m' = Multipart /\ exists leaves, m_ans im = AInternal leaves /\ p_rem (pd m') = leaves /\
             p_resp (pd m') = m_resp im /\ p_cd (pd m') = m_cd im).
Proof. exact on_message_state. Qed.
(* nothing is sent for a request that was not received *)
Theorem C07_no_request_no_response : forall e m1 o1 m2 o2 ch, poll e = NoMsg ->
  poll_action e m1 o1 = Some (m2, o2, ch) -> m2 = m1 /\ o2 = [] /\ ch = false.
Proof. exact no_request_no_response. Qed.

Definition ex_msg : inmsg :=
  {| m_settings := Some [100; 47; 115]%N; m_empty := true; m_resp := Some [114]%N; m_cd := Some [7]%N;
     m_ans := AInternal [[47; 97]; [47; 98]]%N; m_reply_ok := true |}.
Definition ex_env (n : nat) (p : pollev) : env :=
  {| conn := true; now := 5000; act_ok := true; slots := n; accepted := None; can_after := true;
     vals := fun _ => PVal [49]%N; all_leaves := []; api := ApiNone; poll := p |}.
Example C07_ex :
  map (fun x => match x with Some (m, o, _) => (st m, o) | None => (Connect, []) end)
      (run [ex_env 4 (Msg ex_msg); ex_env 1 (Msg ex_msg); ex_env 4 NoMsg]
           {| st := Single; timeout := None; pd := pend0 [] |}) =
  [(Multipart, []);
   (Multipart, [OPub (TOther [114]%N) [47; 97]%N false (Some CContinue) (Some [7]%N);
                OPub (TOther [114]%N) T_PENDING false (Some CError) (Some [7]%N)]);
   (Single, [OPub (TOther [114]%N) [47; 98]%N false (Some CContinue) (Some [7]%N);
             OPub (TOther [114]%N) [] false (Some COk) (Some [7]%N)])].
Proof. vm_compute. reflexivity. Qed.

Print Assumptions C07_one_response.
Print Assumptions C07_answers.
Print Assumptions C07_respond.
Print Assumptions C07_pump_list_det.
Print Assumptions C07_list_refines.
Print Assumptions C07_list_msgs.
Print Assumptions C07_busy_refusal.
Print Assumptions C07_on_message_state.
Print Assumptions C07_no_request_no_response.
