(* C05 — Leaf values survive get/set through JSON and postcard unchanged.
   Only pinned statements, [exact] proofs and [(* non-vacuity of the composed statement: { a: u8 = 5, m: { gain: i16 = -3, on: bool } } read and
   written back through the name key "m" *)
Definition ex_tree_t : node := NHet HStruct (Named [[97]; [109]]) [(no_attrs, NLeaf KLeaf); (no_attrs, NLeaf KLeaf)].
Definition ex_m_ty : lty := TStruct [([103; 97; 105; 110], TInt I16); ([111; 110], TBool)].
Definition ex_tree_v : value tleaf :=
  VProd [VLeaf (TInt U8, LInt 5%Z); VLeaf (ex_m_ty, LArr [LInt (-3)%Z; LBool true])].
Example C05_ex_tree :
  run wr_json (fun _ => true) (fun _ => CbOk None) OSer ex_tree_t ex_tree_v (KIter [KStr [109]]) =
    (ROk 1, ex_tree_v, [EvRead (ex_m_ty, LArr [LInt (-3)%Z; LBool true])]) /\
  has_ty ex_m_ty (LArr [LInt (-3)%Z; LBool true]) = true /\
  jenc_t ex_m_ty (LArr [LInt (-3)%Z; LBool true]) =
    [123; 34; 103; 97; 105; 110; 34; 58; 45; 51; 44; 34; 111; 110; 34; 58; 116; 114; 117; 101; 125] /\
  run wr_json (fun _ => true) (fun _ => CbOk None) ODe ex_tree_t ex_tree_v (KIter [KStr [109]]) =
    (ROk 1, ex_tree_v, [EvWrite (ex_m_ty, LArr [LInt (-3)%Z; LBool true])]).
Proof. vm_compute. repeat split. Qed.

Print Assumptions].
   Codec models: coq/Ser.v (type-directed JSON and postcard encoders / decoders over the value
   universe of Codec.v: integers of every width, bool, unit, Option, arrays, tuples, strings of
   plain characters incl. non-ASCII, string tags, serde unit-variant enums, nested serde structs);
   tree level: coq/Codec_tree.v over Tree.run.  Floats are outside the model (DESIGN.md: decided
   on the implementation only). *)
From Coq Require Import List NArith ZArith Bool.
From MC Require Import Str Codec Ser Ser_proofs Tree Tree_proofs Codec_tree Compose_proofs.
Import ListNotations.
Local Open Scope N_scope.

(* JSON: decoding what was encoded gives the value back and stops exactly behind it *)
Theorem C05_json_roundtrip : forall t v rest, has_ty t v = true -> ok_rest rest -> jdec t (jenc_t t v ++ rest) = Some (v, rest).
Proof. exact jdec_roundtrip. Qed.
(* the helpers: what get produced is accepted by set, which consumes exactly that many bytes and
   decodes the same value; the byte count is exact and within the buffer *)
Theorem C05_json_set_get : forall t v cap b, has_ty t v = true -> json_get t cap v = Some b ->
  json_set t b = SetOk v (N.of_nat (length b)) /\ b = jenc_t t v /\ N.of_nat (length b) <= cap.
Proof. exact json_set_get. Qed.
(* a buffer that is too small is an error, never a partial success *)
Theorem C05_json_get_small : forall t cap v, cap < N.of_nat (length (jenc_t t v)) -> json_get t cap v = None.
Proof. exact json_get_small. Qed.
(* postcard: the same, with any trailing bytes returned as the remainder *)
Theorem C05_postcard_roundtrip : forall t v rest, has_ty t v = true -> pdec t (penc t v ++ rest) = Some (v, rest).
Proof. exact pdec_roundtrip. Qed.
Theorem C05_postcard_set_get : forall t v cap b rest, has_ty t v = true -> postcard_get t cap v = Some b ->
  postcard_set t (b ++ rest) = Some (v, rest) /\ b = penc t v /\ N.of_nat (length b) <= cap.
Proof. exact postcard_set_get. Qed.
Theorem C05_postcard_get_small : forall t cap v, cap < N.of_nat (length (penc t v)) -> postcard_get t cap v = None.
Proof. exact postcard_get_small. Qed.
(* the ingredients, for every width *)
Theorem C05_varint_roundtrip : forall fuel n rest, (0 < fuel)%nat -> n < 128 ^ N.of_nat fuel ->
  unvarint fuel (varint fuel n ++ rest) = Some (n, rest).
Proof. exact varint_roundtrip. Qed.
Theorem C05_zigzag_roundtrip : forall z, unzigzag (zigzag z) = z.
Proof. exact zigzag_roundtrip. Qed.
Theorem C05_utf8_roundtrip : forall c rest, c < 1114112 -> utf8_decode1 (utf8_encode c ++ rest) = Some (c, rest).
Proof. exact utf8_roundtrip1. Qed.
Theorem C05_decimal_roundtrip : forall z rest, ok_rest rest -> parse_int (render_int z ++ rest) = Some (z, rest).
Proof. exact parse_render_int. Qed.

(* the tree (any schema, any nesting, any key source, any callbacks): reading a leaf by key and
   writing the produced payload back by the same key leaves the whole tree unchanged, provided the
   codec decodes that payload to the value that was read (which the theorems above establish) *)
Theorem C05_get_set_identity : forall (L : Type) (wr : L -> leafres L) (rd : L -> bool) (orc : oracle) t v k d v1 lg,
  run wr rd orc OSer t v k = (ROk d, v1, lg) -> faithful L wr lg -> snd (fst (run wr rd orc ODe t v k)) = v.
Proof. exact get_set_identity'. Qed.
(* ... instantiated with the JSON and postcard codec models: leaves hold (type, value) pairs, set
   decodes the very bytes get produced for the leaf (postcard: followed by any other bytes).  For
   every tree type, state, key and callback behaviour: if the read succeeds on a well-typed leaf,
   writing the bytes back by the same key leaves the whole tree exactly as it was *)
Theorem C05_wr_json_unfold : forall x : tleaf, wr_json x =
  match json_set (fst x) (jenc_t (fst x) (snd x)) with
  | SetOk v _ => LOk (fst x, v) | SetTrailing _ => LInvalid | SetErr => LInner end.
Proof. reflexivity. Qed.
Theorem C05_wr_postcard_unfold : forall rest (x : tleaf), wr_postcard rest x =
  match postcard_set (fst x) (penc (fst x) (snd x) ++ rest) with
  | Some (v, _) => LOk (fst x, v) | None => LInner end.
Proof. reflexivity. Qed.
Theorem C05_tree_json_identity : forall (rd : tleaf -> bool) (orc : oracle) t v k d v1 lg,
  run wr_json rd orc OSer t v k = (ROk d, v1, lg) ->
  (forall x, In (EvRead x) lg -> has_ty (fst x) (snd x) = true) ->
  snd (fst (run wr_json rd orc ODe t v k)) = v.
Proof. exact tree_json_get_set_identity. Qed.
Theorem C05_tree_postcard_identity : forall rest (rd : tleaf -> bool) (orc : oracle) t v k d v1 lg,
  run (wr_postcard rest) rd orc OSer t v k = (ROk d, v1, lg) ->
  (forall x, In (EvRead x) lg -> has_ty (fst x) (snd x) = true) ->
  snd (fst (run (wr_postcard rest) rd orc ODe t v k)) = v.
Proof. exact tree_postcard_get_set_identity. Qed.
(* writing a value and reading it back by the same key reads what the codec wrote *)
Theorem C05_set_get_value : forall (L : Type) (wr : L -> leafres L) (rd : L -> bool) (orc : oracle) t v k,
  SG L (run wr rd orc ODe t v k) (fun v' => run wr rd orc OSer t v' k).
Proof. exact set_get_value. Qed.
Theorem C05_SG_unfold : forall (L : Type) xD fS, SG L xD fS =
  (forall r v' lgD, xD = (r, v', lgD) -> forall y, In (EvWrite y) lgD ->
   forall d c1 lgS, fS v' = (ROk d, c1, lgS) -> In (EvRead y) lgS).
Proof. reflexivity. Qed.

Example C05_ex :
  let t := TTup [TInt I16; TOpt (TInt U8); TArr 2 TBool; TStr 8; TTag; TUnit] in
  let v := LArr [LInt (-300); LOpt (Some (LInt 7)); LArr [LBool true; LBool false]; LStr [104; 233]; LTag 1; LUnit] in
  has_ty t v = true /\ json_set t (jenc_t t v) = SetOk v 37 /\
  penc t v = [215; 4; 1; 7; 1; 0; 3; 104; 195; 169; 2; 66; 98] /\ postcard_set t (penc t v ++ [9]) = Some (v, [9]).
Proof. vm_compute. repeat split; reflexivity. Qed.

(* serde structs and enums: JSON object in declaration order / variant name, postcard concatenation / index *)
Example C05_ex_struct :
  let mode := TEnum [[79; 102; 102]; [83; 108; 111; 119]; [70; 97; 115; 116]] in
  let t := TStruct [([120], TInt I16); ([111; 110], TBool); ([110; 97; 109; 101], TStr 6);
                    ([105; 110; 110; 101; 114], TStruct [([107], TOpt (TInt U8)); ([109], mode)])] in
  let v := LArr [LInt (-2); LBool true; LStr [233]; LArr [LOpt None; LTag 2]] in
  has_ty t v = true /\
  jenc_t t v = [123; 34; 120; 34; 58; 45; 50; 44; 34; 111; 110; 34; 58; 116; 114; 117; 101; 44; 34; 110; 97; 109; 101; 34; 58; 34; 195; 169; 34; 44;
                34; 105; 110; 110; 101; 114; 34; 58; 123; 34; 107; 34; 58; 110; 117; 108; 108; 44; 34; 109; 34; 58; 34; 70; 97; 115; 116; 34; 125; 125] /\
  json_set t (jenc_t t v) = SetOk v 60 /\ penc t v = [3; 1; 2; 195; 169; 0; 2] /\ postcard_set t (penc t v) = Some (v, []).
Proof. vm_compute. repeat split; reflexivity. Qed.

Print Assumptions C05_json_roundtrip.
Print Assumptions C05_json_set_get.
Print Assumptions C05_json_get_small.
Print Assumptions C05_postcard_roundtrip.
Print Assumptions C05_postcard_set_get.
Print Assumptions C05_postcard_get_small.
Print Assumptions C05_varint_roundtrip.
Print Assumptions C05_zigzag_roundtrip.
Print Assumptions C05_utf8_roundtrip.
Print Assumptions C05_decimal_roundtrip.
Print Assumptions C05_get_set_identity.
Print Assumptions C05_set_get_value.
Print Assumptions C05_wr_json_unfold.
Print Assumptions C05_wr_postcard_unfold.
Print Assumptions C05_tree_json_identity.
Print Assumptions C05_tree_postcard_identity.
Print Assumptions C05_SG_unfold.
