(* C16 — No key or payload can make a tree operation panic.
   Only pinned statements, [exact] proofs and [Print Assumptions].  Every place where the Rust code
   can panic (unreachable!(), slice index, str slice, shift) is an explicit failure value in the
   model; the theorems show these values are never produced. *)
From Coq Require Import List NArith ZArith.
From MC Require Import Str Str_proofs Packed Packed_proofs Tree Spec Tree_proofs NoPanic Transcode_proofs.
From MC Require Odometer Iter_proofs Iter_cap.
Import ListNotations.

(* every index any key source hands out (names, numerals, integers of any width, packed words,
   chains) is below the sibling count: no match arm `_ => unreachable!()` and no array index
   out of bounds can be reached through Keys::next *)
Theorem C16_index_in_range : forall (k : keys) (lk : lookup) (i : N) (k' : keys),
  knext k lk = (KOk i, k') -> (i < lk_len lk)%N.
Proof. exact knext_bound. Qed.

(* the four value operations on any well-formed schema, any value of it, any key source, any
   payload behaviour, any callback behaviour *)
Theorem C16_value_ops_no_panic : forall (L : Type) (wr : L -> leafres L) (rd : L -> bool) (orc : oracle) (o : op) (t : node)
    (v : value L) (k : keys),
  wf t -> has_type L t v -> safe L (run wr rd orc o t v k).
Proof. exact run_no_panic. Qed.

(* the type-level traversal (transcode into any target, with any callback behaviour) *)
Theorem C16_traversal_no_panic : forall (cbf : list call -> call -> bool) (t : node) (k : keys) (pre : list call),
  wf t -> fst (trav cbf t k pre) <> RErr Unreachable.
Proof. exact trav_no_panic. Qed.

(* string keys: no slice off a char boundary or out of range, for any separator and any text *)
Theorem C16_path_no_panic : forall S st, path_next S st <> Panic.
Proof. exact path_next_no_panic. Qed.
Theorem C16_json_no_panic : forall s, json_next s <> JPanic.
Proof. exact json_next_no_panic. Qed.

(* packed keys: widths of 64 bits or more are refused instead of overflowing a shift; for nodes
   with up to 2^63 children the width is at most 63 *)
Theorem C16_pop_wide : forall w bits, (64 <= bits)%Z -> pop_msb w bits = None.
Proof. exact pop_wide. Qed.
Theorem C16_push_wide : forall x t bits v, (64 <= bits)%Z -> push_lsb (mkb x t) bits v = None.
Proof. exact push_wide. Qed.
Theorem C16_packed_key_width : forall n : N, (1 <= n <= 2 ^ 63)%N -> (1 <= bits_for (Z.of_N n - 1) <= 63)%Z.
Proof. exact packed_key_width. Qed.

(* non-vacuity: a well-formed schema with a value of it *)
Definition ex_t : node := NHet HStruct (Named [[97%N]; [98%N]]) [(no_attrs, NGate GOption (NHom 2 (NLeaf KLeaf))); (no_attrs, NHet HResult (Named [[79%N; 107%N]; [69%N; 114%N; 114%N]]) [(no_attrs, NLeaf KLeaf); (no_attrs, NLeaf KDeny)])].
Definition ex_v : value N := VProd [VGate GSok (VProd [VLeaf 1%N; VLeaf 2%N]); VSum (Some 1) (VLeaf 3%N)].
Example C16_ex : wf ex_t /\ has_type N ex_t ex_v.
Proof. simpl. repeat split; try discriminate; try (right; repeat split); auto. Qed.

(* NodeIter::next: its loop never exhausts its budget and never meets an outcome it does not handle
   (the model's IPanic), for any target (with or without capacity), depth limit and writable root *)
Theorem C16_iteration_no_panic : forall t tg D' p c, NoPanic.wf t -> small t ->
  Odometer.descend (Iter_cap.pshape (tg_fail tg) t []) p = Some c ->
  ~ In IPanic (iter_collect (S (S (length (Odometer.enum D' c)))) t tg
                 {| i_idx := p ++ Odometer.zeros D'; i_root := length p; i_depth := length p + D' + 1 |}).
Proof. exact Iter_cap.iter_no_panic. Qed.

Print Assumptions C16_index_in_range.
Print Assumptions C16_value_ops_no_panic.
Print Assumptions C16_traversal_no_panic.
Print Assumptions C16_path_no_panic.
Print Assumptions C16_json_no_panic.
Print Assumptions C16_pop_wide.
Print Assumptions C16_push_wide.
Print Assumptions C16_packed_key_width.
Print Assumptions C16_iteration_no_panic.
