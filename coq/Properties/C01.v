(* C01 — By-key write hits exactly the designated leaf; failed access changes nothing.
   Only pinned statements, [exact] proofs and [Print Assumptions]. *)
From Coq Require Import List NArith ZArith.
From MC Require Import Str Packed Tree Spec Tree_proofs.
Import ListNotations.

(* For every schema, value, oracle, codec, key source and operation: either the tree is
   unchanged and no leaf was written, or exactly one leaf write happened and the new tree is the
   old one with the leaf at one index path replaced by what the codec produced from the payload. *)
Theorem C01_write_frame :
  forall (L : Type) (wr : L -> leafres L) (rd : L -> bool) (orc : oracle) (o : op) (t : node)
         (v : value L) (k : keys),
    frame L wr v (run wr rd orc o t v k).
Proof. exact write_frame. Qed.

(* a leaf write can only be followed by success or by a validator's rejection (Invalid) *)
Theorem C01_write_implies_ok_or_invalid :
  forall (L : Type) (wr : L -> leafres L) (rd : L -> bool) (orc : oracle) (o : op) (t : node)
         (v : value L) (k : keys),
    wrote L (run wr rd orc o t v k).
Proof. exact write_implies_okinv. Qed.

(* every other failure (Absent, TooShort, NotFound, TooLong, Access, Inner) leaves the whole tree unchanged *)
Theorem C01_failed_access_unchanged :
  forall (L : Type) (wr : L -> leafres L) (rd : L -> bool) (orc : oracle) (o : op) (t : node)
         (v : value L) (k : keys) (r : res) (v' : value L) (lg : list (event L)),
    run wr rd orc o t v k = (r, v', lg) -> ~ okinv r -> v' = v.
Proof. exact failed_access_unchanged. Qed.

(* serialize and immutable-any never modify the tree *)
Theorem C01_read_pure :
  forall (L : Type) (wr : L -> leafres L) (rd : L -> bool) (orc : oracle) (o : op) (t : node)
         (v : value L) (k : keys) (r : res) (v' : value L) (lg : list (event L)),
    writes o = false -> run wr rd orc o t v k = (r, v', lg) -> v' = v.
Proof. exact read_pure. Qed.

(* non-vacuity: a successful write, a rejected-by-validator write (leaf updated) and a failed one *)
Definition vattrs : attrs := {| a_deny := fun _ => None; a_get := None; a_getmut := None; a_val := Some 2%N |}.
Definition ex_t : node := NHet HStruct (Named [[97%N]; [98%N]]) [(no_attrs, NHom 2 (NLeaf KLeaf)); (vattrs, NLeaf KLeaf)].
Definition ex_v : value N := VProd [VProd [VLeaf 1%N; VLeaf 2%N]; VLeaf 3%N].
Definition badval : oracle := fun id => if (id =? 2)%N then CbFail 8%N else CbOk None.
Example C01_ex :
  run (fun _ => LOk 9%N) (fun _ => true) (fun _ => CbOk None) ODe ex_t ex_v (KIter [KStr [97%N]; KInt 1])
    = (ROk 2, VProd [VProd [VLeaf 1%N; VLeaf 9%N]; VLeaf 3%N], [EvWrite 9%N]) /\
  run (fun _ => LOk 9%N) (fun _ => true) badval ODe ex_t ex_v (KIter [KStr [98%N]])
    = (RErr (Invalid 1 8%N), VProd [VProd [VLeaf 1%N; VLeaf 2%N]; VLeaf 9%N], [EvWrite 9%N; EvVal 2%N 0]) /\
  run (fun _ => LInner) (fun _ => true) badval ODe ex_t ex_v (KIter [KStr [98%N]])
    = (RErr (Inner 1), ex_v, []).
Proof. repeat split. Qed.

Print Assumptions C01_write_frame.
Print Assumptions C01_write_implies_ok_or_invalid.
Print Assumptions C01_failed_access_unchanged.
Print Assumptions C01_read_pure.
