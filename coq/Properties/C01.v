(* C01 — By-key write hits exactly the designated leaf; failed access changes nothing.
   Only pinned statements, [exact] proofs and [Print Assumptions]. *)
From Coq Require Import List NArith ZArith.
From MC Require Import Str Packed Tree Spec Tree_proofs NoPanic Transcode_proofs Frame_proofs Equiv_proofs.
Import ListNotations.

(* For every schema, value, oracle, codec, key source and operation: either the tree is
   unchanged and no leaf was written, or exactly one leaf write happened and the new tree is the
   old one with the leaf at one index path replaced by what the codec produced from the payload. *)
Theorem C01_write_frame :
  forall (L : Type) (wr : L -> leafres L) (rd : L -> bool) (orc : oracle) (o : op) (t : node)
         (v : value L) (k : keys),
    frame L wr v (run wr rd orc o t v k).
Proof. exact write_frame. Qed.

(* a leaf write can only be followed by success or by a validator's rejection (Invalid) *)
Theorem C01_write_implies_ok_or_invalid :
  forall (L : Type) (wr : L -> leafres L) (rd : L -> bool) (orc : oracle) (o : op) (t : node)
         (v : value L) (k : keys),
    wrote L (run wr rd orc o t v k).
Proof. exact write_implies_okinv. Qed.

(* every other failure (Absent, TooShort, NotFound, TooLong, Access, Inner) leaves the whole tree unchanged *)
Theorem C01_failed_access_unchanged :
  forall (L : Type) (wr : L -> leafres L) (rd : L -> bool) (orc : oracle) (o : op) (t : node)
         (v : value L) (k : keys) (r : res) (v' : value L) (lg : list (event L)),
    run wr rd orc o t v k = (r, v', lg) -> ~ okinv r -> v' = v.
Proof. exact failed_access_unchanged. Qed.

(* serialize and immutable-any never modify the tree *)
Theorem C01_read_pure :
  forall (L : Type) (wr : L -> leafres L) (rd : L -> bool) (orc : oracle) (o : op) (t : node)
         (v : value L) (k : keys) (r : res) (v' : value L) (lg : list (event L)),
    writes o = false -> run wr rd orc o t v k = (r, v', lg) -> v' = v.
Proof. exact read_pure. Qed.

(* "the one leaf that the key designates": the value path [vpath t k] is a function of the type and
   the key alone (products consume one index per level; enums, Option and the other wrappers are
   transparent).  Every operation touches at most the leaf stored there: a write replaces exactly it
   with what the codec made of its old value, a read reads exactly it, anything else leaves the tree
   and every leaf untouched. *)
Theorem C01_framed_unfold :
  forall (L : Type) (wr : L -> leafres L) (P : option (list nat)) (v : value L) r v' lg,
  framed L wr P v (r, v', lg) <->
  ((exists path old y, P = Some path /\ vget v path = Some old /\ wr old = LOk y /\
      v' = vset v path (VLeaf y) /\ filter (touch L) lg = [EvWrite y]) \/
   (exists path old, P = Some path /\ vget v path = Some old /\ v' = v /\ filter (touch L) lg = [EvRead old]) \/
   (v' = v /\ filter (touch L) lg = [])).
Proof. intros. apply iff_refl. Qed.

Theorem C01_designated_leaf :
  forall (L : Type) (wr : L -> leafres L) (rd : L -> bool) (orc : oracle) (o : op) (t : node)
         (v : value L) (k : keys),
    framed L wr (vpath t k) v (run wr rd orc o t v k).
Proof. exact run_designated. Qed.

(* a write stores y; any later read, by any operation, through any key designating the same leaf
   returns y *)
Theorem C01_write_then_read :
  forall (L : Type) (wr : L -> leafres L) (rd : L -> bool) (orc : oracle) (o1 o2 : op) (t : node)
         (v : value L) (k1 k2 : keys) r1 v1 lg1 r2 v2 lg2 (y x : L),
    run wr rd orc o1 t v k1 = (r1, v1, lg1) -> In (EvWrite y) lg1 ->
    vpath t k2 = vpath t k1 ->
    run wr rd orc o2 t v1 k2 = (r2, v2, lg2) -> In (EvRead x) lg2 -> x = y.
Proof. exact write_then_read. Qed.

(* equivalent keys: any two keys (names, indices, paths, packed, chains) that reach a node with the
   same callback trace (i.e. that transcode to the same index tuple) give identical outcomes (result,
   new tree, call log) for every operation, state and callback behaviour *)
Theorem C01_equivalent_keys :
  forall (L : Type) (wr : L -> leafres L) (rd : L -> bool) (orc : oracle) (o : op) (t : node)
         (k1 k2 : keys) r1 r2 calls, NoPanic.wf t -> small t ->
    trav nofail t k1 [] = (r1, calls) -> reached r1 ->
    trav nofail t k2 [] = (r2, calls) -> reached r2 ->
    forall v : value L, run wr rd orc o t v k1 = run wr rd orc o t v k2.
Proof. exact equivalent_keys. Qed.

Theorem C01_index_form :
  forall (L : Type) (wr : L -> leafres L) (rd : L -> bool) (orc : oracle) (o : op) (t : node)
         (k : keys) pre r calls, NoPanic.wf t -> small t ->
    trav nofail t k pre = (r, calls) -> reached r ->
    exists new, calls = new ++ pre /\
      forall v : value L, run wr rd orc o t v k = run wr rd orc o t v (KIter (map idx_key (rev new))).
Proof. exact run_index_form. Qed.

(* non-vacuity: a successful write, a rejected-by-validator write (leaf updated) and a failed one *)
Definition vattrs : attrs := {| a_deny := fun _ => None; a_get := None; a_getmut := None; a_val := Some 2%N |}.
Definition ex_t : node := NHet HStruct (Named [[97%N]; [98%N]]) [(no_attrs, NHom 2 (NLeaf KLeaf)); (vattrs, NLeaf KLeaf)].
Definition ex_v : value N := VProd [VProd [VLeaf 1%N; VLeaf 2%N]; VLeaf 3%N].
Definition badval : oracle := fun id => if (id =? 2)%N then CbFail 8%N else CbOk None.
Example C01_ex :
  run (fun _ => LOk 9%N) (fun _ => true) (fun _ => CbOk None) ODe ex_t ex_v (KIter [KStr [97%N]; KInt 1])
    = (ROk 2, VProd [VProd [VLeaf 1%N; VLeaf 9%N]; VLeaf 3%N], [EvWrite 9%N]) /\
  run (fun _ => LOk 9%N) (fun _ => true) badval ODe ex_t ex_v (KIter [KStr [98%N]])
    = (RErr (Invalid 1 8%N), VProd [VProd [VLeaf 1%N; VLeaf 2%N]; VLeaf 9%N], [EvWrite 9%N; EvVal 2%N 0]) /\
  run (fun _ => LInner) (fun _ => true) badval ODe ex_t ex_v (KIter [KStr [98%N]])
    = (RErr (Inner 1), ex_v, []).
Proof. repeat split. Qed.

Example C01_ex_designated :
  vpath ex_t (KIter [KStr [97%N]; KInt 1]) = Some [0; 1] /\
  vpath ex_t (KIter [KInt 0; KInt 1]) = Some [0; 1] /\
  vpath ex_t (KIter [KStr [98%N]]) = Some [1] /\
  vpath ex_t (KIter [KStr [99%N]]) = None /\
  vget ex_v [0; 1] = Some 2%N.
Proof. repeat split. Qed.

Print Assumptions C01_write_frame.
Print Assumptions C01_write_implies_ok_or_invalid.
Print Assumptions C01_failed_access_unchanged.
Print Assumptions C01_read_pure.
Print Assumptions C01_framed_unfold.
Print Assumptions C01_designated_leaf.
Print Assumptions C01_write_then_read.
Print Assumptions C01_equivalent_keys.
Print Assumptions C01_index_form.
