(* C12 — Accessor, validator and deny attributes are invoked in the documented protocol.
   Only pinned statements, [exact] proofs and [Print Assumptions]. *)
From Coq Require Import List NArith ZArith.
From MC Require Import Str Packed Tree Spec Tree_proofs Protocol.
Import ListNotations.

(* one field: a deny attribute stops the walk there: no getter, no child, no validator *)
Theorem C12_deny_stops : forall (L : Type) (orc : oracle) (o : op) (a : attrs) (v : value L) (child : value L -> out L) (m : N),
  a_deny a o = Some m -> arm orc o a v child = (RErr (Access 0 m), v, []).
Proof. exact arm_deny. Qed.
(* a failing getter (immutable for reads, mutable for writes) is the last callback; the child is not entered *)
Theorem C12_getter_failure_stops : forall (L : Type) (orc : oracle) (o : op) (a : attrs) (v : value L) (child : value L -> out L) (id m : N),
  a_deny a o = None -> (if writes o then a_getmut a else a_get a) = Some id -> orc id = CbFail m ->
  arm orc o a v child = (RErr (Access 0 m), v, [getter_ev L o id]).
Proof. exact arm_getter_fail. Qed.
(* an error from below passes through unchanged: no validator runs *)
Theorem C12_no_validator_after_error : forall (L : Type) (orc : oracle) (o : op) (a : attrs) (v : value L) (child : value L -> out L)
    (e : err) (v' : value L) (lg : list (event L)),
  a_deny a o = None -> getter_ok orc o a -> child v = (RErr e, v', lg) ->
  arm orc o a v child = (RErr e, v', getter_log L o a ++ lg).
Proof. exact arm_child_error. Qed.
(* validators run on deserialize only *)
Theorem C12_no_validator_on_other_ops : forall (L : Type) (orc : oracle) (o : op) (a : attrs) (v : value L) (child : value L -> out L)
    (r : res) (v' : value L) (lg : list (event L)),
  o <> ODe -> a_deny a o = None -> getter_ok orc o a -> child v = (r, v', lg) ->
  arm orc o a v child = (r, v', getter_log L o a ++ lg).
Proof. exact arm_not_deserialize. Qed.
(* the validator runs after the child, receives the number of keys consumed below its field, may
   replace it, and its failure is Invalid at its own field (its depth is added on the way up, C02) *)
Theorem C12_validator : forall (L : Type) (orc : oracle) (a : attrs) (v : value L) (child : value L -> out L)
    (d : nat) (v' : value L) (lg : list (event L)) (id : N),
  a_deny a ODe = None -> getter_ok orc ODe a -> child v = (ROk d, v', lg) -> a_val a = Some id ->
  arm orc ODe a v child =
    (match orc id with CbOk (Some d') => ROk d' | CbOk None => ROk d | CbFail m => RErr (Invalid 0 m) end,
     v', getter_log L ODe a ++ lg ++ [EvVal id d]).
Proof. exact arm_validator. Qed.

(* the whole access, for every schema / value / oracle / key: the log is a nest of getters
   (top-down), at most one leaf access, validators (bottom-up); a successful deserialize wrote the leaf *)
Theorem C12_run_protocol : forall (L : Type) (wr : L -> leafres L) (rd : L -> bool) (orc : oracle) (o : op) (t : node)
    (v : value L) (k : keys),
  good L o (run wr rd orc o t v k).
Proof. exact run_protocol. Qed.
Theorem C12_log_flat : forall (L : Type) (o : op) (lg : list (event L)), lshape L o lg ->
  exists gs mid vs : list (event L),
    lg = gs ++ mid ++ vs /\ Forall (is_getter L o) gs /\ Forall (is_val L) vs /\
    (mid = [] \/ (exists e : event L, mid = [e] /\ is_access L e)) /\
    (vs <> [] -> o = ODe /\ (exists y : L, mid = [EvWrite y])).
Proof. exact lshape_flat. Qed.

(* non-vacuity: the observed log of the derive-attribute probe: getmut1, val3(0), val1(1) *)
Definition a1 : attrs := {| a_deny := fun _ => None; a_get := Some 1%N; a_getmut := Some 1%N; a_val := Some 11%N |}.
Definition a3 : attrs := {| a_deny := fun _ => None; a_get := None; a_getmut := None; a_val := Some 3%N |}.
Definition ex_t : node := NHet HStruct (Named [[97%N]]) [(a1, NHet HStruct (Named [[120%N]]) [(a3, NLeaf KLeaf)])].
Definition ex_v : value N := VProd [VProd [VLeaf 0%N]].
Example C12_ex :
  run (fun _ => LOk 5%N) (fun _ => true) (fun _ => CbOk None) ODe ex_t ex_v (KIter [KStr [97%N]; KStr [120%N]])
    = (ROk 2, VProd [VProd [VLeaf 5%N]], [EvGetMut 1%N; EvWrite 5%N; EvVal 3%N 0; EvVal 11%N 1]) /\
  run (fun _ => LOk 5%N) (fun _ => true) (fun id => if (id =? 3)%N then CbOk (Some 7) else CbOk None) ODe ex_t ex_v (KIter [KStr [97%N]; KStr [120%N]])
    = (ROk 9, VProd [VProd [VLeaf 5%N]], [EvGetMut 1%N; EvWrite 5%N; EvVal 3%N 0; EvVal 11%N 8]) /\
  run (fun _ => LOk 5%N) (fun _ => true) (fun id => if (id =? 3)%N then CbFail 4%N else CbOk None) ODe ex_t ex_v (KIter [KStr [97%N]; KStr [120%N]])
    = (RErr (Invalid 2 4%N), VProd [VProd [VLeaf 5%N]], [EvGetMut 1%N; EvWrite 5%N; EvVal 3%N 0]) /\
  run (fun _ => LOk 5%N) (fun _ => true) (fun id => if (id =? 1)%N then CbFail 6%N else CbOk None) OSer ex_t ex_v (KIter [KStr [97%N]; KStr [120%N]])
    = (RErr (Access 1 6%N), ex_v, [EvGet 1%N]).
Proof. repeat split. Qed.

Print Assumptions C12_deny_stops.
Print Assumptions C12_getter_failure_stops.
Print Assumptions C12_no_validator_after_error.
Print Assumptions C12_no_validator_on_other_ops.
Print Assumptions C12_validator.
Print Assumptions C12_run_protocol.
Print Assumptions C12_log_flat.
