(* C04 — Key representations of a node are interchangeable; transcoding is lossless.
   Only pinned statements, [exact] proofs and [Print Assumptions].
   Proved here: the callback trace, the index form and its fixpoint, chained key sources, and the
   string forms (Path / JsonPath written form parses back: C15 theorems re-used).  The round trip
   through names holds for pairwise distinct child names (Names_proofs.v) and fails otherwise
   (C04_dup_names_refuted; known finding for `rename` collisions, DESIGN.md). *)
From Coq Require Import List NArith ZArith Lia.
From MC Require Import Str Str_proofs Packed Tree Spec Tree_proofs NoPanic Transcode_proofs Names_proofs Equiv_proofs.
Import ListNotations.

(* once per consumed key, in order: the reported depth is the number of callbacks *)
Theorem C04_callback_count : forall t k pre r calls, trav nofail t k pre = (r, calls) ->
  exists new, calls = new ++ pre /\
    match r with
    | ROk d | RErr (TooShort d) | RErr (TooLong d) => length new = d
    | RErr (NotFound d) => S (length new) = d
    | _ => True
    end.
Proof. exact calls_count. Qed.

(* any key source (names, indices, paths, packed, chains) that reaches a node: the indices seen by
   the callback, used as a key, reach the same node (same depth, same type, same trace): the index
   form is the node's position tuple and re-transcoding is a fixpoint *)
Theorem C04_index_form_fixpoint : forall t k pre r calls, wf t -> small t ->
  trav nofail t k pre = (r, calls) -> reached r ->
  exists new, calls = new ++ pre /\ trav nofail t (KIter (map idx_key (rev new))) pre = (r, calls).
Proof. exact index_form_fixpoint. Qed.

(* interchangeable for the value operations too: serialize, deserialize, ref_any and mut_any give the
   same outcome (result, new tree, call log) with a key as with the index form of the node it reaches,
   on every run-time state and for every callback behaviour *)
Theorem C04_value_ops_by_index_form :
  forall (L : Type) (wr : L -> leafres L) (rd : L -> bool) (orc : oracle) (o : op) (t : node)
         (k : keys) pre r calls, wf t -> small t ->
    trav nofail t k pre = (r, calls) -> reached r ->
    exists new, calls = new ++ pre /\
      forall v : value L, run wr rd orc o t v k = run wr rd orc o t v (KIter (map idx_key (rev new))).
Proof. exact run_index_form. Qed.

(* chaining two key sources behaves as their concatenation, for every callback behaviour *)
Theorem C04_chain_concat : forall cbf t a b pre,
  trav cbf t (KChain (KIter a) (KIter b)) pre = trav cbf t (KIter (a ++ b)) pre.
Proof. exact chain_concat_trav. Qed.

(* written string forms parse back to the keys they were written from *)
Theorem C04_path_written_form : forall S names, Forall (sep_free S) names -> root_keys S (path_write S names) = names.
Proof. exact path_written_form. Qed.
Theorem C04_json_written_form : forall items,
  Forall (fun it => match fst it with Some n => delim_free n | None => True end) items ->
  json_keys (json_write items) = map json_key_of items.
Proof. exact json_written_form. Qed.

(* non-vacuity *)
Definition ex_t : node := NHet HStruct (Named [[97%N]; [98%N]]) [(no_attrs, NLeaf KLeaf); (no_attrs, NHom 3 (NLeaf KLeaf))].
Example C04_ex : wf ex_t /\ small ex_t /\
  trav nofail ex_t (KIter [KStr [98%N]; KStr [50%N]]) [] = (ROk 2, [(2%N, None, 3%N); (1%N, Some [98%N], 2%N)]) /\
  trav nofail ex_t (KIter [KInt 1; KInt 2]) [] = (ROk 2, [(2%N, None, 3%N); (1%N, Some [98%N], 2%N)]).
Proof. repeat split; simpl; try discriminate; try lia. Qed.

(* the name form: the names (decimal indices where children are unnamed) reported to the callback,
   used as a key, reach the same node with the same trace, if the child names of every node are
   pairwise distinct *)
Theorem C04_name_form_fixpoint : forall t k pre r calls, wf t -> small t -> nodup_names t ->
  trav nofail t k pre = (r, calls) -> reached r ->
  exists new, calls = new ++ pre /\ trav nofail t (KIter (map name_key (rev new))) pre = (r, calls).
Proof. exact name_form_fixpoint. Qed.
Theorem C04_parse_itoa : forall i, (i < 18446744073709551616)%N -> parse_usize (itoa i) = Some i.
Proof. exact parse_itoa. Qed.
(* what transcode writes into a Path / JsonPath for a reached node, split again by PathIter /
   JsonPathIter, resolves to the same node with the same trace *)
Theorem C04_path_roundtrip : forall sep t k r calls, wf t -> small t -> nodup_names t ->
  trav nofail t k [] = (r, calls) -> reached r ->
  Forall (fun c => sep_free sep (name_text c)) calls ->
  trav nofail t (KIter (map KStr (root_keys sep (concat (map (call_text_path sep) (rev calls)))))) [] = (r, calls).
Proof. exact path_roundtrip. Qed.
Theorem C04_json_roundtrip : forall t k r calls, wf t -> small t -> nodup_names t ->
  trav nofail t k [] = (r, calls) -> reached r ->
  Forall (fun c : call => match snd (fst c) with Some n => delim_free n | None => True end) calls ->
  trav nofail t (KIter (map KStr (json_keys (concat (map call_text_json (rev calls)))))) [] = (r, calls).
Proof. exact json_roundtrip. Qed.
(* the hypothesis is necessary: with two equal names the later child cannot be reached by name *)
Theorem C04_dup_names_refuted :
  let t := NHet HStruct (Named [[97]; [97]]%N) [(no_attrs, NLeaf KLeaf); (no_attrs, NLeaf KLeaf)] in
  fst (trav nofail t (KIter [KInt 1]) []) = ROk 1 /\
  snd (trav nofail t (KIter [KInt 1]) []) = [(1, Some [97], 2)]%N /\
  snd (trav nofail t (KIter [name_key (1, Some [97], 2)%N]) []) = [(0, Some [97], 2)]%N.
Proof. exact dup_names_refuted. Qed.

Print Assumptions C04_callback_count.
Print Assumptions C04_index_form_fixpoint.
Print Assumptions C04_chain_concat.
Print Assumptions C04_value_ops_by_index_form.
Print Assumptions C04_path_written_form.
Print Assumptions C04_json_written_form.
Print Assumptions C04_name_form_fixpoint.
Print Assumptions C04_parse_itoa.
Print Assumptions C04_path_roundtrip.
Print Assumptions C04_json_roundtrip.
Print Assumptions C04_dup_names_refuted.
