(* C14 — Settings change only via accepted Set requests; no message crashes the client.
   Only pinned statements, [exact] proofs and [Print Assumptions]. *)
From Coq Require Import List NArith Arith.
From MC Require Import Generated Mqtt Mqtt_proofs Mqtt_run.
Import ListNotations.

(* update() reports a change exactly when a non-empty payload on prefix/settings<path> was accepted
   by the tree *)
Theorem C14_changed_iff_set_ok : forall m im t m' o ch, on_message m im t = Some (m', o, ch) ->
  (ch = true <-> (m_settings im <> None /\ m_empty im = false /\ m_ans im = ASetOk)).
Proof. exact changed_iff_set_ok. Qed.
Theorem C14_changed_only_by_message : forall e m m' o ch, step e m = Some (m', o, ch) -> ch = true ->
  exists im, poll e = Msg im /\ m_settings im <> None /\ m_empty im = false /\ m_ans im = ASetOk.
Proof. exact changed_only_by_message. Qed.
(* none of the unwrap()s on process_event can fail: whatever the environment does, in every protocol
   state, one update() is total *)
Theorem C14_step_no_panic : forall e m, step e m <> None.
Proof. exact step_no_panic. Qed.
(* and so is every history *)
Theorem C14_run_no_panic : forall es m, ~ In None (run es m) /\ length (run es m) = length es.
Proof. exact run_no_panic. Qed.
(* over-long response topic / correlation data: an Error response, nothing cached, state untouched *)
Theorem C14_too_long_refused : forall m im t q leaves, m_settings im = Some q -> m_reply_ok im = true ->
  m_empty im = true -> m_ans im = AInternal leaves -> st m = Single ->
  (too_long MAX_TOPIC_LENGTH (m_resp im) = true ->
     on_message m im t = Some (m, respond im T_RESP_LONG CError, false)) /\
  (too_long MAX_TOPIC_LENGTH (m_resp im) = false -> too_long MAX_CD_LENGTH (m_cd im) = true ->
     on_message m im t = Some (m, respond im T_CD_LONG CError, false)).
Proof. exact too_long_refused. Qed.
(* foreign topics are ignored *)
Theorem C14_foreign_topic_ignored : forall m im t, m_settings im = None -> on_message m im t = Some (m, [], false).
Proof. exact foreign_topic_ignored. Qed.
Theorem C14_limits : MAX_TOPIC_LENGTH = 128%N /\ MAX_CD_LENGTH = 32%N.
Proof. split; reflexivity. Qed.

Example C14_ex :
  on_message {| st := Wait; timeout := Some 9%N; pd := pend0 [] |}
    {| m_settings := Some [120]%N; m_empty := false; m_resp := Some [114]%N; m_cd := None; m_ans := ASetOk; m_reply_ok := true |} 5%N
  = Some ({| st := Wait; timeout := Some 9%N; pd := pend0 [] |}, [OPub (TOther [114]%N) T_OK false (Some COk) None], true).
Proof. reflexivity. Qed.

Print Assumptions C14_changed_iff_set_ok.
Print Assumptions C14_changed_only_by_message.
Print Assumptions C14_step_no_panic.
Print Assumptions C14_run_no_panic.
Print Assumptions C14_too_long_refused.
Print Assumptions C14_foreign_topic_ignored.
Print Assumptions C14_limits.
