(* C03 — Node iteration yields every leaf exactly once, in key order, and nothing else.
   Only pinned statements, [exact] proofs and [Print Assumptions].
   [enum D sh] is the depth-first enumeration (declaration order, lexicographic in the index tuples)
   with cut-off at depth D of the type's shape; [expect] renders a node by transcoding its padded
   index key into the target (C04 says what that transcoding is). *)
From Coq Require Import List NArith ZArith Lia Sorted.
From MC Require Import Str Packed Tree Tree_proofs NoPanic Transcode_proofs Odometer Iter_proofs Meta_proofs Enum_proofs Packed_tree Order_proofs.
Import ListNotations.

(* for every well-formed schema, every depth limit D and every target that does not run out of
   capacity on this type: |enum|+2 calls of next() from NodeIter::default() yield exactly the
   enumeration, each node once, in order, and then None *)
Theorem C03_iter_complete : forall (t : node) (tg : target), NoPanic.wf t -> small t -> tg_total t tg -> forall D,
  iter_collect (S (S (length (enum D (shape_of t))))) t tg (iter_default D) =
  map (expect t tg D [] (shape_of t)) (enum D (shape_of t)) ++ [IDone].
Proof. exact iter_complete_node. Qed.

(* with D >= max_depth every yielded node is a leaf and their number is Metadata.count
   (leaves that are absent at run time included: iteration is type-level) *)
Theorem C03_iter_count : forall t D, NoPanic.wf t -> (m_depth (metadata t) <= N.of_nat D)%N ->
  N.of_nat (length (enum D (shape_of t))) = m_count (metadata t) /\
  Forall (fun q => nodeleaf (shape_of t) q = true) (enum D (shape_of t)).
Proof. exact iter_count. Qed.

(* the enumeration is the successor chain of the depth-first order starting at the first node *)
Theorem C03_enum_is_dfs_chain : forall D sh, Odometer.wf sh ->
  hd_error (enum D sh) = Some (first D sh) /\ chain_to (succ D sh) (enum D sh) None.
Proof. exact enum_chain. Qed.

(* the unit target never runs out of capacity *)
Theorem C03_unit_target_total : forall t, tg_total t TgUnit.
Proof. exact tg_total_unit. Qed.

(* the converse: the enumeration holds exactly the index paths that end at a leaf or at the depth
   limit ([maximal]), each of them once *)
Theorem C03_enum_exact : forall D sh q, In q (enum D sh) <-> maximal D sh q.
Proof. exact enum_iff. Qed.

Theorem C03_enum_nodup : forall D sh, NoDup (enum D sh).
Proof. exact enum_nodup. Qed.

(* every key (index sequence) that the type-level lookup resolves to a leaf, consuming all of it, is
   among the nodes the iterator yields when the depth limit admits it *)
Theorem C03_resolved_leaf_yielded : forall t idx D, NoPanic.wf t -> small t ->
  fst (trav nofail t (idx_keys idx) []) = ROk (length idx) -> length idx <= D ->
  In idx (enum D (shape_of t)).
Proof. exact resolved_leaf_yielded. Qed.

(* and everything yielded resolves: to a leaf, or to a node at the depth limit *)
Theorem C03_enumerated_resolve : forall D sh q, In q (enum D sh) ->
  exists c, descend sh q = Some c /\ (is_leaf c = true \/ length q = D).
Proof. exact enumerated_resolve. Qed.

(* "in key order": the enumeration is strictly increasing in the lexicographic order of the index
   tuples ([plt p q]: at the first position where they differ p has the smaller index; in particular
   neither is a prefix of the other) *)
Theorem C03_enum_sorted : forall D sh, StronglySorted plt (enum D sh).
Proof. exact enum_sorted. Qed.

(* non-vacuity: the struct of tests/iter.rs: b: [Leaf; 2], c: {inner}, d: [{inner}; 1], a *)
Definition inner := NHet HStruct (Named [[105%N]]) [(no_attrs, NLeaf KLeaf)].
Definition ex_t : node := NHet HStruct (Named [[98%N]; [99%N]; [100%N]; [97%N]])
  [(no_attrs, NHom 2 (NLeaf KLeaf)); (no_attrs, inner); (no_attrs, NHom 1 inner); (no_attrs, NLeaf KLeaf)].
Example C03_ex : NoPanic.wf ex_t /\ small ex_t /\
  enum 3 (shape_of ex_t) = [[0; 0]; [0; 1]; [1; 0]; [2; 0; 0]; [3]]%N /\
  enum 1 (shape_of ex_t) = [[0]; [1]; [2]; [3]]%N /\
  map (fun o => match o with IItem (ItOk (RdText s) d lf) => Some (s, d, lf) | _ => None end)
      (iter_collect 7 ex_t (TgPath 47 100) (iter_default 3)) =
  [Some ([47; 98; 47; 48]%N, 2, true); Some ([47; 98; 47; 49]%N, 2, true); Some ([47; 99; 47; 105]%N, 2, true);
   Some ([47; 100; 47; 48; 47; 105]%N, 3, true); Some ([47; 97]%N, 1, true); None].
Proof. repeat split; simpl; try discriminate; try lia. Qed.

Print Assumptions C03_iter_complete.
Print Assumptions C03_iter_count.
Print Assumptions C03_enum_is_dfs_chain.
Print Assumptions C03_unit_target_total.
Print Assumptions C03_enum_exact.
Print Assumptions C03_enum_nodup.
Print Assumptions C03_resolved_leaf_yielded.
Print Assumptions C03_enumerated_resolve.
Print Assumptions C03_enum_sorted.
