(* C08 — Packed key arithmetic is a lossless stack of bit fields.
   This file contains only pinned statements, [exact] proofs and [Print Assumptions]. *)
From Coq Require Import ZArith List Lia.
From MC Require Import Packed Packed_proofs.
Import ListNotations.
Open Scope Z_scope.

(* every non-zero 64-bit word is exactly one (stored bits x, unused capacity t) *)
Theorem C08_repr_exists : forall w, 0 < w < 2 ^ 64 -> exists x t, valid x t /\ w = mkb x t.
Proof. exact repr_exists. Qed.
Theorem C08_repr_unique : forall x t x' t', valid x t -> valid x' t' -> mkb x t = mkb x' t' -> x = x' /\ t = t'.
Proof. exact repr_unique. Qed.
Theorem C08_len : forall x t, valid x t -> len (mkb x t) = 63 - t /\ capacity (mkb x t) = t.
Proof. exact len_spec. Qed.
Theorem C08_is_empty : forall x t, valid x t -> is_empty (mkb x t) = true <-> (x = 0 /\ t = 63).
Proof. exact is_empty_spec. Qed.

(* push appends the field below the stored bits, or fails; pop removes it from the top, or fails *)
Theorem C08_push_spec : forall x t bits v, valid x t -> 0 <= bits <= 63 -> 0 <= v < 2 ^ bits ->
  push_lsb (mkb x t) bits v =
  if bits <=? t then Some (mkb (Z.lor (Z.shiftl x bits) v) (t - bits), t - bits) else None.
Proof. exact push_spec. Qed.
Theorem C08_pop_spec : forall x t bits, valid x t -> 0 <= bits <= 63 ->
  pop_msb (mkb x t) bits =
  if bits <=? 63 - t
  then Some (Z.shiftr x (63 - t - bits), mkb (Z.land x (Z.ones (63 - t - bits))) (t + bits))
  else None.
Proof. exact pop_spec. Qed.
Theorem C08_push_len : forall x t bits v w' c, valid x t -> 0 <= bits <= 63 -> 0 <= v < 2 ^ bits ->
  push_lsb (mkb x t) bits v = Some (w', c) -> len w' = len (mkb x t) + bits /\ c = capacity w'.
Proof. exact push_len. Qed.
Theorem C08_push_overflow : forall x t bits v, valid x t -> t < bits -> 0 <= v < 2 ^ bits ->
  push_lsb (mkb x t) bits v = None.
Proof. exact push_overflow. Qed.
Theorem C08_pop_underflow : forall x t bits, valid x t -> 63 - t < bits -> pop_msb (mkb x t) bits = None.
Proof. exact pop_underflow. Qed.

(* the stack law for every list of fields (any widths 0..63, zero widths included) *)
Theorem C08_push_all_empty : forall fs, Forall fits fs -> total fs <= 63 ->
  push_all EMPTY fs = Some (mkb (concat fs) (63 - total fs)) /\
  len (mkb (concat fs) (63 - total fs)) = total fs.
Proof. exact push_all_empty. Qed.
Theorem C08_pop_all_fields : forall fs, Forall fits fs -> total fs <= 63 ->
  pop_all (mkb (concat fs) (63 - total fs)) (map fst fs) = Some (map snd fs, EMPTY).
Proof. exact pop_all_fields. Qed.
Theorem C08_push_all_overflow : forall fs x t, valid x t -> Forall fits fs -> t < total fs ->
  push_all (mkb x t) fs = None.
Proof. exact push_all_overflow. Qed.

(* LSB form: bijection on all non-zero words that keeps the stored bits *)
Theorem C08_into_lsb_spec : forall x t, valid x t -> into_lsb (mkb x t) = Z.lor (2 ^ (63 - t)) x.
Proof. exact into_lsb_spec. Qed.
Theorem C08_from_lsb_spec : forall x l, 0 <= l <= 63 -> 0 <= x < 2 ^ l ->
  from_lsb (Z.lor (2 ^ l) x) = mkb x (63 - l).
Proof. exact from_lsb_spec. Qed.
Theorem C08_lsb_bijection_packed : forall w, 0 < w < 2 ^ 64 ->
  0 < into_lsb w < 2 ^ 64 /\ from_lsb (into_lsb w) = w.
Proof. exact lsb_bijection_packed. Qed.
Theorem C08_lsb_bijection_lsb : forall v, 0 < v < 2 ^ 64 ->
  0 < from_lsb v < 2 ^ 64 /\ into_lsb (from_lsb v) = v.
Proof. exact lsb_bijection_lsb. Qed.

(* width for an index among n siblings *)
Theorem C08_bits_for_min : forall n, 0 <= n < 2 ^ 64 ->
  1 <= bits_for n <= 64 /\ n < 2 ^ bits_for n /\ (0 < n -> 2 ^ (bits_for n - 1) <= n).
Proof. exact bits_for_min. Qed.
Theorem C08_bits_for_len : forall n, 1 <= n <= 2 ^ 63 -> 1 <= bits_for (n - 1) <= 63.
Proof. exact bits_for_len. Qed.

(* non-vacuity: the doc-test of packed.rs, a fill to 63 bits, an overflow by one bit *)
Example C08_ex_doctest :
  push_all EMPTY [(2,3);(1,0);(0,0);(3,5)] = Some (Z.shiftl 107 57) /\
  option_map into_lsb (push_all EMPTY [(2,3);(1,0);(0,0);(3,5)]) = Some 117 /\
  pop_all (Z.shiftl 107 57) [2;1;0;3] = Some ([3;0;0;5], EMPTY).
Proof. split; [|split]; vm_compute; reflexivity. Qed.
Example C08_ex_fill : push_all EMPTY [(31, 5); (32, 7)] = Some 42949672975 /\ len 42949672975 = 63 /\
  push_lsb 42949672975 1 0 = None /\ push_lsb 42949672975 0 0 = Some (42949672975, 0).
Proof. split; [|split; [|split]]; vm_compute; reflexivity. Qed.
Example C08_ex_valid : valid 27 58 /\ Forall fits [(2,3);(1,0);(0,0);(3,5)].
Proof.
  unfold valid, fits. split.
  - change (2 ^ (63 - 58)) with 32. lia.
  - repeat (apply Forall_cons; [cbn [fst snd]; split; [lia|]|]); try apply Forall_nil.
    + change (2 ^ 2) with 4. lia.
    + change (2 ^ 1) with 2. lia.
    + change (2 ^ 0) with 1. lia.
    + change (2 ^ 3) with 8. lia.
Qed.

Print Assumptions C08_repr_exists.
Print Assumptions C08_repr_unique.
Print Assumptions C08_len.
Print Assumptions C08_is_empty.
Print Assumptions C08_push_spec.
Print Assumptions C08_pop_spec.
Print Assumptions C08_push_len.
Print Assumptions C08_push_overflow.
Print Assumptions C08_pop_underflow.
Print Assumptions C08_push_all_empty.
Print Assumptions C08_pop_all_fields.
Print Assumptions C08_push_all_overflow.
Print Assumptions C08_into_lsb_spec.
Print Assumptions C08_from_lsb_spec.
Print Assumptions C08_lsb_bijection_packed.
Print Assumptions C08_lsb_bijection_lsb.
Print Assumptions C08_bits_for_min.
Print Assumptions C08_bits_for_len.
