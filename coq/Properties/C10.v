(* C10 — A settings dump publishes every present leaf exactly once with its current value.
   Only pinned statements, [exact] proofs and [Print Assumptions]. *)
From Coq Require Import List NArith Arith.
From MC Require Import Generated Mqtt Mqtt_proofs Mqtt_run.
Import ListNotations.

(* one call: the leaves are taken from the front of the walk, in order, each once; absent leaves are
   skipped silently, oversize ones reported with code Error on the leaf's topic *)
Theorem C10_pump_dump_det : forall e n m, st m = Multipart ->
  exists m', pump_dump e n m = Some (m', flat_map (dump_msg e (p_cd (pd m))) (firstn n (p_rem (pd m)))) /\
    p_rem (pd m') = skipn n (p_rem (pd m)) /\ p_resp (pd m') = p_resp (pd m) /\ p_cd (pd m') = p_cd (pd m) /\
    timeout m' = timeout m /\
    st m' = if (length (p_rem (pd m)) <? n)%nat then Single else Multipart.
Proof. exact pump_dump_det. Qed.
Theorem C10_dump_msg : forall e cd p, dump_msg e cd p =
  match vals e p with
  | PVal b => [OPub (TSettings p) b false (Some COk) cd]
  | PAbsent => []
  | PTooLarge => [OPub (TSettings p) T_TOO_LARGE false (Some CError) cd]
  end.
Proof. reflexivity. Qed.

(* every schedule: however the publish capacity is spread over update() calls and whatever requests
   arrive in between (they are refused: C07_busy_refusal), the state-action outputs of the model are
   those of the abstract walk "take the next [slots] leaves" ... *)
Theorem C10_dump_refines : forall es m, st m = Multipart -> p_resp (pd m) = None -> Forall quiet es ->
  action_outs es m = dump_spec es (p_rem (pd m)) (p_cd (pd m)).
Proof. exact dump_refines. Qed.
(* ... whose chunks partition a prefix of the leaf list (nothing skipped, nothing twice, in order),
   the whole list once the walk has completed ... *)
Theorem C10_chunks_exact : forall es L, exists rest, concat (chunks es L) ++ rest = L.
Proof. exact chunks_exact. Qed.
Theorem C10_complete_covers_all : forall es L cd, snd (dump_spec es L cd) = true -> concat (chunks es L) = L.
Proof. exact dump_spec_complete. Qed.
Theorem C10_outputs_are_chunks : forall es L cd,
  Forall2 (fun e_o c => snd e_o = flat_map (dump_msg (fst e_o) cd) c)
          (combine (firstn (length (fst (dump_spec es L cd))) es) (fst (dump_spec es L cd))) (chunks es L).
Proof. exact dump_spec_chunks. Qed.
(* ... and with enough capacity the walk finishes in this very call and the client accepts multipart
   requests again *)
Theorem C10_pump_dump_completes : forall e n m, st m = Multipart -> length (p_rem (pd m)) < n ->
  exists m' o, pump_dump e n m = Some (m', o) /\ st m' = Single /\ p_rem (pd m') = [] /\
               o = flat_map (dump_msg e (p_cd (pd m))) (p_rem (pd m)).
Proof. exact pump_dump_completes. Qed.
(* the initial dump and an API dump walk all leaves at / below the root, without response topic *)
Theorem C10_initial_dump_is_full : forall e g m0 m1 o1, action_ok e g m0 m1 o1 ->
  st m0 = Init -> st m1 = Multipart -> o1 = [] /\ g_dump g = false /\ pd m1 = pend0 (all_leaves e).
Proof. exact (fun e g m0 m1 o1 H => proj1 (proj2 (proj2 (proj2 H)))). Qed.

Definition ex_env (n : nat) (v : N) : env :=
  {| conn := true; now := 5000; act_ok := true; slots := n; accepted := None; can_after := true;
     vals := fun p => match p with [47; 98]%N => PAbsent | [47; 99]%N => PTooLarge | _ => PVal [v] end;
     all_leaves := []; api := ApiNone; poll := NoMsg |}.
Example C10_ex :
  action_outs [ex_env 1 49; ex_env 0 50; ex_env 2 51; ex_env 3 52]%N
    {| st := Multipart; timeout := None; pd := pend0 [[47; 97]; [47; 98]; [47; 99]; [47; 100]]%N |} =
  ([[OPub (TSettings [47; 97]%N) [49]%N false (Some COk) None]; [];
    [OPub (TSettings [47; 99]%N) T_TOO_LARGE false (Some CError) None];
    [OPub (TSettings [47; 100]%N) [52]%N false (Some COk) None]], true).
Proof. vm_compute. reflexivity. Qed.

Print Assumptions C10_pump_dump_det.
Print Assumptions C10_dump_msg.
Print Assumptions C10_dump_refines.
Print Assumptions C10_chunks_exact.
Print Assumptions C10_complete_covers_all.
Print Assumptions C10_outputs_are_chunks.
Print Assumptions C10_pump_dump_completes.
Print Assumptions C10_initial_dump_is_full.
