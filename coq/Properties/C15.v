(* C15 — Path and JSON-path strings split into keys exactly as documented.
   Only pinned statements, [exact] proofs and [Print Assumptions]. *)
From Coq Require Import List NArith.
From MC Require Import Str Str_proofs.
Import ListNotations.

(* separator paths: same segments as cutting at every separator and dropping the first *)
Theorem C15_path_new_is_split : forall S s, path_keys_new S s = split S s.
Proof. exact new_is_split. Qed.
Theorem C15_path_root_is_tl_split : forall S s, root_keys S s = tl (split S s).
Proof. exact root_is_tl_split. Qed.
Theorem C15_root_empty : forall S, root_keys S [] = [].
Proof. exact root_empty. Qed.
Theorem C15_root_lone_sep : forall S, root_keys S [S] = [[]].
Proof. exact root_lone_sep. Qed.
Theorem C15_path_no_panic : forall S st, path_next S st <> Panic.
Proof. exact path_next_no_panic. Qed.
Theorem C15_path_fused : forall S, path_next S None = Yield None None.
Proof. exact path_fused. Qed.
Theorem C15_path_written_form : forall S names, Forall (sep_free S) names ->
  root_keys S (path_write S names) = names.
Proof. exact path_written_form. Qed.

(* JSON-style paths *)
Theorem C15_json_notations_agree : forall ks ns, length ks = length ns -> Forall delim_free ns ->
  json_keys (jrender_all ks ns) = ns.
Proof. exact json_notations_agree. Qed.
Theorem C15_json_written_form : forall items,
  Forall (fun it => match fst it with Some n => delim_free n | None => True end) items ->
  json_keys (json_write items) = map json_key_of items.
Proof. exact json_written_form. Qed.
Theorem C15_json_no_panic : forall s, json_next s <> JPanic.
Proof. exact json_next_no_panic. Qed.
Theorem C15_json_fused : forall s, json_next s = JNone -> forall fuel, json_collect fuel s = [].
Proof. exact json_fused. Qed.

(* non-vacuity: the doc examples of jsonpath.rs and node.rs *)
Definition a := 97%N. Definition b := 98%N. Definition d4 := 52%N.
Example C15_ex_json :
  json_keys ([DOT; a; DOT; b; LBR; d4; RBR]) = [[a]; [b]; [d4]] /\
  json_keys ([LBR; QUOTE; a; QUOTE; RBR; LBR; QUOTE; b; QUOTE; RBR; LBR; d4; RBR]) = [[a]; [b]; [d4]] /\
  json_keys ([DOT; a; LBR; QUOTE; b; QUOTE; RBR; DOT; QUOTE; d4; QUOTE]) = [[a]; [b]; [d4]] /\
  json_next [QUOTE] = JNone /\ json_next [LBR] = JNone /\ json_next [LBR; QUOTE] = JNone.
Proof. repeat split. Qed.
Example C15_ex_path :
  root_keys 47 [47; a; 47; 47; b]%N = [[a]; []; [b]] /\
  root_keys 233 [a; 233; b; 233; 233]%N = [[b]; []; []] /\
  root_keys 47 [a; 47; b]%N = [[b]] /\ root_keys 47 [a]%N = [].
Proof. repeat split. Qed.

Print Assumptions C15_path_new_is_split.
Print Assumptions C15_path_root_is_tl_split.
Print Assumptions C15_root_empty.
Print Assumptions C15_root_lone_sep.
Print Assumptions C15_path_no_panic.
Print Assumptions C15_path_fused.
Print Assumptions C15_path_written_form.
Print Assumptions C15_json_notations_agree.
Print Assumptions C15_json_written_form.
Print Assumptions C15_json_no_panic.
Print Assumptions C15_json_fused.
