(* C17 — The Python client resolves each request exactly once from its own responses.
   Only pinned statements, [exact] proofs and [Print Assumptions].
   The model is the sequential dispatcher both clients funnel every message through
   (Miniconf._dispatch) plus the tail of Miniconf._do; thread / event-loop scheduling is the
   environment (DESIGN.md: partial). *)
From Coq Require Import List NArith.
From MC Require Import Py.
Import ListNotations.

(* for ANY message history (any interleaving with the responses of other requests, foreign topics,
   unknown / missing correlation data, missing code, duplicates) and any set of other in-flight
   requests: the completions of request c are those of its own entry run alone *)
Theorem C17_dispatch_projection : forall c ms st,
  filter (of_cd c) (snd (run st ms)) = snd (run (solo c st) ms).
Proof. exact dispatch_projection. Qed.
(* messages that are not addressed to c can be deleted from the history *)
Theorem C17_junk_is_inert : forall c ms st,
  snd (run (solo c st) ms) = snd (run (solo c st) (filter (mine c) ms)).
Proof. exact junk_is_inert. Qed.
(* at most one completion per request *)
Theorem C17_at_most_once : forall c ms st, length (snd (run (solo c st) ms)) <= 1.
Proof. exact at_most_once. Qed.
(* its own messages: Continue payloads in arrival order, then the final Ok payload if non-empty;
   or the device's error code and text; nothing without a final message *)
Theorem C17_own_ok_completes : forall c bs b rest,
  snd (run [(c, [])] (map (cont_msg c) bs ++ ok_msg c b :: rest)) =
  [Result c (match b with [] => bs | _ => bs ++ [b] end)].
Proof. exact own_ok_completes. Qed.
Theorem C17_own_error_raises : forall c bs e b rest,
  snd (run [(c, [])] (map (cont_msg c) bs ++ err_msg c e b :: rest)) = [Raised c e b].
Proof. exact own_error_raises. Qed.
Theorem C17_own_pending : forall c bs, snd (run [(c, [])] (map (cont_msg c) bs)) = [].
Proof. exact own_pending. Qed.
(* the synchronous client (error stored in the payload list) delivers what the asynchronous one does *)
Theorem C17_sync_async_agree : forall mode x, finish_sync mode (option_map sync_ret x) = finish mode x.
Proof. exact sync_async_agree. Qed.
(* command-line paths *)
Theorem C17_normalize_abs : forall ps current, absolute current ->
  Forall absolute (fst (normalize_all current ps)) /\ absolute (snd (normalize_all current ps)).
Proof. exact normalize_abs. Qed.
Theorem C17_normalize_relative : forall ps current p, is_abs p = false ->
  fst (normalize (snd (normalize_all current ps)) p) = last_abs_dir current ps ++ SLASH :: p.
Proof. exact normalize_relative. Qed.

Example C17_ex :
  normalize_all [] [[]; [97]; [47; 97; 47; 98]; [99]; [47; 100]; [101]]%N =
    ([[]; [47; 97]; [47; 97; 47; 98]; [47; 97; 47; 99]; [47; 100]; [47; 101]]%N, []) /\
  snd (run [(1, []); (2, [])]%N [cont_msg 1 [120]; cont_msg 2 [121]; ok_msg 1 []; ok_msg 1 [100]; err_msg 2 7 [101]]%N) =
    [Result 1 [[120]]; Raised 2 7 [101]]%N.
Proof. split; reflexivity. Qed.

Print Assumptions C17_dispatch_projection.
Print Assumptions C17_junk_is_inert.
Print Assumptions C17_at_most_once.
Print Assumptions C17_own_ok_completes.
Print Assumptions C17_own_error_raises.
Print Assumptions C17_own_pending.
Print Assumptions C17_sync_async_agree.
Print Assumptions C17_normalize_abs.
Print Assumptions C17_normalize_relative.
