(* C09 — Packed node keys are unique, ordered like iteration, and bounded by max_bits.
   Only pinned statements, [exact] proofs and [Print Assumptions].
   [path_fields t p]: the (width, index) fields along the index path p of the schema t (width =
   bits_for(sibling count - 1)); [word_of fs]: the MSB-aligned word holding these fields. *)
From Coq Require Import List NArith ZArith Lia Sorted.
From MC Require Import Str Packed Packed_proofs Tree Tree_proofs NoPanic Transcode_proofs Meta_proofs Packed_tree Iter_proofs Order_proofs.
From MC Require Odometer.
Import ListNotations.
Local Open Scope Z_scope.

(* what Transcode for Packed builds from the traversal callback is push_all over these fields *)
Theorem C09_transcode_pushes_fields : forall pre, packed_of pre = push_all EMPTY (map field_of_call (rev pre)).
Proof. exact packed_of_push_all. Qed.
Theorem C09_calls_are_path_fields : forall cbf t k pre r calls, wf t -> trav cbf t k pre = (r, calls) -> reached r ->
  exists new, calls = new ++ pre /\
    path_fields t (map (fun c => fst (fst c)) (rev new)) = Some (map field_of_call (rev new)) /\
    leaf_at t (map (fun c => fst (fst c)) (rev new)) = match r with ROk _ => true | _ => false end.
Proof. exact trav_fields. Qed.

(* every packed key decodes back to its node: same index path, same depth, same node type *)
Theorem C09_packed_decodes : forall t p fs tt pre, wf t -> narrow t ->
  path_fields t p = Some fs -> 0 <= tt -> tt + total fs = 63 ->
  exists new, trav nofail t (KPacked (mkb (concat fs) tt)) pre = (calls_of_res (leaf_at t p) (length p), new ++ pre) /\
              map (fun c => fst (fst c)) (rev new) = p.
Proof. exact packed_decodes. Qed.

(* distinct nodes (leaf or internal) have distinct packed keys *)
Theorem C09_packed_injective : forall t p q fs gs, wf t -> narrow t ->
  path_fields t p = Some fs -> path_fields t q = Some gs -> total fs <= 63 -> total gs <= 63 ->
  word_of fs = word_of gs -> p = q.
Proof. exact packed_injective. Qed.

(* numeric order of the keys = lexicographic (iteration) order, for nodes none of which is a prefix
   of the other (in particular the leaves) *)
Theorem C09_packed_order : forall t p q fs gs, wf t -> narrow t ->
  path_fields t p = Some fs -> path_fields t q = Some gs -> total fs <= 63 -> total gs <= 63 ->
  plt p q -> word_of fs < word_of gs.
Proof. exact packed_order. Qed.

(* ordered like iteration: along the enumeration that NodeIter yields (C03_iter_complete), for any
   depth limit, the packed keys increase strictly: any node yielded earlier has the smaller key *)
Theorem C09_key_lt_unfold : forall t p q, key_lt t p q <->
  (forall fs gs, path_fields t p = Some fs -> path_fields t q = Some gs ->
     total fs <= 63 -> total gs <= 63 -> word_of fs < word_of gs).
Proof. intros. apply iff_refl. Qed.
Theorem C09_iteration_keys_increase : forall t D, NoPanic.wf t -> narrow t ->
  StronglySorted (key_lt t) (Odometer.enum D (shape_of t)).
Proof. exact iteration_keys_increase. Qed.

(* no key uses more bits than Metadata.max_bits *)
Theorem C09_packed_bound : forall t p fs, wf t -> path_fields t p = Some fs -> total fs <= Z.of_N (m_bits (metadata t)).
Proof. exact packed_bound. Qed.

(* appending children without changing the width of the index field keeps every existing key *)
Theorem C09_packed_stable : forall t t' p fs, extends t t' -> path_fields t p = Some fs -> path_fields t' p = Some fs.
Proof. exact packed_stable. Qed.

(* non-vacuity: the doc-test of postcard.rs: foo, bar: [_; 2] -> LSB forms 2, 6, 7 *)
Definition ex_t : node := NHet HStruct (Named [[102%N]; [98%N]]) [(no_attrs, NLeaf KLeaf); (no_attrs, NHom 2 (NLeaf KLeaf))].
Definition ex_t' : node := NHet HStruct (Named [[102%N]; [98%N]]) [(no_attrs, NLeaf KLeaf); (no_attrs, NHom 2 (NLeaf KLeaf))].
Example C09_ex : wf ex_t /\ narrow ex_t /\
  option_map (fun fs => into_lsb (word_of fs)) (path_fields ex_t [0%N]) = Some 2 /\
  option_map (fun fs => into_lsb (word_of fs)) (path_fields ex_t [1%N; 0%N]) = Some 6 /\
  option_map (fun fs => into_lsb (word_of fs)) (path_fields ex_t [1%N; 1%N]) = Some 7 /\
  extends ex_t (NHet HStruct (Named [[102%N]; [98%N]]) [(no_attrs, NLeaf KLeaf); (no_attrs, NHom 2 (NLeaf KLeaf))]).
Proof. repeat split; simpl; try discriminate; try lia. Qed.

Print Assumptions C09_transcode_pushes_fields.
Print Assumptions C09_calls_are_path_fields.
Print Assumptions C09_packed_decodes.
Print Assumptions C09_packed_injective.
Print Assumptions C09_packed_order.
Print Assumptions C09_key_lt_unfold.
Print Assumptions C09_iteration_keys_increase.
Print Assumptions C09_packed_bound.
Print Assumptions C09_packed_stable.
