(* C06: buffers sized from Metadata suffice for every key a traversal can write.  The number of
   callback invocations is bounded by max_depth and the summed byte length of the written names /
   decimal indices by max_length, for every key source and every node it reaches (or fails at). *)
From Coq Require Import List NArith ZArith Lia Bool Arith PeanoNat.
From MC Require Import Str Str_proofs Packed Tree Spec Tree_proofs NoPanic Transcode_proofs Meta_proofs Names_proofs.
Import ListNotations.
Local Open Scope N_scope.

(* bytes of the name (or decimal index) one callback invocation contributes *)
Definition clen (c : call) : N :=
  match snd (fst c) with Some n => str_bytes n | None => digits (fst (fst c)) end.
Fixpoint csum (cs : list call) : N := match cs with [] => 0 | c :: r => clen c + csum r end.
Lemma csum_app a b : csum (a ++ b) = csum a + csum b.
Proof. induction a as [|c a IH]; [reflexivity|]. cbn [app csum]. rewrite IH. lia. Qed.

Lemma clen_name lk i : i < lk_len lk -> clen (i, lk_name lk i, lk_len lk) = name_len lk i.
Proof.
  intros Hi. unfold clen, name_len. cbn [fst snd]. destruct lk as [ns|m|m]; cbn [lk_name lk_len] in *; try reflexivity.
  destruct (nth_error ns (N.to_nat i)) eqn:E; [reflexivity|]. apply nth_error_None in E. lia.
Qed.

Theorem path_bound : forall t k pre r calls, wf t -> trav nofail t k pre = (r, calls) ->
  exists new, calls = new ++ pre /\ N.of_nat (length new) <= m_depth (metadata t) /\ csum new <= m_length (metadata t).
Proof.
  induction t as [lk|g t IH|s a t IH|h lk cs IH|n t IH] using node_ind'; intros k pre r calls Hw E.
  - cbn [trav] in E. destruct (kfin k); injection E as <- <-; exists []; repeat split; simpl; lia.
  - cbn [trav metadata] in *. eapply IH; eauto.
  - cbn [trav metadata] in *. eapply IH; eauto.
  - cbn [trav] in E. destruct (knext k lk) as [[i| |] k'] eqn:Ek.
    + unfold nofail at 1 in E. rewrite andb_false_r in E. unfold reports in E.
      set (c := (i, lk_name lk i, lk_len lk)) in *.
      pose proof (knext_bound _ _ _ _ Ek) as Hb. pose proof Hw as (Hlen & Hne & Hall).
      assert (G : forall (cs0 : list (attrs * node)) j r0 calls0,
        (fix pick (cs : list (attrs * node)) (j : nat) {struct cs} : tout :=
           match cs with [] => (RErr Unreachable, c :: pre) | (_, t') :: r => match j with O => trav nofail t' k' (c :: pre) | S j' => pick r j' end end) cs0 j = (r0, calls0) ->
        (calls0 = c :: pre) \/ exists a t', nth_error cs0 j = Some (a, t') /\ trav nofail t' k' (c :: pre) = (r0, calls0)).
      { induction cs0 as [|[a0 t0] rest IHc]; intros j r0 calls0 Ej.
        - injection Ej as <- <-. left. reflexivity.
        - destruct j as [|j]; [right; exists a0, t0; split; [reflexivity|exact Ej]|].
          destruct (IHc j r0 calls0 Ej) as [H|(a1 & t1 & H1 & H2)]; [left; exact H|right; exists a1, t1; split; assumption]. }
      destruct ((fix pick (cs : list (attrs * node)) (j : nat) {struct cs} : tout :=
           match cs with [] => (RErr Unreachable, c :: pre) | (_, t') :: r => match j with O => trav nofail t' k' (c :: pre) | S j' => pick r j' end end) cs (N.to_nat i)) as [r0 calls0] eqn:Ep.
      simpl in E. injection E as <- <-.
      assert (Hj : (N.to_nat i < length cs)%nat) by lia.
      destruct (nth_error cs (N.to_nat i)) as [[a t']|] eqn:En; [|apply nth_error_None in En; lia].
      destruct (child_meta_het h lk cs _ a t' Hw En) as (Hd & Hl & _). rewrite N2Nat.id in Hl.
      destruct (G cs _ _ _ Ep) as [->|(a1 & t1 & En1 & Et)].
      * exists [c]. split; [reflexivity|]. cbn [length csum]. change (clen c) with (clen (i, lk_name lk i, lk_len lk)). rewrite (clen_name lk i Hb). split; lia.
      * rewrite En in En1. injection En1 as <- <-.
        assert (Hin : In (a, t') cs) by (eapply nth_error_In; eauto).
        rewrite List.Forall_forall in IH.
        assert (Hwt : wf t') by (eapply wf_all_nth; eauto).
        destruct (IH (a, t') Hin _ _ _ _ Hwt Et) as (new & -> & H1 & H2). cbn [snd] in *.
        exists (new ++ [c]). split; [rewrite <- app_assoc; reflexivity|].
        rewrite app_length, csum_app. cbn [length csum]. change (clen c) with (clen (i, lk_name lk i, lk_len lk)). rewrite (clen_name lk i Hb). split; lia.
    + injection E as <- <-. exists []. repeat split; simpl; lia.
    + injection E as <- <-. exists []. repeat split; simpl; lia.
  - cbn [trav] in E. destruct (knext k (Homog n)) as [[i| |] k'] eqn:Ek.
    + unfold nofail at 1 in E. pose proof (knext_bound _ _ _ _ Ek) as Hb. simpl in Hb.
      destruct Hw as [Hn Hw].
      destruct (trav nofail t k' ((i, None, n) :: pre)) as [r0 calls0] eqn:Ep.
      simpl in E. injection E as <- <-.
      destruct (IH _ _ _ _ Hw Ep) as (new & -> & H1 & H2).
      exists (new ++ [(i, None, n)]). split; [rewrite <- app_assoc; reflexivity|].
      rewrite app_length, csum_app. cbn [length csum metadata m_depth m_length]. unfold clen. cbn [fst snd].
      pose proof (digits_mono i (n - 1) ltac:(lia)) as Hdm. split; lia.
    + injection E as <- <-. exists []. repeat split; simpl; lia.
    + injection E as <- <-. exists []. repeat split; simpl; lia.
Qed.

Lemma wsum_app a b : wsum (a ++ b) = (wsum a + wsum b)%nat.
Proof. induction a as [|c a IH]; [reflexivity|]. cbn [app wsum]. rewrite IH. lia. Qed.

(* the decimal index written by itoa has exactly [digits] bytes *)
Lemma wsum_digits s : forallb dig s = true -> wsum s = length s.
Proof.
  induction s as [|c r IH]; [reflexivity|]. cbn [forallb]. intros H. apply andb_prop in H as [Hc Hr].
  cbn [wsum length]. rewrite (IH Hr). unfold utf8_len. unfold dig in Hc. apply andb_prop in Hc as [_ H2]. apply N.leb_le in H2.
  replace (c <? 128) with true by (symmetry; apply N.ltb_lt; lia). reflexivity.
Qed.

Lemma itoa_digits_len : forall f g n acc, n < 10 ^ N.of_nat (S f) -> n < 10 ^ N.of_nat (S g) ->
  N.of_nat (length (itoa_aux (S f) n acc)) = N.of_nat (length acc) + digits_aux (S g) n.
Proof.
  induction f as [|f IH]; intros g n acc Hf Hg; rewrite itoa_aux_S; cbn [digits_aux].
  - change (10 ^ N.of_nat 1) with 10 in Hf. replace (n <? 10) with true by (symmetry; apply N.ltb_lt; exact Hf).
    cbn [length]. lia.
  - destruct (n <? 10) eqn:E; [cbn [length]; lia|]. apply N.ltb_ge in E.
    pose proof (N.div_mod' n 10) as D. pose proof (N.mod_lt n 10 ltac:(discriminate)) as M.
    remember (n / 10) as q. remember (n mod 10) as m.
    assert (Hqf : q < 10 ^ N.of_nat (S f)) by (rewrite (Nat2N.inj_succ (S f)), N.pow_succ_r' in Hf; lia).
    destruct g as [|g]; [change (10 ^ N.of_nat 1) with 10 in Hg; lia|].
    assert (Hqg : q < 10 ^ N.of_nat (S g)) by (rewrite (Nat2N.inj_succ (S g)), N.pow_succ_r' in Hg; lia).
    rewrite (IH g q _ Hqf Hqg). cbn [length]. lia.
Qed.

Theorem itoa_bytes i : i < 18446744073709551616 -> str_bytes (itoa i) = digits i.
Proof.
  intros Hi. unfold str_bytes, itoa, digits.
  destruct (itoa_aux_spec 39 i [] ltac:(change (10 ^ N.of_nat 40) with 10000000000000000000000000000000000000000; lia))
    as (ds & E & _ & Hall & _).
  rewrite app_nil_r in E. rewrite E, (wsum_digits _ Hall), <- E.
  rewrite (itoa_digits_len 39 19 i []); [reflexivity| |];
    [change (10 ^ N.of_nat 40) with 10000000000000000000000000000000000000000|change (10 ^ N.of_nat 20) with 100000000000000000000]; lia.
Qed.

(* hence a Path written for any reachable node fits max_length(separator) = max_length + max_depth * len(sep) *)
Theorem path_buffer_suffices sep : forall t k r calls, wf t -> small t -> trav nofail t k [] = (r, calls) ->
  Forall (fun c : call => fst (fst c) < 18446744073709551616) calls ->
  N.of_nat (wsum (concat (map (call_text_path sep) (rev calls)))) <=
  m_length (metadata t) + m_depth (metadata t) * N.of_nat (utf8_len sep).
Proof.
  intros t k r calls Hw Hs E H64.
  destruct (path_bound t k [] r calls Hw E) as (new & Hc & Hd & Hl). rewrite app_nil_r in Hc. subst new.
  assert (G : forall cs, Forall (fun c : call => fst (fst c) < 18446744073709551616) cs ->
              N.of_nat (wsum (concat (map (call_text_path sep) cs))) = csum cs + N.of_nat (length cs) * N.of_nat (utf8_len sep)).
  { induction cs as [|[[i nm] len] rr IHc]; intros HF; [reflexivity|]. inversion HF as [|? ? Hi HF']; subst.
    cbn [map concat length csum]. rewrite wsum_app. cbn [call_text_path wsum]. rewrite !Nat2N.inj_add, (IHc HF').
    unfold clen. cbn [fst snd] in *. destruct nm as [nm|].
    - unfold str_bytes. lia.
    - rewrite <- (itoa_bytes i Hi). unfold str_bytes. lia. }
  rewrite G by (apply Forall_rev; exact H64).
  assert (Hcs : csum (rev calls) = csum calls).
  { clear. induction calls as [|c r IH]; [reflexivity|]. cbn [rev csum]. rewrite csum_app, IH. cbn [csum]. lia. }
  rewrite Hcs, rev_length. nia.
Qed.
