(* Observation builders for the C17 correspondence (harness/py/run.py). *)
From Coq Require Import List NArith ZArith Bool.
From MC Require Import Obs Py.
Import ListNotations.

Definition Ostr (s : list N) : obs := OL (map ON s).
Definition outcome_obs (o : outcome) : obs :=
  match o with
  | Value x => OL [OZ 0; Ostr x]
  | Values xs => OL [OZ 1; OL (map Ostr xs)]
  | NotALeaf xs => OL [OZ 2; OL (map Ostr xs)]
  | Failed e t => OL [OZ 3; ON e; Ostr t]
  | AssertEmpty => OL [OZ 4]
  | Pending => OL [OZ 5]
  end.

Fixpoint find_completion (c : cd) (l : list completion) : option completion :=
  match l with [] => None | x :: r => if of_cd c x then Some x else find_completion c r end.

(* modes: request i has correlation data i; mode 0 = no response requested (no in-flight entry) *)
Fixpoint initial (modes : list N) (i : N) : inflight :=
  match modes with [] => [] | m :: r => (if (m =? 0)%N then [] else [(i, [])]) ++ initial r (i + 1) end.

Fixpoint outcomes (modes : list N) (i : N) (done : list completion) (sync : bool) : list obs :=
  match modes with
  | [] => []
  | m :: r =>
      (if (m =? 0)%N then OL [OZ 6]
       else outcome_obs (if sync then finish_sync m (option_map sync_ret (find_completion i done))
                         else finish m (find_completion i done)))
      :: outcomes r (i + 1) done sync
  end.

Definition py_case (sync : bool) (modes : list N) (ms : list msg) : obs :=
  let '(st, done) := run (initial modes 0) ms in
  OL [OL (outcomes modes 0 done sync); Onat (length st)].

Definition py_normalize (ps : list (list N)) : obs :=
  let '(xs, cur) := normalize_all [] ps in OL [OL (map Ostr xs); Ostr cur].
