(* C11: iteration into a target that runs out of capacity.  The failing target behaves like a total
   one on the *pruned* shape, in which every child whose key cannot be written is a leaf: that child
   is reported once, as an error item carrying its depth, everything below it is skipped, every
   other node is yielded as before, and the iteration ends. *)
From Coq Require Import List NArith ZArith Lia Bool Arith PeanoNat.
From MC Require Import Str Packed Tree Spec Tree_proofs NoPanic Transcode_proofs Meta_proofs Odometer Iter_proofs.
Import ListNotations.

Section Pruned.
Variable cbf : list call -> call -> bool.

(* the shape seen through a failing callback: a child whose callback invocation fails is a leaf *)
Fixpoint pshape (t : node) (pre : list call) {struct t} : shape :=
  match t with
  | NLeaf _ => Leaf
  | NGate _ t' => pshape t' pre
  | NFlat _ _ t' => pshape t' pre
  | NHet h lk cs =>
      Het ((fix go (cs : list (attrs * node)) (j : nat) {struct cs} : list shape :=
              match cs with
              | [] => []
              | (_, t') :: r =>
                  let c := (N.of_nat j, lk_name lk (N.of_nat j), lk_len lk) in
                  (if cbf pre c then Leaf else pshape t' (c :: pre)) :: go r (S j)
              end) cs 0)
  | NHom n t' =>
      Het (map (fun j => let c := (N.of_nat j, @None str, n) in
                         if cbf pre c then Leaf else pshape t' (c :: pre)) (seq 0 (N.to_nat n)))
  end.

Definition het_children (lk : lookup) (pre : list call) : list (attrs * node) -> nat -> list shape :=
  fix go (cs : list (attrs * node)) (j : nat) {struct cs} : list shape :=
    match cs with
    | [] => []
    | (_, t') :: r =>
        let c := (N.of_nat j, lk_name lk (N.of_nat j), lk_len lk) in
        (if cbf pre c then Leaf else pshape t' (c :: pre)) :: go r (S j)
    end.
Lemma pshape_het h lk cs pre : pshape (NHet h lk cs) pre = Het (het_children lk pre cs 0).
Proof. reflexivity. Qed.

Lemma het_children_length lk pre : forall cs j, length (het_children lk pre cs j) = length cs.
Proof. induction cs as [|[a t'] r IH]; intros j; [reflexivity|]. cbn [het_children length]. rewrite IH. reflexivity. Qed.

Lemma het_children_nth lk pre : forall cs j k a t', nth_error cs k = Some (a, t') ->
  nth_error (het_children lk pre cs j) k =
  Some (let c := (N.of_nat (j + k), lk_name lk (N.of_nat (j + k)), lk_len lk) in
        if cbf pre c then Leaf else pshape t' (c :: pre)).
Proof.
  induction cs as [|[a0 t0] r IH]; intros j k a t' E; [destruct k; discriminate|].
  destruct k as [|k]; simpl in E.
  - injection E as -> ->. cbn [het_children nth_error]. rewrite Nat.add_0_r. reflexivity.
  - cbn [het_children nth_error]. rewrite (IH (S j) k a t' E). replace (S j + k) with (j + S k) by lia. reflexivity.
Qed.

Lemma look_leaf idx : look idx Leaf = RLeaf 0.
Proof. destruct idx; reflexivity. Qed.

Lemma wf_pshape : forall t pre, NoPanic.wf t -> Odometer.wf (pshape t pre).
Proof.
  induction t as [lk|g t IH|s a t IH|h lk cs IH|n t IH] using node_ind'; intros pre Hw; cbn [pshape].
  - constructor.
  - apply IH. exact Hw.
  - apply IH. exact Hw.
  - destruct Hw as (Hlen & Hne & Hall). change (Odometer.wf (Het (het_children lk pre cs 0))). constructor.
    + destruct cs as [|[a0 t0] r]; [congruence|discriminate].
    + clear Hlen Hne. generalize 0 as j. induction IH as [|[a c] r Hc _ IHr]; intros j; [constructor|].
      destruct Hall as [H1 H2]. cbn [het_children]. constructor; [|apply IHr; exact H2].
      destruct (cbf pre _); [constructor|apply Hc; exact H1].
  - destruct Hw as [Hn Hw]. constructor.
    + destruct (N.to_nat n) eqn:E; [lia|discriminate].
    + apply Forall_forall. intros x Hx. apply in_map_iff in Hx as (j & <- & _).
      destruct (cbf pre _); [constructor|apply IH; exact Hw].
Qed.

(* the lookup of an index key through the failing callback is the shape-level lookup in the pruned
   shape; a pruned child shows as a leaf at its own depth, the traversal reports Inner there *)
Lemma trav_look_cap : forall t idx pre, NoPanic.wf t -> small t ->
  match look idx (pshape t pre) with
  | RLeaf d => fst (trav cbf t (idx_keys idx) pre) = ROk d \/ fst (trav cbf t (idx_keys idx) pre) = RErr (Inner d)
  | RInt d => fst (trav cbf t (idx_keys idx) pre) = RErr (TooShort d)
  | RNF d => fst (trav cbf t (idx_keys idx) pre) = RErr (NotFound d)
  end.
Proof.
  induction t as [lk|g t IH|s a t IH|h lk cs IH|n t IH] using node_ind'; intros idx pre Hw Hs.
  - cbn [trav pshape]. unfold idx_keys. cbn [kfin]. destruct idx; cbn [look is_leaf]; left; reflexivity.
  - cbn [trav pshape]. apply IH; assumption.
  - cbn [trav pshape]. apply IH; assumption.
  - rewrite pshape_het. cbn [trav]. destruct Hw as (Hlen & Hne & Hall). destruct Hs as [Hsm Hsall].
    destruct idx as [|i r].
    + unfold idx_keys. cbn [map knext look is_leaf]. reflexivity.
    + rewrite knext_idx_cons by exact Hsm. cbn [look is_leaf child].
      destruct (N.ltb_spec i (lk_len lk)) as [Hlt|Hge].
      * unfold reports. cbn [andb].
        assert (Hj : N.to_nat i < length cs) by lia.
        destruct (nth_error cs (N.to_nat i)) as [[a t']|] eqn:En; [|apply nth_error_None in En; lia].
        rewrite (het_children_nth lk pre cs 0 _ a t' En). cbn [Nat.add]. rewrite N2Nat.id. cbv zeta.
        set (c := (i, lk_name lk i, lk_len lk)).
        destruct (cbf pre c) eqn:Ec.
        -- rewrite look_leaf. cbn [shiftres]. right. reflexivity.
        -- set (pre' := c :: pre).
           assert (G : forall (cs0 : list (attrs * node)) j, nth_error cs0 j = Some (a, t') ->
             (fix pick (cs : list (attrs * node)) (j : nat) {struct cs} : tout :=
                match cs with [] => (RErr Unreachable, pre') | (_, t') :: r0 => match j with O => trav cbf t' (idx_keys r) pre' | S j' => pick r0 j' end end) cs0 j
             = trav cbf t' (idx_keys r) pre').
           { induction cs0 as [|[a0 t0] r0 IHc]; intros j Ej; [destruct j; discriminate|].
             destruct j as [|j]; simpl in Ej; [injection Ej as -> ->; reflexivity|apply IHc; exact Ej]. }
           rewrite (G cs _ En).
           assert (Hin : In (a, t') cs) by (eapply nth_error_In; eauto).
           rewrite Forall_forall in IH. specialize (IH (a, t') Hin r pre').
           assert (Hwt : NoPanic.wf t') by (eapply wf_all_nth; eauto).
           assert (Hst : small t').
           { clear - Hsall En. revert Hsall En. generalize (N.to_nat i) as j. induction cs as [|[a0 t0] r0 IHc]; intros j Hsall En; [destruct j; discriminate|].
             destruct Hsall as [H1 H2]. destruct j as [|j]; simpl in En; [injection En as -> ->; exact H1|eapply IHc; eauto]. }
           specialize (IH Hwt Hst). cbn [snd] in IH.
           destruct (trav cbf t' (idx_keys r) pre') as [r0 calls0]. cbn [fst] in *.
           destruct (look r (pshape t' pre')) as [d|d|d]; cbn [shiftres tincr fst].
           ++ destruct IH as [-> | ->]; [left|right]; reflexivity.
           ++ rewrite IH. reflexivity.
           ++ rewrite IH. reflexivity.
      * rewrite (proj2 (nth_error_None _ _)); [reflexivity|]. rewrite het_children_length. lia.
  - cbn [trav pshape]. destruct Hw as [Hn Hw]. destruct Hs as [Hsm Hs].
    destruct idx as [|i r].
    + unfold idx_keys. cbn [map knext look is_leaf]. reflexivity.
    + rewrite knext_idx_cons by exact Hsm. cbn [look is_leaf child lk_len].
      destruct (N.ltb_spec i n) as [Hlt|Hge].
      * rewrite nth_error_map. rewrite (nth_error_nth' _ 0) by (rewrite seq_length; lia).
        rewrite seq_nth by lia. cbn [option_map Nat.add]. rewrite N2Nat.id. cbv zeta.
        destruct (cbf pre (i, None, n)) eqn:Ec.
        -- rewrite look_leaf. cbn [shiftres]. right. reflexivity.
        -- specialize (IH r ((i, None, n) :: pre) Hw Hs).
           destruct (trav cbf t (idx_keys r) ((i, None, n) :: pre)) as [r0 calls0]. cbn [fst] in *.
           destruct (look r (pshape t ((i, None, n) :: pre))) as [d|d|d]; cbn [shiftres tincr fst].
           ++ destruct IH as [-> | ->]; [left|right]; reflexivity.
           ++ rewrite IH. reflexivity.
           ++ rewrite IH. reflexivity.
      * rewrite (proj2 (nth_error_None _ _)); [reflexivity|]. rewrite map_length, seq_length. lia.
Qed.
End Pruned.

Section SimCap.
Variable t : node.
Variable tg : target.
Hypothesis Hw : NoPanic.wf t.
Hypothesis Hs : small t.
Let sh := pshape (tg_fail tg) t [].
Let Hwsh : Odometer.wf sh := wf_pshape (tg_fail tg) t [] Hw.

(* what next() returns for the node with padded index key idx': an error item with the failing depth
   if its key cannot be written, the rendered key otherwise *)
Definition item_cap (idx' : list N) (d : nat) (lf : bool) : Tree.item :=
  match fst (transcode t tg (idx_keys idx')) with
  | TErr (TooShort _) => ItErr d
  | _ => ItOk (snd (transcode t tg (idx_keys idx'))) d lf
  end.
Definition depth_cap (idx' : list N) (d root : nat) : nat :=
  match fst (transcode t tg (idx_keys idx')) with
  | TErr (TooShort _) => Nat.max d root
  | _ => d
  end.
Lemma depth_cap_ge idx' d root : root <= d -> depth_cap idx' d root = d.
Proof. intros H. unfold depth_cap. destruct (fst (transcode t tg (idx_keys idx'))) as [| |[]]; lia. Qed.

Lemma transcode_look_cap idx :
  match look idx sh with
  | RLeaf d => fst (transcode t tg (idx_keys idx)) = TLeaf d \/ fst (transcode t tg (idx_keys idx)) = TErr (TooShort d)
  | RInt d => fst (transcode t tg (idx_keys idx)) = TInternal d
  | RNF d => fst (transcode t tg (idx_keys idx)) = TErr (NotFound d)
  end.
Proof.
  unfold transcode. pose proof (trav_look_cap (tg_fail tg) t idx [] Hw Hs) as E. fold sh in E.
  destruct (trav (tg_fail tg) t (idx_keys idx) []) as [r pre]. cbn [fst] in *.
  destruct (look idx sh) as [d|d|d].
  - destruct E as [-> | ->]; [left|right]; reflexivity.
  - rewrite E. reflexivity.
  - rewrite E. reflexivity.
Qed.

Lemma iter_loop_sim_cap : forall fuel st,
  match loop (i_root st) fuel sh (i_idx st) (i_depth st) with
  | Done => exists st', iter_loop fuel t tg st = (IDone, st') /\ i_depth st' = i_root st' /\
                        i_root st' = i_root st /\ length (i_idx st') = length (i_idx st)
  | OutOfFuel => fst (iter_loop fuel t tg st) = IPanic
  | Item idx' d lf => iter_loop fuel t tg st =
      (IItem (item_cap idx' d lf), {| i_idx := idx'; i_root := i_root st; i_depth := depth_cap idx' d (i_root st) |})
  end.
Proof.
  induction fuel as [|f IH]; intros st; [reflexivity|].
  cbn [loop iter_loop]. change Tree.upd with Odometer.upd. destruct (i_depth st =? i_root st) eqn:Ed.
  - exists st. apply Nat.eqb_eq in Ed. auto.
  - set (idx1 := if i_depth st <=? length (i_idx st) then upd (i_idx st) (i_depth st - 1) N.succ else i_idx st).
    pose proof (transcode_look_cap idx1) as E. unfold item_cap, depth_cap.
    destruct (transcode t tg (idx_keys idx1)) as [n r] eqn:Et. cbn [fst snd] in *.
    destruct (look idx1 sh) as [d|d|d] eqn:El.
    + destruct E as [-> | ->]; rewrite Et; reflexivity.
    + subst n. rewrite Et. reflexivity.
    + subst n.
      specialize (IH {| i_idx := upd idx1 (d - 1) (fun _ => 0%N); i_root := i_root st; i_depth := Nat.max (d - 1) (i_root st) |}).
      cbn [i_idx i_root i_depth] in IH.
      destruct (loop (i_root st) f sh (upd idx1 (d - 1) (fun _ => 0%N)) (Nat.max (d - 1) (i_root st))) as [| |idx' d' lf].
      * destruct IH as (st' & E1 & E2 & E3 & E4). exists st'. repeat split; try assumption.
        rewrite E4. assert (Hu : forall l k g, length (upd l k g) = length l).
        { induction l as [|x l IHl]; intros [|k] g; simpl; auto. }
        rewrite Hu. unfold idx1. destruct (i_depth st <=? length (i_idx st)); [apply Hu|reflexivity].
      * exact IH.
      * exact IH.
Qed.

Definition expect_cap (D' : nat) (p : list N) (c : shape) (q : list N) : iout :=
  IItem (item_cap (p ++ pad D' q) (length p + length q) (nodeleaf c q)).

Lemma node_next_cap D' p c q : descend sh p = Some c -> maximal D' c q ->
  iter_next t tg {| i_idx := p ++ pad D' q; i_root := length p; i_depth := length p + length q |} =
  match succ D' c q with
  | Some q' => (expect_cap D' p c q', {| i_idx := p ++ pad D' q'; i_root := length p; i_depth := length p + length q' |})
  | None => (IDone, snd (iter_next t tg {| i_idx := p ++ pad D' q; i_root := length p; i_depth := length p + length q |}))
  end /\
  (succ D' c q = None ->
     let st' := snd (iter_next t tg {| i_idx := p ++ pad D' q; i_root := length p; i_depth := length p + length q |}) in
     i_depth st' = i_root st' /\ i_root st' = length p /\ length (i_idx st') = length p + D').
Proof.
  intros Hd Hm. pose proof (maximal_len _ _ _ Hm) as Hlen.
  unfold iter_next. cbn [i_idx]. rewrite app_length, (pad_length D' q Hlen).
  pose proof (iter_loop_sim_cap (length p + D' + 2)
                {| i_idx := p ++ pad D' q; i_root := length p; i_depth := length p + length q |}) as Sim.
  cbn [i_idx i_root i_depth] in Sim.
  rewrite (next_is_succ_rooted D' sh p c q (length p + D' + 2) Hwsh Hd Hm ltac:(lia)) in Sim.
  destruct (succ D' c q) as [q'|].
  - split; [|discriminate]. rewrite Sim. unfold expect_cap. rewrite depth_cap_ge by lia. reflexivity.
  - destruct Sim as (st' & E1 & E2 & E3 & E4). rewrite E1. cbn [snd]. split; [reflexivity|].
    intros _. rewrite E4, app_length, (pad_length D' q Hlen). auto.
Qed.

Lemma node_collect_chain_cap D' p c : descend sh p = Some c -> forall l q n,
  maximal D' c q -> chain_to (succ D' c) (q :: l) None -> length l < n ->
  iter_collect n t tg {| i_idx := p ++ pad D' q; i_root := length p; i_depth := length p + length q |} =
  map (expect_cap D' p c) l ++ [IDone].
Proof.
  intros Hd. induction l as [|b l IH]; intros q n Hm Hc Hn.
  - simpl in Hc. destruct n; [simpl in Hn; lia|]. rewrite iter_collect_S.
    destruct (node_next_cap D' p c q Hd Hm) as [E _]. rewrite Hc in E. rewrite E. reflexivity.
  - destruct Hc as [Hsucc Hc]. destruct n; [simpl in Hn; lia|]. rewrite iter_collect_S.
    destruct (node_next_cap D' p c q Hd Hm) as [E _]. rewrite Hsucc in E. rewrite E. cbn [map app]. unfold expect_cap at 1. f_equal.
    apply IH; [eapply succ_maximal; eauto; eapply wf_descend; eauto|exact Hc|simpl in Hn; lia].
Qed.

(* C11, any target: iteration rooted at the (writable) node p with depth limit |p| + D' yields the
   depth-first enumeration with cut-off of the PRUNED subtree: every node whose key can be written,
   in order, each once; one error item with the failing depth for every child whose key cannot be
   written (nothing below it); then the end *)
Theorem iter_rooted_cap D' p c : descend sh p = Some c ->
  iter_collect (S (S (length (enum D' c)))) t tg
      {| i_idx := p ++ zeros D'; i_root := length p; i_depth := length p + D' + 1 |} =
  map (expect_cap D' p c) (enum D' c) ++ [IDone].
Proof.
  intros Hd. pose proof (wf_descend _ _ _ Hwsh Hd) as Hwc.
  destruct (enum_chain D' c Hwc) as [Hhd Hch].
  destruct (enum D' c) as [|q0 l] eqn:E; [discriminate|].
  simpl in Hhd. injection Hhd as ->.
  rewrite iter_collect_S. unfold iter_next at 1. cbn [i_idx]. rewrite app_length, zeros_length.
  pose proof (iter_loop_sim_cap (length p + D' + 2)
                {| i_idx := p ++ zeros D'; i_root := length p; i_depth := length p + D' + 1 |}) as Sim.
  cbn [i_idx i_root i_depth] in Sim.
  rewrite (first_item_rooted D' sh p c (length p + D' + 2) Hwsh Hd ltac:(lia)) in Sim.
  rewrite Sim. cbn [map app]. rewrite depth_cap_ge by lia. f_equal.
  - unfold expect_cap. rewrite pad_first. unfold nodeleaf. rewrite descend_first. reflexivity.
  - rewrite <- (pad_first D' c).
    apply node_collect_chain_cap; [exact Hd|apply maximal_first; exact Hwc|exact Hch|simpl; lia].
Qed.

Theorem iter_complete_cap D :
  iter_collect (S (S (length (enum D sh)))) t tg (iter_default D) =
  map (expect_cap D [] sh) (enum D sh) ++ [IDone].
Proof.
  pose proof (iter_rooted_cap D [] sh eq_refl) as H. cbn [app length Nat.add] in H. exact H.
Qed.

(* after the end: fused (as for total targets) *)
Theorem iter_end_cap D' p c q : descend sh p = Some c -> maximal D' c q -> succ D' c q = None ->
  let st' := snd (iter_next t tg {| i_idx := p ++ pad D' q; i_root := length p; i_depth := length p + length q |}) in
  fst (iter_next t tg {| i_idx := p ++ pad D' q; i_root := length p; i_depth := length p + length q |}) = IDone /\
  iter_next t tg st' = (IDone, st').
Proof.
  intros Hd Hm Hsn. destruct (node_next_cap D' p c q Hd Hm) as [E F]. rewrite Hsn in E.
  split; [rewrite E; reflexivity|]. apply iter_fused. apply (F Hsn).
Qed.
End SimCap.

(* non-vacuity: struct { a, long_name: { x, y }, b } into a Path of at most 4 bytes: "/a" and "/b" are
   yielded, "/long_name" does not fit: one error item with depth 1 stands for the whole subtree *)
Definition ex_t : node :=
  NHet HStruct (Named [[97]; [108; 111; 110; 103; 95; 110; 97; 109; 101]; [98]]%N)
    [(no_attrs, NLeaf KLeaf);
     (no_attrs, NHet HStruct (Named [[120]; [121]]%N) [(no_attrs, NLeaf KLeaf); (no_attrs, NLeaf KLeaf)]);
     (no_attrs, NLeaf KLeaf)].
Example ex_cap :
  pshape (tg_fail (TgPath 47 4)) ex_t [] = Het [Leaf; Leaf; Leaf] /\
  iter_collect 6 ex_t (TgPath 47 4) (iter_default 2) =
    [IItem (ItOk (RdText [47; 97]%N) 1 true); IItem (ItErr 1); IItem (ItOk (RdText [47; 98]%N) 1 true); IDone].
Proof. vm_compute. split; reflexivity. Qed.

(* C16: the loop of NodeIter::next never runs out of its iteration budget (the model's IPanic), for
   any target, any depth limit and any writable root: no item of a whole iteration is IPanic *)
Theorem iter_no_panic t tg D' p c : NoPanic.wf t -> small t ->
  descend (pshape (tg_fail tg) t []) p = Some c ->
  ~ In IPanic (iter_collect (S (S (length (enum D' c)))) t tg
                 {| i_idx := p ++ zeros D'; i_root := length p; i_depth := length p + D' + 1 |}).
Proof.
  intros Hw Hs Hd. rewrite (iter_rooted_cap t tg Hw Hs D' p c Hd). intros Hin.
  apply in_app_or in Hin as [Hin|[Hin|[]]]; [|discriminate].
  apply in_map_iff in Hin as (q & Hq & _). unfold expect_cap in Hq. discriminate.
Qed.
