(* Observation builder of the C18 correspondence: one request answered by the idle device model with
   ample capacity, its packets through [to_py] into the Python dispatcher model, then the tail of _do. *)
From Coq Require Import List NArith ZArith Bool.
From MC Require Import Obs Generated Mqtt Mqtt_run E2E Py_tie.
From MC Require Py.
Import ListNotations.

Definition big_env : env :=
  {| conn := true; now := 100000; act_ok := true; slots := 1000; accepted := None; can_after := true;
     vals := fun _ => PAbsent; all_leaves := []; api := ApiNone; poll := NoMsg |}.

(* mode: 0 dump (no response), 1 get / set, 2 list *)
Definition e2e_case (mode : N) (sync : bool) (rtp : list N) (im : inmsg) : obs :=
  let m0 := {| st := Single; timeout := None; pd := pend0 [] |} in
  let enc := fun _ : list N => 0%N in
  match on_message m0 im 0 with
  | None => OL [OZ (-999)]
  | Some (m1, o, _) =>
      let o' := if sm_eqb (st m1) Multipart then concat (fst (action_outs [big_env] m1)) else o in
      if (mode =? 0)%N then OL [OZ 6] else
      let done := snd (Py.run [(0%N, [])] (flat_map (to_py rtp enc) o')) in
      outcome_obs (if sync then Py.finish_sync mode (option_map Py.sync_ret (hd_error done))
                   else Py.finish mode (hd_error done))
  end.
