(* Whole-run theorems about the MQTT client model: every sequence of environments (schedules of
   update() calls, connection losses, session resets, clock readings, publish capacity, requests).
   C13: the start-up sequence as a monitor over a history variable; C10/C07: a dump / a list spread
   over any number of update() calls refines "take the next [slots] leaves, in order, each once". *)
From Coq Require Import List NArith Lia Bool Arith.
From MC Require Import Generated Mqtt Mqtt_proofs.
Import ListNotations.

(* ---------------------------------------------------------------- phases of one update() *)
Definition pre (e : env) (m : mstate) : option mstate :=
  bind (api_action e m) (fun ma => if conn e then Some ma else process ma EReset (now e)).

Lemma step_split e m : step e m =
  bind (pre e m) (fun m0 => bind (state_action e m0) (fun '(m1, o1) =>
  bind (poll_action e m1 o1) (fun '(m2, o2, ch) => Some (m2, o1 ++ o2, ch)))).
Proof. unfold step, pre, bind. destruct (api_action e m); reflexivity. Qed.

Lemma phases_total e m : exists m0 m1 o1 m2 o2 ch,
  pre e m = Some m0 /\ state_action e m0 = Some (m1, o1) /\ poll_action e m1 o1 = Some (m2, o2, ch) /\
  step e m = Some (m2, o1 ++ o2, ch).
Proof.
  pose proof (step_no_panic e m) as H. rewrite step_split in H. rewrite step_split. unfold bind in *.
  destruct (pre e m) as [m0|] eqn:E0; [|congruence].
  destruct (state_action e m0) as [[m1 o1]|] eqn:E1; [|congruence].
  destruct (poll_action e m1 o1) as [[[m2 o2] ch]|] eqn:E2; [|congruence].
  exists m0, m1, o1, m2, o2, ch. repeat split; assumption || reflexivity.
Qed.

(* ---------------------------------------------------------------- C13: history variable *)
Record ghost := { g_alive : bool; g_sub : option N; g_tick : option N; g_dump : bool }.
Definition g0 := {| g_alive := false; g_sub := None; g_tick := None; g_dump := false |}.

(* what the epoch has seen so far, as a function of the protocol transitions alone; any return to
   Connect starts a new epoch *)
Definition g_trans (t : N) (g : ghost) (s s' : sm) : ghost :=
  match s' with
  | Connect => g0
  | _ => match s, s' with
         | Alive, Subscribe => {| g_alive := true; g_sub := g_sub g; g_tick := g_tick g; g_dump := g_dump g |}
         | Subscribe, Wait => {| g_alive := g_alive g; g_sub := Some t; g_tick := g_tick g; g_dump := g_dump g |}
         | Wait, Init => {| g_alive := g_alive g; g_sub := g_sub g; g_tick := Some t; g_dump := g_dump g |}
         | Init, Multipart => {| g_alive := g_alive g; g_sub := g_sub g; g_tick := g_tick g; g_dump := true |}
         | _, _ => g
         end
  end.

Definition InvS (s : sm) (to : option N) (g : ghost) : Prop :=
  match s with
  | Connect | Alive => g = g0
  | Subscribe => g = {| g_alive := true; g_sub := None; g_tick := None; g_dump := false |}
  | Wait => exists t, g = {| g_alive := true; g_sub := Some t; g_tick := None; g_dump := false |} /\
                      to = Some (t + DUMP_TIMEOUT_MS)%N
  | Init => exists t k, g = {| g_alive := true; g_sub := Some t; g_tick := Some k; g_dump := false |} /\
                        (t + DUMP_TIMEOUT_MS <= k)%N
  | Multipart | Single => exists t k, g = {| g_alive := true; g_sub := Some t; g_tick := Some k; g_dump := true |} /\
                                      (t + DUMP_TIMEOUT_MS <= k)%N
  end.
Definition Inv (m : mstate) (g : ghost) : Prop := InvS (st m) (timeout m) g.

Lemma Inv_process m g ev t m' : Inv m g -> process m ev t = Some m' -> Inv m' (g_trans t g (st m) (st m')).
Proof.
  unfold Inv. intros HI Hp. destruct (process_state _ _ _ _ Hp) as [_ (a & Hf & Ht)].
  destruct (fire_cases _ _ _ _ _ Hf) as [(-> & Hs & ->)|[(Hs & -> & Hs' & ->)|[(Hs & -> & Hs' & ->)|[(Hs & -> & Hs' & ->)|
    [(Hs & -> & Hs' & -> & Hg)|[(Hs & -> & Hs' & ->)|[(Hs & -> & Hs' & ->)|(Hs & -> & Hs' & ->)]]]]]]];
    rewrite ?Hs, ?Hs' in *; simpl in *.
  - reflexivity.
  - exact HI.
  - rewrite HI. reflexivity.
  - rewrite HI. exists t. split; [reflexivity|exact Ht].
  - destruct HI as (t0 & -> & Hto). exists t0, t. split; [reflexivity|].
    unfold timed_out in Hg. rewrite Hto in Hg. apply N.leb_le. exact Hg.
  - destruct HI as (t0 & k & -> & Hle). exists t0, k. split; [reflexivity|exact Hle].
  - exact HI.
  - exact HI.
Qed.

(* Inv only looks at the protocol state and the timer *)
Lemma Inv_same m m' g : st m' = st m -> timeout m' = timeout m -> Inv m g -> Inv m' g.
Proof. unfold Inv. intros -> ->. exact (fun H => H). Qed.

Lemma g_trans_refl t g s : InvS s None g \/ True -> s <> Connect -> g_trans t g s s = g.
Proof. intros _ H. destruct s; try reflexivity. congruence. Qed.

Lemma Inv_refl t m g : Inv m g -> Inv m (g_trans t g (st m) (st m)).
Proof.
  unfold Inv. destruct (st m) eqn:E; simpl; intros H; try exact H. reflexivity.
Qed.

Lemma g_trans_connect t g s : g_trans t g s Connect = g0.
Proof. reflexivity. Qed.

(* one process call followed (optionally) by a reset *)
Lemma Inv_then_reset t m g ma m0 : Inv ma (g_trans t g (st m) (st ma)) -> process ma EReset t = Some m0 ->
  Inv m0 (g_trans t g (st m) (st m0)).
Proof.
  intros HI Hp. destruct (process_state _ _ _ _ Hp) as [_ (a & Hf & _)]. rewrite reset_always in Hf.
  injection Hf as Hs _. unfold Inv. rewrite <- Hs. reflexivity.
Qed.

Lemma do_dump_cases m root t : do_dump m root t = m \/
  exists m1 leaves, root = Some leaves /\ process m EMultipart t = Some m1 /\
    do_dump m root t = {| st := st m1; timeout := timeout m1; pd := pend0 leaves |}.
Proof.
  unfold do_dump. destruct root as [leaves|]; [|left; reflexivity].
  destruct (process m EMultipart t) as [m1|] eqn:E; [|left; reflexivity].
  right. exists m1, leaves. repeat split; reflexivity.
Qed.

Lemma Inv_do_dump t m g root : Inv m g -> Inv (do_dump m root t) (g_trans t g (st m) (st (do_dump m root t))).
Proof.
  intros HI. destruct (do_dump_cases m root t) as [->|(m1 & leaves & _ & Hp & ->)].
  - apply Inv_refl. exact HI.
  - simpl. pose proof (Inv_process _ _ _ _ _ HI Hp) as H. exact H.
Qed.

Lemma Inv_pre e m g m0 : Inv m g -> pre e m = Some m0 -> Inv m0 (g_trans (now e) g (st m) (st m0)).
Proof.
  intros HI H. unfold pre, bind in H. destruct (api_action e m) as [ma|] eqn:Ea; [|discriminate].
  assert (Hma : Inv ma (g_trans (now e) g (st m) (st ma))).
  { unfold api_action in Ea. destruct (api e).
    - injection Ea as <-. apply Inv_refl. exact HI.
    - eapply Inv_process; eassumption.
    - injection Ea as <-. apply Inv_do_dump. exact HI. }
  destruct (conn e).
  - injection H as <-. exact Hma.
  - eapply Inv_then_reset; eassumption.
Qed.

Definition ALIVE_PUB : out := OPub TAlive T_ONE true None None.
Definition is_settings_pub (o : out) : bool := match o with OPub (TSettings _) _ _ _ _ => true | _ => false end.
Definition is_proto (o : out) : bool :=
  match o with OSub => true | OPub TAlive _ _ _ _ => true | _ => false end.

Lemma pump_list_outs t : forall n m m' o, pump_list n t m = Some (m', o) ->
  st m = Multipart -> (st m' = Multipart \/ st m' = Single) /\ timeout m' = timeout m /\
  forallb (fun x => negb (is_proto x) && negb (is_settings_pub x)) o = true.
Proof.
  induction n as [|n IH]; intros m m' o H Hs; simpl in H.
  - injection H as <- <-. repeat split; auto.
  - destruct (p_rem (pd m)) as [|p rest].
    + destruct (process m EComplete t) as [m1|] eqn:Ep; [|discriminate]. simpl in H. injection H as <- <-.
      destruct (process_state _ _ _ _ Ep) as [_ (a & Hf & Ht)]. rewrite Hs, fire_complete in Hf. injection Hf as <- <-.
      repeat split; auto. simpl. destruct (p_resp (pd m)); reflexivity.
    + destruct (pump_list n t _) as [[m'' o']|] eqn:R; [|discriminate]. simpl in H. injection H as <- <-.
      destruct (IH _ _ _ R Hs) as (H1 & H2 & H3). repeat split; auto. simpl. rewrite H3.
      destruct (p_resp (pd m)); reflexivity.
Qed.

Lemma dump_msg_outs e cd p : forallb (fun x => negb (is_proto x)) (dump_msg e cd p) = true.
Proof. unfold dump_msg. destruct (vals e p); reflexivity. Qed.

Lemma pump_dump_outs e : forall n m m' o, pump_dump e n m = Some (m', o) ->
  st m = Multipart -> (st m' = Multipart \/ st m' = Single) /\ timeout m' = timeout m /\
  forallb (fun x => negb (is_proto x)) o = true.
Proof.
  induction n as [|n IH]; intros m m' o H Hs; simpl in H.
  - injection H as <- <-. repeat split; auto.
  - destruct (p_rem (pd m)) as [|p rest].
    + destruct (process m EComplete (now e)) as [m1|] eqn:Ep; [|discriminate]. simpl in H. injection H as <- <-.
      destruct (process_state _ _ _ _ Ep) as [_ (a & Hf & Ht)]. rewrite Hs, fire_complete in Hf. injection Hf as <- <-.
      repeat split; auto.
    + destruct (pump_dump e n _) as [[m'' o']|] eqn:R; [|discriminate]. simpl in H. injection H as <- <-.
      destruct (IH _ _ _ R Hs) as (H1 & H2 & H3). repeat split; auto.
      rewrite forallb_app, H3, dump_msg_outs. reflexivity.
Qed.

(* what the state action of one update() may emit, given what the epoch has seen *)
Definition action_ok (e : env) (g : ghost) (m0 m1 : mstate) (o1 : list out) : Prop :=
  (* the alive message is the first thing of an epoch, and leaving Alive means it was handed to minimq *)
  ((In ALIVE_PUB o1 \/ (st m0 = Alive /\ st m1 = Subscribe)) ->
     st m0 = Alive /\ st m1 = Subscribe /\ o1 = [ALIVE_PUB] /\ g = g0) /\
  (* the subscription follows the alive message and arms the dump timer *)
  ((In OSub o1 \/ (st m0 = Subscribe /\ st m1 = Wait)) ->
     st m0 = Subscribe /\ st m1 = Wait /\ o1 = [OSub] /\
     g = {| g_alive := true; g_sub := None; g_tick := None; g_dump := false |} /\
     timeout m1 = Some (now e + DUMP_TIMEOUT_MS)%N) /\
  (* the decision to dump is taken no earlier than DUMP_TIMEOUT after the subscription *)
  (st m0 = Wait -> st m1 = Init -> o1 = [] /\ exists t, g_sub g = Some t /\ (t + DUMP_TIMEOUT_MS <= now e)%N) /\
  (* the initial dump starts once per epoch, covers the whole tree, and is not a response *)
  (st m0 = Init -> st m1 = Multipart -> o1 = [] /\ g_dump g = false /\ pd m1 = pend0 (all_leaves e)) /\
  (* no settings value is published before that, and nothing else ever looks like alive / subscribe *)
  (existsb is_settings_pub o1 = true -> g_dump g = true) /\
  (existsb is_proto o1 = true -> o1 = [ALIVE_PUB] \/ o1 = [OSub]).

Lemma forallb_existsb_neg {A} (f : A -> bool) l : forallb (fun x => negb (f x)) l = true -> existsb f l = false.
Proof. induction l as [|x l IH]; simpl; [reflexivity|]. intros H. apply andb_prop in H as [H1 H2]. rewrite IH by exact H2. destruct (f x); [discriminate|reflexivity]. Qed.

Lemma forallb_weaken {A} (f g : A -> bool) l : (forall x, f x = true -> g x = true) -> forallb f l = true -> forallb g l = true.
Proof. intros H. induction l as [|x l IH]; simpl; [reflexivity|]. intros H0. apply andb_prop in H0 as [H1 H2]. rewrite (H _ H1), IH by exact H2. reflexivity. Qed.

Lemma action_ok_quiet e g m0 m1 :
  ~ (st m0 = Alive /\ st m1 = Subscribe) -> ~ (st m0 = Subscribe /\ st m1 = Wait) ->
  ~ (st m0 = Wait /\ st m1 = Init) -> ~ (st m0 = Init /\ st m1 = Multipart) -> action_ok e g m0 m1 [].
Proof.
  intros N1 N2 N3 N4. unfold action_ok. split; [|split; [|split; [|split; [|split]]]].
  - intros [[]|H]. contradiction.
  - intros [[]|H]. contradiction.
  - intros H1 H2. exfalso. apply N3. split; assumption.
  - intros H1 H2. exfalso. apply N4. split; assumption.
  - simpl. discriminate.
  - simpl. discriminate.
Qed.

Lemma action_ok_noproto e g m0 m1 o1 : st m0 = Multipart -> (st m1 = Multipart \/ st m1 = Single) ->
  existsb is_proto o1 = false -> g_dump g = true -> action_ok e g m0 m1 o1.
Proof.
  intros S0 S1 Hp Hg. unfold action_ok.
  assert (Hn : forall x, is_proto x = true -> ~ In x o1).
  { intros x Hx Hin. assert (existsb is_proto o1 = true) by (apply existsb_exists; exists x; split; assumption). congruence. }
  split; [|split; [|split; [|split; [|split]]]].
  - intros [Hin|[H1 _]]; [exfalso; eapply Hn; [|exact Hin]; reflexivity|congruence].
  - intros [Hin|[H1 _]]; [exfalso; eapply Hn; [|exact Hin]; reflexivity|congruence].
  - intros H1; congruence.
  - intros H1; congruence.
  - intros _. exact Hg.
  - rewrite Hp. discriminate.
Qed.

Lemma action_step e m0 g m1 o1 : Inv m0 g -> state_action e m0 = Some (m1, o1) ->
  action_ok e g m0 m1 o1 /\ Inv m1 (g_trans (now e) g (st m0) (st m1)).
Proof.
  intros HI H. unfold state_action, bind in H.
  destruct (st m0) eqn:S0.
  - (* Connect *)
    assert (Ho : o1 = [] /\ (m1 = m0 \/ st m1 = Alive /\ timeout m1 = timeout m0)).
    { destruct (conn e); [|injection H as <- <-; auto].
      destruct (process m0 EConnect (now e)) as [m'|] eqn:Ep; [|discriminate]. injection H as <- <-.
      destruct (process_state _ _ _ _ Ep) as [_ (a & Hf & Ht)]. rewrite S0, fire_connect in Hf. injection Hf as <- <-. auto. }
    destruct Ho as [-> Hm]. split.
    + apply action_ok_quiet; intros [H1 H2]; congruence.
    + unfold Inv in *. rewrite S0 in HI. destruct Hm as [->|[Hs _]]; [rewrite S0; reflexivity|rewrite Hs; simpl; exact HI].
  - (* Alive *)
    unfold Inv in HI. rewrite S0 in HI. simpl in HI.
    destruct (act_ok e).
    + destruct (process m0 EAlive (now e)) as [m'|] eqn:Ep; [|discriminate]. injection H as <- <-.
      destruct (process_state _ _ _ _ Ep) as [_ (a & Hf & Ht)]. rewrite S0, fire_alive in Hf. injection Hf as Hs <-.
      split.
      * unfold action_ok. split; [|split; [|split; [|split; [|split]]]].
        -- intros _. repeat split; auto.
        -- intros [[Hd|[]]|[H1 _]]; [discriminate Hd|congruence].
        -- intros H1; congruence.
        -- intros H1; congruence.
        -- simpl. discriminate.
        -- intros _. left. reflexivity.
      * unfold Inv. rewrite <- Hs. simpl. rewrite HI. reflexivity.
    + injection H as <- <-. split.
      * apply action_ok_quiet; intros [H1 H2]; congruence.
      * unfold Inv. rewrite S0. simpl. exact HI.
  - (* Subscribe *)
    unfold Inv in HI. rewrite S0 in HI. simpl in HI.
    destruct (act_ok e).
    + destruct (process m0 ESubscribe (now e)) as [m'|] eqn:Ep; [|discriminate]. injection H as <- <-.
      destruct (process_state _ _ _ _ Ep) as [_ (a & Hf & Ht)]. rewrite S0, fire_subscribe in Hf. injection Hf as Hs <-.
      split.
      * unfold action_ok. split; [|split; [|split; [|split; [|split]]]].
        -- intros [[Hd|[]]|[H1 _]]; [discriminate Hd|congruence].
        -- intros _. repeat split; auto.
        -- intros H1; congruence.
        -- intros H1; congruence.
        -- simpl. discriminate.
        -- intros _. right. reflexivity.
      * unfold Inv. rewrite <- Hs. simpl. rewrite HI. exists (now e). split; [reflexivity|exact Ht].
    + injection H as <- <-. split.
      * apply action_ok_quiet; intros [H1 H2]; congruence.
      * unfold Inv. rewrite S0. simpl. exact HI.
  - (* Wait *)
    injection H as <- <-. unfold process_or.
    destruct (process m0 ETick (now e)) as [m'|] eqn:Ep.
    + pose proof (Inv_process _ _ _ _ _ HI Ep) as HI'.
      destruct (process_state _ _ _ _ Ep) as [_ (a & Hf & Ht)]. rewrite S0, fire_tick in Hf.
      destruct (timed_out m0 (now e)) eqn:Eto; [|discriminate]. injection Hf as Hs <-.
      split; [|rewrite S0 in HI'; exact HI'].
      unfold Inv in HI. rewrite S0 in HI. simpl in HI. destruct HI as (t0 & -> & Hto).
      unfold action_ok. split; [|split; [|split; [|split; [|split]]]].
      * intros [[]|[H1 _]]; congruence.
      * intros [[]|[H1 _]]; congruence.
      * intros _ _. split; [reflexivity|]. exists t0. split; [reflexivity|].
        unfold timed_out in Eto. rewrite Hto in Eto. apply N.leb_le. exact Eto.
      * intros H1; congruence.
      * simpl. discriminate.
      * simpl. discriminate.
    + split.
      * apply action_ok_quiet; intros [H1 H2]; congruence.
      * apply (Inv_refl (now e)) in HI. rewrite S0 in HI at 1. exact HI.
  - (* Init *)
    injection H as <- <-.
    unfold do_dump. unfold process. rewrite S0, fire_init_multipart. simpl.
    unfold Inv in HI. rewrite S0 in HI. simpl in HI. destruct HI as (t0 & k & -> & Hle).
    split.
    + unfold action_ok. simpl. split; [|split; [|split; [|split; [|split]]]].
      * intros [[]|[H1 _]]; congruence.
      * intros [[]|[H1 _]]; congruence.
      * intros H1; congruence.
      * intros _ _. repeat split; reflexivity.
      * discriminate.
      * discriminate.
    + unfold Inv. simpl. exists t0, k. split; [reflexivity|exact Hle].
  - (* Multipart *)
    assert (Hg : g_dump g = true).
    { unfold Inv in HI. rewrite S0 in HI. simpl in HI. destruct HI as (t0 & k & -> & _). reflexivity. }
    assert (Hm : (st m1 = Multipart \/ st m1 = Single) /\ timeout m1 = timeout m0 /\ forallb (fun x => negb (is_proto x)) o1 = true).
    { destruct (p_resp (pd m0)).
      - destruct (pump_list_outs _ _ _ _ _ H S0) as (H1 & H2 & H3). repeat split; auto.
        revert H3. apply forallb_weaken. intros x Hx. apply andb_prop in Hx as [Hx _]. exact Hx.
      - exact (pump_dump_outs _ _ _ _ _ H S0). }
    destruct Hm as (Hs & Ht & Hp). apply forallb_existsb_neg in Hp.
    split.
    + apply action_ok_noproto; assumption.
    + unfold Inv in *. rewrite S0 in HI. simpl in HI. destruct Hs as [-> | ->]; simpl; exact HI.
  - (* Single *)
    injection H as <- <-. split.
    + apply action_ok_quiet; intros [H1 H2]; congruence.
    + apply (Inv_refl (now e)) in HI. rewrite S0 in HI at 1. exact HI.
Qed.

Lemma Inv_poll e m1 o1 g m2 o2 ch : Inv m1 g -> poll_action e m1 o1 = Some (m2, o2, ch) ->
  Inv m2 (g_trans (now e) g (st m1) (st m2)).
Proof.
  intros HI H. unfold poll_action, bind in H. destruct (poll e) as [| |im].
  - injection H as <- _ _. apply Inv_refl. exact HI.
  - destruct (process m1 EReset (now e)) as [m3|] eqn:E3; [|discriminate]. injection H as <- _ _.
    eapply Inv_process; eassumption.
  - destruct (on_message_state _ _ _ _ _ _ H) as [->|(Hs & Hs' & _)]; [apply Inv_refl; exact HI|].
    unfold Inv in *. rewrite Hs in HI. rewrite Hs, Hs'. simpl in *. exact HI.
Qed.

(* the monitored run: every update() of every history satisfies the monitor *)
Fixpoint run_ok (es : list env) (m : mstate) (g : ghost) : Prop :=
  match es with
  | [] => True
  | e :: r =>
      exists m0 m1 o1 m2 o2 ch,
        pre e m = Some m0 /\ state_action e m0 = Some (m1, o1) /\ poll_action e m1 o1 = Some (m2, o2, ch) /\
        step e m = Some (m2, o1 ++ o2, ch) /\
        let g1 := g_trans (now e) g (st m) (st m0) in
        action_ok e g1 m0 m1 o1 /\
        run_ok r m2 (g_trans (now e) (g_trans (now e) g1 (st m0) (st m1)) (st m1) (st m2))
  end.

Theorem startup_monitor_inv : forall es m g, Inv m g -> run_ok es m g.
Proof.
  induction es as [|e r IH]; intros m g HI; [exact I|]. simpl.
  destruct (phases_total e m) as (m0 & m1 & o1 & m2 & o2 & ch & E0 & E1 & E2 & Es).
  exists m0, m1, o1, m2, o2, ch. split; [exact E0|]. split; [exact E1|]. split; [exact E2|]. split; [exact Es|]. split.
  - pose proof (Inv_pre _ _ _ _ HI E0) as H0. exact (proj1 (action_step _ _ _ _ _ H0 E1)).
  - apply IH. pose proof (Inv_pre _ _ _ _ HI E0) as H0.
    pose proof (proj2 (action_step _ _ _ _ _ H0 E1)) as H1.
    exact (Inv_poll _ _ _ _ _ _ _ H1 E2).
Qed.

Theorem startup_monitor leaves es : run_ok es (init_state leaves) g0.
Proof. apply startup_monitor_inv. reflexivity. Qed.

(* without API calls nothing but the start-up sequence leads to the first dump: the initial dump is
   the full one *)
Lemma pre_no_api e m m0 : api e = ApiNone -> pre e m = Some m0 -> m0 = m \/ st m0 = Connect.
Proof.
  intros Ha H. unfold pre, api_action, bind in H. rewrite Ha in H. destruct (conn e).
  - injection H as <-. left. reflexivity.
  - destruct (process_state _ _ _ _ H) as [_ (a & Hf & _)]. rewrite reset_always in Hf. injection Hf as <- _. right. reflexivity.
Qed.

(* ---------------------------------------------------------------- C10: a dump over many calls *)
Lemma pump_dump_det e : forall n m, st m = Multipart ->
  exists m', pump_dump e n m = Some (m', flat_map (dump_msg e (p_cd (pd m))) (firstn n (p_rem (pd m)))) /\
    p_rem (pd m') = skipn n (p_rem (pd m)) /\ p_resp (pd m') = p_resp (pd m) /\ p_cd (pd m') = p_cd (pd m) /\
    timeout m' = timeout m /\
    st m' = if (length (p_rem (pd m)) <? n)%nat then Single else Multipart.
Proof.
  induction n as [|n IH]; intros m Hs.
  - exists m. simpl. repeat split; try reflexivity. exact Hs.
  - simpl. destruct (p_rem (pd m)) as [|p rest] eqn:E.
    + unfold process. rewrite Hs, fire_complete. simpl. eexists. split; [reflexivity|]. simpl. rewrite E. repeat split; reflexivity.
    + destruct (IH {| st := st m; timeout := timeout m; pd := {| p_rem := rest; p_resp := p_resp (pd m); p_cd := p_cd (pd m) |} |} Hs)
        as (m' & Hp & H1 & H2 & H3 & H4 & H5). simpl in *.
      rewrite Hp. simpl. exists m'. repeat split; try assumption.
Qed.

Definition list_msgs' (rt : topic) (cd : option bytes) (ps : list path) : list out := list_msgs rt cd ps.

Lemma pump_list_det t : forall n m, st m = Multipart ->
  let rt := match p_resp (pd m) with Some r => TOther r | None => TOther [] end in
  exists m', pump_list n t m = Some (m', list_msgs rt (p_cd (pd m)) (firstn n (p_rem (pd m))) ++
                                     (if (length (p_rem (pd m)) <? n)%nat then [OPub rt [] false (Some COk) (p_cd (pd m))] else [])) /\
    p_rem (pd m') = skipn n (p_rem (pd m)) /\ p_resp (pd m') = p_resp (pd m) /\ p_cd (pd m') = p_cd (pd m) /\
    timeout m' = timeout m /\
    st m' = if (length (p_rem (pd m)) <? n)%nat then Single else Multipart.
Proof.
  induction n as [|n IH]; intros m Hs.
  - exists m. simpl. repeat split; try reflexivity. exact Hs.
  - simpl. destruct (p_rem (pd m)) as [|p rest] eqn:E.
    + unfold process. rewrite Hs, fire_complete. simpl. eexists. split; [reflexivity|]. simpl. rewrite E. repeat split; reflexivity.
    + destruct (IH {| st := st m; timeout := timeout m; pd := {| p_rem := rest; p_resp := p_resp (pd m); p_cd := p_cd (pd m) |} |} Hs)
        as (m' & Hp & H1 & H2 & H3 & H4 & H5). simpl in *.
      rewrite Hp. simpl. exists m'. repeat split; try assumption.
Qed.

(* environments that do not end the connection epoch: still connected, no API call, no session reset *)
Definition quiet (e : env) : Prop := conn e = true /\ api e = ApiNone /\ poll e <> SessionReset.

(* abstract dump: take the next [slots] leaves, emit their current values, finish when the list is
   exhausted and a slot is left *)
Fixpoint dump_spec (es : list env) (L : list path) (cd : option bytes) : list (list out) * bool :=
  match es with
  | [] => ([], false)
  | e :: r =>
      let o := flat_map (dump_msg e cd) (firstn (slots e) L) in
      if (length L <? slots e)%nat then ([o], true)
      else let '(os, c) := dump_spec r (skipn (slots e) L) cd in (o :: os, c)
  end.
Fixpoint list_spec (es : list env) (L : list path) (rt : topic) (cd : option bytes) : list (list out) * bool :=
  match es with
  | [] => ([], false)
  | e :: r =>
      let o := list_msgs rt cd (firstn (slots e) L) in
      if (length L <? slots e)%nat then ([o ++ [OPub rt [] false (Some COk) cd]], true)
      else let '(os, c) := list_spec r (skipn (slots e) L) rt cd in (o :: os, c)
  end.
(* the leaves the abstract walk has taken, per call *)
Fixpoint chunks (es : list env) (L : list path) : list (list path) :=
  match es with
  | [] => []
  | e :: r => firstn (slots e) L :: (if (length L <? slots e)%nat then [] else chunks r (skipn (slots e) L))
  end.
Lemma chunks_exact : forall es L, exists rest, concat (chunks es L) ++ rest = L.
Proof.
  induction es as [|e r IH]; intros L; simpl; [exists L; reflexivity|].
  destruct (length L <? slots e)%nat.
  - exists (skipn (slots e) L). simpl. rewrite app_nil_r. apply firstn_skipn.
  - destruct (IH (skipn (slots e) L)) as (rest & Hr). exists rest. rewrite <- app_assoc, Hr. apply firstn_skipn.
Qed.
Lemma dump_spec_chunks : forall es L cd,
  Forall2 (fun e_o c => snd e_o = flat_map (dump_msg (fst e_o) cd) c)
          (combine (firstn (length (fst (dump_spec es L cd))) es) (fst (dump_spec es L cd))) (chunks es L).
Proof.
  induction es as [|e r IH]; intros L cd; simpl; [constructor|].
  destruct (length L <? slots e)%nat; simpl.
  - constructor; [reflexivity|constructor].
  - specialize (IH (skipn (slots e) L) cd). destruct (dump_spec r (skipn (slots e) L) cd) as [os c]. simpl in *.
    constructor; [reflexivity|exact IH].
Qed.
Lemma dump_spec_complete : forall es L cd, snd (dump_spec es L cd) = true -> concat (chunks es L) = L.
Proof.
  induction es as [|e r IH]; intros L cd; simpl; [discriminate|].
  destruct (length L <? slots e)%nat eqn:E; simpl.
  - intros _. rewrite app_nil_r. apply firstn_all2. apply Nat.ltb_lt in E. lia.
  - specialize (IH (skipn (slots e) L) cd). destruct (dump_spec r (skipn (slots e) L) cd) as [os c]. simpl in *.
    intros Hc. rewrite (IH Hc). apply firstn_skipn.
Qed.

(* the state-action outputs of the model, call by call, until the walk completes *)
Fixpoint action_outs (es : list env) (m : mstate) : list (list out) * bool :=
  match es with
  | [] => ([], false)
  | e :: r =>
      match pre e m with None => ([], false) | Some m0 =>
      match state_action e m0 with None => ([], false) | Some (m1, o1) =>
        if sm_eqb (st m1) Single then ([o1], true) else
        match poll_action e m1 o1 with None => ([], false) | Some (m2, _, _) =>
          let '(os, c) := action_outs r m2 in (o1 :: os, c) end
      end end
  end.

Lemma quiet_poll_busy e m1 o1 m2 o2 ch : st m1 = Multipart -> poll e <> SessionReset ->
  poll_action e m1 o1 = Some (m2, o2, ch) -> m2 = m1.
Proof.
  intros Hs Hq H. unfold poll_action, bind in H. destruct (poll e) as [| |im]; [|congruence|].
  - injection H as <- _ _. reflexivity.
  - eapply busy_refusal; [|exact H]. congruence.
Qed.

(* C10: however the publish capacity is spread over update() calls and whatever requests arrive in
   between, the dump refines the abstract walk *)
Theorem dump_refines : forall es m, st m = Multipart -> p_resp (pd m) = None -> Forall quiet es ->
  action_outs es m = dump_spec es (p_rem (pd m)) (p_cd (pd m)).
Proof.
  induction es as [|e r IH]; intros m Hs Hr Hq; [reflexivity|].
  inversion Hq as [|e' r' (Hc & Ha & Hp) Hq']; subst. simpl.
  unfold pre, api_action, bind. rewrite Ha, Hc. unfold state_action. rewrite Hs, Hr.
  destruct (pump_dump_det e (slots e) m Hs) as (m1 & Hpd & H1 & H2 & H3 & H4 & H5). rewrite Hpd.
  rewrite H5. destruct (length (p_rem (pd m)) <? slots e)%nat eqn:E; simpl; [reflexivity|].
  destruct (phases_total e m) as (m0' & m1' & o1' & m2 & o2 & ch & E0 & E1 & E2 & _).
  unfold pre, api_action, bind in E0. rewrite Ha, Hc in E0. injection E0 as <-.
  unfold state_action in E1. rewrite Hs, Hr, Hpd in E1. injection E1 as <- <-.
  rewrite E2. assert (Hst : st m1 = Multipart) by exact H5.
  pose proof (quiet_poll_busy _ _ _ _ _ _ Hst Hp E2) as ->.
  rewrite (IH m1 Hst (eq_trans H2 Hr) Hq'). rewrite H1, H3. reflexivity.
Qed.

(* C07: the same for a list answer *)
Theorem list_refines : forall es m rtb, st m = Multipart -> p_resp (pd m) = Some rtb -> Forall quiet es ->
  action_outs es m = list_spec es (p_rem (pd m)) (TOther rtb) (p_cd (pd m)).
Proof.
  induction es as [|e r IH]; intros m rtb Hs Hr Hq; [reflexivity|].
  inversion Hq as [|e' r' (Hc & Ha & Hp) Hq']; subst. simpl.
  unfold pre, api_action, bind. rewrite Ha, Hc. unfold state_action. rewrite Hs, Hr.
  destruct (pump_list_det (now e) (slots e) m Hs) as (m1 & Hpd & H1 & H2 & H3 & H4 & H5). rewrite Hr in Hpd. rewrite Hpd.
  rewrite H5. destruct (length (p_rem (pd m)) <? slots e)%nat eqn:E; simpl; [reflexivity|].
  destruct (phases_total e m) as (m0' & m1' & o1' & m2 & o2 & ch & E0 & E1 & E2 & _).
  unfold pre, api_action, bind in E0. rewrite Ha, Hc in E0. injection E0 as <-.
  unfold state_action in E1. rewrite Hs, Hr, Hpd in E1. injection E1 as <- <-.
  rewrite E2. assert (Hst : st m1 = Multipart) by exact H5.
  pose proof (quiet_poll_busy _ _ _ _ _ _ Hst Hp E2) as ->.
  rewrite (IH m1 rtb Hst (eq_trans H2 Hr) Hq'). rewrite H1, H3, app_nil_r. reflexivity.
Qed.
