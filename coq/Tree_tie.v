(* Observation builders for the generated-program correspondence: the same observations the
   Rust harness (harness/rs-gen/common) prints, computed from the model.  No proof depends on
   this file. *)
From Coq Require Import List NArith ZArith Bool Arith.
From MC Require Import Obs Str Packed Tree Codec.
Import ListNotations.

Definition L := (N * lval)%type.             (* leaf payload: type id and value *)

Definition Ostr (s : str) : obs := OL (map ON s).
Fixpoint lval_obs (v : lval) : obs :=
  match v with
  | LInt z => OL [OZ 0; OZ z]
  | LBool b => OL [OZ 1; OB b]
  | LUnit => OL [OZ 2]
  | LOpt o => OL [OZ 3; match o with None => ONone | Some x => OSome (lval_obs x) end]
  | LArr l => OL [OZ 4; OL (map lval_obs l)]
  | LStr s => OL [OZ 5; Ostr s]
  | LTag n => OL [OZ 6; ON n]
  end.

Definition gstate_obs (s : gstate) : obs := OZ (match s with GSok => 0 | GSabsent => 1 | GSblocked => 2 | GSshared => 3 end).
Fixpoint value_obs (v : value L) : obs :=
  match v with
  | VLeaf (tid, x) => OL [OZ 0; ON tid; lval_obs x]
  | VGate s c => match s with
                 | GSabsent => OL [OZ 1; gstate_obs s]
                 | _ => OL [OZ 1; gstate_obs s; value_obs c] end
  | VProd vs => OL [OZ 2; OL (map value_obs vs)]
  | VSum act c => match act with
                  | None => OL [OZ 3; OZ (-1)]
                  | Some j => OL [OZ 3; Onat j; value_obs c] end
  end.

Definition err_obs (e : err) : list obs :=
  match e with
  | Absent d => [OZ 0; Onat d; OZ 0] | TooShort d => [OZ 1; Onat d; OZ 0] | NotFound d => [OZ 2; Onat d; OZ 0]
  | TooLong d => [OZ 3; Onat d; OZ 0] | Access d m => [OZ 4; Onat d; ON m] | Invalid d m => [OZ 5; Onat d; ON m]
  | Inner d => [OZ 6; Onat d; OZ 0] | Unreachable => [OZ (-999)]
  end.
Definition res_obs (r : res) : obs :=
  match r with
  | ROk d => OL [OZ 0; Onat d]
  | RErr Unreachable => OL [OZ (-999)]
  | RErr e => OL (OZ 1 :: err_obs e)
  end.
Definition tnode_obs (n : tnode) : obs :=
  match n with
  | TLeaf d => OL [OZ 0; OL [Onat d; OB true]]
  | TInternal d => OL [OZ 0; OL [Onat d; OB false]]
  | TErr Unreachable => OL [OZ (-999)]
  | TErr e => OL (OZ 1 :: err_obs e)
  end.
Definition rendered_obs (r : rendered) : obs :=
  match r with
  | RdUnit => OL [] | RdIndices l => OL (map ON l) | RdText s => Ostr s | RdPacked w => OZ w
  end.
Definition call_obs (c : call) : obs := let '(i, nm, len) := c in OL [ON i; Oopt Ostr nm; ON len].
Definition lookup_obs (lk : lookup) : obs :=
  match lk with
  | Named ns => OL [OZ 0; OL (map Ostr ns)] | Numbered n => OL [OZ 1; ON n] | Homog n => OL [OZ 2; ON n]
  end.
Fixpoint skel_obs (s : skel) : obs :=
  match s with SkLeaf => OL [] | SkInt lk cs => OL [lookup_obs lk; OL (map skel_obs cs)] end.

Definition is_cb_event (e : event L) : bool := match e with EvRead _ | EvWrite _ => false | _ => true end.
Definition event_obs (e : event L) : obs :=
  match e with
  | EvGet id => OL [OZ 0; ON id; OZ 0] | EvGetMut id => OL [OZ 1; ON id; OZ 0] | EvVal id d => OL [OZ 2; ON id; Onat d]
  | _ => OL []
  end.
Definition log_obs (lg : list (event L)) : obs := OL (map event_obs (filter is_cb_event lg)).

(* ---- the codec as environment: what the value's own serde impl makes of the payload ---- *)
Inductive wres := WOk (v : lval) (fin : bool) | WInner | WInvalid.
Definition wtable := list (N * wres).
Fixpoint wlookup (tbl : wtable) (tid : N) : wres :=
  match tbl with [] => WInner | (t, r) :: rest => if (t =? tid)%N then r else wlookup rest tid end.
Definition wr_tbl (tbl : wtable) (x : L) : leafres L :=
  match wlookup tbl (fst x) with WOk v _ => LOk (fst x, v) | WInner => LInner | WInvalid => LInvalid end.
Definition fin_of (tbl : wtable) (lg : list (event L)) : bool :=
  existsb (fun e => match e with
                    | EvWrite y => match wlookup tbl (fst y) with WOk _ fin => negb fin | _ => false end
                    | _ => false end) lg.

Definition oracle_of (l : list (N * cbres)) : oracle :=
  fun id => (fix go l := match l with [] => CbOk None | (i, r) :: rest => if (i =? id)%N then r else go rest end) l.

Definition target_is_text (tg : target) : bool := match tg with TgPath _ _ | TgJson _ => true | _ => false end.

(* ---- operations; each returns the observation and the tree afterwards ---- *)
Inductive opd :=
| OpTranscode (k : keys) (tg : target)
| OpRawTrav (k : keys) (fail_at : option nat)
| OpMeta
| OpSer (k : keys) (orc : list (N * cbres))
| OpDe (k : keys) (tbl : wtable) (orc : list (N * cbres))
| OpRef (k : keys) (orc : list (N * cbres))
| OpMut (k : keys) (tbl : wtable) (orc : list (N * cbres))
| OpIter (tg : target) (D : nat) (root0 root : option keys) (pre_steps : nat) (exact : bool) (maxn : nat) (resolve : bool)
| OpRt (k : keys) (orc : list (N * cbres))
| OpSnap.

Definition read_bytes (lg : list (event L)) : obs :=
  match filter (fun e => match e with EvRead _ => true | _ => false end) lg with
  | EvRead x :: _ => OL (map ON (json_enc (snd x)))
  | _ => OL []
  end.
Definition read_value (lg : list (event L)) : obs :=
  match filter (fun e => match e with EvRead _ => true | _ => false end) lg with
  | EvRead x :: _ => OL [ON (fst x); lval_obs (snd x)]
  | _ => OL [OZ (-1)]
  end.

Definition delta_obs (v v' : value L) : obs :=
  if obs_eqb (value_obs v) (value_obs v') then OL [OZ 1] else OL [OZ 0; value_obs v'].

(* the yielded key, used as a key again (in its own representation) *)
Definition rekey (tg : target) (r : rendered) (d : nat) : option keys :=
  match tg, r with
  | TgPath sep _, RdText s => Some (KIter (map KStr (root_keys sep s)))
  | TgJson _, RdText s => Some (KIter (map KStr (json_keys s)))
  | TgPacked, RdPacked w => Some (KPacked w)
  | (TgIndices _ | TgIndices8 _), RdIndices l => Some (KIter (map (fun i => KInt (Z.of_N i)) (firstn d l)))
  | _, _ => None
  end.
Definition item_obs (t : node) (tg : target) (resolve : bool) (o : iout) : obs :=
  match o with
  | IDone => OL [OZ 2]
  | IPanic => OL [OZ (-999)]
  | IItem (ItOk r d leaf) =>
      OL ([OZ 0; rendered_obs r; Onat d; OB leaf] ++
          (if resolve then [match rekey tg r d with
                            | Some k => tnode_obs (fst (transcode t TgUnit k))
                            | None => OL [] end] else []))
  | IItem (ItErr d) => OL [OZ 1; Onat d]
  end.

(* drive the iterator like harness ops.rs: items until None (or maxn), then two more polls *)
Fixpoint iter_drive (rs : bool) (n : nat) (t : node) (tg : target) (st : istate) : list obs * istate :=
  match n with O => ([], st) | S n' =>
  match iter_next t tg st with
  | (IItem it, st') => let '(os, s2) := iter_drive rs n' t tg st' in (item_obs t tg rs (IItem it) :: os, s2)
  | (o, st') => ([item_obs t tg rs o], st')
  end end.
Fixpoint iter_skip (n : nat) (t : node) (tg : target) (st : istate) : istate :=
  match n with O => st | S n' => iter_skip n' t tg (snd (iter_next t tg st)) end.

Definition count_items (os : list obs) : nat :=
  length (filter (fun o => match o with OL (OZ 2 :: _) => false | _ => true end) os).

Definition run_op (t : node) (v : value L) (o : opd) : obs * value L :=
  match o with
  | OpTranscode k tg =>
      let '(n, r) := transcode t tg k in
      (OL [tnode_obs n; match n with TErr _ => OL [] | _ => rendered_obs r end], v)
  | OpRawTrav k fail_at =>
      let '(r, pre) := trav (fun pre _ => match fail_at with Some n => Nat.eqb (length pre) n | None => false end) t k [] in
      (OL [res_obs r; OL (map call_obs (rev pre))], v)
  | OpMeta =>
      let m := metadata t in
      (OL [OL [ON (m_count m); ON (m_depth m); ON (m_length m); ON (m_bits m)]; skel_obs (skeleton t)], v)
  | OpSer k orc =>
      let '(r, v', lg) := run (fun _ => LInner) (fun _ => true) (oracle_of orc) OSer t v k in
      (OL [res_obs r; match r with ROk _ => read_bytes lg | _ => OL [] end; log_obs lg; delta_obs v v'], v')
  | OpDe k tbl orc =>
      let '(r, v', lg) := run (wr_tbl tbl) (fun _ => true) (oracle_of orc) ODe t v k in
      (OL [res_obs r; OB (match r with ROk _ => negb (fin_of tbl lg) | _ => true end); log_obs lg; delta_obs v v'], v')
  | OpRt k orc =>
      (* C05: read, then write back what was read; the codec decodes what it encoded (Ser_proofs) *)
      let '(r, v1, lg) := run (fun _ => LInner) (fun _ => true) (oracle_of orc) OSer t v k in
      match r with
      | ROk _ =>
          let '(r2, v', lg2) := run (fun x => LOk x) (fun _ => true) (oracle_of orc) ODe t v k in
          (OL [OZ 1; match r2 with ROk _ => OL [OZ 0] | RErr _ => match res_obs r2 with OL (_ :: e) => OL (OZ 1 :: e) | o => o end end;
               OB true; log_obs lg; log_obs lg2; delta_obs v v'], v')
      | RErr _ => (OL [OZ 0; match res_obs r with OL (_ :: e) => OL (OZ 1 :: e) | o => o end; log_obs lg], v1)
      end
  | OpRef k orc =>
      let '(r, v', lg) := run (fun _ => LInner) (fun _ => true) (oracle_of orc) ORef t v k in
      (OL [match r with ROk _ => OL [OZ 0; read_value lg] | _ => res_obs r end; log_obs lg; delta_obs v v'], v')
  | OpMut k tbl orc =>
      let '(r, v', lg) := run (wr_tbl tbl) (fun _ => true) (oracle_of orc) OMut t v k in
      (OL [match r with
           | ROk _ => OL [OZ 0; OZ 1]
           | RErr (Inner _) => OL [OZ 0; OZ 0]
           | _ => res_obs r end; log_obs lg; delta_obs v v'], v')
  | OpIter tg D root0 root pre_steps exact maxn rs =>
      let st0 := iter_skip pre_steps t tg (iter_default D) in
      let st1 := match root0 with
                 | None => inl st0
                 | Some k => match iter_root t D k with (_, Some s) => inl s | (n, None) => inr n end
                 end in
      let st2 := match st1, root with
                 | inl s, None => inl s
                 | inl s, Some k => match iter_root t D k with (_, Some s') => inl s' | (n, None) => inr n end
                 | inr n, _ => inr n
                 end in
      match st2 with
      | inr n => (tnode_obs n, v)
      | inl s =>
          let '(os, s') := iter_drive rs (S maxn) t tg s in
          let extra := [item_obs t tg rs (fst (iter_next t tg s')); item_obs t tg rs (fst (iter_next t tg (snd (iter_next t tg s'))))] in
          let cnt := Z.of_N (m_count (metadata t)) in
          let all := os ++ extra in
          let len_at := fun i => OZ (cnt - Z.of_nat (count_items (firstn i all))) in
          let ex := if exact
                    then map len_at (seq 0 (length os)) ++ [len_at (S (length os)); len_at (S (S (length os)))]
                    else [] in
          (OL [OZ 0; OL (os ++ extra); OL ex], v)
      end
  | OpSnap => (value_obs v, v)
  end.

Fixpoint run_ops (t : node) (v : value L) (ops : list opd) : list obs :=
  match ops with
  | [] => []
  | o :: r => let '(ob, v') := run_op t v o in ob :: run_ops t v' r
  end.
Definition run_case (t : node) (v : value L) (ops : list opd) : obs := OL (run_ops t v ops).
