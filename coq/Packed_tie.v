(* Observation builders for the C08 correspondence: the same observations the Rust harness
   (harness/rs-core/src/packed.rs) prints, computed from the model. *)
From Coq Require Import ZArith List.
From MC Require Import Obs Packed.
Import ListNotations.
Local Open Scope Z_scope.

Definition pstate (w : Z) : obs := OL [OZ w; OZ (len w); OZ (capacity w); OB (is_empty w)].

Fixpoint pseq_push (w : Z) (fs : list field) : list obs * Z * list Z :=
  match fs with
  | [] => ([], w, [])
  | f :: r =>
      match push_lsb w (fst f) (snd f) with
      | Some (w', c) =>
          let '(os, wf, ws) := pseq_push w' r in
          (OL [OSome (OZ c); pstate w'] :: os, wf, fst f :: ws)
      | None => ([OL [ONone; pstate w]], w, [])
      end
  end.

Fixpoint pseq_pop (w : Z) (ws : list Z) : list obs :=
  match ws with
  | [] => []
  | b :: r =>
      match pop_msb w b with
      | Some (v, w') => OL [OSome (OZ v); pstate w'] :: pseq_pop w' r
      | None => OL [ONone; pstate w] :: pseq_pop w r
      end
  end.

Definition pseq (w0 : Z) (fs : list field) : obs :=
  let '(os, w, ws) := pseq_push w0 fs in
  OL [OL os; OZ (into_lsb w); OL (pseq_pop w ws)].

Definition plsb (v : Z) : obs :=
  OL [OZ (into_lsb v); OZ (from_lsb v); OZ (from_lsb (into_lsb v)); OZ (into_lsb (from_lsb v));
      Oopt OZ (new_from_lsb v); pstate v].

Definition pbits (n : Z) : obs := OZ (bits_for n).

Definition ppop (w bits : Z) : obs :=
  match pop_msb w bits with
  | Some (v, w') => OL [OSome (OZ v); pstate w']
  | None => OL [ONone; pstate w]
  end.
Definition ppush (w bits v : Z) : obs :=
  match push_lsb w bits v with
  | Some (w', c) => OL [OSome (OZ c); pstate w']
  | None => OL [ONone; pstate w]
  end.
