(* The NodeIter odometer on shapes: the loop of iter.rs:158-192 (with an iteration root), the depth-first
   successor as its specification, and the proof that repeated next() yields the depth-first enumeration
   with cut-off (C03/C11).  Lifted from the design-phase probe; root-aware. *)
From Coq Require Import List NArith Lia Bool Arith.
Import ListNotations.
Local Open Scope nat_scope.

(* ---------- shapes and lookup (transcode of Consume(indices)) ---------- *)
Inductive shape := Leaf | Het (cs : list shape) | Hom (n : N) (c : shape).

Definition child (sh : shape) (i : N) : option shape :=
  match sh with
  | Leaf => None
  | Het cs => nth_error cs (N.to_nat i)
  | Hom n c => if (i <? n)%N then Some c else None
  end.

Inductive wf : shape -> Prop :=
| wf_leaf : wf Leaf
| wf_het cs : cs <> [] -> Forall wf cs -> wf (Het cs)
| wf_hom n c : (0 < n)%N -> wf c -> wf (Hom n c).

Definition is_leaf sh := match sh with Leaf => true | _ => false end.

Inductive lres := RLeaf (d : nat) | RInt (d : nat) | RNF (d : nat).
Definition shiftres (k : nat) r :=
  match r with RLeaf d => RLeaf (k + d) | RInt d => RInt (k + d) | RNF d => RNF (k + d) end.

Fixpoint look (idx : list N) (sh : shape) : lres :=
  if is_leaf sh then RLeaf 0 else
  match idx with
  | [] => RInt 0
  | i :: rest => match child sh i with None => RNF 1 | Some c => shiftres 1 (look rest c) end
  end.

(* ---------- the iterator loop of iter.rs:158-192 (root = 0) ---------- *)
Fixpoint upd (idx : list N) (k : nat) (f : N -> N) : list N :=
  match idx, k with
  | [], _ => []
  | x :: r, O => f x :: r
  | x :: r, S k' => x :: upd r k' f
  end.

Inductive out := Done | OutOfFuel | Item (idx : list N) (depth : nat) (leaf : bool).

Fixpoint loop (root : nat) (fuel : nat) (sh : shape) (idx : list N) (depth : nat) : out :=
  match fuel with O => OutOfFuel | S f =>
  if depth =? root then Done else
  let idx1 := if depth <=? length idx then upd idx (depth - 1) N.succ else idx in
  match look idx1 sh with
  | RNF d => loop root f sh (upd idx1 (d - 1) (fun _ => 0%N)) (Nat.max (d - 1) root)
  | RLeaf d => Item idx1 d true
  | RInt d => Item idx1 d false
  end end.

(* ---------- specification: depth-first successor ---------- *)
Fixpoint first (D : nat) (sh : shape) : list N :=
  match D with O => [] | S D' =>
  match child sh 0%N with Some c => 0%N :: first D' c | None => [] end end.

Fixpoint succ (D : nat) (sh : shape) (q : list N) {struct q} : option (list N) :=
  match q, D with
  | i :: q', S D' =>
      match child sh i with
      | Some c =>
          match succ D' c q' with
          | Some q'' => Some (i :: q'')
          | None => match child sh (N.succ i) with
                    | Some c' => Some (N.succ i :: first D' c')
                    | None => None
                    end
          end
      | None => None
      end
  | _, _ => None
  end.

(* q is the path of a node yielded at depth limit D: ends at a leaf or at the cut-off *)
Fixpoint maximal (D : nat) (sh : shape) (q : list N) : Prop :=
  match q with
  | [] => is_leaf sh = true \/ D = 0
  | i :: q' => match D with O => False | S D' =>
               match child sh i with Some c => maximal D' c q' | None => False end end
  end.

Fixpoint descend (sh : shape) (p : list N) : option shape :=
  match p with [] => Some sh | i :: p' =>
  match child sh i with Some c => descend c p' | None => None end end.

Definition zeros (n : nat) : list N := repeat 0%N n.
Definition pad (D : nat) (q : list N) := q ++ zeros (D - length q).

(* ---------- lemmas ---------- *)
Lemma child_leaf sh i : is_leaf sh = true -> child sh i = None.
Proof. destruct sh; simpl; congruence. Qed.

Lemma child_some_internal sh i c : child sh i = Some c -> is_leaf sh = false.
Proof. destruct sh; simpl; congruence. Qed.

Lemma wf_child sh i c : wf sh -> child sh i = Some c -> wf c.
Proof.
  intros Hw Hc. destruct Hw as [|cs Hne Hall|n c0 Hn Hc0]; simpl in Hc.
  - discriminate.
  - apply nth_error_In in Hc. rewrite Forall_forall in Hall. auto.
  - destruct (i <? n)%N; congruence.
Qed.

Lemma wf_child0 sh : wf sh -> is_leaf sh = false -> exists c, child sh 0%N = Some c.
Proof.
  intros Hw Hl. destruct Hw as [|cs Hne Hall|n c0 Hn Hc0]; simpl in *.
  - discriminate.
  - destruct cs; [congruence|]. eexists; reflexivity.
  - exists c0. destruct (N.ltb_spec 0 n); [reflexivity|lia].
Qed.

Lemma look_prefix : forall p sh c r, descend sh p = Some c ->
  look (p ++ r) sh = shiftres (length p) (look r c).
Proof.
  induction p as [|i p IH]; intros sh c r Hd.
  - simpl in Hd. injection Hd as ->. simpl. destruct (look r c); reflexivity.
  - cbn [descend] in Hd. destruct (child sh i) as [c1|] eqn:Hc; [|discriminate].
    change ((i :: p) ++ r) with (i :: (p ++ r)). cbn [look].
    rewrite (child_some_internal _ _ _ Hc), Hc.
    rewrite (IH _ _ _ Hd). destruct (look r c); simpl; f_equal; lia.
Qed.

Lemma first_len D sh : length (first D sh) <= D.
Proof. revert sh; induction D as [|D IH]; intros sh; simpl; [lia|].
  destruct (child sh 0%N); simpl; [specialize (IH s)|]; lia. Qed.

Lemma zeros_S n : zeros (S n) = 0%N :: zeros n.
Proof. reflexivity. Qed.

Lemma zeros_length n : length (zeros n) = n.
Proof. apply repeat_length. Qed.

Lemma pad_first : forall D sh, pad D (first D sh) = zeros D.
Proof.
  induction D as [|D IH]; intros sh; unfold pad in *; simpl; [reflexivity|].
  destruct (child sh 0%N) as [c|]; simpl; [|reflexivity].
  rewrite zeros_S. f_equal. apply IH.
Qed.


Fixpoint firstnode (D : nat) (sh : shape) : shape :=
  match D with O => sh | S D' =>
  match child sh 0%N with Some c => firstnode D' c | None => sh end end.

Definition mk (b : bool) (d : nat) := if b then RLeaf d else RInt d.

Lemma look_zeros : forall D sh, wf sh ->
  look (zeros D) sh = mk (is_leaf (firstnode D sh)) (length (first D sh)).
Proof.
  induction D as [|D IH]; intros sh Hw.
  - simpl. destruct (is_leaf sh); reflexivity.
  - rewrite zeros_S. cbn [look first firstnode]. destruct (is_leaf sh) eqn:Hl.
    + rewrite (child_leaf _ _ Hl). simpl. rewrite Hl. reflexivity.
    + destruct (wf_child0 _ Hw Hl) as [c Hc]. rewrite Hc.
      rewrite (IH c (wf_child _ _ _ Hw Hc)). simpl.
      destruct (is_leaf (firstnode D c)); reflexivity.
Qed.

Lemma descend_first : forall D sh, descend sh (first D sh) = Some (firstnode D sh).
Proof.
  induction D as [|D IH]; intros sh; simpl; [reflexivity|].
  destruct (child sh 0%N) as [c|] eqn:Hc; simpl; [rewrite Hc; apply IH|reflexivity].
Qed.

Definition nodeleaf (sh : shape) (q : list N) : bool :=
  match descend sh q with Some n => is_leaf n | None => false end.

Lemma descend_app : forall p sh c q, descend sh p = Some c -> descend sh (p ++ q) = descend c q.
Proof.
  induction p as [|i p IH]; intros sh c q H; simpl in *; [congruence|].
  destruct (child sh i); [eauto|discriminate].
Qed.

Lemma upd_app_at : forall (p : list N) x r f, upd (p ++ x :: r) (length p) f = p ++ f x :: r.
Proof. induction p as [|y p IH]; intros; simpl; [reflexivity|]. f_equal. apply IH. Qed.

Lemma maximal_len : forall q D sh, maximal D sh q -> length q <= D.
Proof.
  induction q as [|i q IH]; intros D sh H; simpl in *; [lia|].
  destruct D; cbn [maximal] in H; [exfalso; exact H|]. destruct (child sh i); [|exfalso; exact H].
  specialize (IH _ _ H). lia.
Qed.


(* The generalised carry lemma: inside the subtree [c] reached by prefix [p]. *)
Lemma carry : forall q D' c p sh fuel root,
  wf sh -> descend sh p = Some c -> maximal D' c q -> length q < fuel -> root <= length p ->
  loop root fuel sh (p ++ pad D' q) (length p + length q) =
  match succ D' c q with
  | Some q' => Item (p ++ pad D' q') (length p + length q') (nodeleaf c q')
  | None => loop root (fuel - length q) sh (p ++ zeros D') (length p)
  end.
Proof.
  induction q as [|i q IH]; intros D' c p sh fuel root Hw Hd Hm Hf Hroot.
  - (* at the subtree root itself: nothing to do *)
    simpl. unfold pad. simpl. rewrite !Nat.sub_0_r, Nat.add_0_r. reflexivity.
  - destruct D' as [|D1]; cbn [maximal] in Hm; [exfalso; exact Hm|].
    destruct (child c i) as [c1|] eqn:Hc1; [|exfalso; exact Hm].
    assert (Hd1 : descend sh (p ++ [i]) = Some c1).
    { rewrite (descend_app _ _ _ _ Hd). simpl. rewrite Hc1. reflexivity. }
    assert (Hw1 : wf c1).
    { (* wf of c from wf sh along p *)
      assert (Hwc : wf c).
      { clear - Hw Hd. revert sh Hw Hd. induction p as [|j p IHp]; intros sh Hw Hd; simpl in Hd.
        - congruence.
        - destruct (child sh j) eqn:E; [|discriminate]. eapply IHp; [eapply wf_child; eauto|eauto]. }
      eapply wf_child; eauto. }
    specialize (IH D1 c1 (p ++ [i]) sh fuel root Hw Hd1 Hm ltac:(simpl in Hf; lia) ltac:(rewrite app_length; simpl; lia)).
    assert (Hpad : p ++ pad (S D1) (i :: q) = (p ++ [i]) ++ pad D1 q).
    { unfold pad. simpl. rewrite <- app_assoc. reflexivity. }
    rewrite Hpad. replace (length p + length (i :: q)) with (length (p ++ [i]) + length q)
      by (rewrite app_length; simpl; lia).
    rewrite IH. cbn [succ]. rewrite Hc1.
    destruct (succ D1 c1 q) as [q1|] eqn:Hs.
    + (* successor found deeper *)
      unfold pad. simpl. rewrite <- !app_assoc. simpl.
      replace (length (p ++ [i]) + length q1) with (length p + S (length q1))
        by (rewrite app_length; simpl; lia).
      unfold nodeleaf. simpl. rewrite Hc1. reflexivity.
    + (* carry into this level: one more loop iteration *)
      assert (Hlen : length q <= D1) by (eapply maximal_len; eauto).
      destruct (fuel - length q) as [|f] eqn:Hfu; [simpl in Hf; lia|].
      cbn [loop]. rewrite app_length. simpl length.
      replace (length p + 1 =? root) with false by (symmetry; apply Nat.eqb_neq; lia).
      assert (Hidx : (if length p + 1 <=? length ((p ++ [i]) ++ zeros D1)
                      then upd ((p ++ [i]) ++ zeros D1) (length p + 1 - 1) N.succ
                      else (p ++ [i]) ++ zeros D1) = p ++ N.succ i :: zeros D1).
      { rewrite !app_length, zeros_length. simpl length.
        replace (length p + 1 <=? length p + 1 + D1) with true by (symmetry; apply Nat.leb_le; lia).
        replace (length p + 1 - 1) with (length p) by lia.
        rewrite <- app_assoc. simpl. apply upd_app_at. }
      rewrite Hidx. clear Hidx.
      rewrite (look_prefix p sh c _ Hd). cbn [look].
      assert (Hil : is_leaf c = false) by (eapply child_some_internal; eauto). rewrite Hil.
      destruct (child c (N.succ i)) as [c'|] eqn:Hc'.
      * assert (Hw' : wf c').
        { assert (Hwc : wf c).
          { clear - Hw Hd. revert sh Hw Hd. induction p as [|j p IHp]; intros sh Hw Hd; simpl in Hd.
            - congruence.
            - destruct (child sh j) eqn:E; [|discriminate]. eapply IHp; [eapply wf_child; eauto|eauto]. }
          eapply wf_child; eauto. }
        fold (zeros D1). rewrite (look_zeros D1 c' Hw').
        assert (Hp : pad (S D1) (N.succ i :: first D1 c') = N.succ i :: zeros D1).
        { unfold pad. simpl. f_equal. apply (pad_first D1 c'). }
        rewrite Hp. unfold nodeleaf. cbn [descend]. rewrite Hc', descend_first.
        destruct (is_leaf (firstnode D1 c')); simpl; f_equal; lia.
      * simpl. replace (length p + 1 - 1) with (length p) by lia.
        rewrite (Nat.max_l (length p) root) by lia.
        rewrite upd_app_at. simpl length.
        replace (fuel - S (length q)) with f by lia. reflexivity.
Qed.

(* ---------- corollaries at the tree root ---------- *)
Theorem next_is_succ D sh q fuel :
  wf sh -> maximal D sh q -> length q < fuel ->
  loop 0 fuel sh (pad D q) (length q) =
  match succ D sh q with
  | Some q' => Item (pad D q') (length q') (nodeleaf sh q')
  | None => Done
  end.
Proof.
  intros Hw Hm Hf.
  pose proof (carry q D sh [] sh fuel 0 Hw eq_refl Hm Hf ltac:(simpl; lia)) as H. simpl in H. rewrite H.
  destruct (succ D sh q); [reflexivity|].
  destruct (fuel - length q) eqn:E; [lia|]. reflexivity.
Qed.

Theorem first_item D sh fuel :
  wf sh -> 0 < fuel ->
  loop 0 fuel sh (zeros D) (D + 1) =
  Item (zeros D) (length (first D sh)) (is_leaf (firstnode D sh)).
Proof.
  intros Hw Hf. destruct fuel; [lia|]. cbn [loop].
  replace (D + 1 =? 0) with false by (symmetry; apply Nat.eqb_neq; lia).
  rewrite zeros_length.
  replace (D + 1 <=? D) with false by (symmetry; apply Nat.leb_gt; lia).
  rewrite (look_zeros D sh Hw). destruct (is_leaf (firstnode D sh)); reflexivity.
Qed.

Theorem fused root fuel sh idx : 0 < fuel -> loop root fuel sh idx root = Done.
Proof. intros. destruct fuel; [lia|]. cbn [loop]. rewrite Nat.eqb_refl. reflexivity. Qed.


(* sanity: the struct of tests/iter.rs: b:[L;2], c:{inner}, d:[{inner};1], a *)
Definition S4 := Het [Hom 2 Leaf; Het [Leaf]; Hom 1 (Het [Leaf]); Leaf].
Fixpoint run (n : nat) (sh : shape) (idx : list N) (depth : nat) : list (list N * nat) :=
  match n with O => [] | S n' =>
  match loop 0 10 sh idx depth with
  | Item idx' d _ => (idx', d) :: run n' sh idx' d
  | _ => []
  end end.


(* ====================================================================== *)
(* enum = DFS enumeration with cut-off; it is the succ-chain from [first]  *)
(* ====================================================================== *)
Definition nchildren (sh : shape) : nat :=
  match sh with Leaf => 0 | Het cs => length cs | Hom n _ => N.to_nat n end.

Lemma child_lt sh k : k < nchildren sh -> exists c, child sh (N.of_nat k) = Some c.
Proof.
  destruct sh as [|cs|n c]; simpl; intros H; [lia| |].
  - rewrite Nat2N.id. destruct (nth_error cs k) eqn:E; [eauto|].
    apply nth_error_None in E. lia.
  - exists c. destruct (N.ltb_spec (N.of_nat k) n); [reflexivity|lia].
Qed.

Lemma child_ge sh k : nchildren sh <= k -> child sh (N.of_nat k) = None.
Proof.
  destruct sh as [|cs|n c]; simpl; intros H; [reflexivity| |].
  - rewrite Nat2N.id. apply nth_error_None. lia.
  - destruct (N.ltb_spec (N.of_nat k) n); [lia|reflexivity].
Qed.

Definition block (enumD : shape -> list (list N)) (sh : shape) (k : nat) : list (list N) :=
  match child sh (N.of_nat k) with
  | Some c => map (cons (N.of_nat k)) (enumD c)
  | None => []
  end.

Fixpoint enum (D : nat) (sh : shape) : list (list N) :=
  match D with
  | O => [[]]
  | S D' => if is_leaf sh then [[]]
            else flat_map (block (enum D') sh) (seq 0 (nchildren sh))
  end.

(* consecutive elements are linked by f, the last one maps to e *)
Fixpoint chain_to {A} (f : A -> option A) (l : list A) (e : option A) : Prop :=
  match l with
  | [] => False
  | a :: t => match t with
              | [] => f a = e
              | b :: _ => f a = Some b /\ chain_to f t e
              end
  end.

Lemma chain_to_app {A} (f : A -> option A) l1 : forall l2 b e,
  chain_to f l1 (Some b) -> hd_error l2 = Some b -> chain_to f l2 e -> chain_to f (l1 ++ l2) e.
Proof.
  induction l1 as [|a t IH]; intros l2 b e H1 Hh H2; [destruct H1|].
  destruct t as [|a' t'].
  - simpl in H1. destruct l2 as [|x l2']; [discriminate|]. simpl in Hh. injection Hh as ->.
    simpl. split; assumption.
  - destruct H1 as [Ha Ht]. change ((a :: a' :: t') ++ l2) with (a :: (a' :: t') ++ l2).
    simpl. split; [exact Ha|]. apply (IH l2 b e Ht Hh H2).
Qed.

Lemma chain_to_map {A B} (f : A -> option A) (g : B -> option B) (h : A -> B) l : forall e e',
  (forall a b, f a = Some b -> g (h a) = Some (h b)) ->
  (forall a, f a = e -> In a l -> g (h a) = e') ->
  chain_to f l e -> chain_to g (map h l) e'.
Proof.
  induction l as [|a t IH]; intros e e' Hs He H; [destruct H|].
  destruct t as [|b t'].
  - simpl in *. apply He; [assumption|left; reflexivity].
  - destruct H as [Ha Ht]. simpl. split; [apply Hs; assumption|].
    apply (IH e e' Hs); [|exact Ht]. intros x Hx Hin. apply He; [assumption|right; assumption].
Qed.

Lemma enum_nonempty D sh : enum D sh <> [] -> True. Proof. trivial. Qed.

Lemma succ_cons_some D sh i c q q' :
  child sh i = Some c -> succ D c q = Some q' -> succ (S D) sh (i :: q) = Some (i :: q').
Proof. intros Hc Hs. simpl. rewrite Hc, Hs. reflexivity. Qed.

Lemma succ_cons_none D sh i c q :
  child sh i = Some c -> succ D c q = None ->
  succ (S D) sh (i :: q) =
  match child sh (N.succ i) with Some c' => Some (N.succ i :: first D c') | None => None end.
Proof. intros Hc Hs. simpl. rewrite Hc, Hs. reflexivity. Qed.

Theorem enum_chain : forall D sh, wf sh ->
  hd_error (enum D sh) = Some (first D sh) /\ chain_to (succ D sh) (enum D sh) None.
Proof.
  induction D as [|D IH]; intros sh Hw.
  - simpl. split; reflexivity.
  - cbn [enum first]. destruct (is_leaf sh) eqn:Hl.
    + rewrite (child_leaf _ _ Hl). simpl. split; reflexivity.
    + destruct (wf_child0 _ Hw Hl) as [c0 Hc0]. rewrite Hc0.
      (* number of children is positive *)
      assert (Hn : 0 < nchildren sh).
      { destruct (Nat.eq_dec (nchildren sh) 0) as [E|]; [|lia].
        pose proof (child_ge sh 0 ltac:(lia)) as H0. simpl in H0. congruence. }
      (* generalised statement over the suffix of blocks starting at k *)
      assert (G : forall m k, k + m = nchildren sh -> 0 < m ->
        exists ck, child sh (N.of_nat k) = Some ck /\
        hd_error (flat_map (block (enum D) sh) (seq k m)) = Some (N.of_nat k :: first D ck) /\
        chain_to (succ (S D) sh) (flat_map (block (enum D) sh) (seq k m)) None).
      { induction m as [|m IHm]; intros k Hk Hm; [lia|].
        destruct (child_lt sh k ltac:(lia)) as [ck Hck]. exists ck. split; [exact Hck|].
        destruct (IH ck (wf_child _ _ _ Hw Hck)) as [Hhd Hch].
        cbn [seq flat_map].
        assert (Hb : block (enum D) sh k = map (cons (N.of_nat k)) (enum D ck))
          by (unfold block; rewrite Hck; reflexivity).
        rewrite !Hb.
        assert (Hne : exists a t, enum D ck = a :: t).
        { destruct (enum D ck) as [|a t]; [discriminate|eauto]. }
        destruct Hne as [a [t Hat]].
        split.
        { rewrite Hat in *. simpl in *. injection Hhd as ->. reflexivity. }
        destruct (Nat.eq_dec m 0) as [->|Hm0].
        - (* last block *)
          simpl. rewrite app_nil_r.
          apply (chain_to_map (succ D ck) (succ (S D) sh) (cons (N.of_nat k)) _ None None).
          + intros x y Hxy. apply (succ_cons_some D sh _ ck); assumption.
          + intros x Hx _. rewrite (succ_cons_none D sh _ ck) by assumption.
            replace (N.succ (N.of_nat k)) with (N.of_nat (S k)) by lia.
            rewrite (child_ge sh (S k)) by lia. reflexivity.
          + exact Hch.
        - destruct (IHm (S k) ltac:(lia) ltac:(lia)) as [ck' [Hck' [Hhd' Hch']]].
          eapply chain_to_app; [|exact Hhd'|exact Hch'].
          apply (chain_to_map (succ D ck) (succ (S D) sh) (cons (N.of_nat k)) _ None _).
          + intros x y Hxy. apply (succ_cons_some D sh _ ck); assumption.
          + intros x Hx _. rewrite (succ_cons_none D sh _ ck) by assumption.
            replace (N.succ (N.of_nat k)) with (N.of_nat (S k)) by lia.
            rewrite Hck'. reflexivity.
          + exact Hch. }
      destruct (G (nchildren sh) 0 ltac:(lia) Hn) as [ck [Hck [Hhd Hch]]].
      simpl in Hck. rewrite Hc0 in Hck. injection Hck as <-.
      split; assumption.
Qed.


(* ====================================================================== *)
(* Gluing: repeatedly calling next from the default state yields enum      *)
(* ====================================================================== *)
Lemma maximal_first : forall D sh, wf sh -> maximal D sh (first D sh).
Proof.
  induction D as [|D IH]; intros sh Hw; simpl; [right; reflexivity|].
  destruct (child sh 0%N) as [c|] eqn:Hc.
  - simpl. rewrite Hc. apply IH. eapply wf_child; eauto.
  - simpl. destruct (is_leaf sh) eqn:Hl; [left; reflexivity|].
    destruct (wf_child0 _ Hw Hl) as [c Hc']. congruence.
Qed.

Lemma succ_maximal : forall q D sh q', wf sh -> maximal D sh q -> succ D sh q = Some q' -> maximal D sh q'.
Proof.
  induction q as [|i q IH]; intros D sh q' Hw Hm Hs; [discriminate|].
  destruct D as [|D]; cbn [maximal] in Hm; [exfalso; exact Hm|].
  cbn [succ] in Hs. destruct (child sh i) as [c|] eqn:Hc; [|discriminate].
  destruct (succ D c q) as [q1|] eqn:Hs1.
  - injection Hs as <-. cbn [maximal]. rewrite Hc. eapply IH; eauto. eapply wf_child; eauto.
  - destruct (child sh (N.succ i)) as [c'|] eqn:Hc'; [|discriminate].
    injection Hs as <-. cbn [maximal]. rewrite Hc'. apply maximal_first. eapply wf_child; eauto.
Qed.

Definition item (D : nat) (sh : shape) (q : list N) := (pad D q, length q, nodeleaf sh q).

Fixpoint collect (n : nat) (sh : shape) (D : nat) (idx : list N) (depth : nat)
  : list (list N * nat * bool) :=
  match n with O => [] | S n' =>
  match loop 0 (D + 2) sh idx depth with
  | Item idx' d lf => (idx', d, lf) :: collect n' sh D idx' d
  | _ => []
  end end.

Lemma collect_chain D sh : wf sh -> forall l q n,
  maximal D sh q -> chain_to (succ D sh) (q :: l) None -> length l < n ->
  collect n sh D (pad D q) (length q) = map (item D sh) l.
Proof.
  intros Hw. induction l as [|b l IH]; intros q n Hm Hc Hn.
  - simpl in Hc. destruct n; [simpl in Hn; lia|]. cbn [collect].
    rewrite (next_is_succ D sh q (D + 2) Hw Hm) by (pose proof (maximal_len _ _ _ Hm); lia).
    rewrite Hc. reflexivity.
  - destruct Hc as [Hs Hc]. destruct n; [simpl in Hn; lia|]. cbn [collect].
    rewrite (next_is_succ D sh q (D + 2) Hw Hm) by (pose proof (maximal_len _ _ _ Hm); lia).
    rewrite Hs. cbn [map]. unfold item at 1. f_equal.
    apply IH; [eapply succ_maximal; eauto|exact Hc|simpl in Hn; lia].
Qed.

Theorem iter_complete D sh : wf sh ->
  collect (S (length (enum D sh))) sh D (zeros D) (D + 1) = map (item D sh) (enum D sh).
Proof.
  intros Hw. destruct (enum_chain D sh Hw) as [Hhd Hch].
  destruct (enum D sh) as [|q0 l] eqn:E; [discriminate|].
  simpl in Hhd. injection Hhd as ->.
  cbn [collect]. rewrite (first_item D sh (D + 2) Hw) by lia.
  cbn [map]. f_equal.
  - unfold item. rewrite pad_first. unfold nodeleaf. rewrite descend_first. reflexivity.
  - rewrite <- (pad_first D sh).
    apply collect_chain; [exact Hw|apply maximal_first; exact Hw|exact Hch|simpl; lia].
Qed.

(* and after the last item the iterator is exhausted for good *)

(* ====================================================================== *)
(* Rooted iteration (C11): below the node reached by the prefix p           *)
(* ====================================================================== *)
Lemma wf_descend : forall p sh c, wf sh -> descend sh p = Some c -> wf c.
Proof.
  induction p as [|j p IHp]; intros sh c Hw Hd; simpl in Hd.
  - congruence.
  - destruct (child sh j) eqn:E; [|discriminate]. eapply IHp; [eapply wf_child; eauto|eauto].
Qed.

Theorem next_is_succ_rooted D' sh p c q fuel :
  wf sh -> descend sh p = Some c -> maximal D' c q -> length q < fuel ->
  loop (length p) fuel sh (p ++ pad D' q) (length p + length q) =
  match succ D' c q with
  | Some q' => Item (p ++ pad D' q') (length p + length q') (nodeleaf c q')
  | None => Done
  end.
Proof.
  intros Hw Hd Hm Hf.
  rewrite (carry q D' c p sh fuel (length p) Hw Hd Hm Hf (Nat.le_refl _)).
  destruct (succ D' c q); [reflexivity|]. apply fused. lia.
Qed.

Theorem first_item_rooted D' sh p c fuel :
  wf sh -> descend sh p = Some c -> 0 < fuel ->
  loop (length p) fuel sh (p ++ zeros D') (length p + D' + 1) =
  Item (p ++ zeros D') (length p + length (first D' c)) (is_leaf (firstnode D' c)).
Proof.
  intros Hw Hd Hf. destruct fuel; [lia|]. cbn [loop].
  replace (length p + D' + 1 =? length p) with false by (symmetry; apply Nat.eqb_neq; lia).
  rewrite app_length, zeros_length.
  replace (length p + D' + 1 <=? length p + D') with false by (symmetry; apply Nat.leb_gt; lia).
  rewrite (look_prefix p sh c _ Hd). rewrite (look_zeros D' c (wf_descend _ _ _ Hw Hd)).
  destruct (is_leaf (firstnode D' c)); reflexivity.
Qed.

Definition item_rooted (D' : nat) (p : list N) (c : shape) (q : list N) :=
  (p ++ pad D' q, length p + length q, nodeleaf c q).

Fixpoint collect_rooted (root n : nat) (sh : shape) (fuel : nat) (idx : list N) (depth : nat)
  : list (list N * nat * bool) :=
  match n with O => [] | S n' =>
  match loop root fuel sh idx depth with
  | Item idx' d lf => (idx', d, lf) :: collect_rooted root n' sh fuel idx' d
  | _ => []
  end end.

Lemma collect_chain_rooted D' sh p c fuel : wf sh -> descend sh p = Some c -> D' + 1 < fuel -> forall l q n,
  maximal D' c q -> chain_to (succ D' c) (q :: l) None -> length l < n ->
  collect_rooted (length p) n sh fuel (p ++ pad D' q) (length p + length q) = map (item_rooted D' p c) l.
Proof.
  intros Hw Hd Hfu. induction l as [|b l IH]; intros q n Hm Hc Hn.
  - simpl in Hc. destruct n; [simpl in Hn; lia|]. cbn [collect_rooted].
    rewrite (next_is_succ_rooted D' sh p c q fuel Hw Hd Hm) by (pose proof (maximal_len _ _ _ Hm); lia).
    rewrite Hc. reflexivity.
  - destruct Hc as [Hs Hc]. destruct n; [simpl in Hn; lia|]. cbn [collect_rooted].
    rewrite (next_is_succ_rooted D' sh p c q fuel Hw Hd Hm) by (pose proof (maximal_len _ _ _ Hm); lia).
    rewrite Hs. cbn [map]. unfold item_rooted at 1. f_equal.
    apply IH; [eapply succ_maximal; eauto; eapply wf_descend; eauto|exact Hc|simpl in Hn; lia].
Qed.

(* Iteration rooted at the node with path p, depth limit |p| + D': exactly the depth-first enumeration
   (with cut-off) of the subtree below that node, each key prefixed by p, in order, then the end. *)
Theorem iter_rooted_complete D' sh p c fuel : wf sh -> descend sh p = Some c -> D' + 1 < fuel ->
  collect_rooted (length p) (S (length (enum D' c))) sh fuel (p ++ zeros D') (length p + D' + 1)
  = map (item_rooted D' p c) (enum D' c).
Proof.
  intros Hw Hd Hfu. pose proof (wf_descend _ _ _ Hw Hd) as Hwc.
  destruct (enum_chain D' c Hwc) as [Hhd Hch].
  destruct (enum D' c) as [|q0 l] eqn:E; [discriminate|].
  simpl in Hhd. injection Hhd as ->.
  cbn [collect_rooted]. rewrite (first_item_rooted D' sh p c fuel Hw Hd) by lia.
  cbn [map]. f_equal.
  - unfold item_rooted. rewrite pad_first. unfold nodeleaf. rewrite descend_first. reflexivity.
  - rewrite <- (pad_first D' c).
    apply collect_chain_rooted; [exact Hw|exact Hd|exact Hfu|apply maximal_first; exact Hwc|exact Hch|simpl; lia].
Qed.

(* after the last item: Done, and Done forever (FusedIterator) *)
Theorem iter_rooted_end D' sh p c fuel q : wf sh -> descend sh p = Some c -> D' + 1 < fuel ->
  maximal D' c q -> succ D' c q = None ->
  loop (length p) fuel sh (p ++ pad D' q) (length p + length q) = Done.
Proof.
  intros Hw Hd Hfu Hm Hs.
  rewrite (next_is_succ_rooted D' sh p c q fuel Hw Hd Hm) by (pose proof (maximal_len _ _ _ Hm); lia).
  rewrite Hs. reflexivity.
Qed.
