(* Observation builder of the C05 correspondence (harness/rs-codec). *)
From Coq Require Import List NArith ZArith Bool.
From MC Require Import Obs Str Codec Ser.
Import ListNotations.

Definition Obs_bytes (b : list N) : obs := OL (map ON b).
Definition sweep (len : nat) (f : N -> bool) : obs := OL (map (fun L => OB (f (N.of_nat L))) (seq 0 (len + 2))).

(* value [v] of type [t] sits in the leaf *)
Definition c05_case (t : lty) (v : lval) : obs :=
  let jb := jenc_t t v in
  let pb := penc t v in
  OL [ OB (has_ty t v);
       Obs_bytes jb;
       sweep (length jb) (fun cap => match json_get t cap v with Some _ => true | None => false end);
       (match json_set t jb with
        | SetOk v' n => OL [OZ 1; ON n; OB (obs_eqb (Obs_bytes (jenc_t t v')) (Obs_bytes jb))]
        | SetTrailing _ => OL [OZ 2] | SetErr => OL [OZ 0] end);
       (match json_set t (jb ++ [32; 120]%N) with SetOk _ _ => OZ 1 | SetTrailing _ => OZ 2 | SetErr => OZ 0 end);
       Obs_bytes pb;
       sweep (length pb) (fun cap => match postcard_get t cap v with Some _ => true | None => false end);
       (match postcard_set t (pb ++ [9; 8; 7]%N) with
        | Some (v', rest) => OL [OZ 1; Obs_bytes rest; OB (obs_eqb (Obs_bytes (penc t v')) (Obs_bytes pb))]
        | None => OL [OZ 0] end);
       (match pb with [] => OZ (-1) | _ => match postcard_set t (removelast pb) with Some _ => OZ 1 | None => OZ 0 end end) ].
