(* C01, "the one leaf that the key designates": the value path at which a by-key operation touches the
   tree is a function [vpath] of the type and the key alone (not of the run-time state, the callbacks
   or the payload); a write replaces exactly the leaf there, a read reads exactly the leaf there, and
   hence a read through any key with the same [vpath] returns what the write stored. *)
From Coq Require Import List NArith ZArith Lia Bool Arith.
From MC Require Import Str Packed Tree Spec Tree_proofs.
Import ListNotations.

(* the value path designated by key [k] in type [t]: products consume one index, sums (enums), gates
   (Option, smart pointers, ...) are transparent, as in [Spec.vset] *)
Fixpoint vpath (t : node) (k : keys) {struct t} : option (list nat) :=
  match t with
  | NLeaf _ => Some []
  | NGate _ t' => vpath t' k
  | NFlat sum _ t' => option_map (fun p => if sum then p else 0 :: p) (vpath t' k)
  | NHet h lk cs =>
      match knext k lk with
      | (KOk i, k') =>
          (fix pick (cs : list (attrs * node)) (j : nat) {struct cs} : option (list nat) :=
             match cs with
             | [] => None
             | (_, t') :: r => match j with
                               | O => option_map (fun p => if is_sum h then p else N.to_nat i :: p) (vpath t' k')
                               | S j' => pick r j' end
             end) cs (N.to_nat i)
      | _ => None
      end
  | NHom n t' =>
      match knext k (Homog n) with
      | (KOk i, k') => option_map (fun p => N.to_nat i :: p) (vpath t' k')
      | _ => None
      end
  end.

(* the leaf stored at a value path *)
Fixpoint vget {L} (v : value L) (path : list nat) {struct v} : option L :=
  match v with
  | VLeaf x => Some x
  | VGate _ c => vget c path
  | VSum _ c => vget c path
  | VProd vs =>
      match path with
      | [] => None
      | i :: rest =>
          (fix go (vs : list (value L)) (j : nat) {struct vs} : option L :=
             match vs with
             | [] => None
             | c :: r => match j with O => vget c rest | S j' => go r j' end
             end) vs i
      end
  end.

Section Designated.
Variable L : Type.
Variable wr : L -> leafres L.
Variable rd : L -> bool.
Variable orc : oracle.
Notation out := (out L).
Notation run := (run wr rd orc).
Notation arm := (arm orc).

Definition is_read (e : event L) : bool := match e with EvRead _ => true | _ => false end.
Definition touch (e : event L) : bool := is_write L e || is_read e.

(* [P] = the designated path.  Either one leaf event happened, at P, on the leaf stored there, and the
   new tree is the old one with (for a write) that leaf replaced; or nothing was touched. *)
Definition framed (P : option (list nat)) (v : value L) (x : out) : Prop :=
  let '(r, v', lg) := x in
  (exists path old y, P = Some path /\ vget v path = Some old /\ wr old = LOk y /\
      v' = vset v path (VLeaf y) /\ filter touch lg = [EvWrite y]) \/
  (exists path old, P = Some path /\ vget v path = Some old /\ v' = v /\ filter touch lg = [EvRead old]) \/
  (v' = v /\ filter touch lg = []).

Lemma framed_incr P v x : framed P v x -> framed P v (incr_out x).
Proof. destruct x as [[r v'] lg]. simpl. auto. Qed.

Lemma vget_prod (vs : list (value L)) i c rest : nth_error vs i = Some c ->
  vget (VProd vs) (i :: rest) = vget c rest.
Proof.
  cbn [vget]. revert i. induction vs as [|a vs IH]; intros [|i] E; simpl in E; try discriminate.
  - injection E as ->. reflexivity.
  - apply IH. exact E.
Qed.

Lemma framed_with_child P (sum : bool) v (i : nat) (f : value L -> out) :
  (forall c, framed P c (f c)) ->
  framed (option_map (fun p => if sum then p else i :: p) P) v (with_child sum v i f).
Proof.
  intros H. unfold with_child.
  destruct sum, v as [x|s c|vs|act c]; simpl; try (right; right; split; reflexivity).
  - destruct act as [j|]; simpl; [|right; right; split; reflexivity].
    destruct (Nat.eqb i j); simpl; [|right; right; split; reflexivity].
    specialize (H c). destruct (f c) as [[r c'] lg]. simpl in *.
    destruct H as [(path & old & y & -> & Hg & Hw & -> & Hl)|[(path & old & -> & Hg & -> & Hl)|[-> Hl]]].
    + left. exists path, old, y. repeat split; assumption.
    + right; left. exists path, old. repeat split; assumption.
    + right; right. split; [reflexivity|assumption].
  - destruct (nth_error vs i) as [c|] eqn:E; simpl; [|right; right; split; reflexivity].
    specialize (H c). destruct (f c) as [[r c'] lg]. simpl in *.
    destruct H as [(path & old & y & -> & Hg & Hw & -> & Hl)|[(path & old & -> & Hg & -> & Hl)|[-> Hl]]].
    + left. exists (i :: path), old, y. repeat split; try assumption.
      * rewrite <- Hg. exact (vget_prod vs i c path E).
      * symmetry. apply vset_prod. exact E.
    + right; left. exists (i :: path), old. repeat split; try assumption.
      * rewrite <- Hg. exact (vget_prod vs i c path E).
      * rewrite set_nth_same by exact E. reflexivity.
    + right; right. rewrite set_nth_same by exact E. split; [reflexivity|assumption].
Qed.

Lemma framed_ext P v r r' v' lg lg' :
  filter touch lg' = filter touch lg -> framed P v (r, v', lg) -> framed P v (r', v', lg').
Proof. unfold framed. intros ->. auto. Qed.

Lemma filter_touch_ev o (g : option N) :
  filter touch (match g with Some id => [if writes o then @EvGetMut L id else EvGet id] | None => [] end) = [].
Proof. destruct g; [|reflexivity]. destruct (writes o); reflexivity. Qed.

Lemma framed_arm P o a c (f : value L -> out) :
  framed P c (f c) -> framed P c (arm o a c f).
Proof.
  intros H. unfold Tree.arm. destruct (a_deny a o); [right; right; split; reflexivity|].
  set (g := if writes o then a_getmut a else a_get a).
  set (ev := match g with Some id => [if writes o then @EvGetMut L id else EvGet id] | None => [] end).
  assert (Hev : filter touch ev = []) by apply filter_touch_ev.
  destruct (match g with Some id => match orc id with CbFail m => Some m | _ => None end | None => None end).
  - right; right. split; [reflexivity|exact Hev].
  - destruct (f c) as [[r c'] lg].
    assert (G : forall r' tail, filter touch tail = [] -> framed P c (r', c', ev ++ lg ++ tail)).
    { intros r' tail Ht. eapply framed_ext; [|exact H]. rewrite !filter_app, Hev, Ht, app_nil_r. reflexivity. }
    assert (G0 : forall r', framed P c (r', c', ev ++ lg)).
    { intros r'. specialize (G r' [] eq_refl). rewrite app_nil_r in G. exact G. }
    destruct o, r as [d|e]; try apply G0.
    destruct (a_val a) as [vid|]; [|apply G0].
    destruct (orc vid) as [[d'|]|m]; apply G; reflexivity.
Qed.

Lemma framed_leaf lk o v : framed (Some []) v (leaf_op wr rd lk o v).
Proof.
  unfold leaf_op. destruct lk, v as [x|s c|vs|act c]; try (right; right; split; reflexivity).
  all: destruct o; try (right; right; split; reflexivity).
  all: try (destruct (rd x); [|right; right; split; reflexivity]).
  all: try (right; left; exists [], x; repeat split; reflexivity).
  all: unfold leaf_write; destruct (wr x) as [y| |] eqn:E; try (right; right; split; reflexivity).
  all: left; exists [], x, y; repeat split; try assumption; reflexivity.
Qed.

Lemma framed_untouched P v r : framed P v (r, v, []).
Proof. right; right. split; reflexivity. Qed.

Ltac untouched := right; right; split; reflexivity.

Theorem run_designated o : forall t v k, framed (vpath t k) v (run o t v k).
Proof.
  induction t as [lk|g t IH|s a t IH|h lk cs IH|n t IH] using node_ind'; intros v k.
  - cbn [Tree.run vpath]. destruct (kfin k); simpl; [apply framed_leaf|untouched].
  - cbn [Tree.run vpath]. destruct v as [x|s c|vs|act c]; try untouched.
    destruct (gate_err g o s); [untouched|].
    specialize (IH c k). destruct (run o t c k) as [[r c'] lg]. simpl in *.
    destruct IH as [(path & old & y & HP & Hg & Hw & -> & Hl)|[(path & old & HP & Hg & -> & Hl)|[-> Hl]]].
    + left. exists path, old, y. repeat split; assumption.
    + right; left. exists path, old. repeat split; assumption.
    + right; right. split; [reflexivity|assumption].
  - cbn [Tree.run vpath]. apply framed_with_child. intros c. apply framed_arm. apply IH.
  - cbn [Tree.run vpath]. destruct (knext k lk) as [[i| |] k']; try untouched.
    apply framed_incr.
    assert (HP : forall i0 j, exists Q,
      (fix pick (cs0 : list (attrs * node)) (j : nat) {struct cs0} : option (list nat) :=
                 match cs0 with
                 | [] => None
                 | (_, t') :: r => match j with
                                   | O => option_map (fun p => if is_sum h then p else i0 :: p) (vpath t' k')
                                   | S j' => pick r j' end
                 end) cs j = option_map (fun p => if is_sum h then p else i0 :: p) Q /\
      forall c, framed Q c ((fix pick (cs0 : list (attrs * node)) (j : nat) {struct cs0} : out :=
               match cs0 with
               | [] => (RErr Unreachable, c, [])
               | (a, t') :: r => match j with
                                 | O => arm o a c (fun c => run o t' c k')
                                 | S j' => pick r j' end
               end) cs j)).
    { intros i0. induction IH as [|[a t'] r Ht _ IHr]; intros j.
      - exists None. split; [reflexivity|]. intros c. untouched.
      - destruct j as [|j]; [|apply IHr].
        exists (vpath t' k'). split; [reflexivity|]. intros c. apply framed_arm. apply Ht. }
    destruct (HP (N.to_nat i) (N.to_nat i)) as (Q & HQ1 & HQ). rewrite HQ1.
    apply framed_with_child. exact HQ.
  - cbn [Tree.run vpath]. destruct (knext k (Homog n)) as [[i| |] k']; try untouched.
    apply framed_incr. apply (framed_with_child (vpath t k') false). intros c. apply IH.
Qed.

(* ---- reading back through an equivalent key ---- *)
Lemma vget_vset : forall (v : value L) path old x, vget v path = Some old -> vget (vset v path (VLeaf x)) path = Some x.
Proof.
  fix IH 1. intros v path old x H. destruct v as [y|s c|vs|act c]; cbn [vset vget] in *.
  - reflexivity.
  - exact (IH c path old x H).
  - destruct path as [|i rest]; [discriminate|].
    revert i H. induction vs as [|c vs IHvs]; intros i H; [destruct i; discriminate|].
    destruct i as [|i]; [exact (IH c rest old x H)|apply IHvs; exact H].
  - exact (IH c path old x H).
Qed.

(* a write through k1 stores y; any later successful read through a key k2 that designates the same
   leaf (same value path) reads y *)
Theorem write_then_read o1 o2 t v k1 k2 r1 v1 lg1 r2 v2 lg2 y x :
  run o1 t v k1 = (r1, v1, lg1) -> In (EvWrite y) lg1 ->
  vpath t k2 = vpath t k1 ->
  run o2 t v1 k2 = (r2, v2, lg2) -> In (EvRead x) lg2 -> x = y.
Proof.
  intros E1 Hw Hk E2 Hr.
  pose proof (run_designated o1 t v k1) as F1. rewrite E1 in F1.
  pose proof (run_designated o2 t v1 k2) as F2. rewrite E2 in F2. rewrite Hk in F2.
  assert (In1 : In (EvWrite y) (filter touch lg1)) by (apply filter_In; split; [exact Hw|reflexivity]).
  assert (In2 : In (EvRead x) (filter touch lg2)) by (apply filter_In; split; [exact Hr|reflexivity]).
  destruct F1 as [(p & old & y' & HP & Hg & Hwr & Hv1 & Hl)|[(p & old & _ & _ & _ & Hl)|[_ Hl]]].
  2: { rewrite Hl in In1. destruct In1 as [In1|[]]. discriminate. }
  2: { rewrite Hl in In1. destruct In1. }
  rewrite Hl in In1. destruct In1 as [In1|[]]. injection In1 as ->. subst v1.
  destruct F2 as [(p2 & old2 & y2 & _ & _ & _ & _ & Hl2)|[(p2 & old2 & HP2 & Hg2 & _ & Hl2)|[_ Hl2]]].
  1: { rewrite Hl2 in In2. destruct In2 as [In2|[]]. discriminate. }
  2: { rewrite Hl2 in In2. destruct In2. }
  rewrite Hl2 in In2. destruct In2 as [In2|[]]. injection In2 as ->.
  rewrite HP in HP2. injection HP2 as <-.
  rewrite (vget_vset v p old y Hg) in Hg2. injection Hg2 as ->. reflexivity.
Qed.
End Designated.
