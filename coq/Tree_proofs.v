(* Refinement between the code-shaped bottom-up interpreter (Tree.run) and the documented
   top-down walk (Spec.walk); write frame and read purity (C01/C02 core). *)
From Coq Require Import List NArith ZArith Lia Bool Arith PeanoNat.
From MC Require Import Str Packed Tree Spec.
Import ListNotations.

Section NodeInd.
Variable P : node -> Prop.
Hypothesis HLeaf : forall k, P (NLeaf k).
Hypothesis HGate : forall g t, P t -> P (NGate g t).
Hypothesis HFlat : forall s a t, P t -> P (NFlat s a t).
Hypothesis HHet : forall h lk cs, Forall (fun ac => P (snd ac)) cs -> P (NHet h lk cs).
Hypothesis HHom : forall n t, P t -> P (NHom n t).
Fixpoint node_ind' (t : node) : P t :=
  match t with
  | NLeaf k => HLeaf k
  | NGate g t' => HGate g t' (node_ind' t')
  | NFlat s a t' => HFlat s a t' (node_ind' t')
  | NHet h lk cs =>
      HHet h lk cs ((fix go (cs : list (attrs * node)) : Forall (fun ac => P (snd ac)) cs :=
                       match cs with
                       | [] => Forall_nil _
                       | ac :: r => Forall_cons ac (node_ind' (snd ac)) (go r)
                       end) cs)
  | NHom n t' => HHom n t' (node_ind' t')
  end.
End NodeInd.

Lemma shift_shift a b e : shift a (shift b e) = shift (a + b) e.
Proof. destruct e; simpl; try reflexivity; f_equal; lia. Qed.
Lemma shift_0 e : shift 0 e = e.
Proof. destruct e; reflexivity. Qed.

Section Refine.
Variable L : Type.
Variable wr : L -> leafres L.
Variable rd : L -> bool.
Variable orc : oracle.
Notation out := (out L).
Notation run := (run wr rd orc).
Notation walk := (walk L wr rd orc).
Notation arm := (arm orc).
Notation arm_td := (arm_td L orc).
Notation eshift := (eshift L).

Lemma arm_eshift o a D c (f g : value L -> out) :
  (forall c, g c = eshift D (f c)) ->
  arm_td o a D c g = eshift D (arm o a c f).
Proof.
  intros H. unfold Spec.arm_td, Tree.arm.
  destruct (a_deny a o); [simpl; rewrite Nat.add_0_r; reflexivity|].
  destruct (if writes o then a_getmut a else a_get a) as [id|].
  - destruct (orc id) as [rp|m]; [|simpl; rewrite Nat.add_0_r; reflexivity].
    rewrite H. destruct (f c) as [[r v'] lg]. simpl.
    destruct o, r as [x|e]; try reflexivity.
    destruct (a_val a) as [vid|]; [|reflexivity].
    destruct (orc vid) as [[x'|]|m]; simpl; rewrite ?Nat.add_0_r; reflexivity.
  - rewrite H. destruct (f c) as [[r v'] lg]. simpl.
    destruct o, r as [x|e]; try reflexivity.
    destruct (a_val a) as [vid|]; [|reflexivity].
    destruct (orc vid) as [[x'|]|m]; simpl; rewrite ?Nat.add_0_r; reflexivity.
Qed.

Lemma with_child_eshift sum D v i (f g : value L -> out) :
  (forall c, g c = eshift D (f c)) ->
  with_child_td L sum D v i g = eshift D (with_child sum v i f).
Proof.
  intros H. unfold with_child_td, with_child.
  destruct sum, v as [x|s c|vs|act c]; try reflexivity.
  - destruct act as [j|]; [|simpl; rewrite Nat.add_0_r; reflexivity].
    destruct (Nat.eqb i j); [|simpl; rewrite Nat.add_0_r; reflexivity].
    rewrite H. destruct (f c) as [[r c'] lg]. reflexivity.
  - destruct (nth_error vs i) as [c|]; [|reflexivity].
    rewrite H. destruct (f c) as [[r c'] lg]. reflexivity.
Qed.

Lemma ok_up_eshift d (x : out) : ok_up L (eshift (S d) x) = eshift d (incr_out x).
Proof.
  destruct x as [[r v] lg]. destruct r as [n|e]; simpl; [reflexivity|].
  f_equal. f_equal. f_equal. rewrite shift_shift. f_equal. lia.
Qed.

(* C02 core: the bottom-up depth bookkeeping of all impls and derive expansions is the top-down
   count of consumed keys: same outcome, same depth, same new value, same callback log *)
Theorem walk_is_run o : forall t d v k, walk o t d v k = eshift d (run o t v k).
Proof.
  induction t as [lk|g t IH|s a t IH|h lk cs IH|n t IH] using node_ind'; intros d v k.
  - cbn [Spec.walk Tree.run]. destruct (kfin k); simpl; [|rewrite Nat.add_0_r; reflexivity].
    unfold leaf_td. destruct (leaf_op wr rd lk o v) as [[r v'] lg]. reflexivity.
  - cbn [Spec.walk Tree.run]. destruct v as [x|s c|vs|act c]; try reflexivity.
    destruct (gate_err g o s) as [e|]; [reflexivity|].
    rewrite IH. destruct (run o t c k) as [[r c'] lg]. reflexivity.
  - cbn [Spec.walk Tree.run]. apply with_child_eshift. intros c. apply arm_eshift. intros c'. apply IH.
  - cbn [Spec.walk Tree.run]. destruct (knext k lk) as [[i| |] k'].
    + rewrite <- ok_up_eshift. f_equal.
      apply with_child_eshift. intros c.
      generalize (N.to_nat i). induction IH as [|[a t'] r Ht _ IHr]; intros j; [reflexivity|].
      destruct j as [|j]; [|apply IHr].
      apply arm_eshift. intros c'. apply Ht.
    + simpl. rewrite Nat.add_0_r. reflexivity.
    + simpl. replace (d + 1) with (S d) by lia. reflexivity.
  - cbn [Spec.walk Tree.run]. destruct (knext k (Homog n)) as [[i| |] k'].
    + rewrite <- ok_up_eshift. f_equal. apply with_child_eshift. intros c. apply IH.
    + simpl. rewrite Nat.add_0_r. reflexivity.
    + simpl. replace (d + 1) with (S d) by lia. reflexivity.
Qed.

Corollary walk0_is_run o t v k : walk o t 0 v k = run o t v k.
Proof.
  rewrite walk_is_run. destruct (run o t v k) as [[r v'] lg]. simpl.
  destruct r as [n|e]; [reflexivity|]. rewrite shift_0. reflexivity.
Qed.

(* ====================================================================== *)
(* C01 core: a write changes exactly the designated leaf; every failure     *)
(* other than a validator rejection leaves the tree unchanged               *)
(* ====================================================================== *)
Definition is_write (e : event L) : bool := match e with EvWrite _ => true | _ => false end.

(* the new tree is the old one with the leaf at [path] replaced by what the codec produced *)
Definition frame (v : value L) (x : out) : Prop :=
  let '(r, v', lg) := x in
  (exists path old y, wr old = LOk y /\ v' = vset v path (VLeaf y) /\
                      filter is_write lg = [EvWrite y]) \/
  (v' = v /\ filter is_write lg = []).

Lemma set_nth_same {A} (l : list A) : forall i c, nth_error l i = Some c -> set_nth l i c = l.
Proof.
  induction l as [|a l IH]; intros [|i] c H; simpl in *; try discriminate.
  - injection H as ->. reflexivity.
  - f_equal. apply IH. exact H.
Qed.

Lemma vset_prod (vs : list (value L)) i c rest x : nth_error vs i = Some c ->
  vset (VProd vs) (i :: rest) x = VProd (set_nth vs i (vset c rest x)).
Proof.
  intros H. cbn [vset]. f_equal. revert i H.
  induction vs as [|a vs IH]; intros [|i] H; simpl in *; try discriminate.
  - injection H as ->. reflexivity.
  - f_equal. apply IH. exact H.
Qed.

Lemma frame_incr v x : frame v x -> frame v (incr_out x).
Proof. destruct x as [[r v'] lg]. simpl. auto. Qed.

Lemma frame_with_child sum v i (f : value L -> out) :
  (forall c, frame c (f c)) -> frame v (with_child sum v i f).
Proof.
  intros H. unfold with_child. destruct sum, v as [x|s c|vs|act c]; simpl; try (right; split; reflexivity).
  - destruct act as [j|]; simpl; [|right; split; reflexivity].
    destruct (Nat.eqb i j); simpl; [|right; split; reflexivity].
    specialize (H c). destruct (f c) as [[r c'] lg]. simpl in *.
    destruct H as [(path & old & y & Hw & -> & Hl)|[-> Hl]].
    + left. exists path, old, y. repeat split; assumption.
    + right. split; [reflexivity|assumption].
  - destruct (nth_error vs i) as [c|] eqn:E; simpl; [|right; split; reflexivity].
    specialize (H c). destruct (f c) as [[r c'] lg]. simpl in *.
    destruct H as [(path & old & y & Hw & -> & Hl)|[-> Hl]].
    + left. exists (i :: path), old, y. repeat split; try assumption.
      symmetry. apply vset_prod. exact E.
    + right. rewrite set_nth_same by exact E. split; [reflexivity|assumption].
Qed.

Lemma frame_ext v r r' v' lg lg' :
  filter is_write lg' = filter is_write lg -> frame v (r, v', lg) -> frame v (r', v', lg').
Proof. unfold frame. intros ->. auto. Qed.

Lemma filter_write_ev o (g : option N) :
  filter is_write (match g with Some id => [if writes o then @EvGetMut L id else EvGet id] | None => [] end) = [].
Proof. destruct g; [|reflexivity]. destruct (writes o); reflexivity. Qed.

Lemma frame_arm o a c (f : value L -> out) :
  frame c (f c) -> frame c (arm o a c f).
Proof.
  intros H. unfold Tree.arm. destruct (a_deny a o); [right; split; reflexivity|].
  set (g := if writes o then a_getmut a else a_get a).
  set (ev := match g with Some id => [if writes o then @EvGetMut L id else EvGet id] | None => [] end).
  assert (Hev : filter is_write ev = []) by apply filter_write_ev.
  destruct (match g with Some id => match orc id with CbFail m => Some m | _ => None end | None => None end).
  - right. split; [reflexivity|exact Hev].
  - destruct (f c) as [[r c'] lg].
    assert (G : forall r' tail, filter is_write tail = [] -> frame c (r', c', ev ++ lg ++ tail)).
    { intros r' tail Ht. eapply frame_ext; [|exact H]. rewrite !filter_app, Hev, Ht, app_nil_r. reflexivity. }
    assert (G0 : forall r', frame c (r', c', ev ++ lg)).
    { intros r'. specialize (G r' [] eq_refl). rewrite app_nil_r in G. exact G. }
    destruct o, r as [d|e]; try apply G0.
    destruct (a_val a) as [vid|]; [|apply G0].
    destruct (orc vid) as [[d'|]|m]; apply G; reflexivity.
Qed.

Lemma frame_leaf lk o v : frame v (leaf_op wr rd lk o v).
Proof.
  unfold leaf_op. destruct lk, v as [x|s c|vs|act c]; try (right; split; reflexivity).
  - destruct o; try (destruct (rd x); right; split; reflexivity); try (right; split; reflexivity).
    all: unfold leaf_write; destruct (wr x) as [y| |] eqn:E; try (right; split; reflexivity);
      left; exists [], x, y; repeat split; try assumption; reflexivity.
  - destruct o; try (destruct (rd x); right; split; reflexivity); try (right; split; reflexivity).
    unfold leaf_write; destruct (wr x) as [y| |] eqn:E; try (right; split; reflexivity);
      left; exists [], x, y; repeat split; try assumption; reflexivity.
Qed.

Theorem write_frame o : forall t v k, frame v (run o t v k).
Proof.
  induction t as [lk|g t IH|s a t IH|h lk cs IH|n t IH] using node_ind'; intros v k.
  - cbn [Tree.run]. destruct (kfin k); simpl; [apply frame_leaf|right; split; reflexivity].
  - cbn [Tree.run]. destruct v as [x|s c|vs|act c]; try (right; split; reflexivity).
    destruct (gate_err g o s); [right; split; reflexivity|].
    specialize (IH c k). destruct (run o t c k) as [[r c'] lg]. simpl in *.
    destruct IH as [(path & old & y & Hw & -> & Hl)|[-> Hl]].
    + left. exists path, old, y. repeat split; assumption.
    + right. split; [reflexivity|assumption].
  - cbn [Tree.run]. apply frame_with_child. intros c. apply frame_arm. apply IH.
  - cbn [Tree.run]. destruct (knext k lk) as [[i| |] k']; try (right; split; reflexivity).
    apply frame_incr. apply frame_with_child. intros c.
    generalize (N.to_nat i). induction IH as [|[a t'] r Ht _ IHr]; intros j; [right; split; reflexivity|].
    destruct j as [|j]; [|apply IHr]. apply frame_arm. apply Ht.
  - cbn [Tree.run]. destruct (knext k (Homog n)) as [[i| |] k']; try (right; split; reflexivity).
    apply frame_incr. apply frame_with_child. intros c. apply IH.
Qed.

(* a write event can only be followed by success or by a validator's rejection *)
Definition okinv (r : res) : Prop := match r with ROk _ | RErr (Invalid _ _) => True | _ => False end.
Definition wrote (x : out) : Prop := let '(r, _, lg) := x in filter is_write lg <> [] -> okinv r.

Lemma wrote_incr x : wrote x -> wrote (incr_out x).
Proof. destruct x as [[r v'] lg]. simpl. intros H Hl. specialize (H Hl). destruct r as [d|[]]; simpl in *; auto. Qed.

Lemma wrote_with_child sum v i (f : value L -> out) :
  (forall c, wrote (f c)) -> wrote (with_child sum v i f).
Proof.
  intros H. unfold with_child. destruct sum, v as [x|s c|vs|act c]; simpl; try (intros Hl; exfalso; apply Hl; reflexivity).
  - destruct act as [j|]; simpl; [|intros Hl; exfalso; apply Hl; reflexivity].
    destruct (Nat.eqb i j); simpl; [|intros Hl; exfalso; apply Hl; reflexivity].
    specialize (H c). destruct (f c) as [[r c'] lg]. exact H.
  - destruct (nth_error vs i) as [c|]; simpl; [|intros Hl; exfalso; apply Hl; reflexivity].
    specialize (H c). destruct (f c) as [[r c'] lg]. exact H.
Qed.

Lemma wrote_arm o a c (f : value L -> out) : wrote (f c) -> wrote (arm o a c f).
Proof.
  intros H. unfold Tree.arm. destruct (a_deny a o); [intros Hl; exfalso; apply Hl; reflexivity|].
  set (g := if writes o then a_getmut a else a_get a).
  set (ev := match g with Some id => [if writes o then @EvGetMut L id else EvGet id] | None => [] end).
  assert (Hev : filter is_write ev = []) by apply filter_write_ev.
  destruct (match g with Some id => match orc id with CbFail m => Some m | _ => None end | None => None end).
  - intros Hl. exfalso. apply Hl. exact Hev.
  - destruct (f c) as [[r c'] lg]. simpl in H.
    assert (G0 : wrote (r, c', ev ++ lg)).
    { simpl. rewrite filter_app, Hev. exact H. }
    destruct o, r as [d|e]; try exact G0.
    destruct (a_val a) as [vid|]; [|exact G0].
    destruct (orc vid) as [[d'|]|m]; simpl; intros _; exact I.
Qed.

Theorem write_implies_okinv o : forall t v k, wrote (run o t v k).
Proof.
  induction t as [lk|g t IH|s a t IH|h lk cs IH|n t IH] using node_ind'; intros v k.
  - cbn [Tree.run]. destruct (kfin k); simpl; [|intros Hl; exfalso; apply Hl; reflexivity].
    unfold leaf_op, leaf_write. destruct lk, v as [x|s c|vs|act c]; simpl; try (intros Hl; exfalso; apply Hl; reflexivity).
    + destruct o; try (destruct (rd x); simpl; intros Hl; exfalso; apply Hl; reflexivity);
        destruct (wr x); simpl; intros Hl; try exact I; exfalso; apply Hl; reflexivity.
    + destruct o; try (destruct (rd x); simpl; intros Hl; exfalso; apply Hl; reflexivity);
        try (simpl; intros Hl; exfalso; apply Hl; reflexivity);
        destruct (wr x); simpl; intros Hl; try exact I; exfalso; apply Hl; reflexivity.
  - cbn [Tree.run]. destruct v as [x|s c|vs|act c]; try (simpl; intros Hl; exfalso; apply Hl; reflexivity).
    destruct (gate_err g o s); [simpl; intros Hl; exfalso; apply Hl; reflexivity|].
    specialize (IH c k). destruct (run o t c k) as [[r c'] lg]. exact IH.
  - cbn [Tree.run]. apply wrote_with_child. intros c. apply wrote_arm. apply IH.
  - cbn [Tree.run]. destruct (knext k lk) as [[i| |] k']; try (simpl; intros Hl; exfalso; apply Hl; reflexivity).
    apply wrote_incr. apply wrote_with_child. intros c.
    generalize (N.to_nat i). induction IH as [|[a t'] r Ht _ IHr]; intros j; [simpl; intros Hl; exfalso; apply Hl; reflexivity|].
    destruct j as [|j]; [|apply IHr]. apply wrote_arm. apply Ht.
  - cbn [Tree.run]. destruct (knext k (Homog n)) as [[i| |] k']; try (simpl; intros Hl; exfalso; apply Hl; reflexivity).
    apply wrote_incr. apply wrote_with_child. intros c. apply IH.
Qed.

(* C01: failed access (traversal, access, (de)serialization error) leaves the whole tree unchanged *)
Theorem failed_access_unchanged o t v k r v' lg :
  run o t v k = (r, v', lg) -> ~ okinv r -> v' = v.
Proof.
  intros E Hr. pose proof (write_frame o t v k) as F. pose proof (write_implies_okinv o t v k) as Wt.
  rewrite E in F, Wt. simpl in F, Wt.
  destruct F as [(path & old & y & _ & _ & Hl)|[-> _]]; [|reflexivity].
  exfalso. apply Hr. apply Wt. rewrite Hl. discriminate.
Qed.

(* reads never write *)
Lemma no_write_leaf lk o v : writes o = false -> filter is_write (snd (leaf_op wr rd lk o v)) = [].
Proof.
  intros Hw. unfold leaf_op. destruct lk, v as [x|s c|vs|act c]; try reflexivity; destruct o; try discriminate;
    try reflexivity; destruct (rd x); reflexivity.
Qed.

Definition nowrite (x : out) : Prop := filter is_write (snd x) = [].
Lemma nowrite_with_child sum v i (f : value L -> out) : (forall c, nowrite (f c)) -> nowrite (with_child sum v i f).
Proof.
  intros H. unfold with_child. destruct sum, v as [x|s c|vs|act c]; try reflexivity.
  - destruct act as [j|]; [|reflexivity]. destruct (Nat.eqb i j); [|reflexivity].
    specialize (H c). destruct (f c) as [[r c'] lg]. exact H.
  - destruct (nth_error vs i) as [c|]; [|reflexivity]. specialize (H c). destruct (f c) as [[r c'] lg]. exact H.
Qed.
Lemma nowrite_arm o a c (f : value L -> out) : nowrite (f c) -> nowrite (arm o a c f).
Proof.
  intros H. unfold Tree.arm. destruct (a_deny a o); [reflexivity|].
  set (g := if writes o then a_getmut a else a_get a).
  set (ev := match g with Some id => [if writes o then @EvGetMut L id else EvGet id] | None => [] end).
  assert (Hev : filter is_write ev = []) by apply filter_write_ev.
  destruct (match g with Some id => match orc id with CbFail m => Some m | _ => None end | None => None end); [exact Hev|].
  destruct (f c) as [[r c'] lg]. unfold nowrite in *. simpl in H.
  assert (G0 : filter is_write (ev ++ lg) = []) by (rewrite filter_app, Hev, H; reflexivity).
  destruct o, r as [d|e]; try exact G0.
  destruct (a_val a) as [vid|]; [|exact G0].
  destruct (orc vid) as [[d'|]|m]; simpl; rewrite !filter_app, Hev, H; reflexivity.
Qed.

Theorem read_no_write o : writes o = false -> forall t v k, nowrite (run o t v k).
Proof.
  intros Hw. induction t as [lk|g t IH|s a t IH|h lk cs IH|n t IH] using node_ind'; intros v k.
  - cbn [Tree.run]. destruct (kfin k); simpl; [|reflexivity]. unfold nowrite. 
    pose proof (no_write_leaf lk o v Hw) as E. destruct (leaf_op wr rd lk o v) as [[r v'] lg]. exact E.
  - cbn [Tree.run]. destruct v as [x|s c|vs|act c]; try reflexivity.
    destruct (gate_err g o s); [reflexivity|].
    specialize (IH c k). destruct (run o t c k) as [[r c'] lg]. exact IH.
  - cbn [Tree.run]. apply nowrite_with_child. intros c. apply nowrite_arm. apply IH.
  - cbn [Tree.run]. destruct (knext k lk) as [[i| |] k']; try reflexivity.
    assert (G : forall x, nowrite x -> nowrite (incr_out x)) by (intros [[r v'] lg] Hx; exact Hx).
    apply G. apply nowrite_with_child. intros c.
    generalize (N.to_nat i). induction IH as [|[a t'] r Ht _ IHr]; intros j; [reflexivity|].
    destruct j as [|j]; [|apply IHr]. apply nowrite_arm. apply Ht.
  - cbn [Tree.run]. destruct (knext k (Homog n)) as [[i| |] k']; try reflexivity.
    assert (G : forall x, nowrite x -> nowrite (incr_out x)) by (intros [[r v'] lg] Hx; exact Hx).
    apply G. apply nowrite_with_child. intros c. apply IH.
Qed.

(* C01/C05: a read (serialize, immutable any) never modifies the tree *)
Theorem read_pure o t v k r v' lg : writes o = false -> run o t v k = (r, v', lg) -> v' = v.
Proof.
  intros Hw E. pose proof (write_frame o t v k) as F. pose proof (read_no_write o Hw t v k) as Nw.
  rewrite E in F, Nw. unfold nowrite in Nw. simpl in F, Nw.
  destruct F as [(path & old & y & _ & _ & Hl)|[-> _]]; [|reflexivity].
  rewrite Nw in Hl. discriminate.
Qed.
End Refine.

(* ====================================================================== *)
(* C02: the structural part of the outcome is the same for the type-level   *)
(* traversal and the four value operations, unless an absent variant, a     *)
(* failed accessor or a value-level failure higher on the path pre-empts it *)
(* ====================================================================== *)
Section Structural.
Variable L : Type.
Variable wr : L -> leafres L.
Variable rd : L -> bool.
Variable orc : oracle.
Notation run := (run wr rd orc).
Definition nofail : list call -> call -> bool := fun _ _ => false.

Definition edepth (e : err) : nat :=
  match e with
  | Absent d | TooShort d | NotFound d | TooLong d | Access d _ | Invalid d _ | Inner d => d
  | Unreachable => 0
  end.
Definition rdepth (r : res) : nat := match r with ROk d => d | RErr e => edepth e end.
(* validators do not replace the depth in this run *)
Definition norepl : Prop := forall id d', orc id <> CbOk (Some d').

(* a value-level failure after d consumed keys, against the traversal outcome: the key that is not
   found at depth d0 is the d0-th one, so fewer than d0 keys were consumed *)
Definition le_depth (d : nat) (rt : res) : Prop :=
  match rt with RErr Unreachable => True | RErr (NotFound d0) => d < d0 | _ => d <= rdepth rt end.
(* traversal outcomes: NotFound carries the (1-based) position of the offending key *)
Definition okrt (rt : res) : Prop := match rt with RErr (NotFound 0) => False | _ => True end.
(* R r rt: [r] (a value operation) against [rt] (the traversal of the same key) *)
Definition R (r rt : res) : Prop :=
  match r with
  | ROk d => exists d0, rt = ROk d0 /\ (norepl -> d = d0)
  | RErr (TooShort d) => rt = RErr (TooShort d)
  | RErr (NotFound d) => rt = RErr (NotFound d)
  | RErr (TooLong d) => rt = RErr (TooLong d)
  | RErr (Absent d) | RErr (Access d _) => le_depth d rt
  (* the payload is only touched, and validators only run, once the key has been classified as a leaf *)
  | RErr (Inner d) => rt = ROk d
  | RErr (Invalid d _) => exists d0, rt = ROk d0 /\ d <= d0
  | RErr Unreachable => True
  end.

Lemma le_depth_0 rt : okrt rt -> le_depth 0 rt.
Proof. destruct rt as [d|[]]; simpl; try lia; try (intros; exact I). destruct d; [intros []|lia]. Qed.
Lemma okrt_shift rt : okrt (rshift 1 rt).
Proof. destruct rt as [d|[]]; simpl; exact I. Qed.

Lemma R_shift r rt : R r rt -> R (rshift 1 r) (rshift 1 rt).
Proof.
  destruct r as [d|[d|d|d|d|d m|d m|d|]]; simpl; try (intros ->; reflexivity); try exact id.
  - intros (d0 & -> & H). exists (S d0). split; [reflexivity|]. intros Hn. f_equal. auto.
  - intros H. destruct rt as [d0|[]]; simpl in *; lia || exact I.
  - intros H. destruct rt as [d0|[]]; simpl in *; lia || exact I.
  - intros (d0 & -> & H). exists (S d0). split; [reflexivity|lia].
Qed.

Lemma R_access_0 rt m : okrt rt -> R (RErr (Access 0 m)) rt.
Proof. intros Hk. simpl. apply le_depth_0. exact Hk. Qed.

Lemma R_arm o a c (f : value L -> out L) rt : okrt rt -> R (fst (fst (f c))) rt -> R (fst (fst (arm orc o a c f))) rt.
Proof.
  intros Hk H. unfold Tree.arm. destruct (a_deny a o); [apply R_access_0; exact Hk|].
  destruct (match (if writes o then a_getmut a else a_get a) with
            | Some id => match orc id with CbFail m => Some m | _ => None end | None => None end);
    [apply R_access_0; exact Hk|].
  destruct (f c) as [[r c'] lg]. simpl in H.
  destruct o, r as [d|e]; try exact H.
  destruct (a_val a) as [vid|]; [|exact H].
  destruct (orc vid) as [[d'|]|m] eqn:Eo; simpl.
  - destruct H as (d0 & -> & Hd). exists d0. split; [reflexivity|]. intros Hn. exfalso. eapply Hn. exact Eo.
  - exact H.
  - destruct H as (d0 & -> & _). exists d0. split; [reflexivity|lia].
Qed.

Lemma R_with_child sum v i (f : value L -> out L) rt : okrt rt ->
  (forall c, R (fst (fst (f c))) rt) -> R (fst (fst (with_child sum v i f))) rt.
Proof.
  intros Hk H. unfold with_child. destruct sum, v as [x|s c|vs|act c]; try exact I.
  - destruct act as [j|]; [|simpl; apply le_depth_0; exact Hk]. destruct (Nat.eqb i j); [|simpl; apply le_depth_0; exact Hk].
    specialize (H c). destruct (f c) as [[r c'] lg]. exact H.
  - destruct (nth_error vs i) as [c|]; [|exact I]. specialize (H c). destruct (f c) as [[r c'] lg]. exact H.
Qed.

(* the traversal never reports NotFound 0 *)
Lemma trav_okrt cbf : forall t k pre, okrt (fst (trav cbf t k pre)).
Proof.
  induction t as [lk|g t IH|s a t IH|h lk cs IH|n t IH] using node_ind'; intros k pre.
  - cbn [trav]. destruct (kfin k); exact I.
  - cbn [trav]. apply IH.
  - cbn [trav]. apply IH.
  - cbn [trav]. destruct (knext k lk) as [[i| |] k']; try exact I.
    destruct (reports h && cbf pre (i, lk_name lk i, lk_len lk)); [exact I|].
    match goal with |- okrt (fst (tincr ?y)) => destruct y as [rt cs0] end. simpl. apply okrt_shift.
  - cbn [trav]. destruct (knext k (Homog n)) as [[i| |] k']; try exact I.
    destruct (cbf pre (i, None, n)); [exact I|].
    match goal with |- okrt (fst (tincr ?y)) => destruct y as [rt cs0] end. simpl. apply okrt_shift.
Qed.

Theorem structural_agreement o : forall t v k pre,
  R (fst (fst (run o t v k))) (fst (trav nofail t k pre)).
Proof.
  induction t as [lk|g t IH|s a t IH|h lk cs IH|n t IH] using node_ind'; intros v k pre.
  - cbn [Tree.run trav]. destruct (kfin k); simpl; [|reflexivity].
    unfold leaf_op, leaf_write. destruct lk, v as [x|s c|vs|act c]; simpl; try exact I; try lia.
    + destruct o; try (destruct (rd x)); try (destruct (wr x)); simpl; try lia; eexists; split; reflexivity || auto.
    + destruct o; try (destruct (rd x)); try (destruct (wr x)); simpl; try lia; eexists; split; reflexivity || auto.
  - cbn [Tree.run trav]. destruct v as [x|s c|vs|act c]; try exact I.
    pose proof (trav_okrt nofail t k pre) as Hk.
    destruct (gate_err g o s) as [[|]|]; [simpl; apply le_depth_0; exact Hk|simpl; apply le_depth_0; exact Hk|].
    specialize (IH c k pre). destruct (run o t c k) as [[r c'] lg]. exact IH.
  - cbn [Tree.run trav]. pose proof (trav_okrt nofail t k pre) as Hk.
    apply R_with_child; [exact Hk|]. intros c. apply R_arm; [exact Hk|]. apply IH.
  - cbn [Tree.run trav]. destruct (knext k lk) as [[i| |] k']; try reflexivity.
    unfold nofail at 1. rewrite andb_false_r.
    set (pre' := if reports h then (i, lk_name lk i, lk_len lk) :: pre else pre).
    assert (G : forall (x : out L) (y : tout), R (fst (fst x)) (fst y) -> R (fst (fst (incr_out x))) (fst (tincr y))).
    { intros [[r v'] lg] [rt cs0] Hx. simpl in *. apply R_shift. exact Hx. }
    apply G.
    assert (Hk : forall j, okrt (fst ((fix pick (cs : list (attrs * node)) (j : nat) {struct cs} : tout :=
               match cs with
               | [] => (RErr Unreachable, pre')
               | (_, t') :: r => match j with O => trav nofail t' k' pre' | S j' => pick r j' end
               end) cs j))).
    { clear. induction cs as [|[a t'] r IHr]; intros j; [exact I|]. destruct j as [|j]; [apply trav_okrt|apply IHr]. }
    apply R_with_child; [apply Hk|]. intros c.
    generalize (N.to_nat i). clear Hk. induction IH as [|[a t'] r Ht _ IHr]; intros j; [exact I|].
    destruct j as [|j]; [|apply IHr]. apply R_arm; [apply trav_okrt|]. apply Ht.
  - cbn [Tree.run trav]. destruct (knext k (Homog n)) as [[i| |] k']; try reflexivity.
    unfold nofail at 1.
    assert (G : forall (x : out L) (y : tout), R (fst (fst x)) (fst y) -> R (fst (fst (incr_out x))) (fst (tincr y))).
    { intros [[r v'] lg] [rt cs0] Hx. simpl in *. apply R_shift. exact Hx. }
    apply G. apply R_with_child; [apply trav_okrt|]. intros c. apply IH.
Qed.

(* the type-level traversal does not depend on the runtime value, and never reports
   Absent / Access / Invalid *)
Theorem trav_structural cbf : forall t k pre, match fst (trav cbf t k pre) with
  | RErr (Absent _) | RErr (Access _ _) | RErr (Invalid _ _) => False | _ => True end.
Proof.
  induction t as [lk|g t IH|s a t IH|h lk cs IH|n t IH] using node_ind'; intros k pre.
  - cbn [trav]. destruct (kfin k); exact I.
  - cbn [trav]. apply IH.
  - cbn [trav]. apply IH.
  - cbn [trav]. destruct (knext k lk) as [[i| |] k']; try exact I.
    destruct (reports h && cbf pre (i, lk_name lk i, lk_len lk)); [exact I|].
    set (pre' := if reports h then (i, lk_name lk i, lk_len lk) :: pre else pre). clearbody pre'.
    assert (G : forall y : tout, match fst y with RErr (Absent _) | RErr (Access _ _) | RErr (Invalid _ _) => False | _ => True end ->
                match fst (tincr y) with RErr (Absent _) | RErr (Access _ _) | RErr (Invalid _ _) => False | _ => True end).
    { intros [[d|[]] cs0]; simpl; auto. }
    apply G. generalize (N.to_nat i). induction IH as [|[a t'] r Ht _ IHr]; intros j; [exact I|].
    destruct j as [|j]; [apply Ht|apply IHr].
  - cbn [trav]. destruct (knext k (Homog n)) as [[i| |] k']; try exact I.
    destruct (cbf pre (i, None, n)); [exact I|].
    assert (G : forall y : tout, match fst y with RErr (Absent _) | RErr (Access _ _) | RErr (Invalid _ _) => False | _ => True end ->
                match fst (tincr y) with RErr (Absent _) | RErr (Access _ _) | RErr (Invalid _ _) => False | _ => True end).
    { intros [[d|[]] cs0]; simpl; auto. }
    apply G. apply IH.
Qed.
End Structural.
