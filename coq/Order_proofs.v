(* C03 "in key order" / C09 "ordered like iteration": the enumeration the iterator yields is strictly
   increasing in the lexicographic order of the index tuples (no yielded node is a prefix of another),
   hence the packed keys of the yielded nodes are strictly increasing numbers in iteration order. *)
From Coq Require Import List NArith ZArith Lia Bool Arith PeanoNat Sorted.
From MC Require Import Str Packed Packed_proofs Tree Tree_proofs NoPanic Transcode_proofs Meta_proofs
  Odometer Iter_proofs Packed_tree Enum_proofs.
Import ListNotations.

Lemma sorted_app {A} (R : A -> A -> Prop) (l1 l2 : list A) :
  StronglySorted R l1 -> StronglySorted R l2 -> (forall x y, In x l1 -> In y l2 -> R x y) ->
  StronglySorted R (l1 ++ l2).
Proof.
  induction l1 as [|a l1 IH]; intros H1 H2 Hc; cbn [List.app]; [exact H2|].
  inversion H1 as [|a' l' Hs Hf]; subst. constructor.
  - apply IH; [exact Hs|exact H2|]. intros x y Hx Hy. apply Hc; [right; exact Hx|exact Hy].
  - apply Forall_app. split; [exact Hf|]. apply Forall_forall. intros y Hy. apply Hc; [left; reflexivity|exact Hy].
Qed.

Lemma sorted_map_cons (k : N) (l : list (list N)) :
  StronglySorted plt l -> StronglySorted plt (map (cons k) l).
Proof.
  induction 1 as [|q l Hs IH Hf]; cbn [map]; constructor; [exact IH|].
  apply Forall_forall. intros y Hy. apply in_map_iff in Hy. destruct Hy as (s & <- & Hin).
  cbn [plt]. right. split; [reflexivity|]. rewrite Forall_forall in Hf. exact (Hf s Hin).
Qed.

Lemma sorted_blocks enumD sh (HD : forall c, StronglySorted plt (enumD c)) : forall n s,
  StronglySorted plt (flat_map (block enumD sh) (seq s n)).
Proof.
  induction n as [|n IH]; intros s; cbn [seq flat_map]; [constructor|].
  apply sorted_app.
  - unfold block. destruct (child sh (N.of_nat s)); [apply sorted_map_cons, HD|constructor].
  - apply IH.
  - intros x y Hx Hy. apply in_block in Hx. destruct Hx as (c & q' & _ & -> & _).
    apply in_flat_map in Hy. destruct Hy as (k2 & Hk2 & Hin). apply in_block in Hin.
    destruct Hin as (c2 & q2 & _ & -> & _). apply in_seq in Hk2. cbn [plt]. left. lia.
Qed.

Theorem enum_sorted : forall D sh, StronglySorted plt (enum D sh).
Proof.
  induction D as [|D IH]; intros sh; cbn [enum]; [repeat constructor|].
  destruct (is_leaf sh); [repeat constructor|]. apply sorted_blocks. exact IH.
Qed.

(* the packed keys of the nodes yielded by the iterator increase strictly in iteration order *)
Definition key_lt (t : node) (p q : list N) : Prop :=
  forall fs gs, path_fields t p = Some fs -> path_fields t q = Some gs ->
    (total fs <= 63)%Z -> (total gs <= 63)%Z -> (word_of fs < word_of gs)%Z.

Lemma sorted_impl {A} (R S : A -> A -> Prop) (l : list A) :
  (forall x y, R x y -> S x y) -> StronglySorted R l -> StronglySorted S l.
Proof.
  intros H. induction 1 as [|a l Hs IH Hf]; constructor; [exact IH|].
  eapply Forall_impl; [|exact Hf]. intros y. apply H.
Qed.

Theorem iteration_keys_increase t D : NoPanic.wf t -> narrow t ->
  StronglySorted (key_lt t) (enum D (shape_of t)).
Proof.
  intros Hw Hn. apply (sorted_impl plt); [|apply enum_sorted].
  intros p q Hpq fs gs Hp Hq Hfs Hgs. exact (packed_order t p q fs gs Hw Hn Hp Hq Hfs Hgs Hpq).
Qed.
