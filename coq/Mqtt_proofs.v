(* Theorems about the MQTT client model (C07, C10, C13, C14).  Everything that mentions [fire]
   depends on Generated.sm_table and is re-proved whenever the statemachine! block changes. *)
From Coq Require Import List NArith Lia Bool Arith.
From MC Require Import Generated Mqtt.
Import ListNotations.

(* ---------------------------------------------------------------- the transition table *)
Lemma fire_cases s e g s' a : fire s e g = Some (s', a) ->
  (e = EReset /\ s' = Connect /\ a = false) \/
  (s = Connect /\ e = EConnect /\ s' = Alive /\ a = false) \/ (s = Alive /\ e = EAlive /\ s' = Subscribe /\ a = false) \/
  (s = Subscribe /\ e = ESubscribe /\ s' = Wait /\ a = true) \/ (s = Wait /\ e = ETick /\ s' = Init /\ a = false /\ g = true) \/
  (s = Init /\ e = EMultipart /\ s' = Multipart /\ a = false) \/ (s = Multipart /\ e = EComplete /\ s' = Single /\ a = false) \/
  (s = Single /\ e = EMultipart /\ s' = Multipart /\ a = false).
Proof. destruct s, e, g; vm_compute; intros H; inversion H; subst; tauto. Qed.

(* the unwrap() sites: the events the code fires with unwrap are always accepted *)
Lemma reset_always s g : fire s EReset g = Some (Connect, false).
Proof. destruct s, g; reflexivity. Qed.
Lemma fire_connect g : fire Connect EConnect g = Some (Alive, false). Proof. destruct g; reflexivity. Qed.
Lemma fire_alive g : fire Alive EAlive g = Some (Subscribe, false). Proof. destruct g; reflexivity. Qed.
Lemma fire_subscribe g : fire Subscribe ESubscribe g = Some (Wait, true). Proof. destruct g; reflexivity. Qed.
Lemma fire_complete g : fire Multipart EComplete g = Some (Single, false). Proof. destruct g; reflexivity. Qed.
Lemma fire_single_multipart g : fire Single EMultipart g = Some (Multipart, false). Proof. destruct g; reflexivity. Qed.
Lemma fire_init_multipart g : fire Init EMultipart g = Some (Multipart, false). Proof. destruct g; reflexivity. Qed.
Lemma fire_tick g : fire Wait ETick g = if g then Some (Init, false) else None. Proof. destruct g; reflexivity. Qed.

Lemma process_state m e t m' : process m e t = Some m' -> pd m' = pd m /\
  exists a, fire (st m) e (timed_out m t) = Some (st m', a) /\ timeout m' = (if a then Some (t + DUMP_TIMEOUT_MS)%N else timeout m).
Proof.
  unfold process. destruct (fire (st m) e (timed_out m t)) as [[s a]|]; [|discriminate].
  intros H. injection H as <-. split; [reflexivity|]. exists a. split; reflexivity.
Qed.

(* ---------------------------------------------------------------- C13: timing of the initial dump *)
(* subscribing arms the timer: the dump cannot start before DUMP_TIMEOUT after the subscription *)
Theorem subscribe_arms_timer m t m' : st m = Subscribe -> process m ESubscribe t = Some m' ->
  st m' = Wait /\ timeout m' = Some (t + DUMP_TIMEOUT_MS)%N.
Proof.
  intros Hs H. destruct (process_state _ _ _ _ H) as [_ (a & Hf & Ht)]. rewrite Hs, fire_subscribe in Hf.
  injection Hf as <- <-. split; [reflexivity|exact Ht].
Qed.
Theorem tick_waits_for_timer m t m' : st m = Wait -> process m ETick t = Some m' ->
  st m' = Init /\ exists d, timeout m = Some d /\ (d <= t)%N.
Proof.
  intros Hs H. destruct (process_state _ _ _ _ H) as [_ (a & Hf & Ht)]. rewrite Hs, fire_tick in Hf.
  destruct (timed_out m t) eqn:Eto; [|discriminate]. injection Hf as <- <-. split; [reflexivity|].
  unfold timed_out in Eto. destruct (timeout m) as [d|]; [|discriminate]. exists d. split; [reflexivity|]. apply N.leb_le. exact Eto.
Qed.

(* ---------------------------------------------------------------- C10 / C07: the pumps *)
(* iter_dump: whatever the number of slots, the leaves are taken from the front of the iterator in
   order, each once; absent leaves are skipped silently, oversize ones reported with code Error *)
Theorem pump_dump_spec e : forall n m m' o, pump_dump e n m = Some (m', o) ->
  exists done, p_rem (pd m) = done ++ p_rem (pd m') /\
               o = flat_map (dump_msg e (p_cd (pd m))) done /\ length done <= n /\
               p_resp (pd m') = p_resp (pd m) /\ p_cd (pd m') = p_cd (pd m) /\
               (st m' = st m \/ (p_rem (pd m') = [] /\ length done < n /\ fire (st m) EComplete (timed_out m (now e)) = Some (st m', false) \/
                                  exists a, fire (st m) EComplete (timed_out m (now e)) = Some (st m', a))).
Proof.
  induction n as [|n IH]; intros m m' o H; simpl in H.
  - injection H as <- <-. exists []. simpl. repeat split; try reflexivity; try lia. left. reflexivity.
  - destruct (p_rem (pd m)) as [|p rest] eqn:E.
    + destruct (process m EComplete (now e)) as [m1|] eqn:Ep; [|discriminate]. simpl in H. injection H as <- <-.
      destruct (process_state _ _ _ _ Ep) as [Hpd (a & Hf & Ht)].
      exists []. rewrite Hpd, E. simpl. repeat split; try reflexivity; try lia. right. right. exists a. exact Hf.
    + destruct (pump_dump e n _) as [[m'' o']|] eqn:R; [|discriminate]. simpl in H. injection H as <- <-.
      destruct (IH _ _ _ R) as (done & Hr & Ho & Hl & Hp & Hc & Hst). simpl in Hr, Hp, Hc, Hst.
      exists (p :: done). simpl. rewrite Hr, Ho. repeat split; try reflexivity; try lia; try assumption.
      destruct Hst as [Hst|[Hst|Hst]]; [left; exact Hst|right; left|right; right; exact Hst].
      destruct Hst as (H1 & H2 & H3). repeat split; try assumption. lia.
Qed.

(* with enough slots the walk finishes in this very call and the client accepts multipart requests again *)
Theorem pump_dump_completes e : forall n m, st m = Multipart -> length (p_rem (pd m)) < n ->
  exists m' o, pump_dump e n m = Some (m', o) /\ st m' = Single /\ p_rem (pd m') = [] /\
               o = flat_map (dump_msg e (p_cd (pd m))) (p_rem (pd m)).
Proof.
  induction n as [|n IH]; intros m Hs Hl; [lia|]. simpl.
  destruct (p_rem (pd m)) as [|p rest] eqn:E.
  - unfold process. rewrite Hs, fire_complete. simpl. eexists _, _. split; [reflexivity|].
    simpl. rewrite E. repeat split; reflexivity.
  - simpl in Hl.
    destruct (IH {| st := st m; timeout := timeout m; pd := {| p_rem := rest; p_resp := p_resp (pd m); p_cd := p_cd (pd m) |} |} Hs ltac:(simpl; lia))
      as (m' & o & Hp & Hst & Hrem & Ho).
    rewrite Hp. simpl. eexists _, _. split; [reflexivity|]. simpl in *. rewrite Ho. repeat split; assumption || reflexivity.
Qed.

Definition list_msgs (rt : topic) (cd : option bytes) (ps : list path) : list out :=
  map (fun p => OPub rt p false (Some CContinue) cd) ps.

(* iter_list: one Continue per leaf path in order, then exactly one Ok with empty payload, all on the
   cached response topic with the cached correlation data *)
Theorem pump_list_spec t : forall n m m' o, pump_list n t m = Some (m', o) ->
  let rt := match p_resp (pd m) with Some r => TOther r | None => TOther [] end in
  exists done, p_rem (pd m) = done ++ p_rem (pd m') /\ length done <= n /\
    p_resp (pd m') = p_resp (pd m) /\ p_cd (pd m') = p_cd (pd m) /\
    (o = list_msgs rt (p_cd (pd m)) done /\ st m' = st m \/
     o = list_msgs rt (p_cd (pd m)) done ++ [OPub rt [] false (Some COk) (p_cd (pd m))] /\ p_rem (pd m') = [] /\
       exists a, fire (st m) EComplete (timed_out m t) = Some (st m', a)).
Proof.
  induction n as [|n IH]; intros m m' o H; simpl in H.
  - injection H as <- <-. exists []. simpl. repeat split; try reflexivity; try lia. left. split; reflexivity.
  - destruct (p_rem (pd m)) as [|p rest] eqn:E.
    + destruct (process m EComplete t) as [m1|] eqn:Ep; [|discriminate]. simpl in H. injection H as <- <-.
      destruct (process_state _ _ _ _ Ep) as [Hpd (a & Hf & Ht)].
      exists []. rewrite Hpd, E. simpl. repeat split; try reflexivity; try lia. right. repeat split; try reflexivity.
      exists a. exact Hf.
    + destruct (pump_list n t _) as [[m'' o']|] eqn:R; [|discriminate]. simpl in H. injection H as <- <-.
      destruct (IH _ _ _ R) as (done & Hr & Hl & Hp & Hc & Hst). simpl in Hr, Hp, Hc, Hst.
      exists (p :: done). simpl. rewrite Hr. repeat split; try reflexivity; try lia; try assumption.
      destruct Hst as [[Ho Hs]|(Ho & Hrem & Hf)]; [left|right]; rewrite Ho; repeat split; try reflexivity; assumption.
Qed.

(* ---------------------------------------------------------------- C07 / C14: one incoming message *)
(* at most one response per request, to the request's response topic, with its correlation data *)
Theorem on_message_one_response m im t m' o ch : on_message m im t = Some (m', o, ch) ->
  o = [] \/ exists tp pl c, o = [OPub tp pl false (Some c) (m_cd im)] /\
            (tp = TOther (match m_resp im with Some r => r | None => match m_settings im with Some q => q | None => [] end end)).
Proof.
  unfold on_message, respond, bind. destruct (m_settings im) as [q|]; [|intros H; injection H as <- <- <-; left; reflexivity].
  destruct (m_reply_ok im), (m_empty im), (m_ans im) as [b|txt0|leaves|txt| |txt]; cbn [negb];
    try (destruct (sm_eqb (st m) Single)); try (destruct (too_long MAX_TOPIC_LENGTH (m_resp im)));
    try (destruct (too_long MAX_CD_LENGTH (m_cd im))); try (destruct (process m EMultipart t); [|discriminate]);
    intros H; injection H as <- <- <-; try (left; reflexivity);
    destruct (m_resp im); try (left; reflexivity); right; eexists _, _, _; split; reflexivity.
Qed.

(* C14: update() reports a change exactly when a non-empty payload on prefix/settings<path> was
   accepted by the tree *)
Theorem changed_iff_set_ok m im t m' o ch : on_message m im t = Some (m', o, ch) ->
  (ch = true <-> (m_settings im <> None /\ m_empty im = false /\ m_ans im = ASetOk)).
Proof.
  unfold on_message. destruct (m_settings im) as [q|] eqn:Es.
  2:{ intros H; injection H as <- <- <-. split; [discriminate|intros (H0 & _); congruence]. }
  destruct (m_empty im) eqn:Ee.
  - assert (G : forall x : option (mstate * list out * bool), x = Some (m', o, ch) ->
              (forall y, x = Some y -> snd y = false) -> (ch = true <-> (Some q <> None /\ true = false /\ m_ans im = ASetOk))).
    { intros x Hx Hf. specialize (Hf _ Hx). simpl in Hf. subst ch. split; [discriminate|intros (_ & H1 & _); discriminate]. }
    intros H. eapply G; [exact H|]. intros y Hy.
    destruct (negb (m_reply_ok im)); [injection Hy as <-; reflexivity|].
    destruct (m_ans im) as [b|txt0|leaves|txt| |txt]; try (injection Hy as <-; reflexivity).
    destruct (sm_eqb (st m) Single); [|injection Hy as <-; reflexivity].
    destruct (too_long MAX_TOPIC_LENGTH (m_resp im)); [injection Hy as <-; reflexivity|].
    destruct (too_long MAX_CD_LENGTH (m_cd im)); [injection Hy as <-; reflexivity|].
    destruct (process m EMultipart t); simpl in Hy; [injection Hy as <-; reflexivity|discriminate].
  - destruct (m_ans im) as [b|txt0|leaves|txt| |txt]; intros H; injection H as <- <- <-.
    + split; [discriminate|intros (_ & _ & H2); discriminate].
    + split; [discriminate|intros (_ & _ & H2); discriminate].
    + split; [discriminate|intros (_ & _ & H2); discriminate].
    + split; [discriminate|intros (_ & _ & H2); discriminate].
    + split; [intros _; repeat split; congruence|reflexivity].
    + split; [discriminate|intros (_ & _ & H2); discriminate].
Qed.

(* a list / dump request while another multipart answer (or the initial dump) is pending is refused:
   the pending iterator, response topic and correlation data are untouched *)
Theorem busy_refusal m im t m' o ch : st m <> Single -> on_message m im t = Some (m', o, ch) -> m' = m.
Proof.
  intros Hs. unfold on_message. destruct (m_settings im) as [q|]; [|intros H; injection H as <- _ _; reflexivity].
  destruct (m_empty im).
  - destruct (negb (m_reply_ok im)); [intros H; injection H as <- _ _; reflexivity|].
    destruct (m_ans im) as [b|txt0|leaves|txt| |txt]; try (intros H; injection H as <- _ _; reflexivity).
    destruct (sm_eqb (st m) Single) eqn:E; [destruct (st m); simpl in E; congruence|].
    intros H; injection H as <- _ _; reflexivity.
  - destruct (m_ans im); intros H; injection H as <- _ _; reflexivity.
Qed.

(* requests never touch the protocol state except to start a multipart answer from Single *)
Theorem on_message_state m im t m' o ch : on_message m im t = Some (m', o, ch) ->
  m' = m \/ (st m = Single /\ st m' = Multipart /\ exists leaves, m_ans im = AInternal leaves /\ p_rem (pd m') = leaves /\
             p_resp (pd m') = m_resp im /\ p_cd (pd m') = m_cd im).
Proof.
  unfold on_message. destruct (m_settings im) as [q|]; [|intros H; injection H as <- _ _; left; reflexivity].
  destruct (m_empty im).
  - destruct (negb (m_reply_ok im)); [intros H; injection H as <- _ _; left; reflexivity|].
    destruct (m_ans im) as [b|txt0|leaves|txt| |txt]; try (intros H; injection H as <- _ _; left; reflexivity).
    destruct (sm_eqb (st m) Single) eqn:E; [|intros H; injection H as <- _ _; left; reflexivity].
    assert (Hs : st m = Single) by (destruct (st m); simpl in E; congruence).
    destruct (too_long MAX_TOPIC_LENGTH (m_resp im)); [intros H; injection H as <- _ _; left; reflexivity|].
    destruct (too_long MAX_CD_LENGTH (m_cd im)); [intros H; injection H as <- _ _; left; reflexivity|].
    destruct (process m EMultipart t) as [m1|] eqn:Ep; simpl; [|discriminate].
    intros H; injection H as <- _ _. right. destruct (process_state _ _ _ _ Ep) as [_ (a & Hf & _)].
    rewrite Hs, fire_single_multipart in Hf. injection Hf as Hst _. simpl. rewrite <- Hst.
    repeat split; try reflexivity; try assumption. exists leaves. repeat split; reflexivity.
  - destruct (m_ans im); intros H; injection H as <- _ _; left; reflexivity.
Qed.

(* ---------------------------------------------------------------- C14: no panic *)
(* none of the unwrap()s on process_event can fail, whatever the environment does *)
Theorem step_no_panic e m : step e m <> None.
Proof.
  unfold step, bind.
  assert (Hp : forall m0 ev0 t, (exists s a, forall g, fire (st m0) ev0 g = Some (s, a)) -> process m0 ev0 t <> None).
  { intros m0 ev0 t (s & a & Hf). unfold process. rewrite Hf. discriminate. }
  assert (Hreset : forall m0 t, process m0 EReset t <> None).
  { intros. apply Hp. exists Connect, false. intros g. apply reset_always. }
  destruct (api_action e m) as [ma|] eqn:Ea.
  2:{ unfold api_action in Ea. destruct (api e); try discriminate; exfalso; eapply Hreset; exact Ea. }
  destruct (if conn e then Some ma else process ma EReset (now e)) as [m0|] eqn:E0.
  2:{ destruct (conn e); [discriminate|]. exfalso. eapply Hreset. exact E0. }
  assert (Hpl : forall n t mm, st mm = Multipart -> pump_list n t mm <> None).
  { induction n as [|n IHn]; intros t mm Hs; simpl; [discriminate|].
    destruct (p_rem (pd mm)).
    - unfold process, bind. rewrite Hs, fire_complete. discriminate.
    - unfold bind. specialize (IHn t {| st := st mm; timeout := timeout mm; pd := {| p_rem := l; p_resp := p_resp (pd mm); p_cd := p_cd (pd mm) |} |} Hs).
      destruct (pump_list n t _) as [[? ?]|]; [discriminate|congruence]. }
  assert (Hpdm : forall n mm, st mm = Multipart -> pump_dump e n mm <> None).
  { induction n as [|n IHn]; intros mm Hs; simpl; [discriminate|].
    destruct (p_rem (pd mm)).
    - unfold process, bind. rewrite Hs, fire_complete. discriminate.
    - unfold bind. specialize (IHn {| st := st mm; timeout := timeout mm; pd := {| p_rem := l; p_resp := p_resp (pd mm); p_cd := p_cd (pd mm) |} |} Hs).
      destruct (pump_dump e n _) as [[? ?]|]; [discriminate|congruence]. }
  destruct (state_action e m0) as [[m1 o1]|] eqn:Es.
  2:{ exfalso. unfold state_action, bind in Es. destruct (st m0) eqn:S0.
      - destruct (conn e); [|discriminate]. unfold process in Es. rewrite S0, fire_connect in Es. discriminate.
      - destruct (act_ok e); [|discriminate]. unfold process in Es. rewrite S0, fire_alive in Es. discriminate.
      - destruct (act_ok e); [|discriminate]. unfold process in Es. rewrite S0, fire_subscribe in Es. discriminate.
      - discriminate.
      - discriminate.
      - destruct (p_resp (pd m0)); [eapply Hpl; eauto|eapply Hpdm; eauto].
      - discriminate. }
  destruct (poll_action e m1 o1) as [[[m2 o2] ch]|] eqn:Epo; [discriminate|].
  exfalso. unfold poll_action, bind in Epo. destruct (poll e) as [| |im0]; try discriminate.
  remember (cap_reply e o1 im0) as im.
  unfold on_message, bind in Epo. destruct (m_settings im); [|discriminate].
  destruct (m_empty im).
  - destruct (negb (m_reply_ok im)); [discriminate|]. destruct (m_ans im); try discriminate.
    destruct (sm_eqb (st m1) Single) eqn:E; [|discriminate].
    assert (Hs : st m1 = Single) by (destruct (st m1); simpl in E; congruence).
    destruct (too_long MAX_TOPIC_LENGTH (m_resp im)); [discriminate|].
    destruct (too_long MAX_CD_LENGTH (m_cd im)); [discriminate|].
    unfold process in Epo. rewrite Hs, fire_single_multipart in Epo. discriminate.
  - destruct (m_ans im); discriminate.
Qed.

(* ---------------------------------------------------------------- C13: restart *)
(* loss of the connection or of the broker session restarts the sequence from Connect *)
Theorem disconnected_restarts e m m' o ch : conn e = false -> step e m = Some (m', o, ch) -> st m' = Connect.
Proof.
  intros Hc H. unfold step, bind in H.
  destruct (api_action e m) as [ma|]; [|discriminate]. rewrite Hc in H.
  destruct (process ma EReset (now e)) as [m0|] eqn:Er; [|discriminate].
  destruct (process_state _ _ _ _ Er) as [_ (a0 & Hf & _)]. rewrite reset_always in Hf. injection Hf as Hs0 _.
  unfold state_action in H. rewrite <- Hs0, Hc in H. simpl in H.
  destruct (poll_action e m0 []) as [[[m2 o2] ch2]|] eqn:Ep; [|discriminate]. injection H as <- _ _.
  unfold poll_action, bind in Ep. destruct (poll e) as [| |im].
  - injection Ep as <- _ _. symmetry. exact Hs0.
  - destruct (process m0 EReset (now e)) as [m3|] eqn:E3; [|discriminate]. injection Ep as <- _ _.
    destruct (process_state _ _ _ _ E3) as [_ (a1 & Hf & _)]. rewrite reset_always in Hf. injection Hf as Hs3 _. symmetry. exact Hs3.
  - destruct (on_message_state _ _ _ _ _ _ Ep) as [->|(Hs & _)]; [symmetry; exact Hs0|congruence].
Qed.

Theorem session_reset_restarts e m1 o1 m' o ch : poll e = SessionReset -> poll_action e m1 o1 = Some (m', o, ch) -> st m' = Connect.
Proof.
  intros Hp H. unfold poll_action, bind in H. rewrite Hp in H.
  destruct (process m1 EReset (now e)) as [m3|] eqn:E3; [|discriminate]. injection H as <- _ _.
  destruct (process_state _ _ _ _ E3) as [_ (a & Hf & _)]. rewrite reset_always in Hf. injection Hf as Hs3 _. symmetry. exact Hs3.
Qed.

(* ---------------------------------------------------------------- exact answers (C07 / C14) *)
Theorem on_message_answers m im t q : m_settings im = Some q -> m_reply_ok im = true ->
  on_message m im t =
  (if m_empty im then
     match m_ans im with
     | AGet b => Some (m, [OPub (TOther (match m_resp im with Some r => r | None => q end)) b false (Some COk) (m_cd im)], false)
     | AInternal leaves =>
         if sm_eqb (st m) Single then
           if too_long MAX_TOPIC_LENGTH (m_resp im) then Some (m, respond im T_RESP_LONG CError, false)
           else if too_long MAX_CD_LENGTH (m_cd im) then Some (m, respond im T_CD_LONG CError, false)
           else bind (process m EMultipart t) (fun m' =>
                  Some ({| st := st m'; timeout := timeout m';
                           pd := {| p_rem := leaves; p_resp := m_resp im; p_cd := m_cd im |} |}, [], false))
         else Some (m, respond im T_PENDING CError, false)
     | AErr txt | AGetLarge txt => Some (m, respond im txt CError, false)
     | _ => Some (m, [], false)
     end
   else
     match m_ans im with
     | ASetOk => Some (m, respond im T_OK COk, true)
     | ASetErr txt => Some (m, respond im txt CError, false)
     | _ => Some (m, [], false)
     end).
Proof. intros Hs Hr. unfold on_message. rewrite Hs, Hr. simpl. destruct (m_empty im), (m_ans im); reflexivity. Qed.

Theorem respond_ok im payload c : m_reply_ok im = true ->
  respond im payload c = match m_resp im with Some r => [OPub (TOther r) payload false (Some c) (m_cd im)] | None => [] end.
Proof. intros H. unfold respond. rewrite H. reflexivity. Qed.

Theorem no_request_no_response e m1 o1 m2 o2 ch : poll e = NoMsg ->
  poll_action e m1 o1 = Some (m2, o2, ch) -> m2 = m1 /\ o2 = [] /\ ch = false.
Proof. intros Hp H. unfold poll_action in H. rewrite Hp in H. injection H as <- <- <-. repeat split. Qed.

Theorem too_long_refused m im t q leaves : m_settings im = Some q -> m_reply_ok im = true ->
  m_empty im = true -> m_ans im = AInternal leaves -> st m = Single ->
  (too_long MAX_TOPIC_LENGTH (m_resp im) = true ->
     on_message m im t = Some (m, respond im T_RESP_LONG CError, false)) /\
  (too_long MAX_TOPIC_LENGTH (m_resp im) = false -> too_long MAX_CD_LENGTH (m_cd im) = true ->
     on_message m im t = Some (m, respond im T_CD_LONG CError, false)).
Proof.
  intros Hs Hr He Ha Hst. rewrite (on_message_answers _ _ _ _ Hs Hr), He, Ha, Hst. simpl.
  split; [intros ->; reflexivity|intros -> ->; reflexivity].
Qed.

Theorem foreign_topic_ignored m im t : m_settings im = None -> on_message m im t = Some (m, [], false).
Proof. intros H. unfold on_message. rewrite H. reflexivity. Qed.

Theorem changed_only_by_message e m m' o ch : step e m = Some (m', o, ch) -> ch = true ->
  exists im, poll e = Msg im /\ m_settings im <> None /\ m_empty im = false /\ m_ans im = ASetOk.
Proof.
  intros H Hc. unfold step, bind in H.
  destruct (api_action e m) as [ma|]; [|discriminate].
  destruct (if conn e then Some ma else process ma EReset (now e)) as [m0|]; [|discriminate].
  destruct (state_action e m0) as [[m1 o1]|]; [|discriminate].
  destruct (poll_action e m1 o1) as [[[m2 o2] ch2]|] eqn:Ep; [|discriminate]. injection H as _ _ <-. subst ch2.
  unfold poll_action, bind in Ep. destruct (poll e) as [| |im] eqn:Epoll.
  - discriminate.
  - destruct (process m1 EReset (now e)); discriminate.
  - exists im. split; [reflexivity|].
    destruct (changed_iff_set_ok _ _ _ _ _ _ Ep) as [Hf _]. specialize (Hf eq_refl).
    unfold cap_reply in Hf. destruct (accepted e); exact Hf.
Qed.

Theorem run_no_panic : forall es m, ~ In None (run es m) /\ length (run es m) = length es.
Proof.
  induction es as [|e r IH]; intros m; simpl; [split; [intros []|reflexivity]|].
  destruct (step e m) as [[[m' o] ch]|] eqn:E; [|exfalso; exact (step_no_panic e m E)].
  destruct (IH m') as [H1 H2]. split; [|simpl; rewrite H2; reflexivity].
  intros [H|H]; [discriminate|exact (H1 H)].
Qed.
