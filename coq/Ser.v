(* The two payload codecs of leaf values as miniconf's helpers use them (json.rs over serde-json-core,
   postcard.rs over postcard): type-directed encoders and decoders for the value universe of
   Codec.v.  Decoders are defined on the canonical compact encodings (no whitespace, no escapes,
   no exponent notation): exactly what the encoders produce, which is what C05 speaks about. *)
From Coq Require Import List NArith ZArith Bool Arith Decimal DecimalN DecimalFacts.
From MC Require Import Str Codec.
Import ListNotations.
Local Open Scope N_scope.

Inductive ikind := U8 | I8 | U16 | I16 | U32 | I32 | U64 | I64.
Definition signed (k : ikind) : bool := match k with I8 | I16 | I32 | I64 => true | _ => false end.
Definition width (k : ikind) : N := match k with U8 | I8 => 8 | U16 | I16 => 16 | U32 | I32 => 32 | U64 | I64 => 64 end.
Definition imin (k : ikind) : Z := if signed k then (- 2 ^ (Z.of_N (width k) - 1))%Z else 0%Z.
Definition imax (k : ikind) : Z := if signed k then (2 ^ (Z.of_N (width k) - 1) - 1)%Z else (2 ^ Z.of_N (width k) - 1)%Z.
Definition in_range (k : ikind) (z : Z) : bool := (imin k <=? z)%Z && (z <=? imax k)%Z.

Inductive lty :=
| TInt (k : ikind) | TBool | TUnit | TOpt (t : lty) | TArr (n : nat) (t : lty) | TTup (ts : list lty)
| TStr (cap : N)              (* heapless::String<cap>: at most cap bytes of UTF-8 *)
| TTag                        (* unit-variant enum with the names of Codec.tag_name, as a string (StrLeaf) *)
| TEnum (names : list str)    (* serde unit-variant enum: JSON "Name", postcard varint(index) *)
| TStruct (fs : list (str * lty)).   (* serde struct: JSON {"f":v,...} in declaration order, postcard: fields concatenated *)

(* ---------------------------------------------------------------- typing *)
Definition scalar (c : N) : bool := (c <? 55296) || ((57343 <? c) && (c <? 1114112)).
(* characters that serde-json-core writes verbatim *)
Definition plain_char (c : N) : bool := scalar c && (31 <? c) && negb (c =? 34) && negb (c =? 92).
Definition nullish (t : lty) : bool := match t with TUnit | TOpt _ => true | _ => false end.

Fixpoint str_eqb (a b : str) : bool :=
  match a, b with [], [] => true | x :: a', y :: b' => (x =? y) && str_eqb a' b' | _, _ => false end.
Fixpoint uniq (names : list str) : bool :=
  match names with [] => true | n :: r => negb (existsb (str_eqb n) r) && uniq r end.
Fixpoint name_pos (s : str) (names : list str) : option N :=
  match names with [] => None | n :: r => if str_eqb n s then Some 0 else option_map N.succ (name_pos s r) end.

Fixpoint has_ty (t : lty) (v : lval) {struct t} : bool :=
  match t, v with
  | TInt k, LInt z => in_range k z
  | TBool, LBool _ => true
  | TUnit, LUnit => true
  | TOpt t', LOpt None => negb (nullish t')
  | TOpt t', LOpt (Some x) => negb (nullish t') && has_ty t' x
  | TArr n t', LArr l => (length l =? n)%nat && forallb (has_ty t') l
  | TTup ts, LArr l =>
      (fix go (ts : list lty) (l : list lval) : bool :=
         match ts, l with
         | [], [] => true
         | t' :: tr, x :: r => has_ty t' x && go tr r
         | _, _ => false
         end) ts l
  | TStr cap, LStr s => forallb plain_char s && (N.of_nat (length (utf8 s)) <=? cap) && (cap <? 18446744073709551616)
  | TTag, LTag n => n <? 3
  | TEnum names, LTag n => (N.to_nat n <? length names)%nat && forallb (forallb plain_char) names && uniq names && (n <? 4294967296)
  | TStruct fs, LArr l =>
      (fix go (fs : list (str * lty)) (l : list lval) : bool :=
         match fs, l with
         | [], [] => true
         | (nm, t') :: fr, x :: r => forallb plain_char nm && has_ty t' x && go fr r
         | _, _ => false
         end) fs l
  | _, _ => false
  end.

(* ---------------------------------------------------------------- decimal numbers *)
Definition digit_byte (d : N) : N := 48 + d.
Fixpoint bytes_of_uint (u : uint) : bytes :=
  match u with
  | Nil => []
  | D0 r => 48 :: bytes_of_uint r | D1 r => 49 :: bytes_of_uint r | D2 r => 50 :: bytes_of_uint r
  | D3 r => 51 :: bytes_of_uint r | D4 r => 52 :: bytes_of_uint r | D5 r => 53 :: bytes_of_uint r
  | D6 r => 54 :: bytes_of_uint r | D7 r => 55 :: bytes_of_uint r | D8 r => 56 :: bytes_of_uint r
  | D9 r => 57 :: bytes_of_uint r
  end.
Definition isdig (c : N) : bool := (48 <=? c) && (c <=? 57).
(* the maximal digit prefix *)
Fixpoint uint_of_bytes (s : bytes) : uint * bytes :=
  match s with
  | [] => (Nil, [])
  | c :: r =>
      if isdig c then
        let '(u, rest) := uint_of_bytes r in
        ((match c with 48 => D0 | 49 => D1 | 50 => D2 | 51 => D3 | 52 => D4 | 53 => D5 | 54 => D6 | 55 => D7 | 56 => D8 | _ => D9 end) u, rest)
      else (Nil, s)
  end.
Definition render_nat (n : N) : bytes := bytes_of_uint (N.to_uint n).
Definition render_int (z : Z) : bytes :=
  match z with Z0 => [48] | Zpos p => render_nat (Npos p) | Zneg p => 45 :: render_nat (Npos p) end.
(* a JSON integer: optional '-', digits without leading zeros *)
Definition uint_canon (u : uint) : bool := uint_beq (unorm u) u.
Definition parse_nat (s : bytes) : option (N * bytes) :=
  let '(u, rest) := uint_of_bytes s in
  match u with Nil => None | _ => if uint_canon u then Some (N.of_uint u, rest) else None end.
Definition parse_int (s : bytes) : option (Z * bytes) :=
  match s with
  | 45 :: r => match parse_nat r with Some (n, rest) => Some ((- Z.of_N n)%Z, rest) | None => None end
  | _ => match parse_nat s with Some (n, rest) => Some (Z.of_N n, rest) | None => None end
  end.

(* ---------------------------------------------------------------- UTF-8 *)
Definition cont (b : N) : bool := (128 <=? b) && (b <? 192).
Definition utf8_decode1 (s : bytes) : option (N * bytes) :=
  match s with
  | [] => None
  | b0 :: r =>
      if b0 <? 128 then Some (b0, r)
      else if b0 <? 192 then None
      else if b0 <? 224 then
        match r with b1 :: r1 => if cont b1 then Some ((b0 - 192) * 64 + (b1 - 128), r1) else None | _ => None end
      else if b0 <? 240 then
        match r with b1 :: b2 :: r2 =>
          if cont b1 && cont b2 then Some ((b0 - 224) * 4096 + (b1 - 128) * 64 + (b2 - 128), r2) else None | _ => None end
      else if b0 <? 248 then
        match r with b1 :: b2 :: b3 :: r3 =>
          if cont b1 && cont b2 && cont b3 then Some ((b0 - 240) * 262144 + (b1 - 128) * 4096 + (b2 - 128) * 64 + (b3 - 128), r3) else None
        | _ => None end
      else None
  end.
(* characters up to the closing quote (fuel = number of bytes) *)
Fixpoint str_body (fuel : nat) (s : bytes) : option (str * bytes) :=
  match fuel with O => None | S f =>
  match s with
  | 34 :: rest => Some ([], rest)
  | _ => match utf8_decode1 s with
         | Some (c, r) => if plain_char c then match str_body f r with Some (cs, rest) => Some (c :: cs, rest) | None => None end else None
         | None => None end
  end end.

(* ---------------------------------------------------------------- JSON *)
Definition strip (p s : bytes) : option bytes :=
  (fix go (p s : bytes) : option bytes :=
     match p, s with
     | [], _ => Some s
     | x :: p', y :: s' => if x =? y then go p' s' else None
     | _, [] => None
     end) p s.
Definition J_NULL : bytes := [110; 117; 108; 108].
Definition J_TRUE : bytes := [116; 114; 117; 101].
Definition J_FALSE : bytes := [102; 97; 108; 115; 101].

Definition jenc_int (z : Z) : bytes := render_int z.
(* the same text as Codec.json_enc except that integers are rendered through Decimal *)
Fixpoint jenc (v : lval) : bytes :=
  match v with
  | LInt z => jenc_int z
  | LBool true => J_TRUE
  | LBool false => J_FALSE
  | LUnit => J_NULL
  | LOpt None => J_NULL
  | LOpt (Some x) => jenc x
  | LArr l =>
      91 :: (fix go (l : list lval) (first : bool) : bytes :=
               match l with
               | [] => [93]
               | x :: r => (if first then [] else [44]) ++ jenc x ++ go r false
               end) l true
  | LStr s => 34 :: utf8 s ++ [34]
  | LTag n => 34 :: utf8 (tag_name n) ++ [34]
  end.

Definition quoted (s : str) : bytes := 34 :: utf8 s ++ [34].
(* type-directed encoder: as [jenc], plus serde enums and structs (which need their names) *)
Fixpoint jenc_t (t : lty) (v : lval) {struct t} : bytes :=
  match t, v with
  | TInt _, LInt z => jenc_int z
  | TBool, LBool true => J_TRUE
  | TBool, LBool false => J_FALSE
  | TUnit, _ => J_NULL
  | TOpt _, LOpt None => J_NULL
  | TOpt t', LOpt (Some x) => jenc_t t' x
  | TArr _ t', LArr l =>
      91 :: (fix go (l : list lval) (first : bool) : bytes :=
               match l with
               | [] => [93]
               | x :: r => (if first then [] else [44]) ++ jenc_t t' x ++ go r false
               end) l true
  | TTup ts, LArr l =>
      91 :: (fix go (ts : list lty) (l : list lval) (first : bool) : bytes :=
               match ts, l with
               | t' :: tr, x :: r => (if first then [] else [44]) ++ jenc_t t' x ++ go tr r false
               | _, _ => [93]
               end) ts l true
  | TStr _, LStr s => quoted s
  | TTag, LTag n => quoted (tag_name n)
  | TEnum names, LTag n => quoted (nth (N.to_nat n) names [])
  | TStruct fs, LArr l =>
      123 :: (fix go (fs : list (str * lty)) (l : list lval) (first : bool) : bytes :=
                match fs, l with
                | (nm, t') :: fr, x :: r => (if first then [] else [44]) ++ quoted nm ++ 58 :: jenc_t t' x ++ go fr r false
                | _, _ => [125]
                end) fs l true
  | _, _ => []
  end.

Definition tag_of_name (s : str) : option N :=
  if str_eqb s (tag_name 0) then Some 0 else if str_eqb s (tag_name 1) then Some 1
  else if str_eqb s (tag_name 2) then Some 2 else None.

Definition wrap_arr (o : option (list lval * bytes)) : option (lval * bytes) :=
  match o with Some (xs, r) => Some (LArr xs, r) | None => None end.

Fixpoint jdec (t : lty) (s : bytes) {struct t} : option (lval * bytes) :=
  match t with
  | TInt k => match parse_int s with
              | Some (z, r) => if in_range k z then Some (LInt z, r) else None
              | None => None end
  | TBool => match strip J_TRUE s with Some r => Some (LBool true, r) | None =>
             match strip J_FALSE s with Some r => Some (LBool false, r) | None => None end end
  | TUnit => match strip J_NULL s with Some r => Some (LUnit, r) | None => None end
  | TOpt t' => match strip J_NULL s with Some r => Some (LOpt None, r) | None =>
               match jdec t' s with Some (x, r) => Some (LOpt (Some x), r) | None => None end end
  | TArr n t' =>
      match s with
      | 91 :: s1 =>
          wrap_arr ((fix elems (n : nat) (first : bool) (s : bytes) : option (list lval * bytes) :=
             match n with
             | O => match s with 93 :: r => Some ([], r) | _ => None end
             | S m =>
                 match (if first then Some s else strip [44] s) with
                 | Some s' => match jdec t' s' with
                              | Some (x, r) => match elems m false r with Some (xs, r') => Some (x :: xs, r') | None => None end
                              | None => None end
                 | None => None end
             end) n true s1)
      | _ => None end
  | TTup ts =>
      match s with
      | 91 :: s1 =>
          wrap_arr ((fix elems (ts : list lty) (first : bool) (s : bytes) : option (list lval * bytes) :=
             match ts with
             | [] => match s with 93 :: r => Some ([], r) | _ => None end
             | t' :: tr =>
                 match (if first then Some s else strip [44] s) with
                 | Some s' => match jdec t' s' with
                              | Some (x, r) => match elems tr false r with Some (xs, r') => Some (x :: xs, r') | None => None end
                              | None => None end
                 | None => None end
             end) ts true s1)
      | _ => None end
  | TStr cap =>
      match s with
      | 34 :: s1 => match str_body (S (length s1)) s1 with
                    | Some (cs, r) => if N.of_nat (length (utf8 cs)) <=? cap then Some (LStr cs, r) else None
                    | None => None end
      | _ => None end
  | TTag =>
      match s with
      | 34 :: s1 => match str_body (S (length s1)) s1 with
                    | Some (cs, r) => match tag_of_name cs with Some n => Some (LTag n, r) | None => None end
                    | None => None end
      | _ => None end
  | TEnum names =>
      match s with
      | 34 :: s1 => match str_body (S (length s1)) s1 with
                    | Some (cs, r) => match name_pos cs names with Some n => Some (LTag n, r) | None => None end
                    | None => None end
      | _ => None end
  | TStruct fs =>
      match s with
      | 123 :: s1 =>
          wrap_arr ((fix fields (fs : list (str * lty)) (first : bool) (s : bytes) : option (list lval * bytes) :=
             match fs with
             | [] => match s with 125 :: r => Some ([], r) | _ => None end
             | (nm, t') :: fr =>
                 match (if first then Some s else strip [44] s) with
                 | Some s' => match strip (quoted nm ++ [58]) s' with
                              | Some s'' => match jdec t' s'' with
                                            | Some (x, r) => match fields fr false r with Some (xs, r') => Some (x :: xs, r') | None => None end
                                            | None => None end
                              | None => None end
                 | None => None end
             end) fs true s1)
      | _ => None end
  end.

(* json::get_by_key into a buffer of [cap] bytes: the byte count, or a serializer error *)
Definition json_get (t : lty) (cap : N) (v : lval) : option bytes :=
  if N.of_nat (length (jenc_t t v)) <=? cap then Some (jenc_t t v) else None.
(* json::set_by_key: value written and the number of bytes consumed; trailing data is reported after
   the leaf was written (Finalization) *)
Inductive setres := SetOk (v : lval) (consumed : N) | SetTrailing (v : lval) | SetErr.
Definition json_set (t : lty) (p : bytes) : setres :=
  match jdec t p with
  | Some (v, []) => SetOk v (N.of_nat (length p))
  | Some (v, _) => SetTrailing v
  | None => SetErr
  end.

(* ---------------------------------------------------------------- postcard *)
Fixpoint varint (fuel : nat) (n : N) : bytes :=
  match fuel with O => [] | S f => if n <? 128 then [n] else (128 + n mod 128) :: varint f (n / 128) end.
Definition max_varint (k : ikind) : nat := match k with U8 | I8 => 1%nat | U16 | I16 => 3%nat | U32 | I32 => 5%nat | U64 | I64 => 10%nat end.
Fixpoint unvarint (fuel : nat) (s : bytes) : option (N * bytes) :=
  match fuel with O => None | S f =>
  match s with
  | [] => None
  | b :: r => if b <? 128 then Some (b, r)
              else match unvarint f r with Some (hi, rest) => Some ((b - 128) + 128 * hi, rest) | None => None end
  end end.
Definition zigzag (z : Z) : N := Z.to_N (if (0 <=? z)%Z then 2 * z else - 2 * z - 1)%Z.
Definition unzigzag (n : N) : Z := if N.even n then Z.of_N (n / 2) else (- Z.of_N ((n + 1) / 2))%Z.

Definition penc_int (k : ikind) (z : Z) : bytes :=
  match k with
  | U8 => [Z.to_N z]
  | I8 => [Z.to_N (z mod 256)]
  | _ => varint (max_varint k) (if signed k then zigzag z else Z.to_N z)
  end.
Definition pdec_int (k : ikind) (s : bytes) : option (Z * bytes) :=
  match k with
  | U8 => match s with b :: r => if b <? 256 then Some (Z.of_N b, r) else None | [] => None end
  | I8 => match s with b :: r => if b <? 256 then Some (if b <? 128 then Z.of_N b else (Z.of_N b - 256)%Z, r) else None | [] => None end
  | _ => match unvarint (max_varint k) s with
         | Some (n, r) => let z := if signed k then unzigzag n else Z.of_N n in
                          if in_range k z then Some (z, r) else None
         | None => None end
  end.

Fixpoint take_bytes (n : nat) (s : bytes) : option (bytes * bytes) :=
  match n with O => Some ([], s) | S m => match s with b :: r => match take_bytes m r with Some (x, rest) => Some (b :: x, rest) | None => None end | [] => None end end.

(* type-directed: integers need their kind *)
Fixpoint penc (t : lty) (v : lval) {struct t} : bytes :=
  match t, v with
  | TInt k, LInt z => penc_int k z
  | TBool, LBool b => [if b then 1 else 0]
  | TUnit, _ => []
  | TOpt t', LOpt None => [0]
  | TOpt t', LOpt (Some x) => 1 :: penc t' x
  | TArr n t', LArr l => flat_map (penc t') l
  | TTup ts, LArr l =>
      (fix go (ts : list lty) (l : list lval) : bytes :=
         match ts, l with t' :: tr, x :: r => penc t' x ++ go tr r | _, _ => [] end) ts l
  | TStr _, LStr s => varint 10 (N.of_nat (length (utf8 s))) ++ utf8 s
  | TTag, LTag n => varint 10 (N.of_nat (length (utf8 (tag_name n)))) ++ utf8 (tag_name n)
  | TEnum _, LTag n => varint 5 n
  | TStruct fs, LArr l =>
      (fix go (fs : list (str * lty)) (l : list lval) : bytes :=
         match fs, l with (_, t') :: fr, x :: r => penc t' x ++ go fr r | _, _ => [] end) fs l
  | _, _ => []
  end.

(* all of a byte string as plain characters *)
Fixpoint utf8_all (fuel : nat) (s : bytes) : option str :=
  match fuel with O => None | S f =>
  match s with
  | [] => Some []
  | _ => match utf8_decode1 s with
         | Some (c, r) => if scalar c then match utf8_all f r with Some cs => Some (c :: cs) | None => None end else None
         | None => None end
  end end.

Fixpoint pdec (t : lty) (s : bytes) {struct t} : option (lval * bytes) :=
  match t with
  | TInt k => match pdec_int k s with Some (z, r) => Some (LInt z, r) | None => None end
  | TBool => match s with 0 :: r => Some (LBool false, r) | 1 :: r => Some (LBool true, r) | _ => None end
  | TUnit => Some (LUnit, s)
  | TOpt t' => match s with
               | 0 :: r => Some (LOpt None, r)
               | 1 :: r => match pdec t' r with Some (x, r') => Some (LOpt (Some x), r') | None => None end
               | _ => None end
  | TArr n t' =>
      wrap_arr ((fix elems (n : nat) (s : bytes) : option (list lval * bytes) :=
         match n with
         | O => Some ([], s)
         | S m => match pdec t' s with
                  | Some (x, r) => match elems m r with Some (xs, r') => Some (x :: xs, r') | None => None end
                  | None => None end
         end) n s)
  | TTup ts =>
      wrap_arr ((fix elems (ts : list lty) (s : bytes) : option (list lval * bytes) :=
         match ts with
         | [] => Some ([], s)
         | t' :: tr => match pdec t' s with
                       | Some (x, r) => match elems tr r with Some (xs, r') => Some (x :: xs, r') | None => None end
                       | None => None end
         end) ts s)
  | TStr cap =>
      match unvarint 10 s with
      | Some (n, r) => match take_bytes (N.to_nat n) r with
                       | Some (b, rest) => match utf8_all (S (length b)) b with
                                           | Some cs => if n <=? cap then Some (LStr cs, rest) else None
                                           | None => None end
                       | None => None end
      | None => None end
  | TTag =>
      match unvarint 10 s with
      | Some (n, r) => match take_bytes (N.to_nat n) r with
                       | Some (b, rest) => match utf8_all (S (length b)) b with
                                           | Some cs => match tag_of_name cs with Some k => Some (LTag k, rest) | None => None end
                                           | None => None end
                       | None => None end
      | None => None end
  | TEnum names =>
      match unvarint 5 s with
      | Some (n, r) => if (N.to_nat n <? length names)%nat then Some (LTag n, r) else None
      | None => None end
  | TStruct fs =>
      wrap_arr ((fix fields (fs : list (str * lty)) (s : bytes) : option (list lval * bytes) :=
         match fs with
         | [] => Some ([], s)
         | (_, t') :: fr => match pdec t' s with
                            | Some (x, r) => match fields fr r with Some (xs, r') => Some (x :: xs, r') | None => None end
                            | None => None end
         end) fs s)
  end.

Definition postcard_get (t : lty) (cap : N) (v : lval) : option bytes :=
  if N.of_nat (length (penc t v)) <=? cap then Some (penc t v) else None.
(* postcard::set_by_key with the Slice flavor: the value and the unused remainder *)
Definition postcard_set (t : lty) (p : bytes) : option (lval * bytes) := pdec t p.
