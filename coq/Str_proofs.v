From Coq Require Import List NArith Lia Bool Arith.
From MC Require Import Str.
Import ListNotations.

Lemma utf8_len_pos c : 1 <= utf8_len c.
Proof. unfold utf8_len. repeat destruct (_ <? _)%N; lia. Qed.

(* ---------- specification: cut at every occurrence of the separator ---------- *)
Fixpoint split (S : N) (s : str) : list str :=
  match s with
  | [] => [[]]
  | c :: r => if (c =? S)%N then [] :: split S r
              else match split S r with h :: t => (c :: h) :: t | [] => [[c]] end
  end.

Fixpoint span_sep (S : N) (s : str) : str * str :=
  match s with [] => ([], []) | c :: r =>
    if (c =? S)%N then ([], s) else let '(a, b) := span_sep S r in (c :: a, b) end.

Lemma split_at_wsum : forall a b, split_at_bytes (a ++ b) (wsum a) = Some (a, b).
Proof.
  induction a as [|c a IH]; intros b; simpl; [destruct b; reflexivity|].
  pose proof (utf8_len_pos c).
  destruct (utf8_len c + wsum a) eqn:E; [lia|]. rewrite <- E.
  replace (utf8_len c <=? utf8_len c + wsum a) with true by (symmetry; apply Nat.leb_le; lia).
  replace (utf8_len c + wsum a - utf8_len c) with (wsum a) by lia.
  rewrite IH. reflexivity.
Qed.

Lemma get_from_wsum a b : get_from (a ++ b) (wsum a) = Some b.
Proof. unfold get_from. rewrite split_at_wsum. reflexivity. Qed.

Lemma span_sep_app S : forall s, let '(a, b) := span_sep S s in s = a ++ b /\ pos_of S s = wsum a.
Proof.
  induction s as [|c r IH]; simpl; [split; reflexivity|].
  destruct (c =? S)%N; [split; reflexivity|].
  destruct (span_sep S r) as [a b]. destruct IH as [-> ->]. split; reflexivity.
Qed.

Lemma split_at_pos S s : split_at_bytes s (pos_of S s) = Some (span_sep S s).
Proof.
  pose proof (span_sep_app S s) as H. destruct (span_sep S s) as [a b]. destruct H as [-> ->].
  apply split_at_wsum.
Qed.

Lemma get_after_sep S r : get_from (S :: r) (utf8_len S) = Some r.
Proof.
  change (S :: r) with ([S] ++ r). replace (utf8_len S) with (wsum [S]) by (simpl; lia).
  apply get_from_wsum.
Qed.
Lemma get_nil n : 1 <= n -> get_from [] n = None.
Proof. unfold get_from. destruct n; [lia|reflexivity]. Qed.

Lemma span_sep_spec S : forall s a b, span_sep S s = (a, b) ->
  (b = [] \/ exists r, b = S :: r) /\ length b <= length s /\
  split S s = a :: match b with [] => [] | _ :: r => split S r end.
Proof.
  induction s as [|c r IH]; intros a b H; simpl in H.
  - injection H as <- <-. simpl. auto.
  - destruct (N.eqb_spec c S) as [->|Hne].
    + injection H as <- <-. simpl. rewrite N.eqb_refl. split; [right; eauto|]. split; [lia|reflexivity].
    + destruct (span_sep S r) as [a' b'] eqn:E. injection H as <- <-.
      destruct (IH _ _ eq_refl) as [Hb [Hl Hs]]. split; [exact Hb|]. split; [simpl; lia|].
      simpl. destruct (N.eqb_spec c S); [congruence|]. rewrite Hs. reflexivity.
Qed.

(* the iterator never panics, for any separator (multi-byte included) and any text *)
Theorem path_next_no_panic S st : path_next S st <> Panic.
Proof. destruct st as [s|]; simpl; [|discriminate]. rewrite split_at_pos. destruct (span_sep S s). discriminate. Qed.

Theorem collect_is_split S : forall fuel s, length s + 1 < fuel -> collect fuel S (Some s) = split S s.
Proof.
  induction fuel as [|f IH]; intros s Hf; [lia|].
  cbn [collect path_next]. rewrite split_at_pos. destruct (span_sep S s) as [a b] eqn:E.
  destruct (span_sep_spec S s a b E) as [Hb [Hl Hs]]. rewrite Hs. f_equal.
  destruct Hb as [-> | [r ->]].
  - rewrite get_nil by apply utf8_len_pos. destruct f; reflexivity.
  - rewrite get_after_sep. apply IH. simpl in Hl. lia.
Qed.

Theorem new_is_split S s : path_keys_new S s = split S s.
Proof. unfold path_keys_new. apply collect_is_split. lia. Qed.

(* PathIter::root drops the first segment: "" is the root, "/" is one empty key *)
Theorem root_is_tl_split S s : root_keys S s = tl (split S s).
Proof. unfold root_keys. rewrite new_is_split. reflexivity. Qed.

Theorem root_empty S : root_keys S [] = [].
Proof. rewrite root_is_tl_split. reflexivity. Qed.
Theorem root_lone_sep S : root_keys S [S] = [[]].
Proof. rewrite root_is_tl_split. simpl. rewrite N.eqb_refl. reflexivity. Qed.

(* fused: once exhausted, always exhausted *)
Theorem path_fused S : path_next S None = Yield None None.
Proof. reflexivity. Qed.

(* the written form of a node's names parses back to the names *)
Definition sep_free (S : N) (n : str) : Prop := ~ In S n.

Lemma split_sep_free S : forall n, sep_free S n -> split S n = [n].
Proof.
  induction n as [|c n IH]; intros H; [reflexivity|]. simpl.
  destruct (N.eqb_spec c S) as [->|Hne]; [exfalso; apply H; left; reflexivity|].
  rewrite IH; [reflexivity|]. intros Hin. apply H. right. exact Hin.
Qed.

Lemma split_app_sep S : forall n r, sep_free S n -> split S (n ++ S :: r) = n :: split S r.
Proof.
  induction n as [|c n IH]; intros r H; simpl.
  - rewrite N.eqb_refl. reflexivity.
  - destruct (N.eqb_spec c S) as [->|Hne]; [exfalso; apply H; left; reflexivity|].
    rewrite IH; [reflexivity|]. intros Hin. apply H. right. exact Hin.
Qed.

Lemma split_written S : forall names, Forall (sep_free S) names ->
  split S (path_write S names) = [] :: names.
Proof.
  unfold path_write. induction names as [|n r IH]; intros H; [reflexivity|].
  inversion H as [|? ? Hn Hr]; subst. cbn [map concat].
  change ((S :: n) ++ concat (map (cons S) r)) with (S :: (n ++ concat (map (cons S) r))).
  cbn [split]. rewrite N.eqb_refl. f_equal.
  destruct r as [|n' r'].
  - simpl. rewrite app_nil_r. apply split_sep_free. exact Hn.
  - cbn [map concat]. change ((S :: n') ++ concat (map (cons S) r')) with (S :: (n' ++ concat (map (cons S) r'))).
    rewrite split_app_sep by exact Hn. f_equal.
    specialize (IH Hr). cbn [map concat] in IH.
    change ((S :: n') ++ concat (map (cons S) r')) with (S :: (n' ++ concat (map (cons S) r'))) in IH.
    cbn [split] in IH. rewrite N.eqb_refl in IH. injection IH as IH. exact IH.
Qed.

Theorem path_written_form S names : Forall (sep_free S) names ->
  root_keys S (path_write S names) = names.
Proof. intros H. rewrite root_is_tl_split, split_written by exact H. reflexivity. Qed.

(* ====================================================================== *)
(* JsonPathIter                                                           *)
(* ====================================================================== *)
Lemma split_at_0 s : split_at_bytes s 0 = Some ([], s).
Proof. destruct s; reflexivity. Qed.
Lemma get_from_0 s : get_from s 0 = Some s.
Proof. unfold get_from. rewrite split_at_0. reflexivity. Qed.

Lemma strip_prefix_app p : forall t, strip_prefix p (p ++ t) = Some t.
Proof. induction p as [|a p IH]; intros t; simpl; [reflexivity|]. rewrite N.eqb_refl. apply IH. Qed.

Lemma strip_prefix_spec : forall p s r, strip_prefix p s = Some r -> s = p ++ r.
Proof.
  induction p as [|a p IH]; intros s r H; simpl in H.
  - injection H as ->. reflexivity.
  - destruct s as [|c s]; [discriminate|]. destruct (N.eqb_spec a c) as [->|]; [|discriminate].
    simpl. f_equal. apply IH. exact H.
Qed.

Lemma find_str_spec p : forall s e, find_str p s = Some e -> exists a b, s = a ++ p ++ b /\ e = wsum a.
Proof.
  induction s as [|c s IH]; intros e H; cbn [find_str] in H.
  - unfold is_prefix in H. destruct (strip_prefix p []) as [r|] eqn:E; [|discriminate].
    injection H as <-. exists [], r. split; [apply strip_prefix_spec in E; exact E|reflexivity].
  - unfold is_prefix in H. destruct (strip_prefix p (c :: s)) as [r|] eqn:E.
    + injection H as <-. exists [], r. split; [apply strip_prefix_spec in E; exact E|reflexivity].
    + destruct (find_str p s) as [n|] eqn:F; [|discriminate]. injection H as <-.
      destruct (IH n eq_refl) as (a & b & -> & ->). exists (c :: a), b. split; reflexivity.
Qed.

Lemma find_any_spec cs : forall s, exists a b, s = a ++ b /\ find_any_or_len cs s = wsum a.
Proof.
  induction s as [|c s IH]; simpl.
  - exists [], []. split; reflexivity.
  - destruct (existsb (N.eqb c) cs).
    + exists [], (c :: s). split; reflexivity.
    + destruct IH as (a & b & -> & ->). exists (c :: a), b. split; reflexivity.
Qed.

Lemma jcut_app a p b : jcut (a ++ p ++ b) (wsum a) (wsum p) = JSome a b.
Proof. unfold jcut. rewrite split_at_wsum, get_from_wsum. reflexivity. Qed.

(* no input makes JsonPathIter::next slice off a char boundary or out of range *)
Theorem json_next_no_panic s : json_next s <> JPanic.
Proof.
  unfold json_next. generalize jrules. intros rules. induction rules as [|[open close] r IH]; simpl; [discriminate|].
  destruct (strip_prefix open s) as [rest|]; [|exact IH].
  destruct close as [cs|pat].
  - destruct (find_any_spec cs rest) as (a & b & -> & ->).
    change (a ++ b) with (a ++ [] ++ b). change 0 with (wsum []). rewrite jcut_app. discriminate.
  - destruct (find_str pat rest) as [e|] eqn:F; [|discriminate].
    destruct (find_str_spec _ _ _ F) as (a & b & -> & ->). rewrite jcut_app. discriminate.
Qed.


Definition delim_free (n : str) : Prop := ~ In DOT n /\ ~ In QUOTE n /\ ~ In LBR n /\ ~ In RBR n.
(* what may follow a key: nothing, or another key in any notation *)
Definition jtail (t : str) : Prop := t = [] \/ exists r, t = DOT :: r \/ t = LBR :: r.

Lemma find_str_app a p : forall n t, ~ In a n -> find_str (a :: p) (n ++ (a :: p) ++ t) = Some (wsum n).
Proof.
  induction n as [|c n IH]; intros t H.
  - change ([] ++ (a :: p) ++ t) with ((a :: p) ++ t).
    destruct ((a :: p) ++ t) eqn:E; [discriminate|]. cbn [find_str]. rewrite <- E.
    unfold is_prefix. rewrite strip_prefix_app. reflexivity.
  - change ((c :: n) ++ (a :: p) ++ t) with (c :: (n ++ (a :: p) ++ t)). cbn [find_str].
    unfold is_prefix. cbn [strip_prefix].
    destruct (N.eqb_spec a c) as [->|Hne]; [exfalso; apply H; left; reflexivity|].
    rewrite IH; [reflexivity|]. intros Hin. apply H. right. exact Hin.
Qed.

Lemma find_any_app cs : forall n t, (forall c, In c n -> existsb (N.eqb c) cs = false) ->
  (t = [] \/ exists c r, t = c :: r /\ existsb (N.eqb c) cs = true) ->
  find_any_or_len cs (n ++ t) = wsum n.
Proof.
  induction n as [|c n IH]; intros t Hn Ht.
  - simpl. destruct Ht as [->|(c & r & -> & Hc)]; simpl; [reflexivity|]. rewrite Hc. reflexivity.
  - simpl. rewrite (Hn c (or_introl eq_refl)). rewrite IH; [reflexivity| |exact Ht].
    intros c' Hin. apply Hn. right. exact Hin.
Qed.

Lemma strip_hd_ne (a : N) (p s : str) : match s with [] => True | c :: _ => c <> a end -> strip_prefix (a :: p) s = None.
Proof. destruct s as [|c s]; simpl; [reflexivity|]. intros H. destruct (N.eqb_spec a c); [congruence|reflexivity]. Qed.

Lemma hd_app_ne (a : N) (n t : str) : ~ In a n -> (t = [] \/ exists c r, t = c :: r /\ c <> a) ->
  match n ++ t with [] => True | c :: _ => c <> a end.
Proof.
  intros Hn Ht. destruct n as [|c n]; simpl.
  - destruct Ht as [->|(c & r & -> & Hc)]; [exact I|exact Hc].
  - intros ->. apply Hn. left. reflexivity.
Qed.

Lemma jtail_hd_ne (a : N) (t : str) : jtail t -> a <> DOT -> a <> LBR -> (t = [] \/ exists c r, t = c :: r /\ c <> a).
Proof.
  intros [->|(r & [->| ->])] H1 H2; [left; reflexivity| |]; right; eexists _, _; split; try reflexivity; congruence.
Qed.

Lemma strip_cons_eq (a : N) (p s : str) : strip_prefix (a :: p) (a :: s) = strip_prefix p s.
Proof. simpl. rewrite N.eqb_refl. reflexivity. Qed.
Lemma strip_nil (s : str) : strip_prefix [] s = Some s.
Proof. reflexivity. Qed.

(* one key in any of the four notations, followed by anything that starts another key *)
Lemma json_next_render k n t : delim_free n -> jtail t -> json_next (jrender k n ++ t) = JSome n t.
Proof.
  intros (Hd & Hq & Hl & Hr) Ht. unfold json_next, jrules.
  destruct k; cbn [jrender app]; cbn [json_try].
  - (* .n *)
    rewrite strip_cons_eq.
    rewrite strip_hd_ne by (apply hd_app_ne; [exact Hq|apply jtail_hd_ne; [exact Ht|discriminate|discriminate]]).
    rewrite strip_cons_eq, strip_nil.
    rewrite find_any_app.
    + change (n ++ t) with (n ++ [] ++ t). change 0 with (wsum []). apply jcut_app.
    + intros c Hc. simpl. destruct (N.eqb_spec c DOT) as [->|]; [contradiction|].
      destruct (N.eqb_spec c LBR) as [->|]; [contradiction|reflexivity].
    + destruct Ht as [->|(r & [->| ->])]; [left; reflexivity| |]; right; eexists _, _; split; reflexivity.
  - (* .'n' *)
    rewrite !strip_cons_eq, strip_nil. rewrite <- app_assoc.
    rewrite (find_str_app QUOTE [] n t Hq). apply (jcut_app n [QUOTE] t).
  - (* [n] *)
    rewrite (strip_hd_ne DOT [QUOTE]) by discriminate.
    rewrite (strip_hd_ne DOT []) by discriminate.
    rewrite strip_cons_eq. rewrite <- app_assoc.
    rewrite strip_hd_ne by (apply hd_app_ne; [exact Hq|right; eexists _, _; split; [reflexivity|discriminate]]).
    rewrite strip_cons_eq, strip_nil.
    rewrite (find_str_app RBR [] n t Hr). apply (jcut_app n [RBR] t).
  - (* ['n'] *)
    rewrite (strip_hd_ne DOT [QUOTE]) by discriminate.
    rewrite (strip_hd_ne DOT []) by discriminate.
    rewrite !strip_cons_eq, strip_nil. rewrite <- app_assoc.
    rewrite (find_str_app QUOTE [RBR] n t Hq). apply (jcut_app n [QUOTE; RBR] t).
Qed.

Lemma jrender_all_tail ks ns : jtail (jrender_all ks ns).
Proof.
  destruct ks as [|k ks], ns as [|n ns]; try (left; reflexivity).
  right. destruct k; simpl; eexists; (left; reflexivity) || (right; reflexivity).
Qed.

Lemma json_collect_render : forall ks ns fuel, length ks = length ns -> Forall delim_free ns ->
  length ns < fuel -> json_collect fuel (jrender_all ks ns) = ns.
Proof.
  induction ks as [|k ks IH]; intros ns fuel Hlen Hf Hfuel.
  - destruct ns; [|discriminate]. destruct fuel; reflexivity.
  - destruct ns as [|n ns]; [discriminate|]. destruct fuel as [|fuel]; [simpl in Hfuel; lia|].
    inversion Hf as [|? ? Hn Hns]; subst. cbn [jrender_all json_collect].
    rewrite json_next_render by (auto using jrender_all_tail). f_equal.
    apply IH; [simpl in Hlen; lia|exact Hns|simpl in Hfuel; lia].
Qed.

Lemma jrender_all_length : forall ks ns, length ks = length ns -> length ns <= length (jrender_all ks ns).
Proof.
  induction ks as [|k ks IH]; intros [|n ns] H; simpl in *; try lia.
  rewrite app_length. specialize (IH ns ltac:(lia)). destruct k; simpl; lia.
Qed.

(* The dot, bracket and quoted notations, mixed freely per key, yield identical keys. *)
Theorem json_notations_agree ks ns : length ks = length ns -> Forall delim_free ns ->
  json_keys (jrender_all ks ns) = ns.
Proof.
  intros Hl Hf. unfold json_keys. apply json_collect_render; [exact Hl|exact Hf|].
  pose proof (jrender_all_length ks ns Hl). lia.
Qed.

(* fused: a None leaves the state as it is, so the iterator keeps answering None *)
Theorem json_fused s : json_next s = JNone -> forall fuel, json_collect fuel s = [].
Proof. intros H [|fuel]; [reflexivity|]. simpl. rewrite H. reflexivity. Qed.

(* ---- the written JSON path of a node parses back to its keys ---- *)
Definition is_digit (c : N) : Prop := (48 <= c <= 57)%N.
Lemma itoa_aux_digits : forall fuel n acc, Forall is_digit acc -> Forall is_digit (itoa_aux fuel n acc).
Proof.
  induction fuel as [|f IH]; intros n acc H; simpl; [exact H|].
  assert (Hd : is_digit (48 + n mod 10)%N).
  { unfold is_digit. pose proof (N.mod_upper_bound n 10 ltac:(lia)) as Hm. remember (n mod 10)%N as m. lia. }
  destruct (n <? 10)%N; [constructor; assumption|]. apply IH. constructor; assumption.
Qed.
Lemma itoa_digits n : Forall is_digit (itoa n).
Proof. apply itoa_aux_digits. constructor. Qed.
Lemma digits_delim_free s : Forall is_digit s -> delim_free s.
Proof.
  intros H. unfold delim_free, DOT, QUOTE, LBR, RBR.
  repeat split; intros Hin; rewrite Forall_forall in H; apply H in Hin; unfold is_digit in Hin; lia.
Qed.

Definition json_key_of (item : option str * N) : str :=
  match fst item with Some n => n | None => itoa (snd item) end.
Definition json_kind_of (item : option str * N) : jnot :=
  match fst item with Some _ => NDot | None => NBracket end.
Definition json_write (items : list (option str * N)) : str :=
  concat (map (fun it => json_write_one (fst it) (snd it)) items).

Lemma json_write_render items :
  json_write items = jrender_all (map json_kind_of items) (map json_key_of items).
Proof.
  unfold json_write. induction items as [|[nm i] r IH]; [reflexivity|].
  cbn [map concat jrender_all]. rewrite IH. unfold json_write_one, json_kind_of, json_key_of.
  destruct nm; reflexivity.
Qed.

Theorem json_written_form items :
  Forall (fun it => match fst it with Some n => delim_free n | None => True end) items ->
  json_keys (json_write items) = map json_key_of items.
Proof.
  intros H. rewrite json_write_render. apply json_notations_agree; [rewrite !map_length; reflexivity|].
  rewrite Forall_map. rewrite Forall_forall in *. intros [nm i] Hin. specialize (H _ Hin).
  unfold json_key_of. simpl in *. destruct nm; [exact H|]. apply digits_delim_free, itoa_digits.
Qed.
