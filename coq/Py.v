(* Model of the Python client's dispatcher (async_.py / sync.py: Miniconf._dispatch and the tail of
   Miniconf._do) and of common._Path.normalize, with the C17 theorems.  Lifted from the design-phase probe. *)
From Coq Require Import List NArith Lia Bool.
Import ListNotations.

(* ------- model of Miniconf._dispatch (async_.py:68-109, sync.py:62-104) ------- *)
Definition cd := N.                       (* correlation data (abstract id) *)
Definition payload := list N.
Inductive code := Continue | Ok | Other (c : N).
Record msg := { topic_ok : bool; mcd : option cd; mcode : option code; body : payload }.

Definition inflight := list (cd * list payload).
Inductive completion := Result (c : cd) (ret : list payload) | Raised (c : cd) (code : N) (text : payload).

Fixpoint lookup (c : cd) (st : inflight) : option (list payload) :=
  match st with [] => None | (k, v) :: r => if N.eqb k c then Some v else lookup c r end.
Fixpoint update (c : cd) (v : list payload) (st : inflight) : inflight :=
  match st with [] => [] | (k, w) :: r => if N.eqb k c then (k, v) :: r else (k, w) :: update c v r end.
Fixpoint remove (c : cd) (st : inflight) : inflight :=
  match st with [] => [] | (k, w) :: r => if N.eqb k c then remove c r else (k, w) :: remove c r end.

Definition dispatch (st : inflight) (m : msg) : inflight * list completion :=
  if negb (topic_ok m) then (st, []) else
  match mcd m with None => (st, []) | Some c =>
  match lookup c st with None => (st, []) | Some ret =>
  match mcode m with None => (st, [])
  | Some Continue => (update c (ret ++ [body m]) st, [])
  | Some Ok => (remove c st, [Result c (match body m with [] => ret | _ => ret ++ [body m] end)])
  | Some (Other e) => (remove c st, [Raised c e (body m)])
  end end end.

Fixpoint run (st : inflight) (ms : list msg) : inflight * list completion :=
  match ms with [] => (st, []) | m :: r =>
  let '(st1, o1) := dispatch st m in let '(st2, o2) := run st1 r in (st2, o1 ++ o2) end.

Definition of_cd (c : cd) (x : completion) : bool :=
  match x with Result k _ | Raised k _ _ => N.eqb k c end.
Definition mine (c : cd) (m : msg) : bool :=
  topic_ok m && match mcd m with Some k => N.eqb k c | None => false end
  && match mcode m with Some _ => true | None => false end.

(* ------- map lemmas ------- *)
Lemma lookup_update c v st k : lookup k (update c v st) =
  if N.eqb c k then (match lookup c st with Some _ => Some v | None => None end) else lookup k st.
Proof.
  induction st as [|[k0 w] r IH]; cbn [update lookup].
  - destruct (N.eqb c k); reflexivity.
  - destruct (N.eqb_spec k0 c) as [E|Hne]; cbn [lookup].
    + subst k0. destruct (N.eqb_spec c k); reflexivity.
    + destruct (N.eqb_spec k0 k) as [E|Hk].
      * subst k0. destruct (N.eqb_spec c k); [congruence|reflexivity].
      * exact IH.
Qed.

Lemma lookup_remove c st k : lookup k (remove c st) = if N.eqb c k then None else lookup k st.
Proof.
  induction st as [|[k0 w] r IH]; cbn [remove lookup].
  - destruct (N.eqb c k); reflexivity.
  - destruct (N.eqb_spec k0 c) as [E|Hne]; cbn [lookup].
    + subst k0. rewrite IH. destruct (N.eqb_spec c k); reflexivity.
    + destruct (N.eqb_spec k0 k) as [E|Hk].
      * subst k0. destruct (N.eqb_spec c k); [congruence|reflexivity].
      * exact IH.
Qed.

(* one request seen in isolation *)
Definition solo (c : cd) (st : inflight) : inflight :=
  match lookup c st with Some ret => [(c, ret)] | None => [] end.

Lemma lookup_solo c st : lookup c (solo c st) = lookup c st.
Proof. unfold solo. destruct (lookup c st); simpl; [rewrite N.eqb_refl|]; reflexivity. Qed.

(* what one dispatch does to request c depends only on c's own entry and the message *)
Lemma dispatch_local c st m :
  lookup c (fst (dispatch st m)) = lookup c (fst (dispatch (solo c st) m)) /\
  filter (of_cd c) (snd (dispatch st m)) = snd (dispatch (solo c st) m).
Proof.
  unfold dispatch. destruct (topic_ok m); simpl; [|split; [symmetry; apply lookup_solo|reflexivity]].
  destruct (mcd m) as [k|]; [|split; [symmetry; apply lookup_solo|reflexivity]].
  destruct (N.eqb_spec k c) as [->|Hne].
  - rewrite lookup_solo. destruct (lookup c st) as [ret|] eqn:E.
    + assert (Hs : solo c st = [(c, ret)]) by (unfold solo; rewrite E; reflexivity).
      rewrite Hs.
      destruct (mcode m) as [[| |e]|]; cbn [fst snd filter of_cd update remove lookup];
        rewrite ?lookup_update, ?lookup_remove, ?N.eqb_refl, ?E; cbn [lookup filter of_cd];
        rewrite ?N.eqb_refl; split; reflexivity.
    + split; [symmetry; apply lookup_solo|reflexivity].
  - (* a message for another request: inert for c *)
    assert (Hs : lookup k (solo c st) = None).
    { unfold solo. destruct (lookup c st); simpl; [|reflexivity].
      destruct (N.eqb_spec c k); [congruence|reflexivity]. }
    rewrite Hs. destruct (lookup k st) as [ret|]; [|split; [symmetry; apply lookup_solo|reflexivity]].
    assert (Hkc : N.eqb k c = false) by (apply N.eqb_neq; assumption).
    destruct (mcode m) as [[| |e]|]; simpl;
      rewrite ?lookup_update, ?lookup_remove, ?Hkc, ?lookup_solo; simpl; rewrite ?Hkc;
      split; reflexivity.
Qed.

(* solo is idempotent up to lookup, so the locality lifts to whole runs *)
Lemma solo_dispatch_solo c st m :
  solo c (fst (dispatch (solo c st) m)) = fst (dispatch (solo c st) m).
Proof.
  unfold solo at 2 3. destruct (lookup c st) as [ret|] eqn:E.
  - unfold dispatch. destruct (topic_ok m); simpl; [|unfold solo; simpl; rewrite N.eqb_refl; reflexivity].
    destruct (mcd m) as [k|]; [|unfold solo; simpl; rewrite N.eqb_refl; reflexivity].
    simpl. destruct (N.eqb_spec c k) as [<-|Hne]; [|unfold solo; simpl; rewrite N.eqb_refl; reflexivity].
    destruct (mcode m) as [[| |e]|]; simpl; rewrite ?N.eqb_refl; unfold solo; simpl; rewrite ?N.eqb_refl; reflexivity.
  - unfold dispatch. destruct (topic_ok m); simpl; [|reflexivity].
    destruct (mcd m); reflexivity.
Qed.

Theorem dispatch_projection c : forall ms st,
  filter (of_cd c) (snd (run st ms)) = snd (run (solo c st) ms).
Proof.
  induction ms as [|m r IH]; intros st; [reflexivity|].
  cbn [run].
  destruct (dispatch st m) as [st1 o1] eqn:E1.
  destruct (dispatch (solo c st) m) as [s1 p1] eqn:E2.
  destruct (run st1 r) as [st2 o2] eqn:R1. destruct (run s1 r) as [s2 p2] eqn:R2.
  simpl. rewrite filter_app.
  pose proof (dispatch_local c st m) as [Hl Ho]. rewrite E1, E2 in Hl, Ho. simpl in Hl, Ho.
  rewrite Ho. f_equal.
  specialize (IH st1). rewrite R1 in IH. simpl in IH. rewrite IH.
  (* solo c st1 = s1, because s1 is already solo and agrees on c *)
  assert (Hs : solo c st1 = s1).
  { pose proof (solo_dispatch_solo c st m) as H. rewrite E2 in H. simpl in H.
    rewrite <- H. unfold solo. rewrite Hl. reflexivity. }
  rewrite Hs, R2. reflexivity.
Qed.

(* messages that are not addressed to c (foreign topic, other/missing correlation data,
   missing code) can be deleted from the history without changing c's outcome *)
Lemma not_mine_inert c st m : mine c m = false ->
  dispatch (solo c st) m = (solo c st, []).
Proof.
  unfold mine, dispatch. destruct (topic_ok m); simpl; [|reflexivity].
  destruct (mcd m) as [k|]; [|reflexivity]. simpl.
  destruct (N.eqb_spec k c) as [->|Hne]; simpl.
  - destruct (mcode m); [discriminate|]. intros _. destruct (lookup c (solo c st)); reflexivity.
  - intros _. unfold solo. destruct (lookup c st); simpl; [|reflexivity].
    destruct (N.eqb_spec c k); [congruence|reflexivity].
Qed.

Theorem junk_is_inert c : forall ms st,
  snd (run (solo c st) ms) = snd (run (solo c st) (filter (mine c) ms)).
Proof.
  induction ms as [|m r IH]; intros st; [reflexivity|].
  cbn [filter]. destruct (mine c m) eqn:Hm.
  - cbn [run]. destruct (dispatch (solo c st) m) as [s1 p1] eqn:E.
    pose proof (solo_dispatch_solo c st m) as H. rewrite E in H. simpl in H.
    rewrite <- H.
    destruct (run (solo c s1) r) as [s2 p2] eqn:R1.
    destruct (run (solo c s1) (filter (mine c) r)) as [s3 p3] eqn:R2.
    simpl. f_equal. specialize (IH s1). rewrite R1, R2 in IH. exact IH.
  - cbn [run]. rewrite (not_mine_inert c st m Hm).
    destruct (run (solo c st) r) as [s2 p2] eqn:R. simpl. specialize (IH st). rewrite R in IH. exact IH.
Qed.

Lemma run_nil ms : run [] ms = ([], []).
Proof.
  induction ms as [|m r IH]; [reflexivity|]. cbn [run]. unfold dispatch.
  destruct (topic_ok m); simpl; [destruct (mcd m); simpl|]; rewrite IH; reflexivity.
Qed.

(* each request completes at most once *)
Theorem at_most_once c : forall ms st, length (snd (run (solo c st) ms)) <= 1.
Proof.
  induction ms as [|m r IH]; intros st; [simpl; lia|].
  cbn [run]. destruct (dispatch (solo c st) m) as [s1 p1] eqn:E.
  pose proof (solo_dispatch_solo c st m) as H. rewrite E in H. simpl in H.
  destruct (run s1 r) as [s2 p2] eqn:R. simpl. rewrite app_length.
  unfold dispatch in E. destruct (topic_ok m); simpl in E.
  2:{ injection E as <- <-. specialize (IH st). rewrite R in IH. simpl in *. lia. }
  destruct (mcd m) as [k|].
  2:{ injection E as <- <-. specialize (IH st). rewrite R in IH. simpl in *. lia. }
  destruct (lookup k (solo c st)) as [ret|] eqn:L.
  2:{ injection E as <- <-. specialize (IH st). rewrite R in IH. simpl in *. lia. }
  assert (k = c) as ->.
  { unfold solo in L. destruct (lookup c st); simpl in L; [|discriminate].
    destruct (N.eqb_spec c k); [congruence|discriminate]. }
  destruct (mcode m) as [[| |e]|].
  - injection E as <- <-. rewrite <- H in R. specialize (IH (update c (ret ++ [body m]) (solo c st))).
    rewrite R in IH. simpl in *. lia.
  - (* completed: entry removed, nothing can follow *)
    injection E as <- <-.
    assert (Hgone : forall ms' s, lookup c s = None -> snd (run (solo c s) ms') = []).
    { intros ms' s Hs. assert (solo c s = []) as -> by (unfold solo; rewrite Hs; reflexivity).
      rewrite run_nil. reflexivity. }
    assert (Hrm : lookup c (remove c (solo c st)) = None) by (rewrite lookup_remove, N.eqb_refl; reflexivity).
    rewrite <- H in R. pose proof (Hgone r _ Hrm) as G. rewrite R in G. simpl in G. subst p2. simpl. lia.
  - injection E as <- <-.
    assert (Hgone : forall ms' s, lookup c s = None -> snd (run (solo c s) ms') = []).
    { intros ms' s Hs. assert (solo c s = []) as -> by (unfold solo; rewrite Hs; reflexivity).
      rewrite run_nil. reflexivity. }
    assert (Hrm : lookup c (remove c (solo c st)) = None) by (rewrite lookup_remove, N.eqb_refl; reflexivity).
    rewrite <- H in R. pose proof (Hgone r _ Hrm) as G. rewrite R in G. simpl in G. subst p2. simpl. lia.
  - injection E as <- <-. specialize (IH st). rewrite R in IH. simpl in *. lia.
Qed.



(* ====================================================================== *)
(* a request's own messages decide its completion                           *)
(* ====================================================================== *)
Definition cont_msg (c : cd) (b : payload) : msg := {| topic_ok := true; mcd := Some c; mcode := Some Continue; body := b |}.
Definition ok_msg (c : cd) (b : payload) : msg := {| topic_ok := true; mcd := Some c; mcode := Some Ok; body := b |}.
Definition err_msg (c : cd) (e : N) (b : payload) : msg := {| topic_ok := true; mcd := Some c; mcode := Some (Other e); body := b |}.

Lemma run_conts c : forall bs ret rest,
  run [(c, ret)] (map (cont_msg c) bs ++ rest) = run [(c, ret ++ bs)] rest.
Proof.
  induction bs as [|b bs IH]; intros ret rest; [rewrite app_nil_r; reflexivity|].
  cbn [map app run dispatch cont_msg topic_ok mcd mcode body negb lookup update]. rewrite !N.eqb_refl.
  rewrite IH. rewrite <- app_assoc. cbn [app]. destruct (run [(c, ret ++ b :: bs)] rest) as [st2 o2]. reflexivity.
Qed.

(* all Continue payloads in arrival order, then the final Ok payload if it is not empty; exactly one
   completion; whatever follows (duplicates, late messages) is ignored *)
Theorem own_ok_completes c bs b rest :
  snd (run [(c, [])] (map (cont_msg c) bs ++ ok_msg c b :: rest)) =
  [Result c (match b with [] => bs | _ => bs ++ [b] end)].
Proof.
  rewrite run_conts. cbn [app run dispatch ok_msg topic_ok mcd mcode body negb lookup remove].
  rewrite !N.eqb_refl. rewrite run_nil. reflexivity.
Qed.
Theorem own_error_raises c bs e b rest :
  snd (run [(c, [])] (map (cont_msg c) bs ++ err_msg c e b :: rest)) = [Raised c e b].
Proof.
  rewrite run_conts. cbn [app run dispatch err_msg topic_ok mcd mcode body negb lookup remove].
  rewrite !N.eqb_refl. rewrite run_nil. reflexivity.
Qed.
(* without a final message the request does not complete *)
Theorem own_pending c bs : snd (run [(c, [])] (map (cont_msg c) bs)) = [].
Proof. rewrite <- (app_nil_r (map (cont_msg c) bs)), run_conts. reflexivity. Qed.

(* ====================================================================== *)
(* the tail of _do: what the caller gets                                    *)
(* ====================================================================== *)
Inductive outcome :=
| Value (x : payload)                 (* response=1: the single payload *)
| Values (xs : list payload)          (* response=2: the list *)
| NotALeaf (xs : list payload)        (* MiniconfException("Not a leaf", ret) *)
| Failed (code : N) (text : payload)  (* MiniconfException(code, text) from the device *)
| AssertEmpty                         (* `assert ret` on an empty list *)
| Pending.

Definition finish (mode : N) (x : option completion) : outcome :=
  match x with
  | None => Pending
  | Some (Raised _ e t) => Failed e t
  | Some (Result _ ret) =>
      if (mode =? 1)%N then (match ret with [x] => Value x | _ => NotALeaf ret end)
      else (match ret with [] => AssertEmpty | _ => Values ret end)
  end.

(* the synchronous client stores the error in the payload list: ret[:] = [exc]; _do raises it when
   it finds exactly one element that is an exception *)
Inductive sitem := SText (p : payload) | SExc (e : N) (t : payload).
Definition sync_ret (x : completion) : list sitem :=
  match x with Result _ ret => map SText ret | Raised _ e t => [SExc e t] end.
Definition finish_sync (mode : N) (x : option (list sitem)) : outcome :=
  match x with
  | None => Pending
  | Some [SExc e t] => Failed e t
  | Some ret =>
      let texts := flat_map (fun i => match i with SText p => [p] | SExc _ t => [t] end) ret in
      if (mode =? 1)%N then (match ret with [SText x] => Value x | _ => NotALeaf texts end)
      else (match ret with [] => AssertEmpty | _ => Values texts end)
  end.

Lemma flat_map_stext ret : flat_map (fun i => match i with SText p => [p] | SExc _ t => [t] end) (map SText ret) = ret.
Proof. induction ret as [|x r IH]; simpl; [reflexivity|]. rewrite IH. reflexivity. Qed.

Theorem sync_async_agree mode x : finish_sync mode (option_map sync_ret x) = finish mode x.
Proof.
  destruct x as [[c ret|c e t]|]; simpl; try reflexivity.
  destruct ret as [|a [|b r]]; cbn [map finish_sync flat_map app].
  - destruct (mode =? 1)%N; reflexivity.
  - destruct (mode =? 1)%N; reflexivity.
  - rewrite flat_map_stext. destruct (mode =? 1)%N; reflexivity.
Qed.

(* ====================================================================== *)
(* _Path.normalize                                                          *)
(* ====================================================================== *)
Definition SLASH := 47%N.
(* path[: path.rfind("/")]  (for a path without "/", rfind = -1 and path[:-1] drops the last char) *)
Fixpoint has_slash (p : list N) : bool := match p with [] => false | c :: r => (c =? SLASH)%N || has_slash r end.
Fixpoint dirname (p : list N) : list N :=
  match p with
  | [] => []
  | c :: r => if has_slash r then c :: dirname r else (if (c =? SLASH)%N then [] else match r with [] => [] | _ => c :: dirname r end)
  end.
Definition is_abs (p : list N) : bool := match p with [] => true | c :: _ => (c =? SLASH)%N end.
(* returns (result, new current) *)
Definition normalize (current p : list N) : list N * list N :=
  if is_abs p then (p, dirname p) else (current ++ SLASH :: p, current).
Fixpoint normalize_all (current : list N) (ps : list (list N)) : list (list N) * list N :=
  match ps with
  | [] => ([], current)
  | p :: r => let '(x, cur') := normalize current p in let '(xs, c2) := normalize_all cur' r in (x :: xs, c2)
  end.

Definition absolute (p : list N) : Prop := p = [] \/ exists r, p = SLASH :: r.

Lemma dirname_abs p : absolute p -> absolute (dirname p).
Proof.
  intros [->|[r ->]]; [left; reflexivity|]. cbn [dirname]. rewrite N.eqb_refl.
  destruct (has_slash r); [right; eexists; reflexivity|left; reflexivity].
Qed.

Lemma is_abs_spec p : is_abs p = true -> absolute p.
Proof. destruct p as [|c r]; [left; reflexivity|]. simpl. intros H. apply N.eqb_eq in H. subst. right. eexists; reflexivity. Qed.

(* every result is empty or starts with a slash, and so does the reference directory *)
Theorem normalize_abs : forall ps current, absolute current ->
  Forall absolute (fst (normalize_all current ps)) /\ absolute (snd (normalize_all current ps)).
Proof.
  induction ps as [|p r IH]; intros current Hc; [split; [constructor|exact Hc]|].
  cbn [normalize_all]. unfold normalize. destruct (is_abs p) eqn:Ea.
  - pose proof (is_abs_spec p Ea) as Hp. destruct (IH (dirname p) (dirname_abs p Hp)) as [H1 H2].
    destruct (normalize_all (dirname p) r) as [xs c2]. simpl in *. split; [constructor; assumption|assumption].
  - destruct (IH current Hc) as [H1 H2]. destruct (normalize_all current r) as [xs c2]. simpl in *.
    split; [|assumption]. constructor; [|assumption].
    destruct Hc as [->|[r0 ->]]; right; eexists; reflexivity.
Qed.

(* a relative path resolves against the directory of the last absolute path before it *)
Fixpoint last_abs_dir (current : list N) (ps : list (list N)) : list N :=
  match ps with [] => current | p :: r => last_abs_dir (if is_abs p then dirname p else current) r end.
Theorem normalize_relative : forall ps current p,
  is_abs p = false ->
  fst (normalize (snd (normalize_all current ps)) p) = last_abs_dir current ps ++ SLASH :: p.
Proof.
  induction ps as [|q r IH]; intros current p Hp.
  - unfold normalize. simpl. rewrite Hp. reflexivity.
  - cbn [normalize_all last_abs_dir]. unfold normalize at 2. destruct (is_abs q).
    + specialize (IH (dirname q) p Hp). destruct (normalize_all (dirname q) r) as [xs c2]. exact IH.
    + specialize (IH current p Hp). destruct (normalize_all current r) as [xs c2]. exact IH.
Qed.
