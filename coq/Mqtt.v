(* Executable model of miniconf_mqtt::MqttClient::update() (lib.rs) as a step function over what one
   call observes of its environment (minimq, the clock, the broker, the settings tree).  The
   transition table of the statemachine! block and the constants are NOT written here: they come
   from Generated.v, which the translator regenerates from the source on every run. *)
From Coq Require Import List NArith Bool Arith.
From MC Require Import Generated.
Import ListNotations.

Definition bytes := list N.
Definition path := bytes.                (* "/a/b" *)

Definition sm_eqb (a b : sm) : bool :=
  match a, b with Connect, Connect | Alive, Alive | Subscribe, Subscribe | Wait, Wait
  | Init, Init | Multipart, Multipart | Single, Single => true | _, _ => false end.
Definition ev_eqb (a b : ev) : bool :=
  match a, b with EConnect, EConnect | EAlive, EAlive | ESubscribe, ESubscribe | ETick, ETick
  | EMultipart, EMultipart | EComplete, EComplete | EReset, EReset => true | _, _ => false end.

(* smlang: the first transition for (state, event); a failing guard leaves the state unchanged;
   result: (new state, run start_timeout?) *)
Fixpoint fire_in (tbl : list (option sm * ev * bool * bool * sm)) (s : sm) (e : ev) (guard_ok : bool) : option (sm * bool) :=
  match tbl with
  | [] => None
  | (src, e', guarded, action, dst) :: r =>
      if ev_eqb e e' && match src with None => true | Some s' => sm_eqb s s' end
      then (if guarded && negb guard_ok then None else Some (dst, action))
      else fire_in r s e guard_ok
  end.
Definition fire := fire_in sm_table.

Inductive code := COk | CContinue | CError.
Inductive topic := TAlive | TSettings (p : path) | TOther (t : bytes).   (* prefix/alive, prefix/settings<p>, verbatim *)
Inductive out :=
| OSub                                              (* SUBSCRIBE prefix/settings/# no-local *)
| OPub (t : topic) (payload : bytes) (retain : bool) (c : option code) (cd : option bytes).

Record pend := { p_rem : list path; p_resp : option bytes; p_cd : option bytes }.
Record mstate := { st : sm; timeout : option N; pd : pend }.
Definition pend0 (all_leaves : list path) : pend := {| p_rem := all_leaves; p_resp := None; p_cd := None |}.

(* what json::get gives for a leaf at emission time *)
Inductive pubval := PVal (b : bytes) | PAbsent | PTooLarge.
(* what the tree answers to the request of this step *)
Inductive treeans :=
| AGet (b : bytes)                        (* leaf: its JSON value *)
| AGetLarge (text : bytes)                (* leaf whose value does not fit minimq's transmit buffer: the error text *)
| AInternal (leaves : list path)          (* internal node: leaf paths at or below it, in iteration order *)
| AErr (text : bytes)                     (* invalid / absent path or other (de)serialization error *)
| ASetOk | ASetErr (text : bytes).
Record inmsg := {
  m_settings : option bytes;              (* Some request-topic if the topic is prefix/settings<path> *)
  m_empty : bool;                         (* empty payload *)
  m_resp : option bytes;                  (* ResponseTopic *)
  m_cd : option bytes;                    (* CorrelationData *)
  m_ans : treeans;
  m_reply_ok : bool }.                    (* minimq accepts a publish at this point (can_publish) *)
Inductive pollev := NoMsg | SessionReset | Msg (m : inmsg).
Inductive apicall := ApiNone | ApiReset | ApiDump (root : option (list path)).   (* None: root path invalid; Some leaves below *)

Record env := {
  conn : bool; now : N;
  act_ok : bool;                          (* alive() / subscribe() accepted by minimq *)
  slots : nat;                            (* pump iterations can_publish allows in this call *)
  accepted : option nat;                  (* Some n: minimq accepted exactly n publications during this call;
                                             None: capacity was not binding *)
  can_after : bool;                       (* can_publish when the call returns *)
  vals : path -> pubval;
  all_leaves : list path;                 (* leaves of the whole tree (initial dump) *)
  api : apicall;
  poll : pollev }.

Definition set_st (m : mstate) (s : sm) := {| st := s; timeout := timeout m; pd := pd m |}.
Definition timed_out (m : mstate) (t : N) : bool := match timeout m with Some d => (d <=? t)%N | None => false end.
(* process_event: None = Err (state unchanged) *)
Definition process (m : mstate) (e : ev) (t : N) : option mstate :=
  match fire (st m) e (timed_out m t) with
  | Some (s, act) => Some {| st := s; timeout := if act then Some (t + DUMP_TIMEOUT_MS)%N else timeout m; pd := pd m |}
  | None => None
  end.
Definition process_or (m : mstate) (e : ev) (t : N) : mstate := match process m e t with Some m' => m' | None => m end.
(* results of code that contains `.unwrap()` on process_event: None = panic *)
Definition bind {A B} (x : option A) (f : A -> option B) : option B := match x with Some a => f a | None => None end.

Definition text (s : list N) : bytes := s.
Definition T_TOO_LARGE : bytes := [83;101;114;105;97;108;105;122;101;100;32;118;97;108;117;101;32;116;111;111;32;108;97;114;103;101]%N.
Definition T_PENDING : bytes := [80;101;110;100;105;110;103;32;109;117;108;116;105;112;97;114;116;32;114;101;115;112;111;110;115;101]%N.
Definition T_RESP_LONG : bytes := [82;101;115;112;111;110;115;101;32;116;111;112;105;99;32;116;111;111;32;108;111;110;103]%N.
Definition T_CD_LONG : bytes := [67;111;114;114;101;108;97;116;105;111;110;32;100;97;116;97;32;116;111;111;32;108;111;110;103]%N.
Definition T_OK : bytes := [79; 75]%N.
Definition T_ONE : bytes := [49]%N.

(* iter_list: one message per slot: Continue <path> ... then Ok "" and Complete *)
Fixpoint pump_list (n : nat) (t : N) (m : mstate) : option (mstate * list out) :=
  match n with O => Some (m, []) | S n' =>
  let rt := match p_resp (pd m) with Some r => TOther r | None => TOther [] end in
  match p_rem (pd m) with
  | p :: rest =>
      let m' := {| st := st m; timeout := timeout m; pd := {| p_rem := rest; p_resp := p_resp (pd m); p_cd := p_cd (pd m) |} |} in
      bind (pump_list n' t m') (fun '(m'', o) => Some (m'', OPub rt p false (Some CContinue) (p_cd (pd m)) :: o))
  | [] => bind (process m EComplete t) (fun m' => Some (m', [OPub rt [] false (Some COk) (p_cd (pd m))]))
  end end.

Definition dump_msg (e : env) (cd : option bytes) (p : path) : list out :=
  match vals e p with
  | PVal b => [OPub (TSettings p) b false (Some COk) cd]
  | PAbsent => []
  | PTooLarge => [OPub (TSettings p) T_TOO_LARGE false (Some CError) cd]
  end.

(* iter_dump: one leaf per slot (absent leaves are skipped silently), Complete when exhausted *)
Fixpoint pump_dump (e : env) (n : nat) (m : mstate) : option (mstate * list out) :=
  match n with O => Some (m, []) | S n' =>
  match p_rem (pd m) with
  | p :: rest =>
      let m' := {| st := st m; timeout := timeout m; pd := {| p_rem := rest; p_resp := p_resp (pd m); p_cd := p_cd (pd m) |} |} in
      bind (pump_dump e n' m') (fun '(m'', o) => Some (m'', dump_msg e (p_cd (pd m)) p ++ o))
  | [] => bind (process m EComplete (now e)) (fun m' => Some (m', []))
  end end.

(* MqttClient::dump(path) *)
Definition do_dump (m : mstate) (root : option (list path)) (t : N) : mstate :=
  match root with
  | None => m                                   (* root() failed: Err(Miniconf) *)
  | Some leaves => match process m EMultipart t with
                   | Some m' => {| st := st m'; timeout := timeout m'; pd := pend0 leaves |}
                   | None => m end
  end.

Definition state_action (e : env) (m : mstate) : option (mstate * list out) :=
  match st m with
  | Connect => if conn e then bind (process m EConnect (now e)) (fun m' => Some (m', [])) else Some (m, [])
  | Alive => if act_ok e then bind (process m EAlive (now e)) (fun m' => Some (m', [OPub TAlive T_ONE true None None])) else Some (m, [])
  | Subscribe => if act_ok e then bind (process m ESubscribe (now e)) (fun m' => Some (m', [OSub])) else Some (m, [])
  | Wait => Some (process_or m ETick (now e), [])
  | Init => Some (do_dump m (Some (all_leaves e)) (now e), [])
  | Multipart => match p_resp (pd m) with
                 | Some _ => pump_list (slots e) (now e) m
                 | None => pump_dump e (slots e) m end
  | Single => Some (m, [])
  end.

Definition too_long (limit : N) (o : option bytes) : bool :=
  match o with Some b => (limit <? N.of_nat (length b))%N | None => false end.

(* Publication::respond(None, request, text): needs the request's ResponseTopic *)
Definition respond (m : inmsg) (payload : bytes) (c : code) : list out :=
  if negb (m_reply_ok m) then [] else
  match m_resp m with
  | Some r => [OPub (TOther r) payload false (Some c) (m_cd m)]
  | None => []
  end.

(* the closure of poll(): (new state, outputs, settings changed) *)
Definition on_message (m : mstate) (im : inmsg) (t : N) : option (mstate * list out * bool) :=
  match m_settings im with
  | None => Some (m, [], false)                             (* unexpected topic *)
  | Some reqtopic =>
      if m_empty im then
        if negb (m_reply_ok im) then Some (m, [], false) else   (* publish(): NotReady before serializing: "Discarding" *)
        match m_ans im with
        | AGet b =>                                         (* respond(Some(topic), ...) *)
            Some (m, if m_reply_ok im
                     then [OPub (TOther (match m_resp im with Some r => r | None => reqtopic end)) b false (Some COk) (m_cd im)]
                     else [], false)
        | AInternal leaves =>
            if sm_eqb (st m) Single then
              if too_long MAX_TOPIC_LENGTH (m_resp im) then Some (m, respond im T_RESP_LONG CError, false)
              else if too_long MAX_CD_LENGTH (m_cd im) then Some (m, respond im T_CD_LONG CError, false)
              else bind (process m EMultipart t) (fun m' =>
                     Some ({| st := st m'; timeout := timeout m';
                              pd := {| p_rem := leaves; p_resp := m_resp im; p_cd := m_cd im |} |}, [], false))
            else Some (m, respond im T_PENDING CError, false)
        | AErr txt | AGetLarge txt => Some (m, respond im txt CError, false)
        | _ => Some (m, [], false)
        end
      else
        match m_ans im with
        | ASetOk => Some (m, respond im T_OK COk, true)
        | ASetErr txt => Some (m, respond im txt CError, false)
        | _ => Some (m, [], false)
        end
  end.

Definition is_pub (o : out) : bool := match o with OPub _ _ _ _ _ => true | OSub => false end.
(* can_publish at the time the request is handled (after the acknowledgements queued before it were
   processed, which only poll() sees): nothing is published after the handler returns, so it could
   publish if minimq still can afterwards, or if it visibly did (more publications than the state
   action made) *)
Definition cap_reply (e : env) (o1 : list out) (im : inmsg) : inmsg :=
  match accepted e with
  | None => im
  | Some n => {| m_settings := m_settings im; m_empty := m_empty im; m_resp := m_resp im; m_cd := m_cd im;
                 m_ans := m_ans im; m_reply_ok := m_reply_ok im && (can_after e || (length (filter is_pub o1) <? n)%nat) |}
  end.
Definition poll_action (e : env) (m : mstate) (o1 : list out) : option (mstate * list out * bool) :=
  match poll e with
  | NoMsg => Some (m, [], false)
  | SessionReset => bind (process m EReset (now e)) (fun m' => Some (m', [], false))
  | Msg im => on_message m (cap_reply e o1 im) (now e)
  end.

Definition api_action (e : env) (m : mstate) : option mstate :=
  match api e with
  | ApiNone => Some m
  | ApiReset => process m EReset (now e)
  | ApiDump root => Some (do_dump m root (now e))
  end.

(* one update() call (preceded by the API call of this step, if any) *)
Definition step (e : env) (m : mstate) : option (mstate * list out * bool) :=
  bind (api_action e m) (fun ma =>
  bind (if conn e then Some ma else process ma EReset (now e)) (fun m0 =>
  bind (state_action e m0) (fun '(m1, o1) =>
  bind (poll_action e m1 o1) (fun '(m2, o2, ch) => Some (m2, o1 ++ o2, ch))))).

(* MqttClient::new: pending = Multipart::default() (an unrooted iterator over all leaves) *)
Definition init_state (leaves : list path) : mstate := {| st := sm_initial; timeout := None; pd := pend0 leaves |}.

(* a panic ends the run *)
Fixpoint run (es : list env) (m : mstate) : list (option (mstate * list out * bool)) :=
  match es with
  | [] => []
  | e :: r => match step e m with
              | Some (m', o, ch) => Some (m', o, ch) :: run r m'
              | None => [None] end
  end.
