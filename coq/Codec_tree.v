(* C05 at the level of the tree: writing back, by the same key, the payload produced by reading a
   leaf is the identity on the whole tree; a value written is the value read back.  Generic in the
   codec ([wr] / [rd] of Tree.run); Ser_proofs.v shows that the JSON and postcard codecs meet the
   hypothesis. *)
From Coq Require Import List NArith ZArith Lia Bool Arith PeanoNat.
From MC Require Import Str Packed Tree Spec Tree_proofs.
Import ListNotations.

Section GetSet.
Variable L : Type.
Variable wr : L -> leafres L.
Variable rd : L -> bool.
Variable orc : oracle.
Notation out := (out L).
Notation run := (run wr rd orc).
Notation arm := (arm orc).

(* the decoder maps the payload back to the value that was read *)
Definition faithful (lg : list (event L)) : Prop := forall x, In (EvRead x) lg -> forall y, wr x = LOk y -> y = x.
Definition GS (fS fD : out) (c : value L) : Prop :=
  forall d c1 lg, fS = (ROk d, c1, lg) -> faithful lg -> snd (fst fD) = c.

Lemma faithful_app a b : faithful (a ++ b) -> faithful b.
Proof. intros H x Hx. apply H. apply in_or_app. right. exact Hx. Qed.
Lemma faithful_app_l a b : faithful (a ++ b) -> faithful a.
Proof. intros H x Hx. apply H. apply in_or_app. left. exact Hx. Qed.

Lemma gs_arm a c (fS fD : value L -> out) :
  (forall c, GS (fS c) (fD c) c) -> GS (arm OSer a c fS) (arm ODe a c fD) c.
Proof.
  intros H d c1 lg E Hf. unfold Tree.arm in *.
  destruct (a_deny a OSer); [discriminate|].
  cbn [writes] in *.
  destruct (a_deny a ODe); [reflexivity|].
  assert (Hchild : forall d' c' lg', fS c = (ROk d', c', lg') -> faithful lg' -> snd (fst (fD c)) = c) by (intros; eapply H; eassumption).
  assert (HS : exists d' c' lg' ev, fS c = (ROk d', c', lg') /\ lg = ev ++ lg').
  { destruct (a_get a) as [id|].
    - destruct (orc id); [|discriminate]. destruct (fS c) as [[r v'] lg0]. destruct r as [d0|e]; [|discriminate].
      injection E as <- <- <-. exists d0, v', lg0, [EvGet id]. split; reflexivity.
    - destruct (fS c) as [[r v'] lg0]. destruct r as [d0|e]; [|discriminate].
      injection E as <- <- <-. exists d0, v', lg0, []. split; reflexivity. }
  destruct HS as (d' & c' & lg' & ev & ES & ->).
  pose proof (Hchild _ _ _ ES (faithful_app _ _ Hf)) as HD.
  destruct (a_getmut a) as [id|].
  - destruct (orc id); [|reflexivity]. destruct (fD c) as [[r v'] lg0]. simpl in HD. subst v'.
    destruct r as [d0|e]; [|reflexivity]. destruct (a_val a) as [vid|]; [|reflexivity].
    destruct (orc vid) as [[x'|]|m]; reflexivity.
  - destruct (fD c) as [[r v'] lg0]. simpl in HD. subst v'.
    destruct r as [d0|e]; [|reflexivity]. destruct (a_val a) as [vid|]; [|reflexivity].
    destruct (orc vid) as [[x'|]|m]; reflexivity.
Qed.

Lemma gs_with_child sum v i (fS fD : value L -> out) :
  (forall c, GS (fS c) (fD c) c) -> GS (with_child sum v i fS) (with_child sum v i fD) v.
Proof.
  intros H d c1 lg E Hf. unfold with_child in *.
  destruct sum, v as [x|s c|vs|act c]; try discriminate E.
  - destruct act as [j|]; [|discriminate]. destruct (Nat.eqb i j); [|discriminate].
    destruct (fS c) as [[r c'] lg0] eqn:ES. destruct r as [d0|e]; [|discriminate]. injection E as <- <- <-.
    pose proof (H c _ _ _ ES Hf) as HD. destruct (fD c) as [[r' c''] lg1]. simpl in *. subst c''. reflexivity.
  - destruct (nth_error vs i) as [c|] eqn:En; [|discriminate].
    destruct (fS c) as [[r c'] lg0] eqn:ES. destruct r as [d0|e]; [|discriminate]. injection E as <- <- <-.
    pose proof (H c _ _ _ ES Hf) as HD. destruct (fD c) as [[r' c''] lg1]. simpl in *. subst c''.
    rewrite (set_nth_same _ _ _ En). reflexivity.
Qed.

Lemma gs_incr (xS xD : out) c : GS xS xD c -> GS (incr_out xS) (incr_out xD) c.
Proof.
  intros H d c1 lg E Hf. destruct xS as [[r v] lg0]. destruct xD as [[r' v'] lg1]. simpl in *.
  destruct r as [d0|e]; [|destruct e; discriminate]. injection E as <- <- <-.
  exact (H _ _ _ eq_refl Hf).
Qed.

(* get, then set with what get produced: the tree is unchanged *)
Theorem get_set_identity : forall t v k, GS (run OSer t v k) (run ODe t v k) v.
Proof.
  induction t as [lk|g t IH|s a t IH|h lk cs IH|n t IH] using node_ind'; intros v k.
  - intros d c1 lg E Hf. cbn [Tree.run] in *. destruct (kfin k); [|discriminate]. cbn [negb] in *.
    unfold leaf_op in *. destruct lk, v as [x|s c|vs|act c]; try discriminate E; try reflexivity.
    + destruct (rd x); [|discriminate]. injection E as <- <- <-.
      unfold leaf_write. destruct (wr x) as [y| |] eqn:Ew; try reflexivity.
      simpl. rewrite (Hf x (or_introl eq_refl) y Ew). reflexivity.
    + destruct (rd x); [|discriminate]. injection E as <- <- <-.
      unfold leaf_write. destruct (wr x) as [y| |] eqn:Ew; try reflexivity.
      simpl. rewrite (Hf x (or_introl eq_refl) y Ew). reflexivity.
  - intros d c1 lg E Hf. cbn [Tree.run] in *. destruct v as [x|s c|vs|act c]; try discriminate E.
    destruct (gate_err g OSer s); [discriminate|].
    destruct (gate_err g ODe s); [reflexivity|].
    destruct (run OSer t c k) as [[r c'] lg0] eqn:ES. destruct r as [d0|e]; [|discriminate]. injection E as <- <- <-.
    pose proof (IH c k _ _ _ ES Hf) as HD. destruct (run ODe t c k) as [[r' c''] lg1]. simpl in *. subst c''. reflexivity.
  - cbn [Tree.run]. apply gs_with_child. intros c. apply gs_arm. intros c'. apply IH.
  - cbn [Tree.run]. destruct (knext k lk) as [[i| |] k']; try (intros d c1 lg E; discriminate E).
    apply gs_incr. apply gs_with_child. intros c.
    generalize (N.to_nat i). induction IH as [|[a t'] r Ht _ IHr]; intros j; [intros d c1 lg E; discriminate E|].
    destruct j as [|j]; [|apply IHr]. apply gs_arm. intros c'. apply Ht.
  - cbn [Tree.run]. destruct (knext k (Homog n)) as [[i| |] k']; try (intros d c1 lg E; discriminate E).
    apply gs_incr. apply gs_with_child. intros c. apply IH.
Qed.

Corollary get_set_identity' t v k d v1 lg :
  run OSer t v k = (ROk d, v1, lg) -> faithful lg -> snd (fst (run ODe t v k)) = v.
Proof. intros E Hf. exact (get_set_identity t v k _ _ _ E Hf). Qed.

(* set, then get: what is read back is what the codec wrote *)
Definition SG (xD : out) (fS : value L -> out) : Prop :=
  forall r v' lgD, xD = (r, v', lgD) -> forall y, In (EvWrite y) lgD ->
  forall d c1 lgS, fS v' = (ROk d, c1, lgS) -> In (EvRead y) lgS.

Lemma nth_set_nth {A} (l : list A) : forall i c x, nth_error l i = Some c -> nth_error (set_nth l i x) i = Some x.
Proof. induction l as [|a l IH]; intros [|i] c x H; simpl in *; try discriminate; [reflexivity|]. eapply IH. exact H. Qed.

Lemma in_write_app (a b : list (event L)) y : In (EvWrite y) (a ++ b) -> In (EvWrite y) a \/ In (EvWrite y) b.
Proof. apply in_app_or. Qed.

Lemma sg_arm a c (fD fS : value L -> out) :
  (forall c, SG (fD c) fS) -> SG (arm ODe a c fD) (fun v' => arm OSer a v' fS).
Proof.
  intros H r v' lgD E y Hy d c1 lgS ES. unfold Tree.arm in *. cbn [writes] in *.
  destruct (a_deny a ODe); [injection E as <- <- <-; destruct Hy|].
  destruct (a_deny a OSer); [discriminate|].
  assert (HD : exists r0 lg0, fD c = (r0, v', lg0) /\ In (EvWrite y) lg0).
  { destruct (a_getmut a) as [id|].
    - destruct (orc id); [|injection E as <- <- <-; destruct Hy as [Hy|[]]; discriminate].
      destruct (fD c) as [[r0 v0] lg0]. destruct r0 as [d0|e].
      + destruct (a_val a) as [vid|].
        * destruct (orc vid) as [[x'|]|m]; injection E as <- <- <-; exists (ROk d0), lg0; (split; [reflexivity|]);
            (destruct Hy as [Hy|Hy]; [discriminate|]); apply in_app_or in Hy as [Hy|[Hy|[]]]; try assumption; discriminate.
        * injection E as <- <- <-. exists (ROk d0), lg0. split; [reflexivity|]. destruct Hy as [Hy|Hy]; [discriminate|exact Hy].
      + injection E as <- <- <-. exists (RErr e), lg0. split; [reflexivity|]. destruct Hy as [Hy|Hy]; [discriminate|exact Hy].
    - destruct (fD c) as [[r0 v0] lg0]. destruct r0 as [d0|e].
      + destruct (a_val a) as [vid|].
        * destruct (orc vid) as [[x'|]|m]; injection E as <- <- <-; exists (ROk d0), lg0; (split; [reflexivity|]);
            cbn [List.app] in Hy; apply in_app_or in Hy as [Hy|[Hy|[]]]; try assumption; discriminate.
        * injection E as <- <- <-. exists (ROk d0), lg0. split; [reflexivity|]. exact Hy.
      + injection E as <- <- <-. exists (RErr e), lg0. split; [reflexivity|]. exact Hy. }
  destruct HD as (r0 & lg0 & ED & Hy0).
  destruct (a_get a) as [id|].
  - destruct (orc id); [|discriminate]. destruct (fS v') as [[rs vs] lgs] eqn:ESS. destruct rs as [ds|e]; [|discriminate].
    injection ES as <- <- <-. right. exact (H c _ _ _ ED y Hy0 _ _ _ ESS).
  - destruct (fS v') as [[rs vs] lgs] eqn:ESS. destruct rs as [ds|e]; [|discriminate].
    injection ES as <- <- <-. exact (H c _ _ _ ED y Hy0 _ _ _ ESS).
Qed.

Lemma sg_with_child sum v i (fD fS : value L -> out) :
  (forall c, SG (fD c) fS) -> SG (with_child sum v i fD) (fun v' => with_child sum v' i fS).
Proof.
  intros H r v' lgD E y Hy d c1 lgS ES. unfold with_child in *.
  destruct sum, v as [x|s c|vs|act c]; try (injection E as <- <- <-; destruct Hy).
  - destruct act as [j|]; [|injection E as <- <- <-; destruct Hy]. destruct (Nat.eqb i j) eqn:Eij; [|injection E as <- <- <-; destruct Hy].
    destruct (fD c) as [[r0 c'] lg0] eqn:ED. injection E as <- <- <-. rewrite Eij in ES.
    destruct (fS c') as [[rs cs] lgs] eqn:ESS. destruct rs as [ds|e]; [|discriminate]. injection ES as <- <- <-.
    exact (H c _ _ _ ED y Hy _ _ _ ESS).
  - destruct (nth_error vs i) as [c|] eqn:En; [|injection E as <- <- <-; destruct Hy].
    destruct (fD c) as [[r0 c'] lg0] eqn:ED. injection E as <- <- <-. rewrite (nth_set_nth _ _ _ _ En) in ES.
    destruct (fS c') as [[rs cs] lgs] eqn:ESS. destruct rs as [ds|e]; [|discriminate]. injection ES as <- <- <-.
    exact (H c _ _ _ ED y Hy _ _ _ ESS).
Qed.

Lemma sg_incr (xD : out) (fS : value L -> out) : SG xD fS -> SG (incr_out xD) (fun v' => incr_out (fS v')).
Proof.
  intros H r v' lgD E y Hy d c1 lgS ES. destruct xD as [[r0 v0] lg0]. simpl in E. injection E as <- <- <-.
  destruct (fS v0) as [[rs cs] lgs] eqn:ESS. simpl in ES. destruct rs as [ds|e]; [|destruct e; discriminate].
  injection ES as <- <- <-. exact (H _ _ _ eq_refl y Hy _ _ _ ESS).
Qed.

Theorem set_get_value : forall t v k, SG (run ODe t v k) (fun v' => run OSer t v' k).
Proof.
  induction t as [lk|g t IH|s a t IH|h lk cs IH|n t IH] using node_ind'; intros v k.
  - intros r v' lgD E y Hy d c1 lgS ES. cbn [Tree.run] in *. destruct (kfin k); cbn [negb] in *; [|injection E as <- <- <-; destruct Hy].
    unfold leaf_op in *. destruct lk, v as [x|s c|vs|act c]; try (injection E as <- <- <-; destruct Hy).
    + unfold leaf_write in E. destruct (wr x) as [y0| |]; injection E as <- <- <-; [|destruct Hy|destruct Hy].
      destruct Hy as [Hy|[]]. injection Hy as ->. destruct (rd y); [|discriminate]. injection ES as <- <- <-. left. reflexivity.
    + unfold leaf_write in E. destruct (wr x) as [y0| |]; injection E as <- <- <-; [|destruct Hy|destruct Hy].
      destruct Hy as [Hy|[]]. injection Hy as ->. destruct (rd y); [|discriminate]. injection ES as <- <- <-. left. reflexivity.
  - intros r v' lgD E y Hy d c1 lgS ES. cbn [Tree.run] in E. destruct v as [x|s c|vs|act c]; try (injection E as <- <- <-; destruct Hy).
    destruct (gate_err g ODe s); [injection E as <- <- <-; destruct Hy|].
    destruct (run ODe t c k) as [[r0 c'] lg0] eqn:ED. injection E as <- <- <-. cbn [Tree.run] in ES.
    destruct (gate_err g OSer s); [discriminate|].
    destruct (run OSer t c' k) as [[rs cs] lgs] eqn:ESS. destruct rs as [ds|e]; [|discriminate]. injection ES as <- <- <-.
    exact (IH c k _ _ _ ED y Hy _ _ _ ESS).
  - cbn [Tree.run]. apply (sg_with_child s v 0 (fun c => arm ODe a c (fun c => run ODe t c k)) (fun c => arm OSer a c (fun c => run OSer t c k))).
    intros c. apply sg_arm. intros c'. apply IH.
  - cbn [Tree.run]. destruct (knext k lk) as [[i| |] k']; try (intros r v' lgD E y Hy; injection E as <- <- <-; destruct Hy).
    apply (sg_incr _ (fun v' => with_child (is_sum h) v' (N.to_nat i) _)).
    apply sg_with_child. intros c.
    generalize (N.to_nat i). induction IH as [|[a t'] r Ht _ IHr]; intros j; [intros r0 v' lgD E y Hy; injection E as <- <- <-; destruct Hy|].
    destruct j as [|j]; [|apply IHr]. apply sg_arm. intros c'. apply Ht.
  - cbn [Tree.run]. destruct (knext k (Homog n)) as [[i| |] k']; try (intros r v' lgD E y Hy; injection E as <- <- <-; destruct Hy).
    apply (sg_incr _ (fun v' => with_child false v' (N.to_nat i) _)).
    apply sg_with_child. intros c. apply IH.
Qed.
End GetSet.
