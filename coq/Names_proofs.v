(* C04: a key given by names (or decimal indices where children are unnamed) reaches the node it
   was written for: the name form of any key is a transcoding fixpoint, like the index form, provided
   the child names of every node are pairwise distinct. *)
From Coq Require Import List NArith ZArith Lia Bool Arith PeanoNat.
From MC Require Import Str Str_proofs Packed Tree Spec Tree_proofs NoPanic Transcode_proofs.
Import ListNotations.
Local Open Scope N_scope.

(* ---------------------------------------------------------------- itoa parses back *)
Fixpoint pd (s : str) (a : N) : N := match s with [] => a | c :: r => pd r (a * 10 + (c - 48)) end.
Definition dig (c : N) : bool := (48 <=? c) && (c <=? 57).

Lemma pd_app s1 : forall s2 a, pd (s1 ++ s2) a = pd s2 (pd s1 a).
Proof. induction s1 as [|c s1 IH]; intros s2 a; [reflexivity|]. cbn [app pd]. apply IH. Qed.

Lemma pd_mono s : forall a, forallb dig s = true -> a <= pd s a.
Proof.
  induction s as [|c r IH]; intros a H; [cbn [pd]; lia|]. cbn [forallb] in H. apply andb_prop in H as [Hc Hr].
  cbn [pd]. specialize (IH (a * 10 + (c - 48)) Hr). unfold dig in Hc. apply andb_prop in Hc as [H1 H2].
  apply N.leb_le in H1, H2. lia.
Qed.

Lemma parse_digits_pd s : forall a, forallb dig s = true -> pd s a < 18446744073709551616 -> parse_digits s a = Some (pd s a).
Proof.
  induction s as [|c r IH]; intros a H Hlt; [reflexivity|]. cbn [forallb] in H. apply andb_prop in H as [Hc Hr].
  cbn [parse_digits pd] in *. unfold dig in Hc. rewrite Hc.
  pose proof (pd_mono r (a * 10 + (c - 48)) Hr) as Hm.
  replace (a * 10 + (c - 48) <? 18446744073709551616) with true by (symmetry; apply N.ltb_lt; lia).
  apply IH; assumption.
Qed.

Lemma itoa_aux_S f n acc : itoa_aux (S f) n acc =
  if n <? 10 then (48 + n mod 10) :: acc else itoa_aux f (n / 10) ((48 + n mod 10) :: acc).
Proof. reflexivity. Qed.

Lemma itoa_aux_spec : forall f n acc, n < 10 ^ N.of_nat (S f) ->
  exists ds, itoa_aux (S f) n acc = ds ++ acc /\ ds <> [] /\ forallb dig ds = true /\
             (forall a, pd ds a = a * 10 ^ N.of_nat (length ds) + n).
Proof.
  induction f as [|f IH]; intros n acc Hn; rewrite itoa_aux_S.
  - change (10 ^ N.of_nat 1) with 10 in Hn.
    pose proof (N.mod_small n 10 Hn) as Em.
    replace (n <? 10) with true by (symmetry; apply N.ltb_lt; exact Hn).
    assert (Hd : dig (48 + n mod 10) = true).
    { rewrite Em. unfold dig. apply andb_true_iff. split; apply N.leb_le; lia. }
    exists [48 + n mod 10]. split; [reflexivity|]. split; [discriminate|]. split; [cbn [forallb]; rewrite Hd; reflexivity|].
    intros a. cbn [pd length]. change (10 ^ N.of_nat 1) with 10. rewrite Em. lia.
  - pose proof (N.div_mod' n 10) as D. pose proof (N.mod_lt n 10 ltac:(discriminate)) as M.
    remember (n mod 10) as m eqn:Em. remember (n / 10) as q eqn:Eq.
    assert (Hd : dig (48 + m) = true).
    { unfold dig. apply andb_true_iff. split; apply N.leb_le; lia. }
    destruct (n <? 10) eqn:E.
    + apply N.ltb_lt in E. exists [48 + m]. split; [reflexivity|]. split; [discriminate|]. split; [cbn [forallb]; rewrite Hd; reflexivity|].
      intros a. cbn [pd length]. change (10 ^ N.of_nat 1) with 10. lia.
    + apply N.ltb_ge in E.
      assert (Hq : q < 10 ^ N.of_nat (S f)).
      { rewrite (Nat2N.inj_succ (S f)), N.pow_succ_r' in Hn. lia. }
      destruct (IH q ((48 + m) :: acc) Hq) as (ds & E1 & Hne & Hall & Hpd).
      exists (ds ++ [48 + m]). split; [rewrite E1, <- app_assoc; reflexivity|].
      split; [destruct ds; discriminate|]. split; [rewrite forallb_app, Hall; cbn [forallb]; rewrite Hd; reflexivity|].
      intros a. rewrite pd_app, Hpd. cbn [pd]. rewrite app_length. cbn [length]. rewrite Nat.add_1_r, Nat2N.inj_succ, N.pow_succ_r'. lia.
Qed.

Lemma parse_itoa i : i < 18446744073709551616 -> parse_usize (itoa i) = Some i.
Proof.
  intros Hi. unfold itoa.
  destruct (itoa_aux_spec 39 i [] ltac:(change (10 ^ N.of_nat 40) with 10000000000000000000000000000000000000000; lia))
    as (ds & E & Hne & Hall & Hpd).
  rewrite E, app_nil_r. specialize (Hpd 0). rewrite N.mul_0_l, N.add_0_l in Hpd.
  destruct ds as [|c r]; [congruence|]. unfold parse_usize.
  assert (Hc : dig c = true) by (cbn [forallb] in Hall; apply andb_prop in Hall as [H _]; exact H).
  replace (c =? 43) with false.
  2:{ symmetry. apply N.eqb_neq. intros ->. discriminate Hc. }
  rewrite parse_digits_pd; [rewrite Hpd; reflexivity|exact Hall|rewrite Hpd; exact Hi].
Qed.

(* ---------------------------------------------------------------- names resolve back *)
Lemma str_eqb_eq a : forall b, str_eqb a b = true <-> a = b.
Proof.
  induction a as [|x a IH]; intros [|y b]; simpl; split; intros H; try discriminate; try reflexivity.
  - apply andb_prop in H as [H1 H2]. apply N.eqb_eq in H1. apply IH in H2. subst. reflexivity.
  - injection H as -> ->. rewrite N.eqb_refl. apply IH. reflexivity.
Qed.

Lemma position_nth ns : NoDup ns -> forall j n, nth_error ns j = Some n -> position n ns = Some (N.of_nat j).
Proof.
  induction ns as [|n0 r IH]; intros Hnd j n Hj; [destruct j; discriminate|].
  inversion Hnd as [|? ? Hnotin Hnd']; subst. cbn [position].
  destruct j as [|j]; simpl in Hj.
  - injection Hj as ->. replace (str_eqb n n) with true by (symmetry; apply str_eqb_eq; reflexivity). reflexivity.
  - assert (Hne : str_eqb n0 n = false).
    { destruct (str_eqb n0 n) eqn:E; [|reflexivity]. apply str_eqb_eq in E. subst. exfalso. apply Hnotin. eapply nth_error_In. exact Hj. }
    rewrite Hne, (IH Hnd' j n Hj). cbn [option_map]. f_equal. lia.
Qed.

(* ---------------------------------------------------------------- generic key form *)
Section Form.
Variable kf : call -> key.

Fixpoint key_ok (t : node) : Prop :=
  match t with
  | NLeaf _ => True
  | NGate _ t' => key_ok t'
  | NFlat _ _ t' => key_ok t'
  | NHet _ lk cs =>
      (forall i, i < lk_len lk -> find (kf (i, lk_name lk i, lk_len lk)) lk = Some i) /\
      (fix all (cs : list (attrs * node)) : Prop := match cs with [] => True | c :: r => key_ok (snd c) /\ all r end) cs
  | NHom n t' => (forall i, i < n -> find (kf (i, None, n)) (Homog n) = Some i) /\ key_ok t'
  end.

Theorem form_fixpoint : forall t k pre r calls, wf t -> key_ok t ->
  trav nofail t k pre = (r, calls) -> reached r ->
  exists new, calls = new ++ pre /\ trav nofail t (KIter (map kf (rev new))) pre = (r, calls).
Proof.
  induction t as [lk|g t IH|s a t IH|h lk cs IH|n t IH] using node_ind'; intros k pre r calls Hw Hs E Hr.
  - cbn [trav] in E. destruct (kfin k); injection E as <- <-; [|exfalso; exact Hr].
    exists []. split; reflexivity.
  - cbn [trav] in *. eapply IH; eauto.
  - cbn [trav] in *. eapply IH; eauto.
  - cbn [trav] in E. destruct (knext k lk) as [[i| |] k'] eqn:Ek.
    + unfold nofail at 1 in E. rewrite andb_false_r in E. unfold reports in E.
      set (c := (i, lk_name lk i, lk_len lk)) in *.
      pose proof (knext_bound _ _ _ _ Ek) as Hb. destruct Hw as (Hlen & Hne & Hall). destruct Hs as [Hk Hsall].
      set (pk := fun (kk : keys) => (fix pick (cs : list (attrs * node)) (j : nat) {struct cs} : tout :=
           match cs with [] => (RErr Unreachable, c :: pre) | (_, t') :: r => match j with O => trav nofail t' kk (c :: pre) | S j' => pick r j' end end)).
      change (tincr (pk k' cs (N.to_nat i)) = (r, calls)) in E.
      assert (G : forall j r0 calls0, pk k' cs j = (r0, calls0) -> reached r0 ->
        exists new, calls0 = new ++ c :: pre /\ pk (KIter (map kf (rev new))) cs j = (r0, calls0)).
      { clear E Hne Hlen Hb Hk. induction IH as [|[a t'] rr Ht _ IHr]; intros j r0 calls0 Ej Hr0.
        - simpl in Ej. injection Ej as <- <-. exfalso. exact Hr0.
        - destruct Hall as [Hwx Hwr]. destruct Hsall as [Hsx Hsr].
          destruct j as [|j]; [eapply Ht; eauto|]. simpl in Ej |- *. eapply IHr; eauto. }
      destruct (pk k' cs (N.to_nat i)) as [r0 calls0] eqn:Ep.
      simpl in E. injection E as <- <-.
      assert (Hr0 : reached r0) by (destruct r0 as [d|[]]; simpl in *; auto).
      destruct (G _ _ _ Ep Hr0) as (new & -> & Hp).
      exists (new ++ [c]). split; [rewrite <- app_assoc; reflexivity|].
      rewrite rev_app_distr. cbn [rev app map]. cbn [trav knext].
      unfold c at 1. rewrite (Hk i Hb).
      unfold reports. unfold nofail at 1. cbn [andb].
      change (tincr (pk (KIter (map kf (rev new))) cs (N.to_nat i)) = (rshift 1 r0, new ++ c :: pre)).
      rewrite Hp. reflexivity.
    + injection E as <- <-. exists []. split; reflexivity.
    + injection E as <- <-. exfalso. exact Hr.
  - cbn [trav] in E. destruct (knext k (Homog n)) as [[i| |] k'] eqn:Ek.
    + unfold nofail at 1 in E. pose proof (knext_bound _ _ _ _ Ek) as Hb. simpl in Hb.
      destruct Hw as [Hn Hw]. destruct Hs as [Hk Hs].
      destruct (trav nofail t k' ((i, None, n) :: pre)) as [r0 calls0] eqn:Ep.
      simpl in E. injection E as <- <-.
      assert (Hr0 : reached r0) by (destruct r0 as [d|[]]; simpl in *; auto).
      destruct (IH _ _ _ _ Hw Hs Ep Hr0) as (new & -> & Hp).
      exists (new ++ [(i, None, n)]). split; [rewrite <- app_assoc; reflexivity|].
      rewrite rev_app_distr. cbn [rev app map]. cbn [trav knext].
      rewrite (Hk i Hb).
      unfold nofail at 1. rewrite Hp. reflexivity.
    + injection E as <- <-. exists []. split; reflexivity.
    + injection E as <- <-. exfalso. exact Hr.
Qed.
End Form.

(* ---------------------------------------------------------------- the name form *)
(* what Path / JsonPath write for one step: the child's name, or its index in decimal *)
Definition name_key (c : call) : key :=
  KStr (match snd (fst c) with Some n => n | None => itoa (fst (fst c)) end).

Fixpoint nodup_names (t : node) : Prop :=
  match t with
  | NLeaf _ => True
  | NGate _ t' => nodup_names t'
  | NFlat _ _ t' => nodup_names t'
  | NHet _ lk cs =>
      match lk with Named ns => NoDup ns | _ => True end /\
      (fix all (cs : list (attrs * node)) : Prop := match cs with [] => True | c :: r => nodup_names (snd c) /\ all r end) cs
  | NHom _ t' => nodup_names t'
  end.

Lemma name_key_ok : forall t, small t -> nodup_names t -> key_ok name_key t.
Proof.
  induction t as [lk|g t IH|s a t IH|h lk cs IH|n t IH] using node_ind'; intros Hs Hn; cbn [key_ok small nodup_names] in *; auto.
  - destruct Hs as [Hsm Hsall]. destruct Hn as [Hnd Hnall]. split.
    + intros i Hi. unfold name_key. cbn [fst snd]. destruct lk as [ns|m|m]; cbn [lk_name lk_len find] in *.
      * destruct (nth_error ns (N.to_nat i)) as [nm|] eqn:En.
        -- rewrite (position_nth ns Hnd _ _ En). f_equal. lia.
        -- exfalso. apply nth_error_None in En. lia.
      * rewrite parse_itoa by lia. replace (i <? m) with true by (symmetry; apply N.ltb_lt; exact Hi). reflexivity.
      * rewrite parse_itoa by lia. replace (i <? m) with true by (symmetry; apply N.ltb_lt; exact Hi). reflexivity.
    + clear Hsm Hnd. induction IH as [|[a t'] rr Ht _ IHr]; [exact I|].
      destruct Hsall as [Hsx Hsr]. destruct Hnall as [Hnx Hnr]. split; [apply Ht; assumption|apply IHr; assumption].
  - destruct Hs as [Hsm Hs]. split; [|apply IH; assumption].
    intros i Hi. unfold name_key. cbn [fst snd find]. rewrite parse_itoa by lia.
    replace (i <? n) with true by (symmetry; apply N.ltb_lt; exact Hi). reflexivity.
Qed.

(* C04: if a key (any representation, chained or not) reaches a node, the names / decimal indices
   reported to the callback, used as a key, reach the same node with the same trace *)
Theorem name_form_fixpoint : forall t k pre r calls, wf t -> small t -> nodup_names t ->
  trav nofail t k pre = (r, calls) -> reached r ->
  exists new, calls = new ++ pre /\ trav nofail t (KIter (map name_key (rev new))) pre = (r, calls).
Proof. intros t k pre r calls Hw Hs Hn. apply form_fixpoint; [exact Hw|apply name_key_ok; assumption]. Qed.

(* and the hypothesis is necessary: with two equal names the later child is unreachable by name *)
Example dup_names_refuted :
  let t := NHet HStruct (Named [[97]; [97]]) [(no_attrs, NLeaf KLeaf); (no_attrs, NLeaf KLeaf)] in
  fst (trav nofail t (KIter [KInt 1]) []) = ROk 1 /\
  snd (trav nofail t (KIter [KInt 1]) []) = [(1, Some [97], 2)] /\
  snd (trav nofail t (KIter [name_key (1, Some [97], 2)]) []) = [(0, Some [97], 2)].
Proof. vm_compute. repeat split; reflexivity. Qed.

(* ---------------------------------------------------------------- written paths parse back to the node *)
Definition name_text (c : call) : str := match snd (fst c) with Some n => n | None => itoa (fst (fst c)) end.

Lemma path_text sep cs : concat (map (call_text_path sep) cs) = path_write sep (map name_text cs).
Proof.
  unfold path_write. induction cs as [|[[i nm] len] r IH]; [reflexivity|].
  cbn [map concat]. rewrite IH. reflexivity.
Qed.

(* Path<_, sep>: what transcode writes for a reached node, split again by PathIter (root form),
   resolves to the same node with the same trace *)
Theorem path_roundtrip sep : forall t k r calls, wf t -> small t -> nodup_names t ->
  trav nofail t k [] = (r, calls) -> reached r ->
  Forall (fun c => sep_free sep (name_text c)) calls ->
  trav nofail t (KIter (map KStr (root_keys sep (concat (map (call_text_path sep) (rev calls)))))) [] = (r, calls).
Proof.
  intros t k r calls Hw Hs Hn E Hr Hfree.
  destruct (name_form_fixpoint t k [] r calls Hw Hs Hn E Hr) as (new & Hc & Hfix).
  rewrite app_nil_r in Hc. subst new.
  rewrite path_text, Str_proofs.path_written_form.
  - rewrite map_map. exact Hfix.
  - rewrite Forall_map. apply Forall_rev. exact Hfree.
Qed.

Lemma json_text cs : concat (map call_text_json cs) = Str_proofs.json_write (map (fun c : call => (snd (fst c), fst (fst c))) cs).
Proof.
  unfold Str_proofs.json_write. induction cs as [|[[i nm] len] r IH]; [reflexivity|].
  cbn [map concat]. rewrite IH. reflexivity.
Qed.

(* JsonPath: the same through JsonPathIter *)
Theorem json_roundtrip : forall t k r calls, wf t -> small t -> nodup_names t ->
  trav nofail t k [] = (r, calls) -> reached r ->
  Forall (fun c : call => match snd (fst c) with Some n => Str_proofs.delim_free n | None => True end) calls ->
  trav nofail t (KIter (map KStr (json_keys (concat (map call_text_json (rev calls)))))) [] = (r, calls).
Proof.
  intros t k r calls Hw Hs Hn E Hr Hfree.
  destruct (name_form_fixpoint t k [] r calls Hw Hs Hn E Hr) as (new & Hc & Hfix).
  rewrite app_nil_r in Hc. subst new.
  rewrite json_text, Str_proofs.json_written_form.
  - rewrite !map_map. exact Hfix.
  - rewrite Forall_map. apply Forall_rev. revert Hfree. apply Forall_impl. intros [[i nm] len]. exact (fun H => H).
Qed.
