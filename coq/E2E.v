(* C18: the responses of the device model (Mqtt.v), translated to what the Python dispatcher sees,
   resolve the Python request (Py.v) to the device's state.  The wire strings of the response codes,
   the Python literals, the response-topic suffix and the correlation-data length come from
   Generated.v (translator output). *)
From Coq Require Import List NArith Lia Bool Arith.
From MC Require Import Generated Mqtt Mqtt_proofs Mqtt_run.
From MC Require Py.
Import ListNotations.

Fixpoint beqb (a b : bytes) : bool :=
  match a, b with [], [] => true | x :: a', y :: b' => (x =? y)%N && beqb a' b' | _, _ => false end.
Lemma beqb_refl a : beqb a a = true.
Proof. induction a as [|x a IH]; simpl; [reflexivity|]. rewrite N.eqb_refl, IH. reflexivity. Qed.
Lemma beqb_eq a : forall b, beqb a b = true -> a = b.
Proof.
  induction a as [|x a IH]; intros [|y b]; simpl; try discriminate; [reflexivity|].
  intros H. apply andb_prop in H as [H1 H2]. apply N.eqb_eq in H1. rewrite (IH _ H2), H1. reflexivity.
Qed.

(* the device's code tags and their wire strings *)
Definition rc_of (c : code) : rc := match c with COk => RcOk | CContinue => RcContinue | CError => RcError end.
(* what the Python dispatcher makes of a code string: two literals, anything else is an error code *)
Definition ERR_TAG : N := 1.
Definition py_decode (s : bytes) : Py.code :=
  if beqb s py_code_continue then Py.Continue else if beqb s py_code_ok then Py.Ok else Py.Other ERR_TAG.

Lemma codes_agree : py_decode (rc_str RcOk) = Py.Ok /\ py_decode (rc_str RcContinue) = Py.Continue /\
                    py_decode (rc_str RcError) = Py.Other ERR_TAG.
Proof. repeat split; reflexivity. Qed.

(* topic layout and correlation data *)
Definition RESPONSE : bytes := [47; 114; 101; 115; 112; 111; 110; 115; 101]%N.
Lemma constants_agree :
  py_response_suffix = RESPONSE /\ py_response_suffix_sync = RESPONSE /\
  (0 < py_cd_length)%N /\ (py_cd_length <= MAX_CD_LENGTH)%N /\
  py_code_key_is_code = true /\ py_request_topic_is_prefix_settings_path = true /\
  (N.of_nat (length RESPONSE) + 64 <= MAX_TOPIC_LENGTH)%N.
Proof. repeat split; try reflexivity; vm_compute; congruence. Qed.

(* what reaches the Python dispatcher: it is subscribed to its response topic [rtp] only; [enc]
   names correlation data (any function: the dispatcher only compares them) *)
Definition to_py (rtp : bytes) (enc : bytes -> N) (o : out) : list Py.msg :=
  match o with
  | OPub (TOther t) pl _ c cd =>
      if beqb t rtp then
        [{| Py.topic_ok := true; Py.mcd := option_map enc cd;
            Py.mcode := option_map (fun c => py_decode (rc_str (rc_of c))) c; Py.body := pl |}]
      else []
  | _ => []
  end.

Lemma to_py_conts rtp enc cdb L :
  flat_map (to_py rtp enc) (list_msgs (TOther rtp) (Some cdb) L) = map (Py.cont_msg (enc cdb)) L.
Proof.
  induction L as [|p L IH]; [reflexivity|]. cbn [list_msgs map flat_map to_py app]. rewrite beqb_refl.
  cbn [app]. f_equal. exact IH.
Qed.

(* ---------------------------------------------------------------- immediate answers *)
Section Request.
  Variables (rtp cdb q : bytes) (enc : bytes -> N).
  Variable im : inmsg.
  Hypothesis Hset : m_settings im = Some q.
  Hypothesis Hok : m_reply_ok im = true.
  Hypothesis Hresp : m_resp im = Some rtp.
  Hypothesis Hcd : m_cd im = Some cdb.
  Let c := enc cdb.

  Definition py_result (o : list out) : list Py.completion :=
    snd (Py.run [(c, [])] (flat_map (to_py rtp enc) o)).

  (* get of a leaf: the JSON value the device holds *)
  Theorem e2e_get m t b : m_empty im = true -> m_ans im = AGet b -> b <> [] ->
    exists m' o, on_message m im t = Some (m', o, false) /\
      Py.finish 1 (hd_error (py_result o)) = Py.Value b.
  Proof.
    intros He Ha Hb. rewrite (on_message_answers _ _ _ _ Hset Hok), He, Ha, Hresp, Hcd.
    eexists _, _. split; [reflexivity|]. unfold py_result. cbn [flat_map to_py app]. rewrite beqb_refl.
    cbn [app option_map rc_of]. rewrite (proj1 codes_agree).
    change ([{| Py.topic_ok := true; Py.mcd := Some (enc cdb); Py.mcode := Some Py.Ok; Py.body := b |}])
      with (map (Py.cont_msg c) [] ++ Py.ok_msg c b :: []).
    rewrite Py.own_ok_completes. destruct b; [congruence|reflexivity].
  Qed.

  (* accepted set: normal completion *)
  Theorem e2e_set_ok m t : m_empty im = false -> m_ans im = ASetOk ->
    exists m' o, on_message m im t = Some (m', o, true) /\
      Py.finish 1 (hd_error (py_result o)) = Py.Value T_OK.
  Proof.
    intros He Ha. rewrite (on_message_answers _ _ _ _ Hset Hok), He, Ha.
    eexists _, _. split; [reflexivity|]. unfold py_result, respond. rewrite Hok, Hresp, Hcd.
    cbn [negb flat_map to_py app]. rewrite beqb_refl. cbn [app option_map rc_of]. rewrite (proj1 codes_agree).
    change ([{| Py.topic_ok := true; Py.mcd := Some (enc cdb); Py.mcode := Some Py.Ok; Py.body := T_OK |}])
      with (map (Py.cont_msg c) [] ++ Py.ok_msg c T_OK :: []).
    rewrite Py.own_ok_completes. reflexivity.
  Qed.

  (* any error (invalid / absent path, rejected write, busy, over-long properties): an exception
     carrying the device's error code and text *)
  Theorem e2e_error o txt : o = respond im txt CError ->
    forall mode, Py.finish mode (hd_error (py_result o)) = Py.Failed ERR_TAG txt.
  Proof.
    intros -> mode. unfold py_result, respond. rewrite Hok, Hresp, Hcd.
    cbn [negb flat_map to_py app]. rewrite beqb_refl. cbn [app option_map rc_of]. rewrite (proj2 (proj2 codes_agree)).
    change ([{| Py.topic_ok := true; Py.mcd := Some (enc cdb); Py.mcode := Some (Py.Other ERR_TAG); Py.body := txt |}])
      with (map (Py.cont_msg c) [] ++ Py.err_msg c ERR_TAG txt :: []).
    rewrite Py.own_error_raises. reflexivity.
  Qed.
  Theorem e2e_set_err m t txt : m_empty im = false -> m_ans im = ASetErr txt ->
    on_message m im t = Some (m, respond im txt CError, false).
  Proof. intros He Ha. rewrite (on_message_answers _ _ _ _ Hset Hok), He, Ha. reflexivity. Qed.
  Theorem e2e_get_err m t txt : m_empty im = true -> m_ans im = AErr txt ->
    on_message m im t = Some (m, respond im txt CError, false).
  Proof. intros He Ha. rewrite (on_message_answers _ _ _ _ Hset Hok), He, Ha. reflexivity. Qed.

  (* a leaf whose value does not fit the device's transmit buffer: an Error response with the text *)
  Theorem e2e_get_large m t txt : m_empty im = true -> m_ans im = AGetLarge txt ->
    on_message m im t = Some (m, respond im txt CError, false).
  Proof. intros He Ha. rewrite (on_message_answers _ _ _ _ Hset Hok), He, Ha. reflexivity. Qed.

  (* list: the request is accepted when idle and within the cache limits ... *)
  Theorem e2e_list_starts m t leaves : m_empty im = true -> m_ans im = AInternal leaves -> st m = Single ->
    too_long MAX_TOPIC_LENGTH (Some rtp) = false -> too_long MAX_CD_LENGTH (Some cdb) = false ->
    exists m', on_message m im t = Some (m', [], false) /\ st m' = Multipart /\
      pd m' = {| p_rem := leaves; p_resp := Some rtp; p_cd := Some cdb |}.
  Proof.
    intros He Ha Hs Ht Hc. rewrite (on_message_answers _ _ _ _ Hset Hok), He, Ha, Hs, Hresp, Hcd, Ht, Hc.
    cbn [sm_eqb]. unfold process. rewrite Hs, fire_single_multipart. cbn [bind].
    eexists. split; [reflexivity|]. split; reflexivity.
  Qed.
End Request.

(* ... and answered, over any schedule of update() calls that lets it finish, by exactly the leaf
   paths below the node in iteration order *)
Lemma list_spec_concat : forall es L rt cd, snd (list_spec es L rt cd) = true ->
  concat (fst (list_spec es L rt cd)) = list_msgs rt cd L ++ [OPub rt [] false (Some COk) cd].
Proof.
  induction es as [|e r IH]; intros L rt cd; simpl; [discriminate|].
  destruct (length L <? slots e)%nat eqn:E; simpl.
  - intros _. rewrite app_nil_r. rewrite firstn_all2; [reflexivity|]. apply Nat.ltb_lt in E. lia.
  - specialize (IH (skipn (slots e) L) rt cd). destruct (list_spec r (skipn (slots e) L) rt cd) as [os c0]. simpl in *.
    intros Hc. rewrite (IH Hc). rewrite app_assoc. f_equal.
    unfold list_msgs. rewrite <- map_app, firstn_skipn. reflexivity.
Qed.

Theorem e2e_list rtp cdb enc : forall es m, st m = Multipart -> p_resp (pd m) = Some rtp -> p_cd (pd m) = Some cdb ->
  Forall quiet es -> snd (action_outs es m) = true ->
  Py.finish 2 (hd_error (snd (Py.run [(enc cdb, [])] (flat_map (to_py rtp enc) (concat (fst (action_outs es m))))))) =
  match p_rem (pd m) with [] => Py.AssertEmpty | L => Py.Values L end.
Proof.
  intros es m Hs Hr Hc Hq Hdone. rewrite (list_refines es m rtp Hs Hr Hq) in *. rewrite Hc in *.
  rewrite (list_spec_concat _ _ _ _ Hdone). rewrite flat_map_app, to_py_conts.
  cbn [flat_map to_py app]. rewrite beqb_refl. cbn [app option_map rc_of]. rewrite (proj1 codes_agree).
  change ([{| Py.topic_ok := true; Py.mcd := Some (enc cdb); Py.mcode := Some Py.Ok; Py.body := [] |}])
    with ([Py.ok_msg (enc cdb) []]).
  rewrite Py.own_ok_completes. cbn [hd_error Py.finish]. destruct (p_rem (pd m)); reflexivity.
Qed.
