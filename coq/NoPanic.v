(* C16 core: on a well-formed schema and a value of that schema, no by-key operation reaches
   an [unreachable!()] arm or an out-of-range slice index (the model's [Unreachable]). *)
From Coq Require Import List NArith ZArith Lia Bool Arith PeanoNat.
From MC Require Import Str Packed Packed_proofs Tree Spec Tree_proofs.
Import ListNotations.

(* well-formed schemas: every lookup has as many entries as the node has children (at least one) *)
Fixpoint wf (t : node) : Prop :=
  match t with
  | NLeaf _ => True
  | NGate _ t' => wf t'
  | NFlat _ _ t' => wf t'
  | NHet _ lk cs =>
      lk_len lk = N.of_nat (length cs) /\ cs <> [] /\
      (fix all (cs : list (attrs * node)) : Prop :=
         match cs with [] => True | c :: r => wf (snd c) /\ all r end) cs
  | NHom n t' => (0 < n)%N /\ wf t'
  end.

Lemma position_bound s : forall names i, position s names = Some i -> (i < N.of_nat (length names))%N.
Proof.
  induction names as [|n r IH]; intros i H; simpl in H; [discriminate|].
  destruct (str_eqb n s).
  - injection H as <-. simpl. lia.
  - destruct (position s r) as [j|]; [|discriminate]. injection H as <-.
    specialize (IH j eq_refl). simpl length. lia.
Qed.

Lemma find_bound x lk i : find x lk = Some i -> (i < lk_len lk)%N.
Proof.
  destruct x as [z|s]; simpl.
  - destruct ((0 <=? z)%Z && (z <? 18446744073709551616)%Z); [|discriminate].
    destruct (N.ltb_spec (Z.to_N z) (lk_len lk)) as [Hlt|]; [|discriminate]. intros Hi. injection Hi as <-. assumption.
  - destruct lk as [ns|n|n]; simpl.
    + apply position_bound.
    + destruct (parse_usize s) as [j|]; [|discriminate]. destruct (N.ltb_spec j n) as [Hlt|]; [|discriminate].
      intros Hi. injection Hi as <-. assumption.
    + destruct (parse_usize s) as [j|]; [|discriminate]. destruct (N.ltb_spec j n) as [Hlt|]; [|discriminate].
      intros Hi. injection Hi as <-. assumption.
Qed.

(* every index a key source hands out is below the sibling count *)
Lemma knext_bound : forall k lk i k', knext k lk = (KOk i, k') -> (i < lk_len lk)%N.
Proof.
  induction k as [ks|w|a IHa b IHb|a IHa]; intros lk i k' H; simpl in H.
  - destruct ks as [|x r]; [discriminate|]. destruct (find x lk) as [j|] eqn:E; [|discriminate].
    injection H as <- _. eapply find_bound. exact E.
  - destruct (pop_msb w (bits_for (Z.of_N (lk_len lk) - 1))) as [[v w']|]; [|discriminate].
    destruct (N.ltb_spec (Z.to_N v) (lk_len lk)) as [Hlt|]; [|discriminate]. injection H as <- _. assumption.
  - destruct (knext a lk) as [[j| |] a'] eqn:Ea.
    + injection H as <- _. eapply IHa. exact Ea.
    + destruct (knext b lk) as [r b'] eqn:Eb. injection H as -> _. eapply IHb. exact Eb.
    + discriminate.
  - destruct (knext a lk) as [r a'] eqn:Ea. injection H as -> _. eapply IHa. exact Ea.
Qed.

Section NoPanic.
Variable L : Type.
Variable wr : L -> leafres L.
Variable rd : L -> bool.
Variable orc : oracle.
Notation run := (run wr rd orc).

(* values of a schema *)
Fixpoint has_type (t : node) (v : value L) {struct t} : Prop :=
  match t, v with
  | NLeaf _, VLeaf _ => True
  | NGate g t', VGate s c => s = GSabsent /\ (g = GOption \/ g = GRcWeak \/ g = GArcWeak) \/ has_type t' c
  | NFlat false _ t', VProd (c :: _) => has_type t' c
  | NFlat true _ t', VSum act c => match act with Some 0 => has_type t' c | Some _ => False | None => True end
  | NHet h lk cs, VProd vs =>
      is_sum h = false /\
      (fix all (cs : list (attrs * node)) (vs : list (value L)) : Prop :=
         match cs, vs with
         | [], _ => True
         | c :: r, x :: vr => has_type (snd c) x /\ all r vr
         | _ :: _, [] => False
         end) cs vs
  | NHet h lk cs, VSum act c =>
      is_sum h = true /\
      match act with
      | None => True
      | Some j => (fix pick (cs : list (attrs * node)) (j : nat) : Prop :=
                     match cs, j with
                     | [], _ => False
                     | x :: _, O => has_type (snd x) c
                     | _ :: r, S j' => pick r j'
                     end) cs j
      end
  | NHom n t', VProd vs => N.of_nat (length vs) = n /\
      (fix all (vs : list (value L)) : Prop := match vs with [] => True | x :: r => has_type t' x /\ all r end) vs
  | _, _ => False
  end.

Definition safe (x : out L) : Prop := fst (fst x) <> RErr Unreachable.

Lemma safe_incr x : safe x -> safe (incr_out x).
Proof. destruct x as [[r v] lg]. unfold safe. simpl. destruct r as [d|[]]; simpl; congruence. Qed.

Lemma safe_arm o a c (f : value L -> out L) : safe (f c) -> safe (arm orc o a c f).
Proof.
  intros H. unfold Tree.arm, safe. destruct (a_deny a o); [simpl; congruence|].
  destruct (match (if writes o then a_getmut a else a_get a) with
            | Some id => match orc id with CbFail m => Some m | _ => None end | None => None end); [simpl; congruence|].
  destruct (f c) as [[r c'] lg]. unfold safe in H. simpl in H.
  destruct o, r as [d|e]; try exact H.
  destruct (a_val a) as [vid|]; [|exact H].
  destruct (orc vid) as [[d'|]|m]; simpl; congruence.
Qed.

Lemma gate_absent_err g o s : s = GSabsent /\ (g = GOption \/ g = GRcWeak \/ g = GArcWeak) -> gate_err g o s <> None.
Proof. intros [-> [->|[->| ->]]]; destruct o; simpl; congruence. Qed.

Lemma safe_with_child_prod vs i (f : value L -> out L) c :
  nth_error vs i = Some c -> safe (f c) -> safe (with_child false (VProd vs) i f).
Proof. intros E H. unfold with_child. rewrite E. destruct (f c) as [[r c'] lg]. exact H. Qed.

Lemma safe_with_child_sum act c i (f : value L -> out L) :
  (act = Some i -> safe (f c)) -> safe (with_child true (VSum act c) i f).
Proof.
  intros H. unfold with_child. destruct act as [j|]; [|unfold safe; simpl; congruence].
  destruct (Nat.eqb_spec i j) as [->|]; [|unfold safe; simpl; congruence].
  specialize (H eq_refl). destruct (f c) as [[r c'] lg]. exact H.
Qed.

Definition pick_fn (o : op) (k' : keys) (c : value L) :=
  fix pick (cs : list (attrs * node)) (j : nat) {struct cs} : out L :=
    match cs with
    | [] => (RErr Unreachable, c, [])
    | (a, t') :: r => match j with
                      | O => arm orc o a c (fun c => run o t' c k')
                      | S j' => pick r j' end
    end.

Lemma pick_safe o k' c : forall cs j a t',
  nth_error cs j = Some (a, t') -> safe (run o t' c k') -> safe (pick_fn o k' c cs j).
Proof.
  induction cs as [|[a0 t0] r IH]; intros j a t' E H; [destruct j; discriminate|].
  destruct j as [|j]; simpl in E.
  - injection E as -> ->. simpl. apply safe_arm. exact H.
  - simpl. eapply IH; eauto.
Qed.

Lemma typed_prod_nth : forall (cs : list (attrs * node)) (vs : list (value L)) j a t',
  (fix all (cs : list (attrs * node)) (vs : list (value L)) : Prop :=
     match cs, vs with
     | [], _ => True
     | c :: r, x :: vr => has_type (snd c) x /\ all r vr
     | _ :: _, [] => False
     end) cs vs ->
  nth_error cs j = Some (a, t') -> exists c, nth_error vs j = Some c /\ has_type t' c.
Proof.
  induction cs as [|[a0 t0] r IH]; intros vs j a t' Hall E; [destruct j; discriminate|].
  destruct vs as [|x vr]; [exfalso; exact Hall|]. destruct Hall as [Hx Hr].
  destruct j as [|j]; simpl in E.
  - injection E as -> ->. exists x. split; [reflexivity|exact Hx].
  - simpl. eapply IH; eauto.
Qed.

Lemma typed_sum_nth (c : value L) : forall (cs : list (attrs * node)) j a t',
  (fix pick (cs : list (attrs * node)) (j : nat) : Prop :=
     match cs, j with
     | [], _ => False
     | x :: _, O => has_type (snd x) c
     | _ :: r, S j' => pick r j'
     end) cs j ->
  nth_error cs j = Some (a, t') -> has_type t' c.
Proof.
  induction cs as [|[a0 t0] r IH]; intros j a t' Hp E; [destruct j; discriminate|].
  destruct j as [|j]; simpl in E.
  - injection E as -> ->. exact Hp.
  - eapply IH; eauto.
Qed.

Lemma wf_all_nth : forall (cs : list (attrs * node)) j a t',
  (fix all (cs : list (attrs * node)) : Prop :=
     match cs with [] => True | c :: r => wf (snd c) /\ all r end) cs ->
  nth_error cs j = Some (a, t') -> wf t'.
Proof.
  induction cs as [|[a0 t0] r IH]; intros j a t' Hall E; [destruct j; discriminate|].
  destruct Hall as [Hx Hr]. destruct j as [|j]; simpl in E.
  - injection E as -> ->. exact Hx.
  - eapply IH; eauto.
Qed.

Theorem run_no_panic o : forall t v k, wf t -> has_type t v -> safe (run o t v k).
Proof.
  induction t as [lk|g t IH|s a t IH|h lk cs IH|n t IH] using node_ind'; intros v k Hw Ht.
  - cbn [Tree.run]. destruct (kfin k); [|unfold safe; simpl; congruence].
    destruct v as [x|s c|vs|act c]; try (exfalso; exact Ht).
    unfold safe, leaf_op, leaf_write. destruct lk, o; simpl; try congruence;
      try (destruct (rd x); simpl; congruence); destruct (wr x); simpl; congruence.
  - cbn [Tree.run]. destruct v as [x|s c|vs|act c]; try (exfalso; exact Ht).
    simpl in Ht. destruct (gate_err g o s) as [e|] eqn:E; [unfold safe; destruct e; simpl; congruence|].
    destruct Ht as [Ha|Ht]; [exfalso; eapply gate_absent_err; eauto|].
    specialize (IH c k Hw Ht). destruct (run o t c k) as [[r c'] lg]. exact IH.
  - cbn [Tree.run]. destruct s, v as [x|st c|vs|act c]; try (exfalso; exact Ht).
    + apply safe_with_child_sum. intros ->. simpl in Ht. apply safe_arm. apply IH; assumption.
    + destruct vs as [|c vs]; [exfalso; exact Ht|]. simpl in Ht.
      eapply safe_with_child_prod; [reflexivity|]. apply safe_arm. apply IH; assumption.
  - cbn [Tree.run]. destruct (knext k lk) as [[i| |] k'] eqn:Ek; try (unfold safe; simpl; congruence).
    apply safe_incr. pose proof (knext_bound _ _ _ _ Ek) as Hb.
    destruct Hw as (Hlen & Hne & Hall). rewrite Hlen in Hb.
    assert (Hj : N.to_nat i < length cs) by lia.
    destruct (nth_error cs (N.to_nat i)) as [[a t']|] eqn:En; [|apply nth_error_None in En; lia].
    assert (Hwt : wf t') by (eapply wf_all_nth; eauto).
    assert (Hrun : forall c, has_type t' c -> safe (run o t' c k')).
    { intros c Hc. rewrite Forall_forall in IH. apply (IH (a, t')); [eapply nth_error_In; eauto|exact Hwt|exact Hc]. }
    destruct v as [x|st c|vs|act c]; try (exfalso; exact Ht).
    + destruct Ht as [Hs Ht]. rewrite Hs.
      destruct (typed_prod_nth _ _ _ _ _ Ht En) as (c & Ec & Hc).
      eapply safe_with_child_prod; [exact Ec|].
      change (safe (pick_fn o k' c cs (N.to_nat i))). eapply pick_safe; [exact En|]. apply Hrun. exact Hc.
    + destruct Ht as [Hs Ht]. rewrite Hs. apply safe_with_child_sum. intros ->.
      change (safe (pick_fn o k' c cs (N.to_nat i))). eapply pick_safe; [exact En|]. apply Hrun.
      eapply typed_sum_nth; eauto.
  - cbn [Tree.run]. destruct (knext k (Homog n)) as [[i| |] k'] eqn:Ek; try (unfold safe; simpl; congruence).
    apply safe_incr. pose proof (knext_bound _ _ _ _ Ek) as Hb. simpl in Hb.
    destruct Hw as [Hn Hw]. destruct v as [x|st c|vs|act c]; try (exfalso; exact Ht).
    destruct Ht as [Hlen Hall]. assert (Hj : N.to_nat i < length vs) by lia.
    destruct (nth_error vs (N.to_nat i)) as [c|] eqn:E; [|apply nth_error_None in E; lia].
    assert (Hc : has_type t c).
    { clear - Hall E. revert vs Hall E. generalize (N.to_nat i) as j.
      induction j as [|j IHj]; intros [|x vr] Hall E; simpl in *; try discriminate.
      - injection E as <-. apply Hall.
      - eapply IHj; [apply Hall|exact E]. }
    eapply safe_with_child_prod; [exact E|]. apply IH; assumption.
Qed.

(* the type-level traversal never reaches an unreachable!() arm on a well-formed schema,
   whatever the key source and whatever the callback does *)
Theorem trav_no_panic cbf : forall t k pre, wf t -> fst (trav cbf t k pre) <> RErr Unreachable.
Proof.
  induction t as [lk|g t IH|s a t IH|h lk cs IH|n t IH] using node_ind'; intros k pre Hw.
  - cbn [trav]. destruct (kfin k); simpl; congruence.
  - cbn [trav]. apply IH. exact Hw.
  - cbn [trav]. apply IH. exact Hw.
  - cbn [trav]. destruct (knext k lk) as [[i| |] k'] eqn:Ek; try (simpl; congruence).
    destruct (reports h && cbf pre (i, lk_name lk i, lk_len lk)); [simpl; congruence|].
    set (pre' := if reports h then (i, lk_name lk i, lk_len lk) :: pre else pre). clearbody pre'.
    pose proof (knext_bound _ _ _ _ Ek) as Hb. destruct Hw as (Hlen & Hne & Hall). rewrite Hlen in Hb.
    assert (Hj : N.to_nat i < length cs) by lia. clear Hb Hlen Hne Ek.
    assert (G : forall y : tout, fst y <> RErr Unreachable -> fst (tincr y) <> RErr Unreachable).
    { intros [[d|[]] cs0]; simpl; congruence. }
    apply G. revert Hall Hj. generalize (N.to_nat i) as j.
    induction IH as [|[a t'] r Hc _ IHr]; intros j Hall Hj; [simpl in Hj; lia|].
    destruct Hall as [Hwx Hwr]. destruct j as [|j]; [apply Hc; exact Hwx|]. simpl in Hj. apply IHr; [exact Hwr|lia].
  - cbn [trav]. destruct (knext k (Homog n)) as [[i| |] k']; try (simpl; congruence).
    destruct (cbf pre (i, None, n)); [simpl; congruence|].
    assert (G : forall y : tout, fst y <> RErr Unreachable -> fst (tincr y) <> RErr Unreachable).
    { intros [[d|[]] cs0]; simpl; congruence. }
    apply G. apply IH. apply Hw.
Qed.
End NoPanic.

(* every width a Packed key source asks pop_msb for is at most 64, and at most 63 whenever the
   node has no more than 2^63 children: no shift in packed.rs overflows *)
Theorem packed_key_width (n : N) : (1 <= n <= 2 ^ 63)%N -> (1 <= bits_for (Z.of_N n - 1) <= 63)%Z.
Proof. intros H. apply bits_for_len. change (2 ^ 63)%Z with (Z.of_N (2 ^ 63)). lia. Qed.
