(* C11: the exact-size wrapper (iter.rs: struct ExactSize { iter, count }): count starts at
   Metadata::count and is decremented for every Some the inner iterator returns; len() = count. *)
From Coq Require Import List NArith ZArith Lia Bool Arith PeanoNat.
From MC Require Import Str Packed Tree Spec Tree_proofs NoPanic Transcode_proofs Meta_proofs Odometer Iter_proofs.
Import ListNotations.
Local Open Scope N_scope.

Definition es_state := (istate * N)%type.
(* NodeIter::exact_size(): fresh, unrooted, D >= max_depth (asserted by the code) *)
Definition es_new (t : node) (D : nat) : es_state := (iter_default D, m_count (metadata t)).
Definition es_len (s : es_state) : N := snd s.
Definition es_next (t : node) (tg : target) (s : es_state) : iout * es_state :=
  match iter_next t tg (fst s) with
  | (IItem it, st') => (IItem it, (st', snd s - 1))
  | (o, st') => (o, (st', snd s))
  end.
(* n calls: what each returned and len() right after it *)
Fixpoint es_collect (n : nat) (t : node) (tg : target) (s : es_state) : list (iout * N) :=
  match n with O => [] | S n' =>
  match es_next t tg s with
  | (IItem it, s') => (IItem it, es_len s') :: es_collect n' t tg s'
  | (o, s') => [(o, es_len s')]
  end end.

Fixpoint lens (c : N) (outs : list iout) : list N :=
  match outs with
  | [] => []
  | IItem _ :: r => (c - 1) :: lens (c - 1) r
  | _ :: r => c :: lens c r
  end.

Lemma es_collect_spec t tg : forall n st c,
  es_collect n t tg (st, c) = combine (iter_collect n t tg st) (lens c (iter_collect n t tg st)).
Proof.
  induction n as [|n IH]; intros st c; [reflexivity|].
  cbn [es_collect iter_collect]. unfold es_next. cbn [fst snd].
  destruct (iter_next t tg st) as [[| |it] st']; cbn [es_len snd lens combine]; try reflexivity.
  rewrite IH. reflexivity.
Qed.

Lemma lens_items (f : list N -> iout) (Hf : forall q, exists it, f q = IItem it) : forall l c,
  lens c (map f l ++ [IDone]) = map (fun i => c - N.of_nat (S i)) (seq 0 (length l)) ++ [c - N.of_nat (length l)].
Proof.
  induction l as [|q l IH]; intros c.
  - cbn [map app lens length seq]. rewrite N.sub_0_r. reflexivity.
  - cbn [map app length]. destruct (Hf q) as (it & ->). cbn [lens]. rewrite IH.
    change (seq 0 (S (length l))) with (0%nat :: seq 1 (length l)). cbn [map app].
    replace (c - N.of_nat 1) with (c - 1) by lia. apply f_equal.
    rewrite <- seq_shift, map_map.
    replace (c - 1 - N.of_nat (length l)) with (c - N.of_nat (S (length l))) by lia.
    apply (f_equal (fun x => x ++ [c - N.of_nat (S (length l))])).
    apply map_ext. intros i. lia.
Qed.

(* for a target with enough capacity and a depth limit of at least max_depth: after the i-th item
   len() is count - i, i.e. exactly the number of items still to come; after the last item and ever
   after it is 0 *)
Theorem exact_size_correct t tg D : NoPanic.wf t -> small t -> tg_total t tg ->
  (m_depth (metadata t) <= N.of_nat D)%N ->
  let L := length (enum D (shape_of t)) in
  N.of_nat L = m_count (metadata t) /\
  es_collect (S (S L)) t tg (es_new t D) =
  combine (map (expect t tg D [] (shape_of t)) (enum D (shape_of t)) ++ [IDone])
          (map (fun i => N.of_nat (L - S i)) (seq 0 L) ++ [0]).
Proof.
  intros Hw Hs Htg HD. cbv zeta. destruct (iter_count t D Hw HD) as [Hc _]. split; [exact Hc|].
  unfold es_new. rewrite es_collect_spec. rewrite (iter_complete_node t tg Hw Hs Htg D).
  f_equal. rewrite (lens_items (expect t tg D [] (shape_of t))).
  - rewrite <- Hc. set (L := length (enum D (shape_of t))).
    apply (f_equal2 (@app N)).
    + apply map_ext_in. intros i Hi. apply in_seq in Hi. lia.
    + f_equal. lia.
  - intros q. unfold expect. eexists. reflexivity.
Qed.

(* ... and the hypothesis on the target is necessary: with a Path of 4 bytes on
   { a, long_name: { x, y }, b } the wrapper announces 4 items, 3 are yielded, and len() is still 1
   after the end (the recorded finding exactsize-capacity; in debug builds the real wrapper's
   debug_assert!(count == 0) fires there) *)
From MC Require Iter_cap.
Example exact_size_capacity_refuted :
  map snd (es_collect 6 Iter_cap.ex_t (TgPath 47 4) (es_new Iter_cap.ex_t 2)) = [3; 2; 1; 1].
Proof. vm_compute. reflexivity. Qed.
