(* C12: the accessor / validator / deny protocol, read off the callback log of the interpreter. *)
From Coq Require Import List NArith ZArith Lia Bool Arith PeanoNat.
From MC Require Import Str Packed Tree Spec Tree_proofs.
Import ListNotations.

Section Protocol.
Variable L : Type.
Variable wr : L -> leafres L.
Variable rd : L -> bool.
Variable orc : oracle.
Notation run := (run wr rd orc).
Notation out := (out L).

Definition getter_ev (o : op) (id : N) : event L := if writes o then EvGetMut id else EvGet id.

(* ---- one field (match arm of the derive expansion) ---- *)
Theorem arm_deny o a v (child : value L -> out) m :
  a_deny a o = Some m -> arm orc o a v child = (RErr (Access 0 m), v, []).
Proof. intros H. unfold Tree.arm. rewrite H. reflexivity. Qed.

Theorem arm_getter_fail o a v (child : value L -> out) id m :
  a_deny a o = None -> (if writes o then a_getmut a else a_get a) = Some id -> orc id = CbFail m ->
  arm orc o a v child = (RErr (Access 0 m), v, [getter_ev o id]).
Proof. intros Hd Hg Ho. unfold Tree.arm. rewrite Hd, Hg, Ho. reflexivity. Qed.

Definition getter_log (o : op) (a : attrs) : list (event L) :=
  match (if writes o then a_getmut a else a_get a) with Some id => [getter_ev o id] | None => [] end.
Definition getter_ok (o : op) (a : attrs) : Prop :=
  match (if writes o then a_getmut a else a_get a) with Some id => forall m, orc id <> CbFail m | None => True end.

Theorem arm_child_error o a v (child : value L -> out) e v' lg :
  a_deny a o = None -> getter_ok o a -> child v = (RErr e, v', lg) ->
  arm orc o a v child = (RErr e, v', getter_log o a ++ lg).
Proof.
  intros Hd Hg Hc. unfold Tree.arm, getter_ok, getter_log, getter_ev in *. rewrite Hd.
  destruct (if writes o then a_getmut a else a_get a) as [id|].
  - destruct (orc id) as [rp|m] eqn:Eo; [|exfalso; eapply Hg; reflexivity].
    rewrite Hc. destruct o; reflexivity.
  - rewrite Hc. destruct o; reflexivity.
Qed.

Theorem arm_not_deserialize o a v (child : value L -> out) r v' lg :
  o <> ODe -> a_deny a o = None -> getter_ok o a -> child v = (r, v', lg) ->
  arm orc o a v child = (r, v', getter_log o a ++ lg).
Proof.
  intros Ho Hd Hg Hc. unfold Tree.arm, getter_ok, getter_log, getter_ev in *. rewrite Hd.
  destruct (if writes o then a_getmut a else a_get a) as [id|].
  - destruct (orc id) as [rp|m] eqn:Eo; [|exfalso; eapply Hg; reflexivity].
    rewrite Hc. destruct o, r; try reflexivity; congruence.
  - rewrite Hc. destruct o, r; try reflexivity; congruence.
Qed.

(* the validator runs after the child succeeded, receives the depth returned from below, may
   replace it, and its failure is Invalid at this field (depth 0 here, incremented on the way up) *)
Theorem arm_validator a v (child : value L -> out) d v' lg id :
  a_deny a ODe = None -> getter_ok ODe a -> child v = (ROk d, v', lg) -> a_val a = Some id ->
  arm orc ODe a v child =
    (match orc id with CbOk None => ROk d | CbOk (Some d') => ROk d' | CbFail m => RErr (Invalid 0 m) end,
     v', getter_log ODe a ++ lg ++ [EvVal id d]).
Proof.
  intros Hd Hg Hc Hv. unfold Tree.arm, getter_ok, getter_log, getter_ev in *. rewrite Hd. simpl in *.
  destruct (a_getmut a) as [gid|].
  - destruct (orc gid) as [rp|m] eqn:Eo; [|exfalso; eapply Hg; reflexivity].
    rewrite Hc, Hv. destruct (orc id) as [[d'|]|m]; reflexivity.
  - rewrite Hc, Hv. destruct (orc id) as [[d'|]|m]; reflexivity.
Qed.

(* ---- the whole log ---- *)
Definition is_write (e : event L) : bool := match e with EvWrite _ => true | _ => false end.
Definition has_write (lg : list (event L)) : Prop := filter is_write lg <> [].

(* nesting: getters outside-in, then the leaf access, then validators inside-out *)
Inductive lshape (o : op) : list (event L) -> Prop :=
| sh_none : lshape o []
| sh_read x : writes o = false -> lshape o [EvRead x]
| sh_write y : writes o = true -> lshape o [EvWrite y]
| sh_get id lg : lshape o lg -> lshape o (getter_ev o id :: lg)
| sh_val id d lg : o = ODe -> has_write lg -> lshape o lg -> lshape o (lg ++ [EvVal id d]).

(* a successful deserialize has written the leaf *)
Definition okw (o : op) (x : out) : Prop :=
  let '(r, _, lg) := x in forall d, o = ODe -> r = ROk d -> has_write lg.

Definition good (o : op) (x : out) : Prop := lshape o (snd x) /\ okw o x.

Lemma good_incr o x : good o x -> good o (incr_out x).
Proof.
  destruct x as [[r v] lg]. unfold good, okw. simpl. intros [H1 H2]. split; [exact H1|].
  intros d Ho Hr. destruct r as [d0|e]; [|destruct e; discriminate]. eapply H2; eauto.
Qed.

Lemma good_err o e v : good o (RErr e, v, []).
Proof. split; [constructor|]. simpl. intros d _ H. discriminate. Qed.

Lemma good_with_child o sum v i (f : value L -> out) :
  (forall c, good o (f c)) -> good o (with_child sum v i f).
Proof.
  intros H. unfold with_child. destruct sum, v as [x|s c|vs|act c]; try apply good_err.
  - destruct act as [j|]; [|apply good_err]. destruct (Nat.eqb i j); [|apply good_err].
    specialize (H c). destruct (f c) as [[r c'] lg]. exact H.
  - destruct (nth_error vs i) as [c|]; [|apply good_err]. specialize (H c). destruct (f c) as [[r c'] lg]. exact H.
Qed.

Lemma has_write_app_l (a b : list (event L)) : has_write b -> has_write (a ++ b).
Proof. unfold has_write. rewrite filter_app. intros H E. apply app_eq_nil in E. tauto. Qed.
Lemma has_write_app_r (a b : list (event L)) : has_write a -> has_write (a ++ b).
Proof. unfold has_write. rewrite filter_app. intros H E. apply app_eq_nil in E. tauto. Qed.

Lemma lshape_getter o (g : option N) lg : lshape o lg ->
  lshape o (match g with Some id => [getter_ev o id] | None => [] end ++ lg).
Proof. destruct g; [|exact id]. simpl. apply sh_get. Qed.

Lemma good_arm o a c (f : value L -> out) : good o (f c) -> good o (arm orc o a c f).
Proof.
  intros H. unfold Tree.arm. destruct (a_deny a o); [apply good_err|].
  set (g := if writes o then a_getmut a else a_get a).
  change (match g with Some id => [if writes o then EvGetMut id else EvGet id] | None => [] end)
    with (match g with Some id => [getter_ev o id] | None => [] end).
  set (ev := match g with Some id => [getter_ev o id] | None => [] end).
  destruct (match g with Some id => match orc id with CbFail m => Some m | _ => None end | None => None end).
  - split; [|simpl; intros d _ Hx; discriminate]. simpl. unfold ev. destruct g; [apply sh_get|]; constructor.
  - destruct (f c) as [[r c'] lg]. destruct H as [Hs Hw]. simpl in Hs.
    assert (G0 : forall r', (forall d, o = ODe -> r' = ROk d -> exists d0, r = ROk d0) -> good o (r', c', ev ++ lg)).
    { intros r' Hr. split; [apply lshape_getter; exact Hs|]. simpl. intros d Ho Hd.
      destruct (Hr d Ho Hd) as [d0 Hd0]. apply has_write_app_l. eapply Hw; eauto. }
    destruct o, r as [d|e]; try (apply G0; intros d0 Ho Hd; eauto; try discriminate).
    destruct (a_val a) as [vid|]; [|apply G0; eauto].
    assert (Hwl : has_write lg) by (eapply Hw; eauto).
    assert (Gv : forall r', good ODe (r', c', ev ++ lg ++ [EvVal vid d])).
    { intros r'. split.
      - simpl. rewrite app_assoc. apply sh_val; [reflexivity|apply has_write_app_l; exact Hwl|apply lshape_getter; exact Hs].
      - simpl. intros d0 _ _. apply has_write_app_l. apply has_write_app_r. exact Hwl. }
    destruct (orc vid) as [[d'|]|m]; apply Gv.
Qed.

Lemma good_leaf lk o v : good o (leaf_op wr rd lk o v).
Proof.
  unfold leaf_op, leaf_write. destruct lk, v as [x|s c|vs|act c]; try apply good_err.
  - destruct o.
    + destruct (rd x); [|apply good_err]. split; [apply sh_read; reflexivity|simpl; intros; discriminate].
    + destruct (wr x); try apply good_err. split; [apply sh_write; reflexivity|]. simpl. intros. unfold has_write. simpl. discriminate.
    + split; [apply sh_read; reflexivity|simpl; intros; discriminate].
    + destruct (wr x); try apply good_err. split; [apply sh_write; reflexivity|]. simpl. intros. discriminate.
  - destruct o; try apply good_err.
    + destruct (rd x); [|apply good_err]. split; [apply sh_read; reflexivity|simpl; intros; discriminate].
    + destruct (wr x); try apply good_err. split; [apply sh_write; reflexivity|]. simpl. intros. unfold has_write. simpl. discriminate.
Qed.

(* Every run's log is a nest: getters (immutable for reads, mutable for writes) top-down, at most
   one leaf access, validators bottom-up; validators appear only for deserialize and only after
   the leaf was written. *)
Theorem run_protocol o : forall t v k, good o (run o t v k).
Proof.
  induction t as [lk|g t IH|s a t IH|h lk cs IH|n t IH] using node_ind'; intros v k.
  - cbn [Tree.run]. destruct (kfin k); simpl; [apply good_leaf|apply good_err].
  - cbn [Tree.run]. destruct v as [x|s c|vs|act c]; try apply good_err.
    destruct (gate_err g o s); [apply good_err|].
    specialize (IH c k). destruct (run o t c k) as [[r c'] lg]. exact IH.
  - cbn [Tree.run]. apply good_with_child. intros c. apply good_arm. apply IH.
  - cbn [Tree.run]. destruct (knext k lk) as [[i| |] k']; try apply good_err.
    apply good_incr. apply good_with_child. intros c.
    generalize (N.to_nat i). induction IH as [|[a t'] r Ht _ IHr]; intros j; [apply good_err|].
    destruct j as [|j]; [|apply IHr]. apply good_arm. apply Ht.
  - cbn [Tree.run]. destruct (knext k (Homog n)) as [[i| |] k']; try apply good_err.
    apply good_incr. apply good_with_child. intros c. apply IH.
Qed.

(* flat reading of the nest *)
Definition is_getter (o : op) (e : event L) : Prop := exists id, e = getter_ev o id.
Definition is_val (e : event L) : Prop := exists id d, e = EvVal id d.
Definition is_access (e : event L) : Prop := (exists x, e = EvRead x) \/ (exists y, e = EvWrite y).

Theorem lshape_flat o lg : lshape o lg ->
  exists gs mid vs, lg = gs ++ mid ++ vs /\ Forall (is_getter o) gs /\ Forall is_val vs /\
    (mid = [] \/ exists e, mid = [e] /\ is_access e) /\ (vs <> [] -> o = ODe /\ exists y, mid = [EvWrite y]).
Proof.
  induction 1 as [|x Hw|y Hw|id lg Hs IH|id d lg Ho Hhw Hs IH].
  - exists [], [], []. split; [reflexivity|]. split; [constructor|]. split; [constructor|].
    split; [left; reflexivity|]. intros Hx. congruence.
  - exists [], [EvRead x], []. split; [reflexivity|]. split; [constructor|]. split; [constructor|].
    split; [right; eexists; split; [reflexivity|left; eauto]|]. intros Hx. congruence.
  - exists [], [EvWrite y], []. split; [reflexivity|]. split; [constructor|]. split; [constructor|].
    split; [right; eexists; split; [reflexivity|right; eauto]|]. intros Hx. congruence.
  - destruct IH as (gs & mid & vs & -> & Hg & Hv & Hm & Hvs).
    exists (getter_ev o id :: gs), mid, vs. split; [reflexivity|]. split; [constructor; [eexists; reflexivity|exact Hg]|].
    split; [exact Hv|]. split; [exact Hm|exact Hvs].
  - destruct IH as (gs & mid & vs & -> & Hg & Hv & Hm & Hvs).
    exists gs, mid, (vs ++ [EvVal id d]). split; [rewrite <- !app_assoc; reflexivity|].
    split; [exact Hg|]. split; [apply Forall_app; split; [exact Hv|constructor; [eexists _, _; reflexivity|constructor]]|].
    split; [exact Hm|]. intros _. split; [exact Ho|].
    (* a write event exists and can only be the leaf access *)
    unfold has_write in Hhw. rewrite !filter_app in Hhw.
    assert (Hgs : filter is_write gs = []).
    { clear - Hg. induction Hg as [|e l [id' ->] _ IHl]; [reflexivity|]. simpl. unfold getter_ev. destruct (writes o); exact IHl. }
    assert (Hvv : filter is_write vs = []).
    { clear - Hv. induction Hv as [|e l (id' & d' & ->) _ IHl]; [reflexivity|]. simpl. exact IHl. }
    rewrite Hgs, Hvv, app_nil_r in Hhw. simpl in Hhw.
    destruct Hm as [->|(e & -> & [[x ->]|[y ->]])]; simpl in Hhw; try congruence. eexists; reflexivity.
Qed.
End Protocol.
