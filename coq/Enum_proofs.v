(* C03, the converse direction: the depth-first enumeration [enum D sh] that NodeIter is proved to
   yield (Odometer.iter_complete, Iter_proofs.iter_complete_node) contains exactly the index paths
   that end at a leaf or at the depth limit, each once.  In particular, with D >= max depth, every
   key sequence that resolves to a leaf is among the yielded keys. *)
From Coq Require Import List NArith Lia Bool Arith.
From MC Require Import Odometer.
Import ListNotations.
Local Open Scope nat_scope.

Lemma child_some_lt sh i c : child sh i = Some c -> N.to_nat i < nchildren sh.
Proof.
  intros H. destruct (Nat.lt_ge_cases (N.to_nat i) (nchildren sh)) as [Hlt|Hge]; [exact Hlt|].
  apply child_ge in Hge. rewrite N2Nat.id in Hge. congruence.
Qed.

Lemma in_block enumD sh k q : In q (block enumD sh k) <->
  exists c q', child sh (N.of_nat k) = Some c /\ q = N.of_nat k :: q' /\ In q' (enumD c).
Proof.
  unfold block. destruct (child sh (N.of_nat k)) as [c|].
  - rewrite in_map_iff. split.
    + intros (q' & <- & Hin). exists c, q'. auto.
    + intros (c' & q' & Hc & -> & Hin). injection Hc as <-. exists q'. auto.
  - split; [intros []|]. intros (c & q' & Hc & _). discriminate.
Qed.

Theorem enum_iff : forall D sh q, In q (enum D sh) <-> maximal D sh q.
Proof.
  induction D as [|D IH]; intros sh q.
  - cbn [enum]. destruct q as [|i q]; cbn [maximal In]; [tauto|].
    split; [intros [H|[]]; discriminate|intros []].
  - cbn [enum]. destruct (is_leaf sh) eqn:Hl.
    + destruct q as [|i q]; cbn [maximal In].
      * rewrite Hl. tauto.
      * rewrite (child_leaf sh i Hl). split; [intros [H|[]]; discriminate|intros []].
    + rewrite in_flat_map. destruct q as [|i q]; cbn [maximal].
      * rewrite Hl. split.
        -- intros (k & _ & Hin). apply in_block in Hin. destruct Hin as (c & q' & _ & Hq & _). discriminate.
        -- intros [H|H]; discriminate.
      * split.
        -- intros (k & _ & Hin). apply in_block in Hin. destruct Hin as (c & q' & Hc & Hq & Hin).
           injection Hq as -> ->. rewrite Hc. apply IH. exact Hin.
        -- destruct (child sh i) as [c|] eqn:Hc; [|intros []]. intros Hm.
           exists (N.to_nat i). split.
           ++ apply in_seq. pose proof (child_some_lt sh i c Hc). lia.
           ++ apply in_block. exists c, q. rewrite N2Nat.id. repeat split; [exact Hc|]. apply IH. exact Hm.
Qed.

(* ---- each node once ---- *)
Lemma NoDup_app_disj {A} (l1 l2 : list A) : NoDup l1 -> NoDup l2 ->
  (forall x, In x l1 -> In x l2 -> False) -> NoDup (l1 ++ l2).
Proof.
  induction l1 as [|a l1 IH]; intros H1 H2 Hd; cbn [List.app]; [exact H2|].
  inversion H1 as [|a' l' Hn Hnd]; subst. constructor.
  - rewrite in_app_iff. intros [H|H]; [exact (Hn H)|]. apply (Hd a); [left; reflexivity|exact H].
  - apply IH; [exact Hnd|exact H2|]. intros x Hx1 Hx2. apply (Hd x); [right; exact Hx1|exact Hx2].
Qed.

Lemma NoDup_map_cons (k : N) (l : list (list N)) : NoDup l -> NoDup (map (cons k) l).
Proof.
  induction 1 as [|q l Hn Hnd IH]; cbn [map]; constructor; [|exact IH].
  rewrite in_map_iff. intros (q' & Hq & Hin). injection Hq as ->. exact (Hn Hin).
Qed.

Lemma NoDup_blocks enumD sh (HD : forall c, NoDup (enumD c)) : forall ks, NoDup ks ->
  NoDup (flat_map (block enumD sh) ks).
Proof.
  induction ks as [|k ks IH]; intros Hks; cbn [flat_map]; [constructor|].
  inversion Hks as [|k' ks' Hn Hnd]; subst. apply NoDup_app_disj.
  - unfold block. destruct (child sh (N.of_nat k)); [apply NoDup_map_cons, HD|constructor].
  - apply IH. exact Hnd.
  - intros q H1 H2. apply in_block in H1. destruct H1 as (c & q' & _ & -> & _).
    apply in_flat_map in H2. destruct H2 as (k2 & Hk2 & Hin). apply in_block in Hin.
    destruct Hin as (c2 & q2 & _ & Hq & _). injection Hq as Hk _. apply Nat2N.inj in Hk. subst k2. exact (Hn Hk2).
Qed.

Theorem enum_nodup : forall D sh, NoDup (enum D sh).
Proof.
  induction D as [|D IH]; intros sh; cbn [enum]; [repeat constructor; intros HF; exact HF|].
  destruct (is_leaf sh); [repeat constructor; intros HF; exact HF|].
  apply NoDup_blocks; [exact IH|apply seq_NoDup].
Qed.

(* every index path that resolves to a leaf within the depth limit is yielded *)
Lemma leaf_maximal : forall q D sh c, descend sh q = Some c -> is_leaf c = true -> length q <= D ->
  maximal D sh q.
Proof.
  induction q as [|i q IH]; intros D sh c Hd Hl Hlen; cbn [descend] in Hd.
  - injection Hd as ->. destruct D; cbn [maximal]; left; exact Hl.
  - cbn [length] in Hlen. destruct D as [|D]; [lia|]. cbn [maximal].
    destruct (child sh i) as [c'|]; [|discriminate]. apply (IH D c' c Hd Hl). lia.
Qed.

Theorem leaves_enumerated D sh q : nodeleaf sh q = true -> length q <= D -> In q (enum D sh).
Proof.
  unfold nodeleaf. intros Hl Hlen. destruct (descend sh q) as [c|] eqn:Hd; [|discriminate].
  apply enum_iff. exact (leaf_maximal q D sh c Hd Hl Hlen).
Qed.

(* ... and conversely everything yielded resolves (to a leaf, or to a node at the depth limit) *)
Lemma maximal_resolves : forall q D sh, maximal D sh q ->
  exists c, descend sh q = Some c /\ (is_leaf c = true \/ length q = D).
Proof.
  induction q as [|i q IH]; intros D sh Hm.
  - assert (Hm' : is_leaf sh = true \/ D = 0) by (destruct D; exact Hm). clear Hm. rename Hm' into Hm. exists sh. cbn [descend length]. split; [reflexivity|]. destruct Hm as [H|H]; [left; exact H|right; lia].
  - destruct D as [|D]; [destruct Hm|]. cbn [maximal] in Hm. cbn [descend]. destruct (child sh i) as [c'|]; [|destruct Hm].
    destruct (IH D c' Hm) as (c & Hd & Hor). exists c. split; [exact Hd|]. cbn [length]. destruct Hor; [left; assumption|right; lia].
Qed.

Theorem enumerated_resolve D sh q : In q (enum D sh) ->
  exists c, descend sh q = Some c /\ (is_leaf c = true \/ length q = D).
Proof. intros H. apply maximal_resolves. apply enum_iff. exact H. Qed.

(* ---- node level: a key (any index sequence) that the type-level lookup resolves to a leaf, consuming
   all of it, is one of the nodes the iterator yields (Iter_proofs.iter_complete_node) ---- *)
From MC Require Import Str Packed Tree Tree_proofs NoPanic Transcode_proofs Iter_proofs.

Lemma look_leaf_exact : forall idx sh, look idx sh = RLeaf (length idx) -> nodeleaf sh idx = true.
Proof.
  induction idx as [|i r IH]; intros sh H; cbn [look] in H; unfold nodeleaf; cbn [descend].
  - destruct (is_leaf sh); [reflexivity|discriminate].
  - destruct (is_leaf sh); [discriminate|]. destruct (child sh i) as [c|]; [|discriminate].
    apply IH. cbn [length] in H. destruct (look r c) as [d|d|d]; cbn [shiftres] in H; try discriminate.
    injection H as H. f_equal. lia.
Qed.

Theorem resolved_leaf_yielded t idx D : NoPanic.wf t -> small t ->
  fst (trav nofail t (idx_keys idx) []) = ROk (length idx) -> length idx <= D ->
  In idx (enum D (shape_of t)).
Proof.
  intros Hw Hs Hr Hlen. rewrite (trav_look t idx [] Hw Hs) in Hr.
  apply leaves_enumerated; [|exact Hlen]. apply look_leaf_exact.
  destruct (look idx (shape_of t)) as [d|d|d]; cbn [res_of_look] in Hr; try discriminate.
  injection Hr as ->. reflexivity.
Qed.
