(* C01/C04: a by-key operation depends on its key only through the index sequence that the walk
   selects.  If a key (names, indices, a path, packed, a chain ...) reaches a node, every operation
   (serialize, deserialize, ref_any, mut_any), on every run-time state, with every callback behaviour,
   gives exactly the same outcome (result, new tree, call log) as with the index form of that node.
   Hence two keys that transcode to the same indices are interchangeable for reads and writes. *)
From Coq Require Import List NArith ZArith Lia Bool Arith PeanoNat.
From MC Require Import Str Packed Tree Spec Tree_proofs NoPanic Transcode_proofs.
Import ListNotations.

Section Equiv.
Variable L : Type.
Variable wr : L -> leafres L.
Variable rd : L -> bool.
Variable orc : oracle.
Notation out := (out L).
Notation run := (run wr rd orc).
Notation arm := (arm orc).

Lemma with_child_ext sum (v : value L) i (f g : value L -> out) :
  (forall c, f c = g c) -> with_child sum v i f = with_child sum v i g.
Proof.
  intros H. unfold with_child. destruct sum, v as [x|s c|vs|act c]; try reflexivity.
  - destruct act as [j|]; [|reflexivity]. destruct (Nat.eqb i j); [|reflexivity]. rewrite H. reflexivity.
  - destruct (nth_error vs i) as [c|]; [|reflexivity]. rewrite H. reflexivity.
Qed.

Lemma arm_ext o a (c : value L) (f g : value L -> out) :
  (forall c, f c = g c) -> arm o a c f = arm o a c g.
Proof. intros H. unfold Tree.arm. rewrite H. reflexivity. Qed.

Theorem run_index_form o : forall t k pre r calls, wf t -> small t ->
  trav nofail t k pre = (r, calls) -> reached r ->
  exists new, calls = new ++ pre /\
    forall v, run o t v k = run o t v (KIter (map idx_key (rev new))).
Proof.
  induction t as [lk|g t IH|s a t IH|h lk cs IH|n t IH] using node_ind'; intros k pre r calls Hw Hs E Hr.
  - cbn [trav] in E. destruct (kfin k) eqn:Ek; injection E as <- <-; [|exfalso; exact Hr].
    exists []. split; [reflexivity|]. intros v. cbn [Tree.run rev map kfin]. rewrite Ek. reflexivity.
  - cbn [trav] in E. destruct (IH k pre r calls Hw Hs E Hr) as (new & Hc & Hrun).
    exists new. split; [exact Hc|]. intros v. cbn [Tree.run].
    destruct v as [x|s c|vs|act c]; try reflexivity. rewrite Hrun. reflexivity.
  - cbn [trav] in E. destruct (IH k pre r calls Hw Hs E Hr) as (new & Hc & Hrun).
    exists new. split; [exact Hc|]. intros v. cbn [Tree.run].
    apply with_child_ext. intros c. apply arm_ext. intros c'. apply Hrun.
  - cbn [trav] in E. destruct (knext k lk) as [[i| |] k'] eqn:Ek.
    + unfold nofail at 1 in E. rewrite andb_false_r in E. unfold reports in E.
      set (c := (i, lk_name lk i, lk_len lk)) in *.
      pose proof (knext_bound _ _ _ _ Ek) as Hb. destruct Hw as (Hlen & Hne & Hall). destruct Hs as [Hsm Hsall].
      set (pk := fun (kk : keys) => (fix pick (cs : list (attrs * node)) (j : nat) {struct cs} : tout :=
           match cs with [] => (RErr Unreachable, c :: pre) | (_, t') :: r => match j with O => trav nofail t' kk (c :: pre) | S j' => pick r j' end end)).
      change (tincr (pk k' cs (N.to_nat i)) = (r, calls)) in E.
      set (pr := fun (kk : keys) (cv : value L) => (fix pick (cs : list (attrs * node)) (j : nat) {struct cs} : out :=
               match cs with
               | [] => (RErr Unreachable, cv, [])
               | (a, t') :: r => match j with
                                 | O => arm o a cv (fun c => run o t' c kk)
                                 | S j' => pick r j' end
               end)).
      assert (G : forall j r0 calls0, pk k' cs j = (r0, calls0) -> reached r0 ->
        exists new, calls0 = new ++ c :: pre /\
          forall cv, pr k' cv cs j = pr (KIter (map idx_key (rev new))) cv cs j).
      { clear E Hne Hlen Hb. induction IH as [|[a t'] rr Ht _ IHr]; intros j r0 calls0 Ej Hr0.
        - simpl in Ej. injection Ej as <- <-. exfalso. exact Hr0.
        - destruct Hall as [Hwx Hwr]. destruct Hsall as [Hsx Hsr].
          destruct j as [|j].
          + destruct (Ht k' (c :: pre) r0 calls0 Hwx Hsx Ej Hr0) as (new & Hc & Hrun).
            exists new. split; [exact Hc|]. intros cv. cbn. apply arm_ext. intros c'. apply Hrun.
          + simpl in Ej. destruct (IHr Hwr Hsr j r0 calls0 Ej Hr0) as (new & Hc & Hrun).
            exists new. split; [exact Hc|]. intros cv. apply Hrun. }
      destruct (pk k' cs (N.to_nat i)) as [r0 calls0] eqn:Ep.
      simpl in E. injection E as <- <-.
      assert (Hr0 : reached r0) by (destruct r0 as [d|[]]; simpl in *; auto).
      destruct (G _ _ _ Ep Hr0) as (new & -> & Hp).
      exists (new ++ [c]). split; [rewrite <- app_assoc; reflexivity|].
      intros v. rewrite rev_app_distr. cbn [rev List.app map]. cbn [Tree.run knext]. rewrite Ek.
      unfold idx_key at 1. cbn [fst].
      assert (Hi64 : (i < 18446744073709551616)%N) by (clear - Hb Hsm; lia).
      change (fst (fst c)) with i. rewrite (find_int_lt i lk Hb Hi64).
      f_equal. apply with_child_ext. intros cv. apply (Hp cv).
    + injection E as <- <-. exists []. split; [reflexivity|]. intros v.
      cbn [Tree.run rev map knext]. rewrite Ek. reflexivity.
    + injection E as <- <-. exfalso. exact Hr.
  - cbn [trav] in E. destruct (knext k (Homog n)) as [[i| |] k'] eqn:Ek.
    + unfold nofail at 1 in E. pose proof (knext_bound _ _ _ _ Ek) as Hb. simpl in Hb.
      destruct Hw as [Hn Hw]. destruct Hs as [Hsm Hs].
      destruct (trav nofail t k' ((i, None, n) :: pre)) as [r0 calls0] eqn:Ep.
      simpl in E. injection E as <- <-.
      assert (Hr0 : reached r0) by (destruct r0 as [d|[]]; simpl in *; auto).
      destruct (IH _ _ _ _ Hw Hs Ep Hr0) as (new & -> & Hp).
      exists (new ++ [(i, None, n)]). split; [rewrite <- app_assoc; reflexivity|].
      intros v. rewrite rev_app_distr. cbn [rev List.app map]. cbn [Tree.run knext]. rewrite Ek.
      unfold idx_key at 1. cbn [fst].
      assert (Hi64 : (i < 18446744073709551616)%N) by (clear - Hb Hsm; lia).
      rewrite (find_int_lt i (Homog n) Hb Hi64).
      f_equal. apply with_child_ext. intros cv. apply Hp.
    + injection E as <- <-. exists []. split; [reflexivity|]. intros v.
      cbn [Tree.run rev map knext]. rewrite Ek. reflexivity.
    + injection E as <- <-. exfalso. exact Hr.
Qed.

(* two keys with the same callback trace (i.e. transcoding to the same index tuple) that reach a node
   are interchangeable for every operation *)
Corollary equivalent_keys o t k1 k2 r1 r2 calls : wf t -> small t ->
  trav nofail t k1 [] = (r1, calls) -> reached r1 ->
  trav nofail t k2 [] = (r2, calls) -> reached r2 ->
  forall v, run o t v k1 = run o t v k2.
Proof.
  intros Hw Hs E1 H1 E2 H2 v.
  destruct (run_index_form o t k1 [] r1 calls Hw Hs E1 H1) as (n1 & Hc1 & R1).
  destruct (run_index_form o t k2 [] r2 calls Hw Hs E2 H2) as (n2 & Hc2 & R2).
  rewrite app_nil_r in Hc1, Hc2. subst n1 n2. rewrite R1, R2. reflexivity.
Qed.
End Equiv.
