(* C05, the two halves composed: the tree-level theorem of Codec_tree.v (generic in the leaf codec)
   instantiated with the concrete JSON and postcard codec models of Ser.v.  Leaves hold typed values
   (type, value); "set" decodes the very bytes that "get" produced for the leaf, with a buffer that is
   large enough.  For every tree type, every run-time state, every key and callback behaviour: if the
   read succeeds and the leaf it read is well typed, writing the produced bytes back by the same key
   leaves the whole tree exactly as it was. *)
From Coq Require Import List NArith ZArith Lia Bool Arith PeanoNat.
From MC Require Import Str Codec Ser Ser_proofs Packed Tree Spec Tree_proofs Codec_tree.
Import ListNotations.

Definition tleaf := (lty * lval)%type.

(* json::set_by_key applied to what json::get_by_key wrote for this leaf *)
Definition wr_json (x : tleaf) : leafres tleaf :=
  match json_set (fst x) (jenc_t (fst x) (snd x)) with
  | SetOk v _ => LOk (fst x, v)
  | SetTrailing _ => LInvalid
  | SetErr => LInner
  end.
(* postcard::set_by_key applied to what postcard::get_by_key wrote, followed by any other bytes *)
Definition wr_postcard (rest : bytes) (x : tleaf) : leafres tleaf :=
  match postcard_set (fst x) (penc (fst x) (snd x) ++ rest) with
  | Some (v, _) => LOk (fst x, v)
  | None => LInner
  end.

Definition well_typed (x : tleaf) : Prop := has_ty (fst x) (snd x) = true.

Lemma wr_json_faithful x : well_typed x -> wr_json x = LOk x.
Proof.
  intros H. unfold wr_json, json_set. rewrite <- (List.app_nil_r (jenc_t (fst x) (snd x))).
  rewrite (jdec_roundtrip _ _ [] H I). destruct x; reflexivity.
Qed.

Lemma wr_postcard_faithful rest x : well_typed x -> wr_postcard rest x = LOk x.
Proof.
  intros H. unfold wr_postcard, postcard_set. rewrite (pdec_roundtrip _ _ rest H). destruct x; reflexivity.
Qed.

Theorem tree_json_get_set_identity (rd : tleaf -> bool) (orc : oracle) t v k d v1 lg :
  run wr_json rd orc OSer t v k = (ROk d, v1, lg) ->
  (forall x, In (EvRead x) lg -> well_typed x) ->
  snd (fst (run wr_json rd orc ODe t v k)) = v.
Proof.
  intros E Hty. apply (get_set_identity' tleaf wr_json rd orc t v k d v1 lg E).
  intros x Hx y Hy. rewrite (wr_json_faithful x (Hty x Hx)) in Hy. injection Hy as <-. reflexivity.
Qed.

Theorem tree_postcard_get_set_identity rest (rd : tleaf -> bool) (orc : oracle) t v k d v1 lg :
  run (wr_postcard rest) rd orc OSer t v k = (ROk d, v1, lg) ->
  (forall x, In (EvRead x) lg -> well_typed x) ->
  snd (fst (run (wr_postcard rest) rd orc ODe t v k)) = v.
Proof.
  intros E Hty. apply (get_set_identity' tleaf (wr_postcard rest) rd orc t v k d v1 lg E).
  intros x Hx y Hy. rewrite (wr_postcard_faithful rest x (Hty x Hx)) in Hy. injection Hy as <-. reflexivity.
Qed.
