(* Round-trip theorems for the two payload codecs (C05). *)
From Coq Require Import List NArith ZArith Bool Arith Lia Decimal DecimalN DecimalFacts.
From MC Require Import Str Codec Ser.
Import ListNotations.
Local Open Scope N_scope.

(* ---------------------------------------------------------------- decimal numbers *)
Definition ok_rest (rest : bytes) : Prop := match rest with [] => True | c :: _ => isdig c = false end.

Lemma uob_cons c r : uint_of_bytes (c :: r) =
  if isdig c then let '(u, rest) := uint_of_bytes r in
    ((match c with 48 => D0 | 49 => D1 | 50 => D2 | 51 => D3 | 52 => D4 | 53 => D5 | 54 => D6 | 55 => D7 | 56 => D8 | _ => D9 end) u, rest)
  else (Nil, c :: r).
Proof. reflexivity. Qed.

Lemma uint_bytes_roundtrip u : forall rest, ok_rest rest -> uint_of_bytes (bytes_of_uint u ++ rest) = (u, rest).
Proof.
  induction u as [|u IH|u IH|u IH|u IH|u IH|u IH|u IH|u IH|u IH|u IH]; intros rest Hr;
    try (cbn [bytes_of_uint]; rewrite <- app_comm_cons, uob_cons, (IH rest Hr); reflexivity).
  change (uint_of_bytes rest = (Nil, rest)). destruct rest as [|c r]; [reflexivity|]. cbn [ok_rest] in Hr.
  rewrite uob_cons, Hr. reflexivity.
Qed.

Lemma to_uint_canon n : uint_canon (N.to_uint n) = true.
Proof.
  unfold uint_canon. rewrite <- (DecimalN.Unsigned.to_of (N.to_uint n)), DecimalN.Unsigned.of_to.
  apply Decimal.internal_uint_dec_lb. reflexivity.
Qed.

Lemma to_uint_nonnil n : N.to_uint n <> Nil.
Proof. destruct n as [|p]; [discriminate|]. apply DecimalPos.Unsigned.to_uint_nonnil. Qed.

Lemma parse_render_nat n rest : ok_rest rest -> parse_nat (render_nat n ++ rest) = Some (n, rest).
Proof.
  intros Hr. unfold parse_nat, render_nat. rewrite (uint_bytes_roundtrip _ _ Hr).
  pose proof (to_uint_nonnil n) as Hn. rewrite to_uint_canon, DecimalN.Unsigned.of_to.
  destruct (N.to_uint n); [congruence| | | | | | | | | |]; reflexivity.
Qed.

Lemma render_nat_head p : exists c r, render_nat (Npos p) = c :: r /\ isdig c = true.
Proof.
  unfold render_nat. pose proof (to_uint_nonnil (Npos p)) as Hn.
  destruct (N.to_uint (Npos p)); [congruence| | | | | | | | | |]; cbn [bytes_of_uint]; eexists _, _; split; reflexivity.
Qed.

Lemma parse_int_nonneg c r : c <> 45 ->
  parse_int (c :: r) = match parse_nat (c :: r) with Some (n, rest) => Some (Z.of_N n, rest) | None => None end.
Proof.
  intros H. unfold parse_int. destruct c as [|q]; [reflexivity|].
  repeat (destruct q as [q|q|]; try reflexivity). exfalso. apply H. reflexivity.
Qed.

Lemma parse_render_int z rest : ok_rest rest -> parse_int (render_int z ++ rest) = Some (z, rest).
Proof.
  intros Hr. destruct z as [|p|p]; unfold render_int.
  - change ([48] ++ rest) with (48 :: rest). rewrite parse_int_nonneg by discriminate.
    change (48 :: rest) with (render_nat 0 ++ rest). rewrite (parse_render_nat 0 rest Hr). reflexivity.
  - destruct (render_nat_head p) as (c & r & E & Hd).
    assert (Hc : c <> 45) by (intros ->; discriminate Hd).
    rewrite E. rewrite <- app_comm_cons, (parse_int_nonneg _ _ Hc), app_comm_cons, <- E, (parse_render_nat _ _ Hr). reflexivity.
  - unfold parse_int. rewrite <- app_comm_cons. rewrite (parse_render_nat _ _ Hr). reflexivity.
Qed.

(* ---------------------------------------------------------------- UTF-8 *)
Ltac ltb_tac :=
  repeat match goal with
  | |- context [(?a <? ?b)] =>
      first [ replace (a <? b) with true by (symmetry; apply N.ltb_lt; lia)
            | replace (a <? b) with false by (symmetry; apply N.ltb_ge; lia) ]
  | |- context [(?a <=? ?b)] =>
      first [ replace (a <=? b) with true by (symmetry; apply N.leb_le; lia)
            | replace (a <=? b) with false by (symmetry; apply N.leb_gt; lia) ]
  end.

Lemma utf8_roundtrip1 c rest : c < 1114112 -> utf8_decode1 (utf8_encode c ++ rest) = Some (c, rest).
Proof.
  intros Hc. unfold utf8_encode.
  destruct (c <? 128) eqn:E1.
  { cbn [List.app]. unfold utf8_decode1. rewrite E1. reflexivity. }
  apply N.ltb_ge in E1.
  pose proof (N.div_mod' c 64) as D0. pose proof (N.mod_lt c 64 ltac:(discriminate)) as M0.
  remember (c / 64) as q1 eqn:Q1. remember (c mod 64) as m0 eqn:Em0.
  destruct (c <? 2048) eqn:E2.
  { apply N.ltb_lt in E2. cbn [List.app]. unfold utf8_decode1, cont. ltb_tac. cbn [andb].
    f_equal. f_equal. lia. }
  apply N.ltb_ge in E2.
  pose proof (N.div_mod' q1 64) as D1. pose proof (N.mod_lt q1 64 ltac:(discriminate)) as M1.
  assert (Q2 : c / 4096 = q1 / 64) by (rewrite Q1, N.div_div by discriminate; reflexivity).
  remember (q1 / 64) as q2 eqn:Eq2. remember (q1 mod 64) as m1 eqn:Em1.
  destruct (c <? 65536) eqn:E3.
  { apply N.ltb_lt in E3. rewrite Q2. cbn [List.app]. unfold utf8_decode1, cont. ltb_tac. cbn [andb].
    f_equal. f_equal. lia. }
  apply N.ltb_ge in E3.
  pose proof (N.div_mod' q2 64) as D2. pose proof (N.mod_lt q2 64 ltac:(discriminate)) as M2.
  assert (Q3 : c / 262144 = q2 / 64).
  { rewrite Eq2, Q1, !N.div_div by discriminate. reflexivity. }
  assert (Q2m : (c / 4096) mod 64 = q2 mod 64) by (rewrite Q2; reflexivity).
  remember (q2 / 64) as q3 eqn:Eq3. remember (q2 mod 64) as m2 eqn:Em2.
  rewrite Q3, Q2m. cbn [List.app]. unfold utf8_decode1, cont. ltb_tac. cbn [andb].
  f_equal. f_equal. lia.
Qed.

(* ---------------------------------------------------------------- induction on types *)
Section LtyInd.
  Variable P : lty -> Prop.
  Hypothesis Hint : forall k, P (TInt k).
  Hypothesis Hbool : P TBool.
  Hypothesis Hunit : P TUnit.
  Hypothesis Hopt : forall t, P t -> P (TOpt t).
  Hypothesis Harr : forall n t, P t -> P (TArr n t).
  Hypothesis Htup : forall ts, Forall P ts -> P (TTup ts).
  Hypothesis Hstr : forall c, P (TStr c).
  Hypothesis Htag : P TTag.
  Hypothesis Henum : forall names, P (TEnum names).
  Hypothesis Hstruct : forall fs, Forall (fun f => P (snd f)) fs -> P (TStruct fs).
  Fixpoint lty_ind' (t : lty) : P t :=
    match t with
    | TInt k => Hint k | TBool => Hbool | TUnit => Hunit
    | TOpt t' => Hopt t' (lty_ind' t')
    | TArr n t' => Harr n t' (lty_ind' t')
    | TTup ts => Htup ts ((fix go (ts : list lty) : Forall P ts :=
                             match ts with [] => Forall_nil P | x :: r => Forall_cons x (lty_ind' x) (go r) end) ts)
    | TStr c => Hstr c | TTag => Htag
    | TEnum names => Henum names
    | TStruct fs => Hstruct fs ((fix go (fs : list (str * lty)) : Forall (fun f => P (snd f)) fs :=
                                   match fs with [] => Forall_nil _ | f :: r => Forall_cons f (lty_ind' (snd f)) (go r) end) fs)
    end.
End LtyInd.

(* ---------------------------------------------------------------- strings *)
Lemma strip_app p : forall rest, strip p (p ++ rest) = Some rest.
Proof. induction p as [|x p IH]; intros rest; [reflexivity|]. cbn [List.app]. unfold strip in *. rewrite N.eqb_refl. apply IH. Qed.

Lemma strip_head_ne x p c r : x <> c -> strip (x :: p) (c :: r) = None.
Proof. intros H. unfold strip. apply N.eqb_neq in H. rewrite H. reflexivity. Qed.

Lemma str_body_step f b r : b <> 34 ->
  str_body (S f) (b :: r) =
  match utf8_decode1 (b :: r) with
  | Some (c, r') => if plain_char c then match str_body f r' with Some (cs, rest) => Some (c :: cs, rest) | None => None end else None
  | None => None end.
Proof.
  intros H. cbn [str_body]. destruct b as [|q]; [reflexivity|].
  repeat (destruct q as [q|q|]; try reflexivity). exfalso. apply H. reflexivity.
Qed.

Lemma plain_scalar c : plain_char c = true -> c < 1114112 /\ c <> 34.
Proof.
  unfold plain_char, scalar. intros H. repeat (apply andb_prop in H as [H ?]).
  split.
  - apply orb_prop in H as [H|H]; [apply N.ltb_lt in H; lia|]. apply andb_prop in H as [_ H]. apply N.ltb_lt in H. exact H.
  - intros ->. discriminate.
Qed.

Lemma utf8_encode_head c : c <> 34 -> exists b r, utf8_encode c = b :: r /\ b <> 34.
Proof.
  intros Hc. unfold utf8_encode.
  destruct (c <? 128) eqn:E1; [exists c, []; split; [reflexivity|exact Hc]|].
  destruct (c <? 2048); [eexists _, _; split; [reflexivity|generalize (c / 64); intros; lia]|].
  destruct (c <? 65536); eexists _, _; (split; [reflexivity|]).
  - generalize (c / 4096); intros; lia.
  - generalize (c / 262144); intros; lia.
Qed.

Lemma str_body_roundtrip s : forall fuel rest, forallb plain_char s = true -> (length (utf8 s) < fuel)%nat ->
  str_body fuel (utf8 s ++ 34 :: rest) = Some (s, rest).
Proof.
  induction s as [|c cs IH]; intros fuel rest Hp Hf.
  - destruct fuel; [inversion Hf|]. reflexivity.
  - cbn [forallb] in Hp. apply andb_prop in Hp as [Hc Hcs].
    destruct (plain_scalar _ Hc) as [Hlt Hne]. destruct (utf8_encode_head c Hne) as (b & r & E & Hb).
    unfold utf8 in *. cbn [flat_map] in *. rewrite <- List.app_assoc.
    destruct fuel as [|f]; [inversion Hf|].
    rewrite E at 1. rewrite <- List.app_comm_cons, (str_body_step _ _ _ Hb), List.app_comm_cons, <- E.
    rewrite (utf8_roundtrip1 _ _ Hlt), Hc.
    rewrite (IH f rest Hcs); [reflexivity|].
    rewrite List.app_length, E in Hf. cbn [length] in Hf. lia.
Qed.

Lemma tag_names n : n < 3 -> forallb plain_char (tag_name n) = true /\ tag_of_name (tag_name n) = Some n.
Proof.
  intros H. destruct n as [|p]; [split; reflexivity|].
  destruct p as [p|p|]; [destruct p; try lia| |]; try (split; reflexivity).
  destruct p; try lia. split; reflexivity.
Qed.


(* names of a serde enum resolve back to their index *)
Lemma str_eqb_refl a : str_eqb a a = true.
Proof. induction a as [|x a IH]; [reflexivity|]. cbn [str_eqb]. rewrite N.eqb_refl, IH. reflexivity. Qed.
Lemma name_pos_nth : forall names j, uniq names = true -> (j < length names)%nat ->
  name_pos (nth j names []) names = Some (N.of_nat j).
Proof.
  induction names as [|n0 r IH]; intros j Hu Hj; [inversion Hj|].
  cbn [uniq] in Hu. apply andb_prop in Hu as [Hn Hu]. apply negb_true_iff in Hn.
  destruct j as [|j]; cbn [nth name_pos].
  - rewrite str_eqb_refl. reflexivity.
  - assert (Hne : str_eqb n0 (nth j r []) = false).
    { destruct (str_eqb n0 (nth j r [])) eqn:E; [|reflexivity]. exfalso.
      assert (existsb (str_eqb n0) r = true); [|congruence].
      apply existsb_exists. exists (nth j r []). split; [apply nth_In; cbn [length] in Hj; lia|exact E]. }
    rewrite Hne, (IH j Hu ltac:(cbn [length] in Hj; lia)). cbn [option_map]. f_equal. lia.
Qed.

(* ---------------------------------------------------------------- JSON round trip *)
Definition jenc_arr_t (t' : lty) : list lval -> bool -> bytes :=
  fix go (l : list lval) (first : bool) : bytes :=
    match l with
    | [] => [93]
    | x :: r => (if first then [] else [44]) ++ jenc_t t' x ++ go r false
    end.
Lemma jenc_t_arr n t' l : jenc_t (TArr n t') (LArr l) = 91 :: jenc_arr_t t' l true.
Proof. reflexivity. Qed.
Lemma jenc_arr_t_cons t' x r first : jenc_arr_t t' (x :: r) first = (if first then [] else [44]) ++ jenc_t t' x ++ jenc_arr_t t' r false.
Proof. reflexivity. Qed.
Definition jenc_tup_t : list lty -> list lval -> bool -> bytes :=
  fix go (ts : list lty) (l : list lval) (first : bool) : bytes :=
    match ts, l with
    | t' :: tr, x :: r => (if first then [] else [44]) ++ jenc_t t' x ++ go tr r false
    | _, _ => [93]
    end.
Lemma jenc_t_tup ts l : jenc_t (TTup ts) (LArr l) = 91 :: jenc_tup_t ts l true.
Proof. reflexivity. Qed.
Lemma jenc_tup_t_cons t' tr x r first : jenc_tup_t (t' :: tr) (x :: r) first = (if first then [] else [44]) ++ jenc_t t' x ++ jenc_tup_t tr r false.
Proof. reflexivity. Qed.
Definition jenc_fields : list (str * lty) -> list lval -> bool -> bytes :=
  fix go (fs : list (str * lty)) (l : list lval) (first : bool) : bytes :=
    match fs, l with
    | (nm, t') :: fr, x :: r => (if first then [] else [44]) ++ quoted nm ++ 58 :: jenc_t t' x ++ go fr r false
    | _, _ => [125]
    end.
Lemma jenc_t_struct fs l : jenc_t (TStruct fs) (LArr l) = 123 :: jenc_fields fs l true.
Proof. reflexivity. Qed.
Lemma jenc_fields_cons nm t' fr x r first : jenc_fields ((nm, t') :: fr) (x :: r) first =
  (if first then [] else [44]) ++ quoted nm ++ 58 :: jenc_t t' x ++ jenc_fields fr r false.
Proof. reflexivity. Qed.

Definition jdec_elems (t' : lty) : nat -> bool -> bytes -> option (list lval * bytes) :=
  fix elems (n : nat) (first : bool) (s : bytes) : option (list lval * bytes) :=
    match n with
    | O => match s with 93 :: r => Some ([], r) | _ => None end
    | S m =>
        match (if first then Some s else strip [44] s) with
        | Some s' => match jdec t' s' with
                     | Some (x, r) => match elems m false r with Some (xs, r') => Some (x :: xs, r') | None => None end
                     | None => None end
        | None => None end
    end.
Lemma jdec_arr n t' s1 : jdec (TArr n t') (91 :: s1) = wrap_arr (jdec_elems t' n true s1).
Proof. reflexivity. Qed.
Lemma jdec_elems_S t' m first s : jdec_elems t' (S m) first s =
  match (if first then Some s else strip [44] s) with
  | Some s' => match jdec t' s' with
               | Some (x, r) => match jdec_elems t' m false r with Some (xs, r') => Some (x :: xs, r') | None => None end
               | None => None end
  | None => None end.
Proof. reflexivity. Qed.
Definition jdec_tup : list lty -> bool -> bytes -> option (list lval * bytes) :=
  fix elems (ts : list lty) (first : bool) (s : bytes) : option (list lval * bytes) :=
    match ts with
    | [] => match s with 93 :: r => Some ([], r) | _ => None end
    | t' :: tr =>
        match (if first then Some s else strip [44] s) with
        | Some s' => match jdec t' s' with
                     | Some (x, r) => match elems tr false r with Some (xs, r') => Some (x :: xs, r') | None => None end
                     | None => None end
        | None => None end
    end.
Lemma jdec_tuple ts s1 : jdec (TTup ts) (91 :: s1) = wrap_arr (jdec_tup ts true s1).
Proof. reflexivity. Qed.
Lemma jdec_tup_cons t' tr first s : jdec_tup (t' :: tr) first s =
  match (if first then Some s else strip [44] s) with
  | Some s' => match jdec t' s' with
               | Some (x, r) => match jdec_tup tr false r with Some (xs, r') => Some (x :: xs, r') | None => None end
               | None => None end
  | None => None end.
Proof. reflexivity. Qed.
Definition jdec_fields : list (str * lty) -> bool -> bytes -> option (list lval * bytes) :=
  fix fields (fs : list (str * lty)) (first : bool) (s : bytes) : option (list lval * bytes) :=
    match fs with
    | [] => match s with 125 :: r => Some ([], r) | _ => None end
    | (nm, t') :: fr =>
        match (if first then Some s else strip [44] s) with
        | Some s' => match strip (quoted nm ++ [58]) s' with
                     | Some s'' => match jdec t' s'' with
                                   | Some (x, r) => match fields fr false r with Some (xs, r') => Some (x :: xs, r') | None => None end
                                   | None => None end
                     | None => None end
        | None => None end
    end.
Lemma jdec_struct fs s1 : jdec (TStruct fs) (123 :: s1) = wrap_arr (jdec_fields fs true s1).
Proof. reflexivity. Qed.
Lemma jdec_fields_cons nm t' fr first s : jdec_fields ((nm, t') :: fr) first s =
  match (if first then Some s else strip [44] s) with
  | Some s' => match strip (quoted nm ++ [58]) s' with
               | Some s'' => match jdec t' s'' with
                             | Some (x, r) => match jdec_fields fr false r with Some (xs, r') => Some (x :: xs, r') | None => None end
                             | None => None end
               | None => None end
  | None => None end.
Proof. reflexivity. Qed.

Definition has_tys : list lty -> list lval -> bool :=
  fix go (ts : list lty) (l : list lval) : bool :=
    match ts, l with
    | [], [] => true
    | t' :: tr, x :: r => has_ty t' x && go tr r
    | _, _ => false
    end.
Lemma has_ty_tup ts l : has_ty (TTup ts) (LArr l) = has_tys ts l.
Proof. reflexivity. Qed.
Lemma has_tys_cons t' tr x r : has_tys (t' :: tr) (x :: r) = has_ty t' x && has_tys tr r.
Proof. reflexivity. Qed.
Definition has_fields : list (str * lty) -> list lval -> bool :=
  fix go (fs : list (str * lty)) (l : list lval) : bool :=
    match fs, l with
    | [], [] => true
    | (nm, t') :: fr, x :: r => forallb plain_char nm && has_ty t' x && go fr r
    | _, _ => false
    end.
Lemma has_ty_struct fs l : has_ty (TStruct fs) (LArr l) = has_fields fs l.
Proof. reflexivity. Qed.
Lemma has_fields_cons nm t' fr x r : has_fields ((nm, t') :: fr) (x :: r) = forallb plain_char nm && has_ty t' x && has_fields fr r.
Proof. reflexivity. Qed.

Lemma strip44 s : strip [44] (44 :: s) = Some s.
Proof. reflexivity. Qed.
Lemma ok_rest_arr t' r rest : ok_rest (jenc_arr_t t' r false ++ rest).
Proof. destruct r as [|x r]; reflexivity. Qed.
Lemma ok_rest_tup tr r rest : ok_rest (jenc_tup_t tr r false ++ rest).
Proof. destruct tr as [|t0 tr], r as [|x r]; reflexivity. Qed.
Lemma ok_rest_fields fr r rest : ok_rest (jenc_fields fr r false ++ rest).
Proof. destruct fr as [|[nm t0] fr], r as [|x r]; reflexivity. Qed.

(* a value of a non-null-like type never starts like "null" *)
Lemma jenc_not_null t v rest : has_ty t v = true -> nullish t = false -> strip J_NULL (jenc_t t v ++ rest) = None.
Proof.
  intros Hty Hn. destruct t as [k| | |t'|n t'|ts|cap| |names|fs]; try discriminate Hn; destruct v as [z|b| |o|l|s|g]; try discriminate Hty.
  - cbn [jenc_t]. unfold jenc_int, render_int. destruct z as [|p|p].
    + reflexivity.
    + destruct (render_nat_head p) as (c & r & E & Hd). rewrite E. cbn [List.app].
      apply strip_head_ne. intros <-. discriminate Hd.
    + reflexivity.
  - destruct b; reflexivity.
  - reflexivity.
  - reflexivity.
  - reflexivity.
  - reflexivity.
  - reflexivity.
  - reflexivity.
Qed.

Lemma quoted_app s rest : quoted s ++ rest = 34 :: (utf8 s ++ 34 :: rest).
Proof. unfold quoted. rewrite <- List.app_comm_cons, <- List.app_assoc. reflexivity. Qed.
Lemma quoted_body s rest : forallb plain_char s = true ->
  str_body (S (length (utf8 s ++ 34 :: rest))) (utf8 s ++ 34 :: rest) = Some (s, rest).
Proof. intros Hp. apply str_body_roundtrip; [exact Hp|]. rewrite List.app_length. cbn [length]. lia. Qed.

Theorem jdec_roundtrip : forall t v rest, has_ty t v = true -> ok_rest rest -> jdec t (jenc_t t v ++ rest) = Some (v, rest).
Proof.
  induction t as [k| | |t' IH|n t' IH|ts IH|cap| |names|fs IH] using lty_ind'; intros v rest Hty Hr.
  - destruct v as [z|b| |o|l|s|g]; try discriminate Hty. cbn [jenc_t jdec]. unfold jenc_int.
    rewrite (parse_render_int _ _ Hr). cbn [has_ty] in Hty. rewrite Hty. reflexivity.
  - destruct v as [z|b| |o|l|s|g]; try discriminate Hty. destruct b; reflexivity.
  - destruct v as [z|b| |o|l|s|g]; try discriminate Hty. reflexivity.
  - destruct v as [z|b| |o|l|s|g]; try discriminate Hty. destruct o as [x|].
    + cbn [has_ty] in Hty. apply andb_prop in Hty as [Hn Hx]. apply negb_true_iff in Hn.
      cbn [jenc_t jdec]. rewrite (jenc_not_null _ _ _ Hx Hn), (IH _ _ Hx Hr). reflexivity.
    + reflexivity.
  - destruct v as [z|b| |o|l|s|g]; try discriminate Hty. cbn [has_ty] in Hty. apply andb_prop in Hty as [Hlen Hall].
    apply Nat.eqb_eq in Hlen. subst n. rewrite jenc_t_arr. rewrite <- List.app_comm_cons, jdec_arr.
    assert (G : forall l first, forallb (has_ty t') l = true ->
                jdec_elems t' (length l) first (jenc_arr_t t' l first ++ rest) = Some (l, rest)).
    { clear l Hall. induction l as [|x r IHl]; intros first Hall; [reflexivity|].
      cbn [forallb] in Hall. apply andb_prop in Hall as [Hx Hrr].
      cbn [length]. rewrite jdec_elems_S, jenc_arr_t_cons.
      destruct first; cbn [List.app]; rewrite ?strip44; rewrite <- List.app_assoc;
        rewrite (IH _ _ Hx (ok_rest_arr t' r rest)), (IHl false Hrr); reflexivity. }
    rewrite (G l true Hall). reflexivity.
  - destruct v as [z|b| |o|l|s|g]; try discriminate Hty. rewrite has_ty_tup in Hty.
    rewrite jenc_t_tup. rewrite <- List.app_comm_cons, jdec_tuple.
    assert (G : forall l first, has_tys ts l = true ->
                jdec_tup ts first (jenc_tup_t ts l first ++ rest) = Some (l, rest)).
    { clear l Hty. induction IH as [|t0 tr Ht0 _ IHts]; intros l first Hall.
      - destruct l; [reflexivity|discriminate].
      - destruct l as [|x r]; [discriminate|]. rewrite has_tys_cons in Hall. apply andb_prop in Hall as [Hx Hrr].
        rewrite jdec_tup_cons, jenc_tup_t_cons.
        destruct first; cbn [List.app]; rewrite ?strip44; rewrite <- List.app_assoc;
          rewrite (Ht0 _ _ Hx (ok_rest_tup tr r rest)), (IHts r false Hrr); reflexivity. }
    rewrite (G l true Hty). reflexivity.
  - destruct v as [z|b| |o|l|s|g]; try discriminate Hty. cbn [has_ty] in Hty.
    apply andb_prop in Hty as [Hty Hcap']. apply andb_prop in Hty as [Hp Hcap].
    cbn [jenc_t jdec]. rewrite quoted_app, (quoted_body s rest Hp). rewrite Hcap. reflexivity.
  - destruct v as [z|b| |o|l|s|g]; try discriminate Hty. cbn [has_ty] in Hty. apply N.ltb_lt in Hty.
    destruct (tag_names g Hty) as [Hp Ht].
    cbn [jenc_t jdec]. rewrite quoted_app, (quoted_body _ rest Hp). rewrite Ht. reflexivity.
  - destruct v as [z|b| |o|l|s|g]; try discriminate Hty. cbn [has_ty] in Hty.
    apply andb_prop in Hty as [Hty H32]. apply andb_prop in Hty as [Hty Hu]. apply andb_prop in Hty as [Hlt Hpl]. apply Nat.ltb_lt in Hlt.
    assert (Hp : forallb plain_char (nth (N.to_nat g) names []) = true).
    { rewrite forallb_forall in Hpl. apply Hpl. apply nth_In. exact Hlt. }
    cbn [jenc_t jdec]. rewrite quoted_app, (quoted_body _ rest Hp).
    rewrite (name_pos_nth names _ Hu Hlt), N2Nat.id. reflexivity.
  - destruct v as [z|b| |o|l|s|g]; try discriminate Hty. rewrite has_ty_struct in Hty.
    rewrite jenc_t_struct. rewrite <- List.app_comm_cons, jdec_struct.
    assert (G : forall l first, has_fields fs l = true ->
                jdec_fields fs first (jenc_fields fs l first ++ rest) = Some (l, rest)).
    { clear l Hty. induction IH as [|[nm t0] fr Ht0 _ IHfs]; intros l first Hall.
      - destruct l; [reflexivity|discriminate].
      - destruct l as [|x r]; [discriminate|]. rewrite has_fields_cons in Hall.
        apply andb_prop in Hall as [Hall Hrr]. apply andb_prop in Hall as [Hnm Hx].
        rewrite jdec_fields_cons, jenc_fields_cons. cbn [snd] in Ht0.
        assert (E : forall tail, strip (quoted nm ++ [58]) (quoted nm ++ 58 :: tail) = Some tail).
        { intros tail. change (quoted nm ++ 58 :: tail) with (quoted nm ++ [58] ++ tail). rewrite List.app_assoc. apply strip_app. }
        destruct first; cbn [List.app]; rewrite ?strip44; rewrite <- !List.app_assoc; rewrite <- List.app_comm_cons, E;
          rewrite <- List.app_assoc; rewrite (Ht0 _ _ Hx (ok_rest_fields fr r rest)), (IHfs r false Hrr); reflexivity. }
    rewrite (G l true Hty). reflexivity.
Qed.

(* the helpers: set after get is accepted, consumes exactly the bytes produced, and decodes the value *)
Theorem json_set_get t v cap b : has_ty t v = true -> json_get t cap v = Some b ->
  json_set t b = SetOk v (N.of_nat (length b)) /\ b = jenc_t t v /\ N.of_nat (length b) <= cap.
Proof.
  intros Hty Hg. unfold json_get in Hg. destruct (N.of_nat (length (jenc_t t v)) <=? cap) eqn:E; [|discriminate].
  injection Hg as <-. apply N.leb_le in E. split; [|split; [reflexivity|exact E]].
  unfold json_set. rewrite <- (List.app_nil_r (jenc_t t v)) at 1. rewrite (jdec_roundtrip _ _ [] Hty I). reflexivity.
Qed.
(* a buffer that is too small is an error, never a partial success *)
Theorem json_get_small t cap v : cap < N.of_nat (length (jenc_t t v)) -> json_get t cap v = None.
Proof. intros H. unfold json_get. apply N.leb_gt in H. rewrite H. reflexivity. Qed.

(* on the types without serde structs / enums the type-directed encoder is the value-directed one of Codec-style [jenc] *)

(* ---------------------------------------------------------------- postcard *)
Lemma varint_roundtrip : forall fuel n rest, (0 < fuel)%nat -> n < 128 ^ N.of_nat fuel ->
  unvarint fuel (varint fuel n ++ rest) = Some (n, rest).
Proof.
  induction fuel as [|f IH]; intros n rest Hf Hn; [inversion Hf|].
  cbn [varint unvarint]. destruct (n <? 128) eqn:E.
  - cbn [List.app]. rewrite E. reflexivity.
  - apply N.ltb_ge in E. rewrite <- List.app_comm_cons.
    pose proof (N.div_mod' n 128) as D. pose proof (N.mod_lt n 128 ltac:(discriminate)) as M.
    remember (n / 128) as q. remember (n mod 128) as m.
    replace (128 + m <? 128) with false by (symmetry; apply N.ltb_ge; lia).
    assert (Hq : q < 128 ^ N.of_nat f).
    { rewrite Nat2N.inj_succ, N.pow_succ_r' in Hn. lia. }
    assert (Hf' : (0 < f)%nat).
    { destruct f; [|lia]. simpl in Hq. lia. }
    rewrite (IH q rest Hf' Hq). f_equal. f_equal. lia.
Qed.

Lemma zigzag_roundtrip z : unzigzag (zigzag z) = z.
Proof.
  unfold zigzag, unzigzag. destruct (0 <=? z)%Z eqn:E.
  - apply Z.leb_le in E. replace (Z.to_N (2 * z)) with (2 * Z.to_N z) by lia.
    replace (N.even (2 * Z.to_N z)) with true by (symmetry; apply N.even_spec; exists (Z.to_N z); reflexivity).
    rewrite N.mul_comm, N.div_mul by discriminate. lia.
  - apply Z.leb_gt in E. replace (Z.to_N (-2 * z - 1)) with (2 * Z.to_N (- z - 1) + 1) by lia.
    replace (N.even (2 * Z.to_N (- z - 1) + 1)) with false.
    2:{ symmetry. rewrite <- N.negb_odd. apply negb_false_iff. apply N.odd_spec. exists (Z.to_N (- z - 1)). reflexivity. }
    replace (2 * Z.to_N (- z - 1) + 1 + 1) with (Z.to_N (- z) * 2) by lia.
    rewrite N.div_mul by discriminate. lia.
Qed.

Lemma zigzag_bound z w : (- 2 ^ (w - 1) <= z <= 2 ^ (w - 1) - 1)%Z -> (0 < w)%Z -> (Z.of_N (zigzag z) < 2 ^ w)%Z.
Proof.
  intros H Hw. unfold zigzag. replace (2 ^ w)%Z with (2 * 2 ^ (w - 1))%Z by (rewrite <- Z.pow_succ_r by lia; f_equal; lia).
  destruct (0 <=? z)%Z eqn:E; [apply Z.leb_le in E|apply Z.leb_gt in E]; lia.
Qed.

Lemma pdec_int_roundtrip k z rest : in_range k z = true -> pdec_int k (penc_int k z ++ rest) = Some (z, rest).
Proof.
  unfold in_range. intros H. apply andb_prop in H as [H1 H2]. apply Z.leb_le in H1, H2.
  destruct k; unfold imin, imax in H1, H2; cbn [signed width] in H1, H2;
    unfold pdec_int, penc_int; cbn [signed max_varint].
  - (* U8 *) cbn [List.app]. change (2 ^ Z.of_N 8 - 1)%Z with 255%Z in H2.
    replace (Z.to_N z <? 256) with true by (symmetry; apply N.ltb_lt; lia). f_equal. f_equal. lia.
  - (* I8 *) cbn [List.app]. change (- 2 ^ (Z.of_N 8 - 1))%Z with (-128)%Z in H1. change (2 ^ (Z.of_N 8 - 1) - 1)%Z with 127%Z in H2.
    pose proof (Z.mod_pos_bound z 256 ltac:(lia)) as B.
    replace (Z.to_N (z mod 256) <? 256) with true by (symmetry; apply N.ltb_lt; lia).
    destruct (Z.to_N (z mod 256) <? 128) eqn:E; [apply N.ltb_lt in E|apply N.ltb_ge in E]; f_equal; f_equal.
    + assert (z mod 256 = z)%Z; [|lia]. destruct (Z_lt_le_dec z 0) as [Hneg|Hpos].
      * exfalso. assert (z mod 256 = z + 256)%Z by (symmetry; apply Z.mod_unique with (q := (-1)%Z); lia). lia.
      * apply Z.mod_small. lia.
    + destruct (Z_lt_le_dec z 0) as [Hneg|Hpos].
      * assert (z mod 256 = z + 256)%Z by (symmetry; apply Z.mod_unique with (q := (-1)%Z); lia). lia.
      * exfalso. rewrite Z.mod_small in E by lia. lia.
  - (* U16 *) change (2 ^ Z.of_N 16 - 1)%Z with 65535%Z in H2.
    rewrite varint_roundtrip; [|lia|change (128 ^ N.of_nat 3) with 2097152; lia].
    unfold in_range, imin, imax. cbn [signed width]. change (2 ^ Z.of_N 16 - 1)%Z with 65535%Z.
    rewrite Z2N.id by lia. replace (0 <=? z)%Z with true by (symmetry; apply Z.leb_le; lia).
    replace (z <=? 65535)%Z with true by (symmetry; apply Z.leb_le; lia). reflexivity.
  - (* I16 *) change (- 2 ^ (Z.of_N 16 - 1))%Z with (-32768)%Z in H1. change (2 ^ (Z.of_N 16 - 1) - 1)%Z with 32767%Z in H2.
    pose proof (zigzag_bound z 16 ltac:(change (2 ^ (16 - 1))%Z with 32768%Z; lia) ltac:(lia)) as B. change (2 ^ 16)%Z with 65536%Z in B.
    rewrite varint_roundtrip; [|lia|change (128 ^ N.of_nat 3) with 2097152; lia].
    rewrite zigzag_roundtrip. unfold in_range, imin, imax. cbn [signed width].
    change (- 2 ^ (Z.of_N 16 - 1))%Z with (-32768)%Z. change (2 ^ (Z.of_N 16 - 1) - 1)%Z with 32767%Z.
    replace (-32768 <=? z)%Z with true by (symmetry; apply Z.leb_le; lia).
    replace (z <=? 32767)%Z with true by (symmetry; apply Z.leb_le; lia). reflexivity.
  - (* U32 *) change (2 ^ Z.of_N 32 - 1)%Z with 4294967295%Z in H2.
    rewrite varint_roundtrip; [|lia|change (128 ^ N.of_nat 5) with 34359738368; lia].
    unfold in_range, imin, imax. cbn [signed width]. change (2 ^ Z.of_N 32 - 1)%Z with 4294967295%Z.
    rewrite Z2N.id by lia. replace (0 <=? z)%Z with true by (symmetry; apply Z.leb_le; lia).
    replace (z <=? 4294967295)%Z with true by (symmetry; apply Z.leb_le; lia). reflexivity.
  - (* I32 *) change (- 2 ^ (Z.of_N 32 - 1))%Z with (-2147483648)%Z in H1. change (2 ^ (Z.of_N 32 - 1) - 1)%Z with 2147483647%Z in H2.
    pose proof (zigzag_bound z 32 ltac:(change (2 ^ (32 - 1))%Z with 2147483648%Z; lia) ltac:(lia)) as B. change (2 ^ 32)%Z with 4294967296%Z in B.
    rewrite varint_roundtrip; [|lia|change (128 ^ N.of_nat 5) with 34359738368; lia].
    rewrite zigzag_roundtrip. unfold in_range, imin, imax. cbn [signed width].
    change (- 2 ^ (Z.of_N 32 - 1))%Z with (-2147483648)%Z. change (2 ^ (Z.of_N 32 - 1) - 1)%Z with 2147483647%Z.
    replace (-2147483648 <=? z)%Z with true by (symmetry; apply Z.leb_le; lia).
    replace (z <=? 2147483647)%Z with true by (symmetry; apply Z.leb_le; lia). reflexivity.
  - (* U64 *) change (2 ^ Z.of_N 64 - 1)%Z with 18446744073709551615%Z in H2.
    rewrite varint_roundtrip; [|lia|change (128 ^ N.of_nat 10) with 1180591620717411303424; lia].
    unfold in_range, imin, imax. cbn [signed width]. change (2 ^ Z.of_N 64 - 1)%Z with 18446744073709551615%Z.
    rewrite Z2N.id by lia. replace (0 <=? z)%Z with true by (symmetry; apply Z.leb_le; lia).
    replace (z <=? 18446744073709551615)%Z with true by (symmetry; apply Z.leb_le; lia). reflexivity.
  - (* I64 *) change (- 2 ^ (Z.of_N 64 - 1))%Z with (-9223372036854775808)%Z in H1. change (2 ^ (Z.of_N 64 - 1) - 1)%Z with 9223372036854775807%Z in H2.
    pose proof (zigzag_bound z 64 ltac:(change (2 ^ (64 - 1))%Z with 9223372036854775808%Z; lia) ltac:(lia)) as B. change (2 ^ 64)%Z with 18446744073709551616%Z in B.
    rewrite varint_roundtrip; [|lia|change (128 ^ N.of_nat 10) with 1180591620717411303424; lia].
    rewrite zigzag_roundtrip. unfold in_range, imin, imax. cbn [signed width].
    change (- 2 ^ (Z.of_N 64 - 1))%Z with (-9223372036854775808)%Z. change (2 ^ (Z.of_N 64 - 1) - 1)%Z with 9223372036854775807%Z.
    replace (-9223372036854775808 <=? z)%Z with true by (symmetry; apply Z.leb_le; lia).
    replace (z <=? 9223372036854775807)%Z with true by (symmetry; apply Z.leb_le; lia). reflexivity.
Qed.

Lemma take_bytes_app b : forall rest, take_bytes (length b) (b ++ rest) = Some (b, rest).
Proof. induction b as [|x b IH]; intros rest; [reflexivity|]. cbn [length List.app take_bytes]. rewrite IH. reflexivity. Qed.

Lemma plain_is_scalar c : plain_char c = true -> scalar c = true.
Proof. unfold plain_char. intros H. repeat (apply andb_prop in H as [H ?]). exact H. Qed.

Lemma scalar_lt c : scalar c = true -> c < 1114112.
Proof.
  unfold scalar. intros H. apply orb_prop in H as [H|H]; [apply N.ltb_lt in H; lia|].
  apply andb_prop in H as [_ H]. apply N.ltb_lt in H. exact H.
Qed.

Lemma utf8_encode_nonempty c : exists b r, utf8_encode c = b :: r.
Proof.
  unfold utf8_encode. destruct (c <? 128); [eexists _, _; reflexivity|].
  destruct (c <? 2048); [eexists _, _; reflexivity|]. destruct (c <? 65536); eexists _, _; reflexivity.
Qed.

Lemma utf8_all_roundtrip s : forall fuel, forallb scalar s = true -> (length (utf8 s) < fuel)%nat ->
  utf8_all fuel (utf8 s) = Some s.
Proof.
  induction s as [|c cs IH]; intros fuel Hp Hf.
  - destruct fuel; [inversion Hf|]. reflexivity.
  - cbn [forallb] in Hp. apply andb_prop in Hp as [Hc Hcs].
    destruct (utf8_encode_nonempty c) as (b & r & E).
    unfold utf8 in *. cbn [flat_map] in *.
    destruct fuel as [|f]; [inversion Hf|]. cbn [utf8_all].
    rewrite E at 1. cbn [List.app].
    rewrite (utf8_roundtrip1 _ _ (scalar_lt _ Hc)), Hc. rewrite (IH f Hcs); [reflexivity|].
    rewrite List.app_length, E in Hf. cbn [length] in Hf. lia.
Qed.

Lemma forallb_plain_scalar s : forallb plain_char s = true -> forallb scalar s = true.
Proof. induction s as [|c cs IH]; [reflexivity|]. cbn [forallb]. intros H. apply andb_prop in H as [H1 H2]. rewrite (plain_is_scalar _ H1), (IH H2). reflexivity. Qed.

Definition pdec_elems (t' : lty) : nat -> bytes -> option (list lval * bytes) :=
  fix elems (n : nat) (s : bytes) : option (list lval * bytes) :=
    match n with
    | O => Some ([], s)
    | S m => match pdec t' s with
             | Some (x, r) => match elems m r with Some (xs, r') => Some (x :: xs, r') | None => None end
             | None => None end
    end.
Lemma pdec_arr n t' s : pdec (TArr n t') s = wrap_arr (pdec_elems t' n s).
Proof. reflexivity. Qed.
Definition pdec_tup : list lty -> bytes -> option (list lval * bytes) :=
  fix elems (ts : list lty) (s : bytes) : option (list lval * bytes) :=
    match ts with
    | [] => Some ([], s)
    | t' :: tr => match pdec t' s with
                  | Some (x, r) => match elems tr r with Some (xs, r') => Some (x :: xs, r') | None => None end
                  | None => None end
    end.
Lemma pdec_tuple ts s : pdec (TTup ts) s = wrap_arr (pdec_tup ts s).
Proof. reflexivity. Qed.
Definition penc_tup : list lty -> list lval -> bytes :=
  fix go (ts : list lty) (l : list lval) : bytes :=
    match ts, l with t' :: tr, x :: r => penc t' x ++ go tr r | _, _ => [] end.
Lemma penc_tuple ts l : penc (TTup ts) (LArr l) = penc_tup ts l.
Proof. reflexivity. Qed.
Lemma pdec_elems_S t' m s : pdec_elems t' (S m) s =
  match pdec t' s with
  | Some (x, r) => match pdec_elems t' m r with Some (xs, r') => Some (x :: xs, r') | None => None end
  | None => None end.
Proof. reflexivity. Qed.
Lemma pdec_tup_cons t' tr s : pdec_tup (t' :: tr) s =
  match pdec t' s with
  | Some (x, r) => match pdec_tup tr r with Some (xs, r') => Some (x :: xs, r') | None => None end
  | None => None end.
Proof. reflexivity. Qed.
Lemma penc_tup_cons t' tr x r : penc_tup (t' :: tr) (x :: r) = penc t' x ++ penc_tup tr r.
Proof. reflexivity. Qed.

Lemma pdec_string s rest : forallb plain_char s = true -> N.of_nat (length (utf8 s)) < 18446744073709551616 ->
  match unvarint 10 ((varint 10 (N.of_nat (length (utf8 s))) ++ utf8 s) ++ rest) with
  | Some (n, r) => match take_bytes (N.to_nat n) r with
                   | Some (b, rest') => match utf8_all (S (length b)) b with Some cs => Some (cs, n, rest') | None => None end
                   | None => None end
  | None => None end = Some (s, N.of_nat (length (utf8 s)), rest).
Proof.
  intros Hp Hlen. rewrite <- List.app_assoc.
  rewrite varint_roundtrip; [|lia|change (128 ^ N.of_nat 10) with 1180591620717411303424; lia].
  rewrite Nat2N.id, take_bytes_app. rewrite (utf8_all_roundtrip s _ (forallb_plain_scalar _ Hp)) by lia. reflexivity.
Qed.

Definition pdec_fields : list (str * lty) -> bytes -> option (list lval * bytes) :=
  fix fields (fs : list (str * lty)) (s : bytes) : option (list lval * bytes) :=
    match fs with
    | [] => Some ([], s)
    | (_, t') :: fr => match pdec t' s with
                       | Some (x, r) => match fields fr r with Some (xs, r') => Some (x :: xs, r') | None => None end
                       | None => None end
    end.
Lemma pdec_struct fs s : pdec (TStruct fs) s = wrap_arr (pdec_fields fs s).
Proof. reflexivity. Qed.
Lemma pdec_fields_cons nm t' fr s : pdec_fields ((nm, t') :: fr) s =
  match pdec t' s with
  | Some (x, r) => match pdec_fields fr r with Some (xs, r') => Some (x :: xs, r') | None => None end
  | None => None end.
Proof. reflexivity. Qed.
Definition penc_fields : list (str * lty) -> list lval -> bytes :=
  fix go (fs : list (str * lty)) (l : list lval) : bytes :=
    match fs, l with (_, t') :: fr, x :: r => penc t' x ++ go fr r | _, _ => [] end.
Lemma penc_struct fs l : penc (TStruct fs) (LArr l) = penc_fields fs l.
Proof. reflexivity. Qed.
Lemma penc_fields_cons nm t' fr x r : penc_fields ((nm, t') :: fr) (x :: r) = penc t' x ++ penc_fields fr r.
Proof. reflexivity. Qed.

Theorem pdec_roundtrip : forall t v rest, has_ty t v = true -> pdec t (penc t v ++ rest) = Some (v, rest).
Proof.
  induction t as [k| | |t' IH|n t' IH|ts IH|cap| |names|fs IH] using lty_ind'; intros v rest Hty.
  - destruct v as [z|b| |o|l|s|g]; try discriminate Hty. cbn [penc pdec]. cbn [has_ty] in Hty.
    rewrite (pdec_int_roundtrip _ _ _ Hty). reflexivity.
  - destruct v as [z|b| |o|l|s|g]; try discriminate Hty. destruct b; reflexivity.
  - destruct v as [z|b| |o|l|s|g]; try discriminate Hty. reflexivity.
  - destruct v as [z|b| |o|l|s|g]; try discriminate Hty. destruct o as [x|].
    + cbn [has_ty] in Hty. apply andb_prop in Hty as [_ Hx]. cbn [penc pdec]. rewrite <- List.app_comm_cons.
      rewrite (IH _ _ Hx). reflexivity.
    + reflexivity.
  - destruct v as [z|b| |o|l|s|g]; try discriminate Hty. cbn [has_ty] in Hty. apply andb_prop in Hty as [Hlen Hall].
    apply Nat.eqb_eq in Hlen. subst n. cbn [penc]. rewrite pdec_arr.
    assert (G : forall l, forallb (has_ty t') l = true ->
                pdec_elems t' (length l) (flat_map (penc t') l ++ rest) = Some (l, rest)).
    { clear l Hall. induction l as [|x r IHl]; intros Hall; [reflexivity|].
      cbn [forallb] in Hall. apply andb_prop in Hall as [Hx Hrr].
      cbn [length flat_map]. rewrite pdec_elems_S, <- List.app_assoc, (IH _ _ Hx), (IHl Hrr). reflexivity. }
    rewrite (G l Hall). reflexivity.
  - destruct v as [z|b| |o|l|s|g]; try discriminate Hty. rewrite has_ty_tup in Hty. rewrite penc_tuple, pdec_tuple.
    assert (G : forall l, has_tys ts l = true -> pdec_tup ts (penc_tup ts l ++ rest) = Some (l, rest)).
    { clear l Hty. induction IH as [|t0 tr Ht0 _ IHts]; intros l Hall.
      - destruct l; [reflexivity|discriminate].
      - destruct l as [|x r]; [discriminate|]. rewrite has_tys_cons in Hall. apply andb_prop in Hall as [Hx Hrr].
        rewrite pdec_tup_cons, penc_tup_cons, <- List.app_assoc, (Ht0 _ _ Hx), (IHts r Hrr). reflexivity. }
    rewrite (G l Hty). reflexivity.
  - destruct v as [z|b| |o|l|s|g]; try discriminate Hty. cbn [has_ty] in Hty.
    apply andb_prop in Hty as [Hty Hcap']. apply andb_prop in Hty as [Hp Hcap].
    apply N.leb_le in Hcap. apply N.ltb_lt in Hcap'.
    cbn [penc pdec]. pose proof (pdec_string s rest Hp ltac:(lia)) as H.
    destruct (unvarint 10 _) as [[n r]|]; [|discriminate].
    destruct (take_bytes (N.to_nat n) r) as [[b rest']|]; [|discriminate].
    destruct (utf8_all (S (length b)) b) as [cs|]; [|discriminate].
    injection H as -> -> ->. replace (N.of_nat (length (utf8 s)) <=? cap) with true by (symmetry; apply N.leb_le; exact Hcap). reflexivity.
  - destruct v as [z|b| |o|l|s|g]; try discriminate Hty. cbn [has_ty] in Hty. apply N.ltb_lt in Hty.
    destruct (tag_names g Hty) as [Hp Ht].
    cbn [penc pdec].
    assert (Hl : N.of_nat (length (utf8 (tag_name g))) < 18446744073709551616).
    { destruct g as [|[p|p|]]; vm_compute; reflexivity. }
    pose proof (pdec_string (tag_name g) rest Hp Hl) as H.
    destruct (unvarint 10 _) as [[n r]|]; [|discriminate].
    destruct (take_bytes (N.to_nat n) r) as [[b rest']|]; [|discriminate].
    destruct (utf8_all (S (length b)) b) as [cs|]; [|discriminate].
    injection H as -> -> ->. rewrite Ht. reflexivity.
  - destruct v as [z|b| |o|l|s|g]; try discriminate Hty. cbn [has_ty] in Hty.
    apply andb_prop in Hty as [Hty H32]. apply andb_prop in Hty as [Hty _]. apply andb_prop in Hty as [Hlt _]. apply N.ltb_lt in H32.
    cbn [penc pdec]. rewrite varint_roundtrip; [|lia|change (128 ^ N.of_nat 5) with 34359738368; lia].
    rewrite Hlt. reflexivity.
  - destruct v as [z|b| |o|l|s|g]; try discriminate Hty. rewrite has_ty_struct in Hty. rewrite penc_struct, pdec_struct.
    assert (G : forall l, has_fields fs l = true -> pdec_fields fs (penc_fields fs l ++ rest) = Some (l, rest)).
    { clear l Hty. induction IH as [|[nm t0] fr Ht0 _ IHfs]; intros l Hall.
      - destruct l; [reflexivity|discriminate].
      - destruct l as [|x r]; [discriminate|]. rewrite has_fields_cons in Hall.
        apply andb_prop in Hall as [Hall Hrr]. apply andb_prop in Hall as [_ Hx]. cbn [snd] in Ht0.
        rewrite pdec_fields_cons, penc_fields_cons, <- List.app_assoc, (Ht0 _ _ Hx), (IHfs r Hrr). reflexivity. }
    rewrite (G l Hty). reflexivity.
Qed.

Theorem postcard_set_get t v cap b rest : has_ty t v = true -> postcard_get t cap v = Some b ->
  postcard_set t (b ++ rest) = Some (v, rest) /\ b = penc t v /\ N.of_nat (length b) <= cap.
Proof.
  intros Hty Hg. unfold postcard_get in Hg. destruct (N.of_nat (length (penc t v)) <=? cap) eqn:E; [|discriminate].
  injection Hg as <-. apply N.leb_le in E. split; [|split; [reflexivity|exact E]].
  unfold postcard_set. apply pdec_roundtrip. exact Hty.
Qed.
Theorem postcard_get_small t cap v : cap < N.of_nat (length (penc t v)) -> postcard_get t cap v = None.
Proof. intros H. unfold postcard_get. apply N.leb_gt in H. rewrite H. reflexivity. Qed.

(* decoding yields values of the type: a write keeps the leaf well-typed *)
Example ser_examples :
  let t := TTup [TInt I16; TOpt (TInt U8); TArr 2 TBool; TStr 8; TTag; TUnit] in
  let v := LArr [LInt (-300); LOpt (Some (LInt 7)); LArr [LBool true; LBool false]; LStr [104; 233]; LTag 1; LUnit] in
  has_ty t v = true /\ jenc_t t v = [91; 45; 51; 48; 48; 44; 55; 44; 91; 116; 114; 117; 101; 44; 102; 97; 108; 115; 101; 93; 44; 34; 104; 195; 169; 34; 44; 34; 66; 98; 34; 44; 110; 117; 108; 108; 93] /\
  json_set t (jenc_t t v) = SetOk v 37 /\
  penc t v = [215; 4; 1; 7; 1; 0; 3; 104; 195; 169; 2; 66; 98] /\ postcard_set t (penc t v ++ [9]) = Some (v, [9]).
Proof. vm_compute. repeat split; reflexivity. Qed.
