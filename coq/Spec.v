(* The documented top-down walk (spec layer for C02/C12): one pass from the root that carries
   the number of keys consumed so far and reports the first failing step at that depth.  Step
   order per node: absent container / failed wrapper, keys exhausted (too short), key lookup
   (not found), absent variant, deny / accessor, then the child; a leaf reports surplus keys
   before touching the value; a validator failure is reported at the depth of its field. *)
From Coq Require Import List NArith ZArith Bool Arith.
From MC Require Import Str Packed Tree.
Import ListNotations.

Section Walk.
Variable L : Type.
Variable wr : L -> leafres L.
Variable rd : L -> bool.
Variable orc : oracle.

Definition arm_td (o : op) (a : attrs) (d : nat) (v : value L) (child : value L -> out L) : out L :=
  match a_deny a o with Some m => (RErr (Access d m), v, []) | None =>
  let g := if writes o then a_getmut a else a_get a in
  let ev := match g with Some id => [if writes o then EvGetMut id else EvGet id] | None => [] end in
  match match g with Some id => match orc id with CbFail m => Some m | _ => None end | None => None end with
  | Some m => (RErr (Access d m), v, ev)
  | None =>
  let '(r, v', lg) := child v in
  match o, r, a_val a with
  | ODe, ROk x, Some id =>
      match orc id with
      | CbOk None => (ROk x, v', ev ++ lg ++ [EvVal id x])
      | CbOk (Some x') => (ROk x', v', ev ++ lg ++ [EvVal id x])
      | CbFail m => (RErr (Invalid d m), v', ev ++ lg ++ [EvVal id x])
      end
  | _, _, _ => (r, v', ev ++ lg)
  end end end.

Definition with_child_td (sum : bool) (d : nat) (v : value L) (i : nat) (f : value L -> out L) : out L :=
  match sum, v with
  | false, VProd vs => match nth_error vs i with
                       | Some c => let '(r, c', lg) := f c in (r, VProd (set_nth vs i c'), lg)
                       | None => (RErr Unreachable, v, []) end
  | true, VSum act c => match act with
                        | Some j => if Nat.eqb i j then let '(r, c', lg) := f c in (r, VSum act c', lg)
                                    else (RErr (Absent d), v, [])
                        | None => (RErr (Absent d), v, []) end
  | _, _ => (RErr Unreachable, v, [])
  end.

(* a success keeps counting the keys consumed below; an error already carries its absolute depth *)
Definition ok_up (x : out L) : out L :=
  let '(r, v, lg) := x in (match r with ROk n => ROk (S n) | e => e end, v, lg).

(* leaf step at absolute depth d: errors are reported at d, success is 0 keys consumed below *)
Definition leaf_td (lk : lkind) (o : op) (d : nat) (v : value L) : out L :=
  let '(r, v', lg) := leaf_op wr rd lk o v in
  (match r with ROk n => ROk n | RErr e => RErr (shift d e) end, v', lg).

Fixpoint walk (o : op) (t : node) (d : nat) (v : value L) (k : keys) {struct t} : out L :=
  match t with
  | NLeaf lk => if negb (kfin k) then (RErr (TooLong d), v, []) else leaf_td lk o d v
  | NGate g t' =>
      match v with
      | VGate s c => match gate_err g o s with
                     | Some e => (RErr (shift d (gerr_err e)), v, [])
                     | None => let '(r, c', lg) := walk o t' d c k in (r, VGate s c', lg) end
      | _ => (RErr Unreachable, v, [])
      end
  | NFlat sum a t' =>
      with_child_td sum d v 0 (fun c => arm_td o a d c (fun c => walk o t' d c k))
  | NHet h lk cs =>
      match knext k lk with
      | (KShort, _) => (RErr (TooShort d), v, [])
      | (KNotFound, _) => (RErr (NotFound (S d)), v, [])
      | (KOk i, k') =>
          ok_up (with_child_td (is_sum h) (S d) v (N.to_nat i) (fun c =>
            (fix pick (cs : list (attrs * node)) (j : nat) {struct cs} : out L :=
               match cs with
               | [] => (RErr Unreachable, c, [])
               | (a, t') :: r => match j with
                                 | O => arm_td o a (S d) c (fun c => walk o t' (S d) c k')
                                 | S j' => pick r j' end
               end) cs (N.to_nat i)))
      end
  | NHom n t' =>
      match knext k (Homog n) with
      | (KShort, _) => (RErr (TooShort d), v, [])
      | (KNotFound, _) => (RErr (NotFound (S d)), v, [])
      | (KOk i, k') => ok_up (with_child_td false (S d) v (N.to_nat i) (fun c => walk o t' (S d) c k'))
      end
  end.

(* errors carry absolute depth d + relative depth; successes stay relative (validators see them) *)
Definition eshift (d : nat) (x : out L) : out L :=
  let '(r, v, lg) := x in (match r with ROk n => ROk n | RErr e => RErr (shift d e) end, v, lg).
End Walk.

(* functional update of the leaf designated by an index path *)
Fixpoint vset {L} (v : value L) (path : list nat) (x : value L) {struct v} : value L :=
  match v with
  | VLeaf _ => x
  | VGate s c => VGate s (vset c path x)
  | VSum a c => VSum a (vset c path x)
  | VProd vs =>
      match path with
      | [] => v
      | i :: rest =>
          VProd ((fix go (vs : list (value L)) (j : nat) {struct vs} : list (value L) :=
                    match vs with
                    | [] => []
                    | c :: r => match j with O => vset c rest x :: r | S j' => c :: go r j' end
                    end) vs i)
      end
  end.
