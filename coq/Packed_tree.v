(* C09: packed keys of the nodes of a tree type: every packed key decodes back to its node (hence
   distinct nodes have distinct keys), no key uses more bits than max_bits, leaves are ordered
   like iteration, and appending children within a power of two keeps all keys. *)
From Coq Require Import List NArith ZArith Lia Bool Arith PeanoNat.
From stdpp Require Import unstable.bitblast.
From MC Require Import Str Packed Packed_proofs Tree Tree_proofs NoPanic Transcode_proofs Meta_proofs.
Import ListNotations.

Local Open Scope Z_scope.

(* (width, index) per level along an index path; None if the path leaves the tree *)
Fixpoint path_fields (t : node) (p : list N) {struct t} : option (list field) :=
  match t with
  | NLeaf _ => match p with [] => Some [] | _ => None end
  | NGate _ t' => path_fields t' p
  | NFlat _ _ t' => path_fields t' p
  | NHet _ lk cs =>
      match p with
      | [] => Some []
      | i :: r =>
          (fix pick (cs : list (attrs * node)) (j : nat) {struct cs} : option (list field) :=
             match cs with
             | [] => None
             | (_, t') :: rest => match j with
                                  | O => option_map (cons (bits_for (Z.of_N (lk_len lk) - 1), Z.of_N i)) (path_fields t' r)
                                  | S j' => pick rest j' end
             end) cs (N.to_nat i)
      end
  | NHom n t' =>
      match p with
      | [] => Some []
      | i :: r => if (i <? n)%N then option_map (cons (bits_for (Z.of_N n - 1), Z.of_N i)) (path_fields t' r) else None
      end
  end.

(* is the node at path p a leaf? *)
Fixpoint leaf_at (t : node) (p : list N) {struct t} : bool :=
  match t with
  | NLeaf _ => true
  | NGate _ t' => leaf_at t' p
  | NFlat _ _ t' => leaf_at t' p
  | NHet _ lk cs =>
      match p with
      | [] => false
      | i :: r =>
          (fix pick (cs : list (attrs * node)) (j : nat) {struct cs} : bool :=
             match cs with
             | [] => false
             | (_, t') :: rest => match j with O => leaf_at t' r | S j' => pick rest j' end
             end) cs (N.to_nat i)
      end
  | NHom n t' => match p with [] => false | i :: r => leaf_at t' r end
  end.

Definition word_of (fs : list field) : Z := mkb (concat fs) (63 - total fs).

(* sibling counts up to 2^63: every width is at most 63 *)
Fixpoint narrow (t : node) : Prop :=
  match t with
  | NLeaf _ => True
  | NGate _ t' => narrow t'
  | NFlat _ _ t' => narrow t'
  | NHet _ lk cs => (lk_len lk <= 2 ^ 63)%N /\
      (fix all (cs : list (attrs * node)) : Prop := match cs with [] => True | c :: r => narrow (snd c) /\ all r end) cs
  | NHom n t' => (n <= 2 ^ 63)%N /\ narrow t'
  end.

Lemma fits_field n i : (1 <= n <= 2 ^ 63)%N -> (i < n)%N -> fits (bits_for (Z.of_N n - 1), Z.of_N i).
Proof.
  intros Hn Hi. unfold fits. cbn [fst snd].
  assert (Hb := bits_for_len (Z.of_N n) ltac:(change (2 ^ 63)%Z with (Z.of_N (2 ^ 63)); lia)).
  split; [lia|]. split; [lia|].
  destruct (bits_for_min (Z.of_N n - 1) ltac:(change (2 ^ 64)%Z with (Z.of_N (2 ^ 64)); assert (2 ^ 63 < 2 ^ 64)%N by reflexivity; lia)) as (_ & Hlt & _).
  lia.
Qed.

(* the fields along a valid path are well-formed bit fields *)
Lemma path_fields_fits : forall t p fs, wf t -> narrow t -> path_fields t p = Some fs -> Forall fits fs.
Proof.
  induction t as [lk|g t IH|s a t IH|h lk cs IH|n t IH] using node_ind'; intros p fs Hw Hn E.
  - cbn [path_fields] in E. destruct p; [injection E as <-; constructor|discriminate].
  - cbn [path_fields] in E. eapply IH; eauto.
  - cbn [path_fields] in E. eapply IH; eauto.
  - cbn [path_fields] in E. destruct p as [|i r]; [injection E as <-; constructor|].
    destruct Hw as (Hlen & Hne & Hall). destruct Hn as [Hnn Hnall].
    assert (G : forall (cs0 : list (attrs * node)) j fs0,
      Forall (fun ac => forall p fs, wf (snd ac) -> narrow (snd ac) -> path_fields (snd ac) p = Some fs -> Forall fits fs) cs0 ->
      (fix all (cs : list (attrs * node)) : Prop := match cs with [] => True | c :: r => wf (snd c) /\ all r end) cs0 ->
      (fix all (cs : list (attrs * node)) : Prop := match cs with [] => True | c :: r => narrow (snd c) /\ all r end) cs0 ->
      (fix pick (cs : list (attrs * node)) (j : nat) {struct cs} : option (list field) :=
         match cs with [] => None | (_, t') :: rest => match j with
           | O => option_map (cons (bits_for (Z.of_N (lk_len lk) - 1), Z.of_N i)) (path_fields t' r) | S j' => pick rest j' end end) cs0 j = Some fs0 ->
      (j < length cs0)%nat /\ exists fs1, fs0 = (bits_for (Z.of_N (lk_len lk) - 1), Z.of_N i) :: fs1 /\ Forall fits fs1).
    { induction cs0 as [|[a0 t0] rest IHc]; intros j fs0 HIH Hw0 Hn0 E0; [discriminate|].
      inversion HIH as [|? ? Ht0 Hrest]; subst. destruct Hw0 as [Hw1 Hw2]. destruct Hn0 as [Hn1 Hn2].
      destruct j as [|j].
      - destruct (path_fields t0 r) as [fs1|] eqn:Ep; [|discriminate]. injection E0 as <-.
        split; [simpl; lia|]. exists fs1. split; [reflexivity|]. eapply Ht0; eauto.
      - destruct (IHc j fs0 Hrest Hw2 Hn2 E0) as [Hj Hx]. split; [simpl; lia|exact Hx]. }
    destruct (G cs _ _ IH Hall Hnall E) as [Hj (fs1 & -> & Hf)].
    constructor; [|exact Hf]. apply fits_field; [|lia].
    destruct cs; [congruence|]. simpl length in Hlen. lia.
  - cbn [path_fields] in E. destruct p as [|i r]; [injection E as <-; constructor|].
    destruct Hw as [Hn0 Hw]. destruct Hn as [Hnn Hn].
    destruct (N.ltb_spec i n) as [Hlt|]; [|discriminate].
    destruct (path_fields t r) as [fs1|] eqn:Ep; [|discriminate]. injection E as <-.
    constructor; [apply fits_field; lia|eapply IH; eauto].
Qed.

Lemma total_nonneg' fs : Forall fits fs -> 0 <= total fs.
Proof. apply total_nonneg. Qed.

(* popping the first field off a key that holds exactly the fields f :: r *)
Lemma pop_first f r tt : Forall fits (f :: r) -> 0 <= tt -> tt + total (f :: r) = 63 ->
  pop_msb (mkb (concat (f :: r)) tt) (fst f) = Some (snd f, mkb (concat r) (tt + fst f)).
Proof.
  intros Hf Ht Hsum. inversion Hf as [|? ? [Hw Hvr] Hr]; subst. pose proof (total_nonneg r Hr) as Htr. simpl in Hsum.
  pose proof (concat_range r Hr) as Hcr.
  assert (Hval : valid (Z.lor (Z.shiftl (snd f) (total r)) (concat r)) tt).
  { split; [lia|]. pose proof (concat_range (f :: r) Hf) as Hc. simpl in Hc.
    replace (63 - tt) with (fst f + total r) by lia. exact Hc. }
  cbn [concat]. rewrite pop_spec by (auto; lia).
  destruct (Z.leb_spec (fst f) (63 - tt)); [|lia].
  replace (63 - tt - fst f) with (total r) by lia.
  assert (Hhi : Z.shiftr (Z.lor (Z.shiftl (snd f) (total r)) (concat r)) (total r) = snd f) by (bitblast; f_equal; lia).
  assert (Hlo : Z.land (Z.lor (Z.shiftl (snd f) (total r)) (concat r)) (Z.ones (total r)) = concat r) by (bitblast; f_equal; lia).
  rewrite Hhi, Hlo. reflexivity.
Qed.

(* a key with no fields left: finalize succeeds, next() reports exhaustion *)
Lemma packed_empty_fin : kfin (KPacked (mkb 0 63)) = true.
Proof. reflexivity. Qed.
Lemma packed_empty_next lk : (1 <= lk_len lk <= 2 ^ 63)%N -> knext (KPacked (mkb 0 63)) lk = (KShort, KPacked (mkb 0 63)).
Proof.
  intros Hn. cbn [knext].
  assert (Hb := bits_for_len (Z.of_N (lk_len lk)) ltac:(change (2 ^ 63)%Z with (Z.of_N (2 ^ 63)); lia)).
  assert (Hv : valid 0 63) by (split; simpl; lia).
  rewrite (pop_underflow 0 63 _ Hv) by lia. reflexivity.
Qed.

Definition calls_of_res (leaf : bool) (d : nat) : res := if leaf then ROk d else RErr (TooShort d).

(* Every packed key decodes back to its node: traversing with the word built from the fields along
   a path reaches the node of that path (same depth, same type), consuming the key exactly. *)
Theorem packed_decodes : forall t p fs tt pre, wf t -> narrow t ->
  path_fields t p = Some fs -> 0 <= tt -> tt + total fs = 63 ->
  exists new, trav nofail t (KPacked (mkb (concat fs) tt)) pre = (calls_of_res (leaf_at t p) (length p), new ++ pre) /\
              map (fun c => fst (fst c)) (rev new) = p.
Proof.
  induction t as [lk|g t IH|s a t IH|h lk cs IH|n t IH] using node_ind'; intros p fs tt pre Hw Hn E Ht Hsum.
  - cbn [path_fields] in E. destruct p; [injection E as <-|discriminate]. simpl in Hsum.
    replace tt with 63 by lia. exists []. split; reflexivity.
  - cbn [path_fields trav leaf_at] in *. eapply IH; eauto.
  - cbn [path_fields trav leaf_at] in *. eapply IH; eauto.
  - cbn [path_fields] in E. destruct Hw as (Hlen & Hne & Hall). destruct Hn as [Hnn Hnall].
    assert (Hlk : (1 <= lk_len lk <= 2 ^ 63)%N) by (destruct cs; [congruence|]; simpl length in Hlen; lia).
    destruct p as [|i r].
    + injection E as <-. simpl in Hsum. replace tt with 63 by lia.
      cbn [trav leaf_at]. change (concat []) with 0. rewrite (packed_empty_next lk Hlk). exists []. split; reflexivity.
    + cbn [trav leaf_at].
      (* the child reached by index i *)
      assert (G : forall (cs0 : list (attrs * node)) j fs0,
        (fix pick (cs : list (attrs * node)) (j : nat) {struct cs} : option (list field) :=
           match cs with [] => None | (_, t') :: rest => match j with
             | O => option_map (cons (bits_for (Z.of_N (lk_len lk) - 1), Z.of_N i)) (path_fields t' r) | S j' => pick rest j' end end) cs0 j = Some fs0 ->
        exists a t' fs1, nth_error cs0 j = Some (a, t') /\ path_fields t' r = Some fs1 /\
                         fs0 = (bits_for (Z.of_N (lk_len lk) - 1), Z.of_N i) :: fs1).
      { induction cs0 as [|[a0 t0] rest IHc]; intros j fs0 E0; [discriminate|].
        destruct j as [|j].
        - destruct (path_fields t0 r) as [fs1|] eqn:Ep; [|discriminate]. injection E0 as <-.
          exists a0, t0, fs1. repeat split; auto.
        - destruct (IHc j fs0 E0) as (a & t' & fs1 & H1 & H2 & H3). exists a, t', fs1. repeat split; auto. }
      destruct (G cs _ _ E) as (a & t' & fs1 & En & Ep & ->).
      assert (Hi : (i < lk_len lk)%N).
      { assert (N.to_nat i < length cs)%nat by (apply nth_error_Some; congruence). lia. }
      assert (Hfits : Forall fits ((bits_for (Z.of_N (lk_len lk) - 1), Z.of_N i) :: fs1)).
      { constructor; [apply fits_field; assumption|].
        eapply path_fields_fits; [| |exact Ep]; [eapply wf_all_nth; eauto|].
        clear - Hnall En. revert Hnall En. generalize (N.to_nat i) as j. induction cs as [|[a0 t0] r1 IHc]; intros j Hnall En; [destruct j; discriminate|].
        destruct Hnall as [H1 H2]. destruct j as [|j]; simpl in En; [injection En as -> ->; exact H1|eapply IHc; eauto]. }
      cbn [knext]. pose proof (pop_first _ _ tt Hfits Ht Hsum) as Hpop. cbn [fst snd] in Hpop. unfold field in Hpop. rewrite Hpop.
      rewrite N2Z.id. destruct (N.ltb_spec i (lk_len lk)); [|lia].
      unfold nofail at 1. rewrite andb_false_r. unfold reports.
      set (c0 := (i, lk_name lk i, lk_len lk)).
      assert (Hwt : wf t') by (eapply wf_all_nth; eauto).
      assert (Hnt : narrow t').
      { clear - Hnall En. revert Hnall En. generalize (N.to_nat i) as j. induction cs as [|[a0 t0] r1 IHc]; intros j Hnall En; [destruct j; discriminate|].
        destruct Hnall as [H1 H2]. destruct j as [|j]; simpl in En; [injection En as -> ->; exact H1|eapply IHc; eauto]. }
      assert (Hin : In (a, t') cs) by (eapply nth_error_In; eauto).
      rewrite List.Forall_forall in IH.
      assert (Hb := bits_for_len (Z.of_N (lk_len lk)) ltac:(change (2 ^ 63)%Z with (Z.of_N (2 ^ 63)); lia)).
      cbn [total fst] in Hsum.
      destruct (IH (a, t') Hin r fs1 (tt + bits_for (Z.of_N (lk_len lk) - 1)) (c0 :: pre) Hwt Hnt Ep ltac:(lia) ltac:(lia)) as (new & Etr & Hidx).
      cbn [snd] in Etr.
      assert (Gp : forall (cs0 : list (attrs * node)) j, nth_error cs0 j = Some (a, t') ->
        (fix pick (cs : list (attrs * node)) (j : nat) {struct cs} : tout :=
           match cs with [] => (RErr Unreachable, c0 :: pre) | (_, t'0) :: r0 => match j with
             | O => trav nofail t'0 (KPacked (mkb (concat fs1) (tt + bits_for (Z.of_N (lk_len lk) - 1)))) (c0 :: pre) | S j' => pick r0 j' end end) cs0 j
        = trav nofail t' (KPacked (mkb (concat fs1) (tt + bits_for (Z.of_N (lk_len lk) - 1)))) (c0 :: pre)).
      { induction cs0 as [|[a0 t0] r0 IHc]; intros j Ej; [destruct j; discriminate|].
        destruct j as [|j]; simpl in Ej; [injection Ej as -> ->; reflexivity|apply IHc; exact Ej]. }
      rewrite (Gp cs _ En), Etr.
      assert (Gl : forall (cs0 : list (attrs * node)) j, nth_error cs0 j = Some (a, t') ->
        (fix pick (cs : list (attrs * node)) (j : nat) {struct cs} : bool :=
           match cs with [] => false | (_, t'0) :: rest => match j with O => leaf_at t'0 r | S j' => pick rest j' end end) cs0 j = leaf_at t' r).
      { induction cs0 as [|[a0 t0] r0 IHc]; intros j Ej; [destruct j; discriminate|].
        destruct j as [|j]; simpl in Ej; [injection Ej as -> ->; reflexivity|apply IHc; exact Ej]. }
      rewrite (Gl cs _ En).
      exists (new ++ [c0]). split.
      * simpl. rewrite <- app_assoc. destruct (leaf_at t' r); reflexivity.
      * rewrite rev_app_distr. cbn [rev app map fst c0]. f_equal. exact Hidx.
  - cbn [path_fields] in E. destruct Hw as [Hn0 Hw]. destruct Hn as [Hnn Hn].
    destruct p as [|i r].
    + injection E as <-. simpl in Hsum. replace tt with 63 by lia.
      cbn [trav leaf_at]. change (concat []) with 0. rewrite (packed_empty_next (Homog n)) by (simpl; lia). exists []. split; reflexivity.
    + destruct (N.ltb_spec i n) as [Hlt|]; [|discriminate].
      destruct (path_fields t r) as [fs1|] eqn:Ep; [|discriminate]. injection E as <-.
      assert (Hfits : Forall fits ((bits_for (Z.of_N n - 1), Z.of_N i) :: fs1)).
      { constructor; [apply fits_field; lia|eapply path_fields_fits; eauto]. }
      cbn [trav leaf_at knext lk_len]. pose proof (pop_first _ _ tt Hfits Ht Hsum) as Hpop. cbn [fst snd] in Hpop. unfold field in Hpop. rewrite Hpop.
      rewrite N2Z.id. destruct (N.ltb_spec i n); [|lia].
      unfold nofail at 1.
      assert (Hb := bits_for_len (Z.of_N n) ltac:(change (2 ^ 63)%Z with (Z.of_N (2 ^ 63)); lia)).
      cbn [total fst] in Hsum.
      destruct (IH r fs1 (tt + bits_for (Z.of_N n - 1)) ((i, None, n) :: pre) Hw Hn Ep ltac:(lia) ltac:(lia)) as (new & Etr & Hidx).
      rewrite Etr. exists (new ++ [(i, None, n)]). split.
      * simpl. rewrite <- app_assoc. destruct (leaf_at t r); reflexivity.
      * rewrite rev_app_distr. cbn [rev app map fst]. f_equal. exact Hidx.
Qed.

(* hence distinct nodes (leaf or internal) have distinct packed keys *)
Theorem packed_injective t p q fs gs : wf t -> narrow t ->
  path_fields t p = Some fs -> path_fields t q = Some gs -> total fs <= 63 -> total gs <= 63 ->
  word_of fs = word_of gs -> p = q.
Proof.
  intros Hw Hn Ep Eq Hf Hg Hword. unfold word_of in Hword.
  pose proof (total_nonneg _ (path_fields_fits _ _ _ Hw Hn Ep)).
  pose proof (total_nonneg _ (path_fields_fits _ _ _ Hw Hn Eq)).
  destruct (packed_decodes t p fs (63 - total fs) [] Hw Hn Ep ltac:(lia) ltac:(lia)) as (n1 & E1 & I1).
  destruct (packed_decodes t q gs (63 - total gs) [] Hw Hn Eq ltac:(lia) ltac:(lia)) as (n2 & E2 & I2).
  rewrite Hword in E1. rewrite E1 in E2. injection E2 as _ E2. rewrite !app_nil_r in E2. subst n2. congruence.
Qed.

(* ---- no key uses more bits than max_bits ---- *)
Lemma nbits_for_eq n : (1 <= n)%N -> Z.of_N (nbits_for (n - 1)) = bits_for (Z.of_N n - 1).
Proof.
  intros Hn. unfold nbits_for. rewrite N2Z.inj_sub by lia. change (Z.of_N 1) with 1.
  apply Z2N.id. unfold bits_for. destruct (Z.of_N n - 1 =? 0); [lia|]. pose proof (Z.log2_nonneg (Z.of_N n - 1)). lia.
Qed.

Theorem packed_bound : forall t p fs, wf t -> path_fields t p = Some fs -> total fs <= Z.of_N (m_bits (metadata t)).
Proof.
  induction t as [lk|g t IH|s a t IH|h lk cs IH|n t IH] using node_ind'; intros p fs Hw E.
  - cbn [path_fields] in E. destruct p; [injection E as <-; simpl; lia|discriminate].
  - cbn [path_fields metadata] in *. eapply IH; eauto.
  - cbn [path_fields metadata] in *. eapply IH; eauto.
  - cbn [path_fields] in E. destruct p as [|i r]; [injection E as <-; simpl; lia|].
    pose proof Hw as (Hlen & Hne & Hall).
    assert (G : forall (cs0 : list (attrs * node)) j fs0,
      (fix pick (cs : list (attrs * node)) (j : nat) {struct cs} : option (list field) :=
         match cs with [] => None | (_, t') :: rest => match j with
           | O => option_map (cons (bits_for (Z.of_N (lk_len lk) - 1), Z.of_N i)) (path_fields t' r) | S j' => pick rest j' end end) cs0 j = Some fs0 ->
      exists a t' fs1, nth_error cs0 j = Some (a, t') /\ path_fields t' r = Some fs1 /\
                       fs0 = (bits_for (Z.of_N (lk_len lk) - 1), Z.of_N i) :: fs1).
    { induction cs0 as [|[a0 t0] rest IHc]; intros j fs0 E0; [discriminate|].
      destruct j as [|j].
      - destruct (path_fields t0 r) as [fs1|] eqn:Ep; [|discriminate]. injection E0 as <-.
        exists a0, t0, fs1. repeat split; auto.
      - destruct (IHc j fs0 E0) as (a & t' & fs1 & H1 & H2 & H3). exists a, t', fs1. repeat split; auto. }
    destruct (G cs _ _ E) as (a & t' & fs1 & En & Ep & ->).
    destruct (child_meta_het h lk cs _ a t' Hw En) as (_ & _ & Hb).
    assert (Hin : In (a, t') cs) by (eapply nth_error_In; eauto).
    rewrite List.Forall_forall in IH.
    assert (Hwt : wf t') by (eapply wf_all_nth; eauto).
    specialize (IH (a, t') Hin r fs1 Hwt Ep). cbn [snd] in IH.
    cbn [total fst]. assert (Hlk : (1 <= lk_len lk)%N) by (destruct cs; [congruence|]; simpl length in Hlen; lia).
    rewrite <- (nbits_for_eq _ Hlk). lia.
  - cbn [path_fields] in E. destruct p as [|i r]; [injection E as <-; simpl; lia|].
    destruct Hw as [Hn0 Hw]. destruct (N.ltb_spec i n); [|discriminate].
    destruct (path_fields t r) as [fs1|] eqn:Ep; [|discriminate]. injection E as <-.
    specialize (IH r fs1 Hw Ep). cbn [total fst metadata m_bits].
    rewrite <- (nbits_for_eq n) by lia. lia.
Qed.

(* ---- stability: appending children to a node without changing the width of its index field
   (not crossing a power of two) leaves the keys of all existing nodes unchanged ---- *)
Fixpoint extends (t t' : node) {struct t} : Prop :=
  match t, t' with
  | NLeaf _, NLeaf _ => True
  | NGate _ a, NGate _ b => extends a b
  | NFlat _ _ a, NFlat _ _ b => extends a b
  | NHet _ lk cs, NHet _ lk' cs' =>
      bits_for (Z.of_N (lk_len lk) - 1) = bits_for (Z.of_N (lk_len lk') - 1) /\
      (fix all (cs cs' : list (attrs * node)) {struct cs} : Prop :=
         match cs, cs' with
         | [], _ => True
         | c :: r, c' :: r' => extends (snd c) (snd c') /\ all r r'
         | _ :: _, [] => False
         end) cs cs'
  | NHom n a, NHom n' b => (n <= n')%N /\ bits_for (Z.of_N n - 1) = bits_for (Z.of_N n' - 1) /\ extends a b
  | _, _ => False
  end.

Theorem packed_stable : forall t t' p fs, extends t t' -> path_fields t p = Some fs -> path_fields t' p = Some fs.
Proof.
  induction t as [lk|g t IH|s a t IH|h lk cs IH|n t IH] using node_ind'; intros t' p fs Hx E.
  - destruct t'; try (exfalso; exact Hx). exact E.
  - destruct t'; try (exfalso; exact Hx). cbn [path_fields] in *. eapply IH; eauto.
  - destruct t'; try (exfalso; exact Hx). cbn [path_fields] in *. eapply IH; eauto.
  - destruct t' as [| | |h' lk' cs'|]; try (exfalso; exact Hx). destruct Hx as [Hb Hall].
    cbn [path_fields] in *. destruct p as [|i r]; [exact E|]. rewrite <- Hb.
    revert cs' Hall E. generalize (N.to_nat i) as j.
    induction IH as [|[a0 t0] rest Ht _ IHr]; intros j cs' Hall E; [discriminate|].
    destruct cs' as [|[a1 t1] rest']; [exfalso; exact Hall|]. destruct Hall as [Hx0 Hxr].
    destruct j as [|j].
    + destruct (path_fields t0 r) as [fs1|] eqn:Ep; [|discriminate].
      cbn [snd] in Ht, Hx0. rewrite (Ht t1 r fs1 Hx0 Ep). exact E.
    + apply IHr; assumption.
  - destruct t' as [| | | |n' t']; try (exfalso; exact Hx). destruct Hx as (Hn & Hb & Hx).
    cbn [path_fields] in *. destruct p as [|i r]; [exact E|].
    destruct (N.ltb_spec i n) as [Hlt|]; [|discriminate].
    destruct (N.ltb_spec i n'); [|lia]. rewrite <- Hb.
    destruct (path_fields t r) as [fs1|] eqn:Ep; [|discriminate]. rewrite (IH t' r fs1 Hx Ep). exact E.
Qed.

(* ---- order: the numeric order of the packed keys of the leaves is their iteration order ---- *)
Fixpoint aconcat (fs : list field) : Z :=
  match fs with [] => 0 | f :: r => snd f * 2 ^ total r + aconcat r end.

Lemma concat_arith fs : Forall fits fs -> concat fs = aconcat fs.
Proof.
  induction 1 as [|f r [Hw Hv] Hr IH]; [reflexivity|]. cbn [concat aconcat].
  pose proof (total_nonneg r Hr). pose proof (concat_range r Hr).
  rewrite <- Z.add_nocarry_lor by (bitblast; f_equal; lia).
  rewrite Z.shiftl_mul_pow2 by lia. rewrite IH. reflexivity.
Qed.

Lemma total_app a b : total (a ++ b) = total a + total b.
Proof. induction a as [|f r IH]; simpl; lia. Qed.

Lemma aconcat_app a b : Forall fits a -> Forall fits b ->
  aconcat (a ++ b) = aconcat a * 2 ^ total b + aconcat b.
Proof.
  intros Ha Hb. pose proof (total_nonneg b Hb) as Htb.
  induction Ha as [|f r [Hw Hv] Hr IH]; simpl; [lia|]. rewrite IH, total_app.
  pose proof (total_nonneg r Hr). rewrite Z.pow_add_r by lia. lia.
Qed.

Lemma aconcat_range fs : Forall fits fs -> 0 <= aconcat fs < 2 ^ total fs.
Proof. intros H. rewrite <- concat_arith by exact H. apply concat_range. exact H. Qed.

(* a key whose first fields are P lies in the window of P: aligned at the top of the word *)
Lemma word_window P R : Forall fits P -> Forall fits R -> total (P ++ R) <= 63 ->
  aconcat P * 2 ^ (64 - total P) <= word_of (P ++ R) < (aconcat P + 1) * 2 ^ (64 - total P).
Proof.
  intros HP HR Ht. assert (HPR : Forall fits (P ++ R)) by (apply Forall_app; split; assumption).
  pose proof (total_nonneg P HP). pose proof (total_nonneg R HR). rewrite total_app in Ht.
  unfold word_of. rewrite mkb_arith by (rewrite ?total_app; try lia; apply (concat_range _ HPR)).
  rewrite concat_arith by exact HPR. rewrite aconcat_app by assumption. rewrite total_app.
  pose proof (aconcat_range R HR) as [Hr0 Hr1]. pose proof (aconcat_range P HP) as [Hp0 _].
  set (a := aconcat P) in *. set (c := aconcat R) in *. set (tp := total P) in *. set (tr := total R) in *.
  replace (64 - tp) with ((tr + 1) + (63 - (tp + tr))) by lia.
  rewrite Z.pow_add_r by lia. rewrite (Z.pow_add_r 2 tr 1) by lia. change (2 ^ 1) with 2.
  pose proof (pow2_pos tr ltac:(lia)). pose proof (pow2_pos (63 - (tp + tr)) ltac:(lia)).
  split; nia.
Qed.

Fixpoint plt (p q : list N) : Prop :=
  match p, q with
  | i :: r, j :: s => (i < j)%N \/ (i = j /\ plt r s)
  | _, _ => False
  end.

(* two leaves in lexicographic order diverge at a common node: same prefix fields, same width *)
Lemma fields_diverge : forall t p q fs gs, wf t -> narrow t ->
  path_fields t p = Some fs -> path_fields t q = Some gs -> plt p q ->
  exists F b i j R1 R2, fs = F ++ (b, i) :: R1 /\ gs = F ++ (b, j) :: R2 /\ i < j.
Proof.
  induction t as [lk|g t IH|s a t IH|h lk cs IH|n t IH] using node_ind'; intros p q fs gs Hw Hn Ep Eq Hlt.
  - cbn [path_fields] in Ep, Eq. destruct p; [|discriminate]. destruct q; simpl in Hlt; exfalso; exact Hlt.
  - cbn [path_fields] in *. eapply IH; eauto.
  - cbn [path_fields] in *. eapply IH; eauto.
  - destruct p as [|i r]; [simpl in Hlt; exfalso; exact Hlt|]. destruct q as [|j s0]; [simpl in Hlt; exfalso; exact Hlt|].
    cbn [path_fields] in Ep, Eq. destruct Hw as (Hlen & Hne & Hall). destruct Hn as [Hnn Hnall].
    assert (G : forall (cs0 : list (attrs * node)) k x r0 fs0,
      (fix pick (cs : list (attrs * node)) (j : nat) {struct cs} : option (list field) :=
         match cs with [] => None | (_, t') :: rest => match j with
           | O => option_map (cons (bits_for (Z.of_N (lk_len lk) - 1), Z.of_N x)) (path_fields t' r0) | S j' => pick rest j' end end) cs0 k = Some fs0 ->
      exists a t' fs1, nth_error cs0 k = Some (a, t') /\ path_fields t' r0 = Some fs1 /\
                       fs0 = (bits_for (Z.of_N (lk_len lk) - 1), Z.of_N x) :: fs1).
    { induction cs0 as [|[a0 t0] rest IHc]; intros k x r0 fs0 E0; [discriminate|].
      destruct k as [|k].
      - destruct (path_fields t0 r0) as [fs1|] eqn:Ep0; [|discriminate]. injection E0 as <-.
        exists a0, t0, fs1. repeat split; auto.
      - destruct (IHc k x r0 fs0 E0) as (a & t' & fs1 & H1 & H2 & H3). exists a, t', fs1. repeat split; auto. }
    destruct (G cs _ _ _ _ Ep) as (a1 & t1 & fs1 & En1 & Ep1 & ->).
    destruct (G cs _ _ _ _ Eq) as (a2 & t2 & gs1 & En2 & Eq1 & ->).
    destruct Hlt as [Hij|[<- Hrs]].
    + exists [], (bits_for (Z.of_N (lk_len lk) - 1)), (Z.of_N i), (Z.of_N j), fs1, gs1. repeat split; lia.
    + rewrite En1 in En2. injection En2 as <- <-.
      assert (Hin : In (a1, t1) cs) by (eapply nth_error_In; eauto).
      rewrite List.Forall_forall in IH.
      assert (Hwt : wf t1) by (eapply wf_all_nth; eauto).
      assert (Hnt : narrow t1).
      { clear - Hnall En1. revert Hnall En1. generalize (N.to_nat i) as k. induction cs as [|[a0 t0] r1 IHc]; intros k Hnall En; [destruct k; discriminate|].
        destruct Hnall as [H1 H2]. destruct k as [|k]; simpl in En; [injection En as -> ->; exact H1|eapply IHc; eauto]. }
      destruct (IH (a1, t1) Hin r s0 fs1 gs1 Hwt Hnt Ep1 Eq1 Hrs) as (F & b & x & y & R1 & R2 & -> & -> & Hxy).
      exists ((bits_for (Z.of_N (lk_len lk) - 1), Z.of_N i) :: F), b, x, y, R1, R2. repeat split; auto.
  - destruct p as [|i r]; [simpl in Hlt; exfalso; exact Hlt|]. destruct q as [|j s0]; [simpl in Hlt; exfalso; exact Hlt|].
    cbn [path_fields] in Ep, Eq. destruct Hw as [Hn0 Hw]. destruct Hn as [Hnn Hn].
    destruct (N.ltb_spec i n); [|discriminate]. destruct (N.ltb_spec j n); [|discriminate].
    destruct (path_fields t r) as [fs1|] eqn:Ep1; [|discriminate]. injection Ep as <-.
    destruct (path_fields t s0) as [gs1|] eqn:Eq1; [|discriminate]. injection Eq as <-.
    destruct Hlt as [Hij|[<- Hrs]].
    + exists [], (bits_for (Z.of_N n - 1)), (Z.of_N i), (Z.of_N j), fs1, gs1. repeat split; lia.
    + destruct (IH r s0 fs1 gs1 Hw Hn Ep1 Eq1 Hrs) as (F & b & x & y & R1 & R2 & -> & -> & Hxy).
      exists ((bits_for (Z.of_N n - 1), Z.of_N i) :: F), b, x, y, R1, R2. repeat split; auto.
Qed.

(* the numeric order of the packed keys follows the lexicographic (= iteration) order of the nodes
   that are not prefixes of one another, in particular of the leaves *)
Theorem packed_order t p q fs gs : wf t -> narrow t ->
  path_fields t p = Some fs -> path_fields t q = Some gs -> total fs <= 63 -> total gs <= 63 ->
  plt p q -> word_of fs < word_of gs.
Proof.
  intros Hw Hn Ep Eq Hf Hg Hlt.
  pose proof (path_fields_fits _ _ _ Hw Hn Ep) as Ffs. pose proof (path_fields_fits _ _ _ Hw Hn Eq) as Fgs.
  destruct (fields_diverge t p q fs gs Hw Hn Ep Eq Hlt) as (F & b & i & j & R1 & R2 & -> & -> & Hij).
  apply Forall_app in Ffs. destruct Ffs as [HF H1]. inversion H1 as [|? ? Hbi HR1]; subst.
  apply Forall_app in Fgs. destruct Fgs as [_ H2]. inversion H2 as [|? ? Hbj HR2]; subst.
  assert (HP1 : Forall fits (F ++ [(b, i)])) by (apply Forall_app; split; [assumption|constructor; [assumption|constructor]]).
  assert (HP2 : Forall fits (F ++ [(b, j)])) by (apply Forall_app; split; [assumption|constructor; [assumption|constructor]]).
  replace (F ++ (b, i) :: R1) with ((F ++ [(b, i)]) ++ R1) in * by (rewrite <- app_assoc; reflexivity).
  replace (F ++ (b, j) :: R2) with ((F ++ [(b, j)]) ++ R2) in * by (rewrite <- app_assoc; reflexivity).
  pose proof (word_window _ _ HP1 HR1 Hf) as [_ Hup].
  pose proof (word_window _ _ HP2 HR2 Hg) as [Hlo _].
  rewrite !total_app in *. cbn [total fst] in *.
  rewrite !aconcat_app in * by (assumption || (constructor; [assumption|constructor])).
  cbn [aconcat total snd fst] in *. 
  pose proof (total_nonneg F HF). destruct Hbi as [Hb _].
  pose proof (pow2_pos (64 - (total F + (b + 0))) ltac:(cbn [fst] in Hb; pose proof (total_nonneg R1 HR1); lia)).
  change (2 ^ 0) with 1 in *.
  set (X := aconcat F * 2 ^ (b + 0)) in *. set (P := 2 ^ (64 - (total F + (b + 0)))) in *.
  eapply Z.lt_le_trans; [exact Hup|]. eapply Z.le_trans; [|exact Hlo].
  apply Z.mul_le_mono_nonneg_r; lia.
Qed.

(* ---- what Transcode for Packed holds: the word of the fields along the node's path ---- *)
Definition field_of_call (c : call) : field := (call_bits c, Z.of_N (fst (fst c))).

Lemma packed_of_push_all : forall pre, packed_of pre = push_all EMPTY (map field_of_call (rev pre)).
Proof.
  assert (G : forall l w, push_all w (l ++ []) = push_all w l) by (intros; rewrite app_nil_r; reflexivity).
  assert (Hsnoc : forall l f w, push_all w (l ++ [f]) =
            match push_all w l with Some w' => match push_lsb w' (fst f) (snd f) with Some (w'', _) => Some w'' | None => None end | None => None end).
  { induction l as [|x l IH]; intros f w; simpl.
    - destruct (push_lsb w (fst f) (snd f)) as [[w' c]|]; reflexivity.
    - destruct (push_lsb w (fst x) (snd x)) as [[w' c]|]; [apply IH|reflexivity]. }
  induction pre as [|c pre IH]; [reflexivity|].
  change (packed_of (c :: pre)) with
    (match packed_of pre with
     | Some w => match push_lsb w (call_bits c) (Z.of_N (fst (fst c))) with Some (w', _) => Some w' | None => None end
     | None => None end).
  cbn [rev]. rewrite map_app. cbn [map]. rewrite Hsnoc, <- IH. reflexivity.
Qed.

(* the calls of a traversal that reaches a node are the fields of that node's path *)
Lemma trav_fields cbf : forall t k pre r calls, wf t -> trav cbf t k pre = (r, calls) -> reached r ->
  exists new, calls = new ++ pre /\
    path_fields t (map (fun c => fst (fst c)) (rev new)) = Some (map field_of_call (rev new)) /\
    leaf_at t (map (fun c => fst (fst c)) (rev new)) = match r with ROk _ => true | _ => false end.
Proof.
  induction t as [lk|g t IH|s a t IH|h lk cs IH|n t IH] using node_ind'; intros k pre r calls Hw E Hr.
  - cbn [trav] in E. destruct (kfin k); injection E as <- <-; [|exfalso; exact Hr]. exists []. repeat split.
  - cbn [trav path_fields leaf_at] in *. eapply IH; eauto.
  - cbn [trav path_fields leaf_at] in *. eapply IH; eauto.
  - cbn [trav] in E. destruct (knext k lk) as [[i| |] k'] eqn:Ek.
    + unfold reports in E. cbn [andb] in E.
      destruct (cbf pre (i, lk_name lk i, lk_len lk)); [injection E as <- <-; exfalso; exact Hr|].
      set (c0 := (i, lk_name lk i, lk_len lk)) in *.
      pose proof (knext_bound _ _ _ _ Ek) as Hb. destruct Hw as (Hlen & Hne & Hall).
      assert (Hj : (N.to_nat i < length cs)%nat) by lia.
      destruct (nth_error cs (N.to_nat i)) as [[a t']|] eqn:En; [|apply nth_error_None in En; lia].
      assert (G : forall (cs0 : list (attrs * node)) j, nth_error cs0 j = Some (a, t') ->
        (fix pick (cs : list (attrs * node)) (j : nat) {struct cs} : tout :=
           match cs with [] => (RErr Unreachable, c0 :: pre) | (_, t') :: r0 => match j with O => trav cbf t' k' (c0 :: pre) | S j' => pick r0 j' end end) cs0 j
        = trav cbf t' k' (c0 :: pre)).
      { induction cs0 as [|[a0 t0] r0 IHc]; intros j Ej; [destruct j; discriminate|].
        destruct j as [|j]; simpl in Ej; [injection Ej as -> ->; reflexivity|apply IHc; exact Ej]. }
      rewrite (G cs _ En) in E.
      destruct (trav cbf t' k' (c0 :: pre)) as [r0 calls0] eqn:Et. simpl in E. injection E as <- <-.
      assert (Hr0 : reached r0) by (destruct r0 as [d|[]]; simpl in *; auto).
      assert (Hin : In (a, t') cs) by (eapply nth_error_In; eauto).
      rewrite List.Forall_forall in IH.
      assert (Hwt : wf t') by (eapply wf_all_nth; eauto).
      destruct (IH (a, t') Hin k' (c0 :: pre) r0 calls0 Hwt Et Hr0) as (new & -> & Hpf & Hlf). cbn [snd] in Hpf, Hlf.
      exists (new ++ [c0]). split; [rewrite <- app_assoc; reflexivity|].
      rewrite rev_app_distr. cbn [rev app map fst c0].
      assert (Gp : forall (cs0 : list (attrs * node)) j r1, nth_error cs0 j = Some (a, t') ->
        (fix pick (cs : list (attrs * node)) (j : nat) {struct cs} : option (list field) :=
           match cs with [] => None | (_, t'0) :: rest => match j with
             | O => option_map (cons (bits_for (Z.of_N (lk_len lk) - 1), Z.of_N i)) (path_fields t'0 r1) | S j' => pick rest j' end end) cs0 j
        = option_map (cons (bits_for (Z.of_N (lk_len lk) - 1), Z.of_N i)) (path_fields t' r1)).
      { induction cs0 as [|[a0 t0] r0' IHc]; intros j r1 Ej; [destruct j; discriminate|].
        destruct j as [|j]; simpl in Ej; [injection Ej as -> ->; reflexivity|apply IHc; exact Ej]. }
      assert (Gl : forall (cs0 : list (attrs * node)) j r1, nth_error cs0 j = Some (a, t') ->
        (fix pick (cs : list (attrs * node)) (j : nat) {struct cs} : bool :=
           match cs with [] => false | (_, t'0) :: rest => match j with O => leaf_at t'0 r1 | S j' => pick rest j' end end) cs0 j = leaf_at t' r1).
      { induction cs0 as [|[a0 t0] r0' IHc]; intros j r1 Ej; [destruct j; discriminate|].
        destruct j as [|j]; simpl in Ej; [injection Ej as -> ->; reflexivity|apply IHc; exact Ej]. }
      cbn [path_fields leaf_at]. rewrite (Gp cs _ _ En), (Gl cs _ _ En), Hpf, Hlf.
      split; [reflexivity|]. destruct r0 as [d|[]]; reflexivity.
    + injection E as <- <-. exists []. repeat split.
    + injection E as <- <-. exfalso. exact Hr.
  - cbn [trav] in E. destruct (knext k (Homog n)) as [[i| |] k'] eqn:Ek.
    + destruct (cbf pre (i, None, n)); [injection E as <- <-; exfalso; exact Hr|].
      pose proof (knext_bound _ _ _ _ Ek) as Hb. simpl in Hb. destruct Hw as [Hn Hw].
      destruct (trav cbf t k' ((i, None, n) :: pre)) as [r0 calls0] eqn:Et. simpl in E. injection E as <- <-.
      assert (Hr0 : reached r0) by (destruct r0 as [d|[]]; simpl in *; auto).
      destruct (IH k' _ r0 calls0 Hw Et Hr0) as (new & -> & Hpf & Hlf).
      exists (new ++ [(i, None, n)]). split; [rewrite <- app_assoc; reflexivity|].
      rewrite rev_app_distr. cbn [rev app map fst]. cbn [path_fields leaf_at].
      destruct (N.ltb_spec i n); [|lia]. rewrite Hpf, Hlf. split; [reflexivity|]. destruct r0 as [d|[]]; reflexivity.
    + injection E as <- <-. exists []. repeat split.
    + injection E as <- <-. exfalso. exact Hr.
Qed.
