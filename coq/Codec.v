(* Leaf payload values and their JSON text as serde-json-core writes it (the subset used by
   the generated programs: integers, bool, unit, Option, arrays/tuples, strings without
   characters that need an escape, unit-variant names). *)
From Coq Require Import List NArith ZArith Bool.
From MC Require Import Str.
Import ListNotations.

Inductive lval :=
| LInt (z : Z) | LBool (b : bool) | LUnit | LOpt (o : option lval) | LArr (l : list lval)
| LStr (s : str) | LTag (n : N).

Definition bytes := list N.

(* UTF-8 encoding of one scalar value *)
Definition utf8_encode (c : N) : bytes :=
  (if c <? 128 then [c]
   else if c <? 2048 then [192 + c / 64; 128 + c mod 64]
   else if c <? 65536 then [224 + c / 4096; 128 + (c / 64) mod 64; 128 + c mod 64]
   else [240 + c / 262144; 128 + (c / 4096) mod 64; 128 + (c / 64) mod 64; 128 + c mod 64])%N.
Definition utf8 (s : str) : bytes := flat_map utf8_encode s.

Definition dec_int (z : Z) : bytes :=
  match z with
  | Z0 => [48%N]
  | Zpos p => itoa (Npos p)
  | Zneg p => 45%N :: itoa (Npos p)
  end.

Definition tag_name (n : N) : str :=
  match n with 0%N => [65] | 1%N => [66; 98] | _ => [67; 99; 99] end%N.

Fixpoint json_enc (v : lval) : bytes :=
  match v with
  | LInt z => dec_int z
  | LBool true => [116; 114; 117; 101]%N
  | LBool false => [102; 97; 108; 115; 101]%N
  | LUnit => [110; 117; 108; 108]%N
  | LOpt None => [110; 117; 108; 108]%N
  | LOpt (Some x) => json_enc x
  | LArr l =>
      91%N :: (fix go (l : list lval) (first : bool) : bytes :=
                 match l with
                 | [] => [93%N]
                 | x :: r => (if first then [] else [44%N]) ++ json_enc x ++ go r false
                 end) l true
  | LStr s => 34%N :: utf8 s ++ [34%N]
  | LTag n => 34%N :: utf8 (tag_name n) ++ [34%N]
  end.
