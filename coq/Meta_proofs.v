(* C06: Metadata (walk.rs, modelled by Tree.metadata) is exact w.r.t. the per-leaf statistics. *)
From Coq Require Import List NArith ZArith Lia Bool Arith PeanoNat.
From MC Require Import Str Packed Tree Tree_proofs NoPanic.
Import ListNotations.
Local Open Scope N_scope.

Fixpoint nmax (l : list N) : N := match l with [] => 0 | x :: r => N.max x (nmax r) end.
Lemma nmax_app l1 l2 : nmax (l1 ++ l2) = N.max (nmax l1) (nmax l2).
Proof. induction l1 as [|x l IH]; simpl; [lia|]. rewrite IH. lia. Qed.
Lemma nmax_le l x : In x l -> x <= nmax l.
Proof. induction l as [|y l IH]; simpl; [tauto|]. intros [->|H]; [lia|specialize (IH H); lia]. Qed.
Lemma nmax_in l : l <> [] -> In (nmax l) l.
Proof.
  induction l as [|x l IH]; [congruence|]. intros _. simpl.
  destruct l as [|y l]; [left; simpl; lia|].
  destruct (N.max_spec x (nmax (y :: l))) as [[_ ->]|[_ ->]]; [right; apply IH; discriminate|left; reflexivity].
Qed.
Lemma nmax_ub l b : (forall x, In x l -> x <= b) -> nmax l <= b.
Proof. induction l as [|y l IH]; simpl; intros H; [lia|]. pose proof (H y (or_introl eq_refl)). specialize (IH (fun x Hx => H x (or_intror Hx))). lia. Qed.

(* one entry per leaf, in key order: (depth, summed name length in bytes, summed bit width) *)
Definition stat := (N * N * N)%type.
Definition sd (s : stat) := fst (fst s).
Definition sl (s : stat) := snd (fst s).
Definition sb (s : stat) := snd s.
Definition bump (d l b : N) (s : stat) : stat := let '(d0, l0, b0) := s in (d + d0, l + l0, b + b0).

Definition name_len (lk : lookup) (index : N) : N :=
  match lk with
  | Named ns => match nth_error ns (N.to_nat index) with Some n => str_bytes n | None => 0 end
  | _ => digits index
  end.

Fixpoint concat_go (lk : lookup) (items : list (list stat)) (index : N) : list stat :=
  match items with
  | [] => []
  | l :: r => map (bump 1 (name_len lk index) (nbits_for (lk_len lk - 1))) l ++ concat_go lk r (index + 1)
  end.

Fixpoint stats (t : node) : list stat :=
  match t with
  | NLeaf _ => [(0, 0, 0)]
  | NGate _ t' => stats t'
  | NFlat _ _ t' => stats t'
  | NHet _ lk cs => concat_go lk (map (fun c => stats (snd c)) cs) 0
  | NHom n t' =>
      flat_map (fun i => map (bump 1 (digits (N.of_nat i)) (nbits_for (n - 1))) (stats t')) (seq 0 (N.to_nat n))
  end.

Definition exact0 (m : meta) (l : list stat) : Prop :=
  m_count m = N.of_nat (length l) /\ m_depth m = nmax (map sd l) /\
  m_length m = nmax (map sl l) /\ m_bits m = nmax (map sb l).

Lemma nmax_map_add {A} (f : A -> N) a l : l <> [] -> nmax (map (fun x => a + f x) l) = a + nmax (map f l).
Proof.
  induction l as [|x l IH]; intros H; [congruence|]. simpl.
  destruct l as [|y l]; [simpl; lia|]. rewrite IH by discriminate. simpl. lia.
Qed.
Lemma nmax_const {A} (c : N) (l : list A) : l <> [] -> nmax (map (fun _ => c) l) = c.
Proof.
  induction l as [|x l IH]; intros H; [congruence|]. simpl.
  destruct l as [|y l]; [simpl; lia|]. rewrite IH by discriminate. lia.
Qed.

Lemma map_bump d l b (Ls : list stat) :
  map sd (map (bump d l b) Ls) = map (fun s => d + sd s) Ls /\
  map sl (map (bump d l b) Ls) = map (fun s => l + sl s) Ls /\
  map sb (map (bump d l b) Ls) = map (fun s => b + sb s) Ls.
Proof. rewrite !map_map. repeat split; apply map_ext; intros [[? ?] ?]; reflexivity. Qed.

Lemma exact_bump m Ls d l b : Ls <> [] -> exact0 m Ls ->
  nmax (map sd (map (bump d l b) Ls)) = d + m_depth m /\
  nmax (map sl (map (bump d l b) Ls)) = l + m_length m /\
  nmax (map sb (map (bump d l b) Ls)) = b + m_bits m.
Proof.
  intros Hne [_ [Hd [Hl Hb]]]. destruct (map_bump d l b Ls) as [E1 [E2 E3]].
  rewrite E1, E2, E3, !nmax_map_add by assumption. lia.
Qed.

Lemma merge_exact lk : forall items_m items_l index acc L0,
  Forall2 (fun m l => l <> [] /\ exact0 m l) items_m items_l ->
  exact0 acc L0 ->
  exact0 (merge_go lk items_m index acc) (L0 ++ concat_go lk items_l index).
Proof.
  induction items_m as [|m r IH]; intros items_l index acc L0 HF Hacc.
  - inversion HF; subst. simpl. rewrite app_nil_r. exact Hacc.
  - inversion HF as [|? l ? r' [Hne Hex] HF']; subst.
    cbn [merge_go concat_go]. rewrite app_assoc. apply IH; [exact HF'|].
    destruct Hacc as [Hc [Hd [Hl Hb]]].
    destruct (exact_bump m l 1 (name_len lk index) (nbits_for (lk_len lk - 1)) Hne Hex) as [Bd [Bl Bb]].
    destruct Hex as [Hcm _].
    unfold exact0. cbn [m_count m_depth m_length m_bits].
    rewrite !map_app, !nmax_app, app_length, map_length, Bd, Bl, Bb, Hc, Hcm, Hd, Hl, Hb.
    unfold name_len. repeat split; lia.
Qed.

Lemma concat_nonempty lk : forall items index, items <> [] ->
  Forall (fun l : list stat => l <> []) items -> concat_go lk items index <> [].
Proof.
  intros [|l r] index Hne HF; [congruence|]. inversion HF; subst. simpl in *.
  destruct l; [congruence|]. simpl. discriminate.
Qed.

Lemma digits_aux_mono : forall f n m, n <= m -> digits_aux f n <= digits_aux f m.
Proof.
  induction f as [|f IH]; intros n m H; simpl; [lia|].
  destruct (N.ltb_spec n 10), (N.ltb_spec m 10); try lia.
  assert (n / 10 <= m / 10) by (apply N.div_le_mono; lia). specialize (IH _ _ H2). lia.
Qed.
Lemma digits_mono n m : n <= m -> digits n <= digits m.
Proof. apply digits_aux_mono. Qed.

Lemma digits_max n c : 0 < n ->
  nmax (map (fun i => digits (N.of_nat i) + c) (seq 0 (N.to_nat n))) = digits (n - 1) + c.
Proof.
  intros Hn. apply N.le_antisymm.
  - apply nmax_ub. intros x Hx. apply in_map_iff in Hx. destruct Hx as [i [<- Hi]]. apply in_seq in Hi.
    assert (digits (N.of_nat i) <= digits (n - 1)) by (apply digits_mono; lia). lia.
  - apply nmax_le. apply in_map_iff. exists (N.to_nat (n - 1)). split; [f_equal; f_equal; lia|]. apply in_seq. lia.
Qed.

Lemma hom_exact m Ls n b : 0 < n -> Ls <> [] -> exact0 m Ls ->
  exact0 {| m_count := n * m_count m; m_depth := 1 + m_depth m;
            m_length := digits (n - 1) + m_length m; m_bits := b + m_bits m |}
         (flat_map (fun i => map (bump 1 (digits (N.of_nat i)) b) Ls) (seq 0 (N.to_nat n))).
Proof.
  intros Hn Hne Hex. pose proof Hex as [Hc [Hd [Hl Hb]]].
  set (g := fun i => map (bump 1 (digits (N.of_nat i)) b) Ls).
  assert (Hlen : forall l, length (flat_map g l) = (length l * length Ls)%nat).
  { induction l as [|i l IH]; simpl; [reflexivity|]. unfold g at 1. rewrite app_length, map_length, IH. lia. }
  assert (Hmax : forall (pr : stat -> N) (f : nat -> N) l,
            (forall i, nmax (map pr (g i)) = f i) ->
            nmax (map pr (flat_map g l)) = nmax (map f l)).
  { intros pr f l Hf. induction l as [|i l IH]; simpl; [reflexivity|].
    rewrite map_app, nmax_app, IH, Hf. reflexivity. }
  unfold exact0. cbn [m_count m_depth m_length m_bits]. rewrite Hlen, seq_length.
  split; [rewrite Hc; lia|].
  assert (Hpos : seq 0 (N.to_nat n) <> []) by (destruct (N.to_nat n) eqn:E; [lia|discriminate]).
  split; [|split].
  - rewrite (Hmax sd (fun _ => 1 + m_depth m)).
    + symmetry. apply nmax_const. exact Hpos.
    + intros i. unfold g. destruct (exact_bump m Ls 1 (digits (N.of_nat i)) b Hne Hex) as [E _]. exact E.
  - rewrite (Hmax sl (fun i => digits (N.of_nat i) + m_length m)).
    + symmetry. apply digits_max. exact Hn.
    + intros i. unfold g. destruct (exact_bump m Ls 1 (digits (N.of_nat i)) b Hne Hex) as [_ [E _]]. exact E.
  - rewrite (Hmax sb (fun _ => b + m_bits m)).
    + symmetry. apply nmax_const. exact Hpos.
    + intros i. unfold g. destruct (exact_bump m Ls 1 (digits (N.of_nat i)) b Hne Hex) as [_ [_ E]]. exact E.
Qed.

(* Main theorem: for every well-formed schema the metadata is exact: count = number of leaves,
   max_depth / max_length / max_bits = the maxima over the leaves. *)
Theorem meta_exact : forall t, wf t -> stats t <> [] /\ exact0 (metadata t) (stats t).
Proof.
  induction t as [lk|g t IH|s a t IH|h lk cs IH|n t IH] using node_ind'; intros Hw.
  - split; [discriminate|]. repeat split.
  - apply IH. exact Hw.
  - apply IH. exact Hw.
  - destruct Hw as (Hlen & Hne & Hall). cbn [metadata stats].
    assert (HF : Forall2 (fun m l => l <> [] /\ exact0 m l)
                   (map (fun c => metadata (snd c)) cs) (map (fun c => stats (snd c)) cs)).
    { clear Hne Hlen. induction IH as [|[a c] r Hc _ IHr]; [constructor|].
      destruct Hall as [Hwc Hwr]. simpl. constructor; [|apply IHr; exact Hwr]. apply Hc. exact Hwc. }
    split.
    + apply concat_nonempty; [destruct cs; [congruence|discriminate]|].
      clear -HF. remember (map (fun c => metadata (snd c)) cs) as ms. clear Heqms.
      induction HF as [|? ? ? ? [H _]]; constructor; assumption.
    + apply (merge_exact lk _ _ 0 {| m_count := 0; m_depth := 0; m_length := 0; m_bits := 0 |} [] HF). repeat split.
  - destruct Hw as [Hn Hwc]. destruct (IH Hwc) as [Hne Hex]. cbn [metadata stats]. split.
    + destruct (N.to_nat n) eqn:E; [lia|]. simpl. destruct (stats t); [congruence|]. simpl. discriminate.
    + apply hom_exact; assumption.
Qed.

(* each maximum is attained by some leaf and exceeded by none *)
Corollary max_attained (pr : stat -> N) (field : meta -> N) t :
  (forall m l, exact0 m l -> field m = nmax (map pr l)) -> wf t ->
  (exists s, In s (stats t) /\ pr s = field (metadata t)) /\
  (forall s, In s (stats t) -> pr s <= field (metadata t)).
Proof.
  intros Hf Hw. destruct (meta_exact t Hw) as [Hne Hex]. rewrite (Hf _ _ Hex). split.
  - assert (Hm : map pr (stats t) <> []) by (destruct (stats t); [congruence|discriminate]).
    pose proof (nmax_in _ Hm) as G. apply in_map_iff in G. destruct G as [s [Hs Hin]]. exists s. auto.
  - intros s Hin. apply nmax_le. apply in_map. exact Hin.
Qed.

Corollary depth_attained t : wf t ->
  (exists s, In s (stats t) /\ sd s = m_depth (metadata t)) /\ (forall s, In s (stats t) -> sd s <= m_depth (metadata t)).
Proof. apply (max_attained sd m_depth). intros m l H. apply H. Qed.
Corollary length_attained t : wf t ->
  (exists s, In s (stats t) /\ sl s = m_length (metadata t)) /\ (forall s, In s (stats t) -> sl s <= m_length (metadata t)).
Proof. apply (max_attained sl m_length). intros m l H. apply H. Qed.
Corollary bits_attained t : wf t ->
  (exists s, In s (stats t) /\ sb s = m_bits (metadata t)) /\ (forall s, In s (stats t) -> sb s <= m_bits (metadata t)).
Proof. apply (max_attained sb m_bits). intros m l H. apply H. Qed.
Corollary count_exact t : wf t -> m_count (metadata t) = N.of_nat (length (stats t)).
Proof. intros Hw. apply (proj2 (meta_exact t Hw)). Qed.

(* ---- the generic walk (TreeKey::traverse_all with any Walk): every container passes exactly its
   children, in order, and its lookup; wrappers and flattened levels are transparent ---- *)
Section WalkGen.
Variable W : Type.
Variable wleaf : W.
Variable winternal : list W -> lookup -> W.
Fixpoint walk_gen (t : node) : W :=
  match t with
  | NLeaf _ => wleaf
  | NGate _ t' => walk_gen t'
  | NFlat _ _ t' => walk_gen t'
  | NHet _ lk cs => winternal (map (fun c => walk_gen (snd c)) cs) lk
  | NHom n t' => winternal [walk_gen t'] (Homog n)
  end.
End WalkGen.

(* Walk::internal for Metadata (walk.rs:71-104), one loop for the three kinds of lookup *)
Definition meta_internal (children : list meta) (lk : lookup) : meta :=
  match lk with
  | Homog n =>
      fold_left (fun acc m =>
        {| m_count := m_count acc + n * m_count m; m_depth := N.max (m_depth acc) (1 + m_depth m);
           m_length := N.max (m_length acc) (digits (n - 1) + m_length m);
           m_bits := N.max (m_bits acc) (nbits_for (n - 1) + m_bits m) |}) children
        {| m_count := 0; m_depth := 0; m_length := 0; m_bits := 0 |}
  | _ => merge_go lk children 0 {| m_count := 0; m_depth := 0; m_length := 0; m_bits := 0 |}
  end.

Definition no_homog_lookup (t : node) : Prop :=
  (fix ok (t : node) : Prop :=
     match t with
     | NLeaf _ => True | NGate _ t' | NFlat _ _ t' | NHom _ t' => ok t'
     | NHet _ lk cs => (match lk with Homog _ => False | _ => True end) /\
         (fix all (cs : list (attrs * node)) : Prop := match cs with [] => True | c :: r => ok (snd c) /\ all r end) cs
     end) t.

Theorem metadata_is_walk : forall t, no_homog_lookup t -> metadata t = walk_gen meta leaf_meta meta_internal t.
Proof.
  induction t as [lk|g t IH|s a t IH|h lk cs IH|n t IH] using node_ind'; intros Hn.
  - reflexivity.
  - apply IH. exact Hn.
  - apply IH. exact Hn.
  - cbn [metadata walk_gen]. destruct Hn as [Hlk Hall].
    assert (E : map (fun c => metadata (snd c)) cs = map (fun c => walk_gen meta leaf_meta meta_internal (snd c)) cs).
    { clear Hlk. induction IH as [|[a c] r Hc _ IHr]; [reflexivity|]. destruct Hall as [H1 H2].
      cbn [map]. f_equal; [apply Hc; exact H1|apply IHr; exact H2]. }
    rewrite E. destruct lk; [reflexivity|reflexivity|exfalso; exact Hlk].
  - cbn [metadata walk_gen]. rewrite <- (IH Hn). unfold meta_internal. simpl.
    f_equal; lia.
Qed.

Theorem skeleton_is_walk : forall t, skeleton t = walk_gen skel SkLeaf (fun cs lk => SkInt lk cs) t.
Proof.
  induction t as [lk|g t IH|s a t IH|h lk cs IH|n t IH] using node_ind'.
  - reflexivity.
  - exact IH.
  - exact IH.
  - cbn [skeleton walk_gen].
    assert (E : map (fun c => skeleton (snd c)) cs = map (fun c => walk_gen skel SkLeaf (fun cs lk => SkInt lk cs) (snd c)) cs).
    { induction IH as [|[a c] r Hc _ IHr]; [reflexivity|]. cbn [map]. rewrite Hc, IHr. reflexivity. }
    rewrite E. reflexivity.
  - cbn [skeleton walk_gen]. rewrite IH. reflexivity.
Qed.

Lemma concat_go_in lk : forall (items : list (list stat)) index k l s,
  nth_error items k = Some l -> In s l ->
  In (bump 1 (name_len lk (index + N.of_nat k)) (nbits_for (lk_len lk - 1)) s) (concat_go lk items index).
Proof.
  induction items as [|l0 r IH]; intros index k l s E Hin; [destruct k; discriminate|].
  destruct k as [|k]; simpl in E.
  - injection E as ->. cbn [concat_go]. apply in_or_app. left. rewrite N.add_0_r. apply in_map. exact Hin.
  - cbn [concat_go]. apply in_or_app. right.
    replace (index + N.of_nat (S k))%N with (index + 1 + N.of_nat k)%N by lia. eapply IH; eauto.
Qed.


(* every child contributes (1 + depth, own name + length, own bits + bits) to the maxima of its parent *)
Lemma child_meta_het h lk cs k a t' : wf (NHet h lk cs) -> nth_error cs k = Some (a, t') ->
  (1 + m_depth (metadata t') <= m_depth (metadata (NHet h lk cs))) /\
  (name_len lk (N.of_nat k) + m_length (metadata t') <= m_length (metadata (NHet h lk cs))) /\
  (nbits_for (lk_len lk - 1) + m_bits (metadata t') <= m_bits (metadata (NHet h lk cs))).
Proof.
  intros Hw En. pose proof (meta_exact _ Hw) as [_ (_ & Hd & Hl & Hb)].
  assert (Hwt : wf t') by (destruct Hw as (_ & _ & Hall); eapply wf_all_nth; eauto).
  pose proof (meta_exact _ Hwt) as [Hne (_ & Hd' & Hl' & Hb')].
  rewrite Hd, Hd', Hl, Hl', Hb, Hb'.
  assert (G : forall (pr : stat -> N) (own : N), (forall s, pr (bump 1 (name_len lk (0 + N.of_nat k)) (nbits_for (lk_len lk - 1)) s) = own + pr s) ->
    own + nmax (map pr (stats t')) <= nmax (map pr (stats (NHet h lk cs)))).
  { intros pr own Hpr.
    assert (Hm : map pr (stats t') <> []) by (destruct (stats t'); [congruence|discriminate]).
    pose proof (nmax_in _ Hm) as Hin. apply in_map_iff in Hin. destruct Hin as [s [Hs Hins]].
    rewrite <- Hs, <- Hpr. apply nmax_le. cbn [stats]. apply in_map_iff.
    eexists. split; [reflexivity|]. eapply concat_go_in; [|exact Hins]. rewrite nth_error_map, En. reflexivity. }
  repeat split.
  - apply G. intros [[d l] b]. reflexivity.
  - apply (G sl). intros [[d l] b]. reflexivity.
  - apply (G sb). intros [[d l] b]. reflexivity.
Qed.
