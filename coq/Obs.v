(* Universal observation type used by the correspondence check: the harness encodes what
   the implementation returned as an [obs] term, the model computes its own [obs], and
   [obs_eqb] compares them inside Coq (vm_compute).  No proofs depend on this file. *)
From Coq Require Import List ZArith Bool.
Import ListNotations.
Local Open Scope Z_scope.

Inductive obs :=
| OZ (z : Z)
| OL (l : list obs).

Fixpoint obs_eqb (a b : obs) {struct a} : bool :=
  match a, b with
  | OZ x, OZ y => Z.eqb x y
  | OL l, OL m =>
      (fix go (l m : list obs) {struct l} : bool :=
         match l, m with
         | [], [] => true
         | x :: l', y :: m' => obs_eqb x y && go l' m'
         | _, _ => false
         end) l m
  | _, _ => false
  end.

Definition ONone : obs := OL [].
Definition OSome (x : obs) : obs := OL [x].
Definition OB (b : bool) : obs := OZ (if b then 1 else 0).
Definition ON (n : N) : obs := OZ (Z.of_N n).
Definition Onat (n : nat) : obs := OZ (Z.of_nat n).
Definition Oopt {A} (f : A -> obs) (o : option A) : obs :=
  match o with None => ONone | Some x => OSome (f x) end.
Definition Olist {A} (f : A -> obs) (l : list A) : obs := OL (map f l).
Definition Opair (a b : obs) : obs := OL [a; b].

(* indices (0-based) of the cases whose model observation differs from the expected one,
   together with what the model computed *)
Fixpoint mismatches_from (i : Z) (cases : list (obs * obs)) : list (Z * obs) :=
  match cases with
  | [] => []
  | (model, expected) :: r =>
      if obs_eqb model expected then mismatches_from (i + 1) r
      else (i, model) :: mismatches_from (i + 1) r
  end.
Definition mismatches := mismatches_from 0.
