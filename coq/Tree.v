(* Executable model of the tree core of miniconf: key sources (key.rs, packed.rs, iter.rs
   Consume), the built-in container impls (impls.rs, leaf.rs, tree.rs), the derive expansion
   (miniconf_derive) and the four by-key value operations plus the type-level traversal, kept
   in the shape of the code: errors are born with depth 0/1 and incremented on the way up,
   Keys::next before the match, finalize at the leaf.  Every place where the Rust code would
   panic (unreachable!(), slice index) is the explicit result [Unreachable]. *)
From Coq Require Import List NArith ZArith Bool Arith.
From MC Require Import Str Packed.
Import ListNotations.

(* ---------------------------------------------------------------- lookup, keys *)
Inductive lookup := Named (names : list str) | Numbered (n : N) | Homog (n : N).
Definition lk_len (lk : lookup) : N :=
  match lk with Named ns => N.of_nat (length ns) | Numbered n | Homog n => n end.

Fixpoint str_eqb (a b : str) : bool :=
  match a, b with
  | [], [] => true
  | x :: a', y :: b' => (x =? y)%N && str_eqb a' b'
  | _, _ => false
  end.
Fixpoint position (s : str) (names : list str) : option N :=
  match names with
  | [] => None
  | n :: r => if str_eqb n s then Some 0%N else option_map N.succ (position s r)
  end.

(* str::parse::<usize>(): optional '+', at least one ASCII digit, leading zeros allowed,
   overflow beyond 2^64-1 rejected *)
Fixpoint parse_digits (s : str) (acc : N) : option N :=
  match s with
  | [] => Some acc
  | c :: r => if ((48 <=? c) && (c <=? 57))%N
              then let acc' := (acc * 10 + (c - 48))%N in
                   if (acc' <? 18446744073709551616)%N then parse_digits r acc' else None
              else None
  end.
Definition parse_usize (s : str) : option N :=
  match s with
  | [] => None
  | c :: r => if (c =? 43)%N then (match r with [] => None | _ => parse_digits r 0 end)
              else parse_digits s 0
  end.

Inductive key := KInt (z : Z) | KStr (s : str).
(* Key::find *)
Definition find (k : key) (lk : lookup) : option N :=
  match k with
  | KInt z => if ((0 <=? z) && (z <? 18446744073709551616))%Z
              then (if (Z.to_N z <? lk_len lk)%N then Some (Z.to_N z) else None) else None
  | KStr s => match lk with
              | Named ns => position s ns
              | Numbered n | Homog n =>
                  match parse_usize s with
                  | Some i => if (i <? n)%N then Some i else None
                  | None => None
                  end
              end
  end.

Inductive keys :=
| KIter (ks : list key)            (* KeysIter over any iterator of Key items *)
| KPacked (w : Z)                  (* Packed *)
| KChain (a b : keys)              (* Chain *)
| KConsume (a : keys).             (* iter.rs Consume: finalize always succeeds *)

Inductive kres := KOk (i : N) | KShort | KNotFound.
Fixpoint knext (k : keys) (lk : lookup) : kres * keys :=
  match k with
  | KIter [] => (KShort, k)
  | KIter (x :: r) => (match find x lk with Some i => KOk i | None => KNotFound end, KIter r)
  | KPacked w =>
      match pop_msb w (bits_for (Z.of_N (lk_len lk) - 1)) with
      | None => (KShort, k)
      | Some (v, w') => ((if (Z.to_N v <? lk_len lk)%N then KOk (Z.to_N v) else KNotFound), KPacked w')
      end
  | KChain a b =>
      match knext a lk with
      | (KShort, a') => let '(r, b') := knext b lk in (r, KChain a' b')
      | (r, a') => (r, KChain a' b)
      end
  | KConsume a => let '(r, a') := knext a lk in (r, KConsume a')
  end.
(* Keys::finalize: true = Ok(()) *)
Fixpoint kfin (k : keys) : bool :=
  match k with
  | KIter ks => match ks with [] => true | _ => false end
  | KPacked w => is_empty w
  | KChain a b => kfin a && kfin b
  | KConsume _ => true
  end.

(* ---------------------------------------------------------------- results *)
Inductive err :=
| Absent (d : nat) | TooShort (d : nat) | NotFound (d : nat) | TooLong (d : nat)
| Access (d : nat) (m : N) | Invalid (d : nat) (m : N) | Inner (d : nat)
| Unreachable.                     (* a panic in the Rust code *)
Definition shift (k : nat) (e : err) : err :=
  match e with
  | Absent d => Absent (k + d) | TooShort d => TooShort (k + d) | NotFound d => NotFound (k + d)
  | TooLong d => TooLong (k + d) | Access d m => Access (k + d) m | Invalid d m => Invalid (k + d) m
  | Inner d => Inner (k + d) | Unreachable => Unreachable
  end.
Inductive res := ROk (d : nat) | RErr (e : err).
Definition rshift (k : nat) (r : res) := match r with ROk d => ROk (k + d) | RErr e => RErr (shift k e) end.

(* ---------------------------------------------------------------- schemas *)
Inductive op := OSer | ODe | ORef | OMut.
Definition op_eqb (a b : op) : bool :=
  match a, b with OSer, OSer | ODe, ODe | ORef, ORef | OMut, OMut => true | _, _ => false end.
Definition writes (o : op) : bool := match o with ODe | OMut => true | _ => false end.

Inductive lkind := KLeaf | KStrLeaf | KDeny.
Inductive gkind :=
| GOption | GBox | GCell | GRefCell | GCow | GRc | GArc | GMutex | GRwLock
| GRcWeak | GArcWeak | GRefMut
| GRefRefCell.      (* &RefCell<T>: TreeDeserialize through try_borrow_mut, TreeSerialize through the & blanket impl *)
Inductive hkind := HStruct | HTupleStruct | HEnum | HTuple | HResult | HBound | HRange | HRangeIncl | HRangeFrom | HRangeTo.
Definition is_sum (h : hkind) : bool := match h with HEnum | HResult | HBound => true | _ => false end.
(* does the impl report the consumed key to the traversal callback? (all of them do) *)
Definition reports (h : hkind) : bool := true.

(* derive field attributes; message / callback identifiers are numbers *)
Record attrs := {
  a_deny : op -> option N;          (* #[tree(deny(op = "msg"))] *)
  a_get : option N;                 (* get = callback id *)
  a_getmut : option N;              (* get_mut = callback id *)
  a_val : option N }.               (* validate = callback id *)
Definition no_attrs : attrs := {| a_deny := fun _ => None; a_get := None; a_getmut := None; a_val := None |}.

Inductive node :=
| NLeaf (k : lkind)
| NGate (g : gkind) (t : node)
| NFlat (sum : bool) (a : attrs) (t : node)
| NHet (h : hkind) (lk : lookup) (cs : list (attrs * node))
| NHom (n : N) (t : node).

(* ---------------------------------------------------------------- runtime values *)
(* state of a wrapper that matters to the impls *)
Inductive gstate := GSok | GSabsent | GSblocked | GSshared.
(* Option: None = GSabsent.  RefCell: mutably borrowed = GSblocked, immutably borrowed = GSshared (reads and &mut access
   still work, try_borrow_mut does not).  Rc/Arc: shared = GSblocked.
   Mutex/RwLock: poisoned = GSblocked.  Weak: dead = GSabsent, alive = GSok. *)
Inductive gerr := GAbsent | GAccess.
Definition gate_err (g : gkind) (o : op) (s : gstate) : option gerr :=
  match g, o, s with
  | GOption, _, GSabsent => Some GAbsent
  | GCell, ORef, _ => Some GAccess
  | GRefCell, ORef, _ => Some GAccess
  | GRefCell, OSer, GSblocked => Some GAccess
  | GRc, (ODe | OMut), GSblocked => Some GAccess
  | GArc, (ODe | OMut), GSblocked => Some GAccess
  | GMutex, ORef, _ => Some GAccess
  | GRwLock, ORef, _ => Some GAccess
  | GMutex, _, GSblocked => Some GAccess
  | GRwLock, _, GSblocked => Some GAccess
  | GRefRefCell, (OSer | ODe), GSblocked => Some GAccess
  | GRefRefCell, ODe, GSshared => Some GAccess
  | (GRcWeak | GArcWeak), _, GSabsent => Some GAbsent
  | (GRcWeak | GArcWeak), ODe, _ => Some GAccess     (* upgrade() then Rc::get_mut on a shared Rc *)
  | _, _, _ => None
  end.
Definition gerr_err (g : gerr) : err := match g with GAbsent => Absent 0 | GAccess => Access 0 0%N end.

Section Values.
Variable L : Type.                  (* leaf payload values *)
Inductive value :=
| VLeaf (x : L)
| VGate (s : gstate) (v : value)
| VProd (vs : list value)
| VSum (active : option nat) (v : value).

Fixpoint set_nth {A} (l : list A) (i : nat) (x : A) : list A :=
  match l, i with [] , _ => [] | _ :: r, O => x :: r | y :: r, S j => y :: set_nth r j x end.

(* user callbacks: what each one answers in this run *)
Inductive cbres := CbOk (repl : option nat) | CbFail (m : N).
Definition oracle := N -> cbres.
Inductive event := EvGet (id : N) | EvGetMut (id : N) | EvVal (id : N) (depth : nat)
| EvRead (x : L) | EvWrite (y : L).   (* the leaf value was read / replaced by y *)

(* what the leaf does with the (de)serializer; [wr] = value written by a write *)
Inductive leafres := LOk (x : L) | LInner | LInvalid.   (* LInvalid: StrLeaf "Could not convert" *)
Variable wr : L -> leafres.         (* deserialize the payload into a leaf holding x (old value given) *)
Variable rd : L -> bool.            (* serialize the leaf value: false = serializer error (Inner) *)

Definition out := (res * value * list event)%type.

Section Run.
Variable orc : oracle.

(* one match arm of the derive expansion: deny, getter, child, validator *)
Definition arm (o : op) (a : attrs) (v : value) (child : value -> out) : out :=
  match a_deny a o with Some m => (RErr (Access 0 m), v, []) | None =>
  let g := if writes o then a_getmut a else a_get a in
  let ev := match g with Some id => [if writes o then EvGetMut id else EvGet id] | None => [] end in
  match match g with Some id => match orc id with CbFail m => Some m | _ => None end | None => None end with
  | Some m => (RErr (Access 0 m), v, ev)
  | None =>
  let '(r, v', lg) := child v in
  match o, r, a_val a with
  | ODe, ROk d, Some id =>
      match orc id with
      | CbOk None => (ROk d, v', ev ++ lg ++ [EvVal id d])
      | CbOk (Some d') => (ROk d', v', ev ++ lg ++ [EvVal id d])
      | CbFail m => (RErr (Invalid 0 m), v', ev ++ lg ++ [EvVal id d])
      end
  | _, _, _ => (r, v', ev ++ lg)
  end end end.

(* select child i of a product / the active variant of a sum *)
Definition with_child (sum : bool) (v : value) (i : nat) (f : value -> out) : out :=
  match sum, v with
  | false, VProd vs => match nth_error vs i with
                       | Some c => let '(r, c', lg) := f c in (r, VProd (set_nth vs i c'), lg)
                       | None => (RErr Unreachable, v, []) end
  | true, VSum act c => match act with
                        | Some j => if Nat.eqb i j then let '(r, c', lg) := f c in (r, VSum act c', lg)
                                    else (RErr (Absent 0), v, [])
                        | None => (RErr (Absent 0), v, []) end
  | _, _ => (RErr Unreachable, v, [])
  end.

Definition incr_out (x : out) : out := let '(r, v, lg) := x in (rshift 1 r, v, lg).

Definition leaf_write (v : value) (x : L) : out :=
  match wr x with
  | LOk y => (ROk 0, VLeaf y, [EvWrite y])
  | LInner => (RErr (Inner 0), v, [])
  | LInvalid => (RErr (Invalid 0 0%N), v, [])
  end.
Definition leaf_op (lk : lkind) (o : op) (v : value) : out :=
  match lk, v with
  | KDeny, _ => (RErr (Access 0 0%N), v, [])
  | KStrLeaf, VLeaf x =>
      match o with
      | OSer => if rd x then (ROk 0, v, [EvRead x]) else (RErr (Inner 0), v, [])
      | ODe => leaf_write v x
      | ORef | OMut => (RErr (Access 0 0%N), v, [])
      end
  | KLeaf, VLeaf x =>
      match o with
      | OSer => if rd x then (ROk 0, v, [EvRead x]) else (RErr (Inner 0), v, [])
      | ORef => (ROk 0, v, [EvRead x])
      | ODe | OMut => leaf_write v x
      end
  | _, _ => (RErr Unreachable, v, [])
  end.

(* bottom-up, as the code does it *)
Fixpoint run (o : op) (t : node) (v : value) (k : keys) {struct t} : out :=
  match t with
  | NLeaf lk => if negb (kfin k) then (RErr (TooLong 0), v, []) else leaf_op lk o v
  | NGate g t' =>
      match v with
      | VGate s c => match gate_err g o s with
                     | Some e => (RErr (gerr_err e), v, [])
                     | None => let '(r, c', lg) := run o t' c k in (r, VGate s c', lg) end
      | _ => (RErr Unreachable, v, [])
      end
  | NFlat sum a t' =>
      with_child sum v 0 (fun c => arm o a c (fun c => run o t' c k))
  | NHet h lk cs =>
      match knext k lk with
      | (KShort, _) => (RErr (TooShort 0), v, [])
      | (KNotFound, _) => (RErr (NotFound 1), v, [])
      | (KOk i, k') =>
          incr_out (with_child (is_sum h) v (N.to_nat i) (fun c =>
            (fix pick (cs : list (attrs * node)) (j : nat) {struct cs} : out :=
               match cs with
               | [] => (RErr Unreachable, c, [])
               | (a, t') :: r => match j with
                                 | O => arm o a c (fun c => run o t' c k')
                                 | S j' => pick r j' end
               end) cs (N.to_nat i)))
      end
  | NHom n t' =>
      match knext k (Homog n) with
      | (KShort, _) => (RErr (TooShort 0), v, [])
      | (KNotFound, _) => (RErr (NotFound 1), v, [])
      | (KOk i, k') => incr_out (with_child false v (N.to_nat i) (fun c => run o t' c k'))
      end
  end.
End Run.
End Values.

Arguments VLeaf {L}. Arguments VGate {L}. Arguments VProd {L}. Arguments VSum {L}.
Arguments run {L}. Arguments arm {L}. Arguments with_child {L}. Arguments leaf_op {L}. Arguments incr_out {L}.
Arguments LOk {L}. Arguments LInner {L}. Arguments LInvalid {L}.
Arguments EvGet {L}. Arguments EvGetMut {L}. Arguments EvVal {L}. Arguments EvRead {L}. Arguments EvWrite {L}.

(* ---------------------------------------------------------------- type-level traversal *)
(* one invocation of the traversal callback: (index, name, sibling count) *)
Definition call := (N * option str * N)%type.
Definition lk_name (lk : lookup) (i : N) : option str :=
  match lk with Named ns => nth_error ns (N.to_nat i) | _ => None end.

Section Trav.
(* does the callback fail on this call, given the calls made before it (latest first)? *)
Variable cbfail : list call -> call -> bool.

Definition tout := (res * list call)%type.      (* calls made, latest first *)
Definition tincr (x : tout) : tout := let '(r, cs) := x in (rshift 1 r, cs).

Fixpoint trav (t : node) (k : keys) (pre : list call) {struct t} : tout :=
  match t with
  | NLeaf _ => if kfin k then (ROk 0, pre) else (RErr (TooLong 0), pre)
  | NGate _ t' => trav t' k pre
  | NFlat _ _ t' => trav t' k pre
  | NHet h lk cs =>
      match knext k lk with
      | (KShort, _) => (RErr (TooShort 0), pre)
      | (KNotFound, _) => (RErr (NotFound 1), pre)
      | (KOk i, k') =>
          let c := (i, lk_name lk i, lk_len lk) in
          if reports h && cbfail pre c then (RErr (Inner 1), pre) else
          let pre' := if reports h then c :: pre else pre in
          tincr ((fix pick (cs : list (attrs * node)) (j : nat) {struct cs} : tout :=
                    match cs with
                    | [] => (RErr Unreachable, pre')
                    | (_, t') :: r => match j with O => trav t' k' pre' | S j' => pick r j' end
                    end) cs (N.to_nat i))
      end
  | NHom n t' =>
      match knext k (Homog n) with
      | (KShort, _) => (RErr (TooShort 0), pre)
      | (KNotFound, _) => (RErr (NotFound 1), pre)
      | (KOk i, k') =>
          let c := (i, None, n) in
          if cbfail pre c then (RErr (Inner 1), pre) else tincr (trav t' k' (c :: pre))
      end
  end.
End Trav.

(* TryFrom<Result<usize, Error<()>>> for Node (node.rs:89-103) *)
Inductive tnode := TLeaf (d : nat) | TInternal (d : nat) | TErr (e : err).
Definition node_of_result (r : res) : tnode :=
  match r with
  | ROk d => TLeaf d
  | RErr (TooShort d) => TInternal d
  | RErr (Inner d) => TErr (TooShort d)
  | RErr e => TErr e
  end.

(* ---------------------------------------------------------------- transcode targets *)
Inductive target :=
| TgUnit
| TgIndices (cap : nat)             (* Indices<[usize; cap]> / [usize] of that length *)
| TgIndices8 (cap : nat)            (* [u8] of that length: index.try_into() fails above 255 *)
| TgPath (sep : N) (cap : nat)      (* Path<W, sep> with a writer that accepts cap bytes *)
| TgJson (cap : nat)                (* JsonPath<W> *)
| TgPacked.                         (* Packed::EMPTY *)

Definition call_text_path (sep : N) (c : call) : str :=
  let '(i, nm, _) := c in sep :: match nm with Some n => n | None => itoa i end.
Definition call_text_json (c : call) : str := let '(i, nm, _) := c in json_write_one nm i.
Definition call_bits (c : call) : Z := let '(_, _, len) := c in bits_for (Z.of_N len - 1).

(* bytes a bounded writer has accepted after the calls [pre] (latest first) *)
Definition written (f : call -> str) (pre : list call) : nat := wsum (concat (map f (rev pre))).
Definition packed_of (pre : list call) : option Z :=
  fold_right (fun c acc => match acc with
                           | Some w => match push_lsb w (call_bits c) (Z.of_N (fst (fst c))) with
                                       | Some (w', _) => Some w' | None => None end
                           | None => None end) (Some EMPTY) pre.

(* write_char(sep) then write_str(name): each is all-or-nothing on a bounded writer *)
Definition tg_fail (tg : target) (pre : list call) (c : call) : bool :=
  match tg with
  | TgUnit => false
  | TgIndices cap => cap <=? length pre
  | TgIndices8 cap => (cap <=? length pre) || (255 <? fst (fst c))%N
  | TgPath sep cap => cap <? written (call_text_path sep) pre + wsum (call_text_path sep c)
  | TgJson cap => cap <? written call_text_json pre + wsum (call_text_json c)
  | TgPacked => match packed_of pre with
                | Some w => match push_lsb w (call_bits c) (Z.of_N (fst (fst c))) with Some _ => false | None => true end
                | None => true
                end
  end.

(* what the target holds after the calls *)
Inductive rendered := RdUnit | RdIndices (l : list N) | RdText (s : str) | RdPacked (w : Z).
Definition render (tg : target) (pre : list call) : rendered :=
  match tg with
  | TgUnit => RdUnit
  | TgIndices cap | TgIndices8 cap => RdIndices (map (fun c => fst (fst c)) (rev pre) ++ repeat 0%N (cap - length pre))
  | TgPath sep _ => RdText (concat (map (call_text_path sep) (rev pre)))
  | TgJson _ => RdText (concat (map call_text_json (rev pre)))
  | TgPacked => match packed_of pre with Some w => RdPacked w | None => RdPacked 0 end
  end.

Definition transcode (t : node) (tg : target) (k : keys) : tnode * rendered :=
  let '(r, pre) := trav (tg_fail tg) t k [] in (node_of_result r, render tg pre).

(* ---------------------------------------------------------------- NodeIter (iter.rs) *)
Record istate := { i_idx : list N; i_root : nat; i_depth : nat }.
Definition iter_default (D : nat) : istate := {| i_idx := repeat 0%N D; i_root := 0; i_depth := D + 1 |}.

Fixpoint upd (idx : list N) (k : nat) (f : N -> N) : list N :=
  match idx, k with
  | [], _ => []
  | x :: r, O => f x :: r
  | x :: r, S k' => x :: upd r k' f
  end.

Definition idx_keys (idx : list N) : keys := KConsume (KIter (map (fun i => KInt (Z.of_N i)) idx)).

Inductive item := ItOk (r : rendered) (depth : nat) (leaf : bool) | ItErr (depth : nat).
Inductive iout := IDone | IPanic | IItem (it : item).

(* the loop of NodeIter::next; fuel counts loop iterations (never exhausted for fuel > D + 1) *)
Fixpoint iter_loop (fuel : nat) (t : node) (tg : target) (st : istate) : iout * istate :=
  match fuel with O => (IPanic, st) | S f =>
  let D := length (i_idx st) in
  if i_depth st =? i_root st then (IDone, st) else
  let idx1 := if i_depth st <=? D then upd (i_idx st) (i_depth st - 1) N.succ else i_idx st in
  match transcode t tg (idx_keys idx1) with
  | (TErr (NotFound d), _) =>
      iter_loop f t tg {| i_idx := upd idx1 (d - 1) (fun _ => 0%N); i_root := i_root st;
                          i_depth := Nat.max (d - 1) (i_root st) |}
  | (TLeaf d, r) => (IItem (ItOk r d true), {| i_idx := idx1; i_root := i_root st; i_depth := d |})
  | (TInternal d, r) => (IItem (ItOk r d false), {| i_idx := idx1; i_root := i_root st; i_depth := d |})
  | (TErr (TooShort d), _) =>
      (IItem (ItErr d), {| i_idx := idx1; i_root := i_root st; i_depth := Nat.max d (i_root st) |})
  | (TErr _, _) => (IPanic, st)
  end end.
Definition iter_next (t : node) (tg : target) (st : istate) : iout * istate :=
  iter_loop (length (i_idx st) + 2) t tg st.

(* NodeIter::root: clear the state, transcode the root key into it; None = Err(Traversal) *)
Definition iter_root (t : node) (D : nat) (k : keys) : tnode * option istate :=
  match transcode t (TgIndices D) k with
  | (TLeaf d, RdIndices l) => (TLeaf d, Some {| i_idx := l; i_root := d; i_depth := D + 1 |})
  | (TInternal d, RdIndices l) => (TInternal d, Some {| i_idx := l; i_root := d; i_depth := D + 1 |})
  | (n, _) => (n, None)
  end.

Fixpoint iter_collect (n : nat) (t : node) (tg : target) (st : istate) : list iout :=
  match n with O => [] | S n' =>
  match iter_next t tg st with
  | (IItem it, st') => IItem it :: iter_collect n' t tg st'
  | (o, st') => [o]
  end end.

(* ---------------------------------------------------------------- Metadata (walk.rs) *)
Record meta := { m_count : N; m_depth : N; m_length : N; m_bits : N }.
Definition leaf_meta := {| m_count := 1; m_depth := 0; m_length := 0; m_bits := 0 |}.

(* index.checked_ilog10().unwrap_or_default() + 1 *)
Fixpoint digits_aux (fuel : nat) (n : N) : N :=
  match fuel with O => 1 | S f => if (n <? 10)%N then 1 else (1 + digits_aux f (n / 10))%N end.
Definition digits (n : N) : N := digits_aux 20 n.
Definition nbits_for (n : N) : N := Z.to_N (bits_for (Z.of_N n)).

Definition str_bytes (s : str) : N := N.of_nat (wsum s).

(* the loop of Walk::internal for Metadata over the children (heterogeneous lookups) *)
Fixpoint merge_go (lk : lookup) (items : list meta) (index : N) (acc : meta) : meta :=
  match items with
  | [] => acc
  | m :: r =>
      let len := match lk with
                 | Named ns => match nth_error ns (N.to_nat index) with Some n => str_bytes n | None => 0%N end
                 | _ => digits index
                 end in
      merge_go lk r (index + 1)
        {| m_count := m_count acc + m_count m;
           m_depth := N.max (m_depth acc) (1 + m_depth m);
           m_length := N.max (m_length acc) (len + m_length m);
           m_bits := N.max (m_bits acc) (nbits_for (lk_len lk - 1) + m_bits m) |}
  end%N.

Fixpoint metadata (t : node) : meta :=
  match t with
  | NLeaf _ => leaf_meta
  | NGate _ t' => metadata t'
  | NFlat _ _ t' => metadata t'
  | NHet _ lk cs => merge_go lk (map (fun c => metadata (snd c)) cs) 0 {| m_count := 0; m_depth := 0; m_length := 0; m_bits := 0 |}
  | NHom n t' =>
      let m := metadata t' in
      {| m_count := n * m_count m; m_depth := 1 + m_depth m;
         m_length := digits (n - 1) + m_length m; m_bits := nbits_for (n - 1) + m_bits m |}%N
  end.

(* the structure a recording Walk sees: lookups and children in order *)
Inductive skel := SkLeaf | SkInt (lk : lookup) (cs : list skel).
Fixpoint skeleton (t : node) : skel :=
  match t with
  | NLeaf _ => SkLeaf
  | NGate _ t' => skeleton t'
  | NFlat _ _ t' => skeleton t'
  | NHet _ lk cs => SkInt lk (map (fun c => skeleton (snd c)) cs)
  | NHom n t' => SkInt (Homog n) [skeleton t']
  end.
