(* C03/C11: NodeIter on schemas (Tree.iter_loop) simulates the shape-level odometer (Odometer.loop),
   hence yields exactly the depth-first enumeration with cut-off, rooted or not, and is fused. *)
From Coq Require Import List NArith ZArith Lia Bool Arith PeanoNat.
From MC Require Import Str Packed Tree Tree_proofs NoPanic Transcode_proofs Odometer.
Import ListNotations.

Fixpoint shape_of (t : node) : shape :=
  match t with
  | NLeaf _ => Leaf
  | NGate _ t' => shape_of t'
  | NFlat _ _ t' => shape_of t'
  | NHet _ _ cs => Het (map (fun c => shape_of (snd c)) cs)
  | NHom n t' => Hom n (shape_of t')
  end.

Lemma wf_shape : forall t, NoPanic.wf t -> Odometer.wf (shape_of t).
Proof.
  induction t as [lk|g t IH|s a t IH|h lk cs IH|n t IH] using node_ind'; intros Hw; cbn [shape_of].
  - constructor.
  - apply IH. exact Hw.
  - apply IH. exact Hw.
  - destruct Hw as (Hlen & Hne & Hall). constructor.
    + destruct cs; [congruence|discriminate].
    + clear Hlen Hne. induction IH as [|[a c] r Hc _ IHr]; [constructor|].
      destruct Hall as [H1 H2]. cbn [map]. constructor; [apply Hc; exact H1|apply IHr; exact H2].
  - destruct Hw as [Hn Hw]. constructor; [lia|apply IH; exact Hw].
Qed.

Definition res_of_look (r : lres) : res :=
  match r with RLeaf d => ROk d | RInt d => RErr (TooShort d) | RNF d => RErr (NotFound d) end.

Lemma res_of_shift r : rshift 1 (res_of_look r) = res_of_look (shiftres 1 r).
Proof. destruct r; reflexivity. Qed.

Lemma knext_idx_cons i r lk : (lk_len lk <= 18446744073709551615)%N ->
  knext (idx_keys (i :: r)) lk = ((if (i <? lk_len lk)%N then KOk i else KNotFound), idx_keys r).
Proof.
  intros Hs. unfold idx_keys. cbn [map knext]. unfold find. rewrite N2Z.id.
  destruct (N.ltb_spec i (lk_len lk)) as [Hlt|Hge].
  - replace ((0 <=? Z.of_N i)%Z && (Z.of_N i <? 18446744073709551616)%Z) with true; [reflexivity|].
    symmetry. apply andb_true_iff. split; [apply Z.leb_le; lia|apply Z.ltb_lt; lia].
  - destruct ((0 <=? Z.of_N i)%Z && (Z.of_N i <? 18446744073709551616)%Z); reflexivity.
Qed.

(* the type-level lookup of an index key is the shape-level lookup *)
Lemma trav_look : forall t idx pre, NoPanic.wf t -> small t ->
  fst (trav nofail t (idx_keys idx) pre) = res_of_look (look idx (shape_of t)).
Proof.
  induction t as [lk|g t IH|s a t IH|h lk cs IH|n t IH] using node_ind'; intros idx pre Hw Hs.
  - cbn [trav shape_of]. unfold idx_keys. cbn [kfin]. destruct idx; reflexivity.
  - cbn [trav shape_of]. apply IH; assumption.
  - cbn [trav shape_of]. apply IH; assumption.
  - cbn [trav shape_of]. destruct Hw as (Hlen & Hne & Hall). destruct Hs as [Hsm Hsall].
    destruct idx as [|i r].
    + unfold idx_keys. cbn [map knext look is_leaf]. reflexivity.
    + rewrite knext_idx_cons by exact Hsm. cbn [look is_leaf child].
      destruct (N.ltb_spec i (lk_len lk)) as [Hlt|Hge].
      * unfold nofail at 1. rewrite andb_false_r. unfold reports.
        set (pre' := (i, lk_name lk i, lk_len lk) :: pre).
        assert (Hj : N.to_nat i < length cs) by lia.
        rewrite nth_error_map.
        destruct (nth_error cs (N.to_nat i)) as [[a t']|] eqn:En; [|apply nth_error_None in En; lia].
        cbn [option_map snd].
        assert (G : forall (cs0 : list (attrs * node)) j, nth_error cs0 j = Some (a, t') ->
          (fix pick (cs : list (attrs * node)) (j : nat) {struct cs} : tout :=
             match cs with [] => (RErr Unreachable, pre') | (_, t') :: r0 => match j with O => trav nofail t' (idx_keys r) pre' | S j' => pick r0 j' end end) cs0 j
          = trav nofail t' (idx_keys r) pre').
        { induction cs0 as [|[a0 t0] r0 IHc]; intros j Ej; [destruct j; discriminate|].
          destruct j as [|j]; simpl in Ej; [injection Ej as -> ->; reflexivity|apply IHc; exact Ej]. }
        rewrite (G cs _ En).
        assert (Hin : In (a, t') cs) by (eapply nth_error_In; eauto).
        rewrite Forall_forall in IH. specialize (IH (a, t') Hin r pre').
        assert (Hwt : NoPanic.wf t') by (eapply wf_all_nth; eauto).
        assert (Hst : small t').
        { clear - Hsall En. revert Hsall En. generalize (N.to_nat i) as j. induction cs as [|[a0 t0] r0 IHc]; intros j Hsall En; [destruct j; discriminate|].
          destruct Hsall as [H1 H2]. destruct j as [|j]; simpl in En; [injection En as -> ->; exact H1|eapply IHc; eauto]. }
        specialize (IH Hwt Hst). cbn [snd] in IH.
        destruct (trav nofail t' (idx_keys r) pre') as [r0 calls0]. simpl in *. rewrite IH. apply res_of_shift.
      * rewrite nth_error_map. replace (nth_error cs (N.to_nat i)) with (@None (attrs * node)); [reflexivity|].
        symmetry. apply nth_error_None. lia.
  - cbn [trav shape_of]. destruct Hw as [Hn Hw]. destruct Hs as [Hsm Hs].
    destruct idx as [|i r].
    + unfold idx_keys. cbn [map knext look is_leaf]. reflexivity.
    + rewrite knext_idx_cons by exact Hsm. cbn [look is_leaf child lk_len].
      destruct (N.ltb_spec i n) as [Hlt|Hge].
      * unfold nofail at 1. specialize (IH r ((i, None, n) :: pre) Hw Hs).
        destruct (trav nofail t (idx_keys r) ((i, None, n) :: pre)) as [r0 calls0]. simpl in *. rewrite IH. apply res_of_shift.
      * reflexivity.
Qed.

(* the target never runs out of capacity on this type (e.g. (), or buffers sized from Metadata) *)
Definition tg_total (t : node) (tg : target) : Prop :=
  forall idx pre, trav (tg_fail tg) t (idx_keys idx) pre = trav nofail t (idx_keys idx) pre.

Lemma tg_total_unit t : tg_total t TgUnit.
Proof. intros idx pre. reflexivity. Qed.

Lemma upd_eq : forall l k f, Tree.upd l k f = Odometer.upd l k f.
Proof. reflexivity. Qed.

Section Sim.
Variable t : node.
Variable tg : target.
Hypothesis Hw : NoPanic.wf t.
Hypothesis Hs : small t.
Hypothesis Htg : tg_total t tg.
Let sh := shape_of t.

Definition item_of (idx' : list N) (d : nat) (lf : bool) : Tree.item :=
  ItOk (snd (transcode t tg (idx_keys idx'))) d lf.

Lemma transcode_look idx :
  fst (transcode t tg (idx_keys idx)) =
  match look idx sh with RLeaf d => TLeaf d | RInt d => TInternal d | RNF d => TErr (NotFound d) end.
Proof.
  unfold transcode. rewrite Htg. pose proof (trav_look t idx [] Hw Hs) as E.
  destruct (trav nofail t (idx_keys idx) []) as [r pre]. simpl in E. simpl. rewrite E.
  fold sh. destruct (look idx sh); reflexivity.
Qed.

Lemma iter_loop_sim : forall fuel st,
  match loop (i_root st) fuel sh (i_idx st) (i_depth st) with
  | Done => exists st', iter_loop fuel t tg st = (IDone, st') /\ i_depth st' = i_root st' /\
                        i_root st' = i_root st /\ length (i_idx st') = length (i_idx st)
  | OutOfFuel => fst (iter_loop fuel t tg st) = IPanic
  | Item idx' d lf => iter_loop fuel t tg st =
      (IItem (item_of idx' d lf), {| i_idx := idx'; i_root := i_root st; i_depth := d |})
  end.
Proof.
  induction fuel as [|f IH]; intros st; [reflexivity|].
  cbn [loop iter_loop]. change Tree.upd with Odometer.upd. destruct (i_depth st =? i_root st) eqn:Ed.
  - exists st. apply Nat.eqb_eq in Ed. auto.
  - set (idx1 := if i_depth st <=? length (i_idx st) then upd (i_idx st) (i_depth st - 1) N.succ else i_idx st).
    pose proof (transcode_look idx1) as E.
    destruct (transcode t tg (idx_keys idx1)) as [n r] eqn:Et. simpl in E.
    destruct (look idx1 sh) as [d|d|d] eqn:El; subst n.
    + unfold item_of. rewrite Et. reflexivity.
    + unfold item_of. rewrite Et. reflexivity.
    + specialize (IH {| i_idx := upd idx1 (d - 1) (fun _ => 0%N); i_root := i_root st; i_depth := Nat.max (d - 1) (i_root st) |}).
      cbn [i_idx i_root i_depth] in IH.
      destruct (loop (i_root st) f sh (upd idx1 (d - 1) (fun _ => 0%N)) (Nat.max (d - 1) (i_root st))) as [| |idx' d' lf].
      * destruct IH as (st' & E1 & E2 & E3 & E4). exists st'. repeat split; try assumption.
        rewrite E4. assert (Hu : forall l k g, length (upd l k g) = length l).
        { induction l as [|x l IHl]; intros [|k] g; simpl; auto. }
        rewrite Hu. unfold idx1. destruct (i_depth st <=? length (i_idx st)); [apply Hu|reflexivity].
      * exact IH.
      * exact IH.
Qed.
End Sim.

Lemma iter_collect_S n t tg st : iter_collect (S n) t tg st =
  match iter_next t tg st with
  | (IItem it, st') => IItem it :: iter_collect n t tg st'
  | (o, st') => [o]
  end.
Proof. reflexivity. Qed.

Section Complete.
Variable t : node.
Variable tg : target.
Hypothesis Hw : NoPanic.wf t.
Hypothesis Hs : small t.
Hypothesis Htg : tg_total t tg.
Let sh := shape_of t.
Let Hwsh : Odometer.wf sh := wf_shape t Hw.

Lemma pad_length D q : length q <= D -> length (pad D q) = D.
Proof. intros H. unfold pad. rewrite app_length, zeros_length. lia. Qed.

Definition expect (D' : nat) (p : list N) (c : shape) (q : list N) : iout :=
  IItem (item_of t tg (p ++ pad D' q) (length p + length q) (nodeleaf c q)).

(* one next() from a state that sits on the node p ++ q of the subtree c below p *)
Lemma node_next D' p c q : descend sh p = Some c -> maximal D' c q ->
  iter_next t tg {| i_idx := p ++ pad D' q; i_root := length p; i_depth := length p + length q |} =
  match succ D' c q with
  | Some q' => (expect D' p c q', {| i_idx := p ++ pad D' q'; i_root := length p; i_depth := length p + length q' |})
  | None => (IDone, snd (iter_next t tg {| i_idx := p ++ pad D' q; i_root := length p; i_depth := length p + length q |}))
  end /\
  (succ D' c q = None ->
     let st' := snd (iter_next t tg {| i_idx := p ++ pad D' q; i_root := length p; i_depth := length p + length q |}) in
     i_depth st' = i_root st' /\ i_root st' = length p /\ length (i_idx st') = length p + D').
Proof.
  intros Hd Hm. pose proof (maximal_len _ _ _ Hm) as Hlen.
  unfold iter_next. cbn [i_idx]. rewrite app_length, (pad_length D' q Hlen).
  pose proof (iter_loop_sim t tg Hw Hs Htg (length p + D' + 2)
                {| i_idx := p ++ pad D' q; i_root := length p; i_depth := length p + length q |}) as Sim.
  cbn [i_idx i_root i_depth] in Sim. fold sh in Sim.
  rewrite (next_is_succ_rooted D' sh p c q (length p + D' + 2) Hwsh Hd Hm ltac:(lia)) in Sim.
  destruct (succ D' c q) as [q'|].
  - split; [exact Sim|discriminate].
  - destruct Sim as (st' & E1 & E2 & E3 & E4). rewrite E1. cbn [snd]. split; [reflexivity|].
    intros _. rewrite E4, app_length, (pad_length D' q Hlen). auto.
Qed.

Lemma node_collect_chain D' p c : descend sh p = Some c -> forall l q n,
  maximal D' c q -> chain_to (succ D' c) (q :: l) None -> length l < n ->
  iter_collect n t tg {| i_idx := p ++ pad D' q; i_root := length p; i_depth := length p + length q |} =
  map (expect D' p c) l ++ [IDone].
Proof.
  intros Hd. induction l as [|b l IH]; intros q n Hm Hc Hn.
  - simpl in Hc. destruct n; [simpl in Hn; lia|]. rewrite iter_collect_S.
    destruct (node_next D' p c q Hd Hm) as [E _]. rewrite Hc in E. rewrite E. reflexivity.
  - destruct Hc as [Hsucc Hc]. destruct n; [simpl in Hn; lia|]. rewrite iter_collect_S.
    destruct (node_next D' p c q Hd Hm) as [E _]. rewrite Hsucc in E. rewrite E. cbn [map app]. unfold expect at 1. f_equal.
    apply IH; [eapply succ_maximal; eauto; eapply wf_descend; eauto|exact Hc|simpl in Hn; lia].
Qed.

(* C11: iteration rooted at the node with index path p and depth limit |p| + D' yields exactly the
   depth-first enumeration with cut-off of the subtree below p, each node once, in order, rendered
   by transcoding its (padded) index key into the target, and then the end. *)
Theorem iter_rooted_node D' p c : descend sh p = Some c ->
  iter_collect (S (S (length (enum D' c)))) t tg
      {| i_idx := p ++ zeros D'; i_root := length p; i_depth := length p + D' + 1 |} =
  map (expect D' p c) (enum D' c) ++ [IDone].
Proof.
  intros Hd. pose proof (wf_descend _ _ _ Hwsh Hd) as Hwc.
  destruct (enum_chain D' c Hwc) as [Hhd Hch].
  destruct (enum D' c) as [|q0 l] eqn:E; [discriminate|].
  simpl in Hhd. injection Hhd as ->.
  rewrite iter_collect_S. unfold iter_next at 1. cbn [i_idx]. rewrite app_length, zeros_length.
  pose proof (iter_loop_sim t tg Hw Hs Htg (length p + D' + 2)
                {| i_idx := p ++ zeros D'; i_root := length p; i_depth := length p + D' + 1 |}) as Sim.
  cbn [i_idx i_root i_depth] in Sim. fold sh in Sim.
  rewrite (first_item_rooted D' sh p c (length p + D' + 2) Hwsh Hd ltac:(lia)) in Sim.
  rewrite Sim. cbn [map app]. f_equal.
  - unfold expect. rewrite pad_first. unfold nodeleaf. rewrite descend_first. reflexivity.
  - rewrite <- (pad_first D' c).
    apply node_collect_chain; [exact Hd|apply maximal_first; exact Hwc|exact Hch|simpl; lia].
Qed.

(* C03: unrooted iteration with depth limit D *)
Theorem iter_complete_node D :
  iter_collect (S (S (length (enum D sh)))) t tg (iter_default D) =
  map (expect D [] sh) (enum D sh) ++ [IDone].
Proof.
  pose proof (iter_rooted_node D [] sh eq_refl) as H. cbn [app length Nat.add] in H. exact H.
Qed.

(* fused: once the iterator has returned None it keeps returning None *)
Theorem iter_fused (st : istate) : i_depth st = i_root st -> iter_next t tg st = (IDone, st).
Proof.
  intros H. unfold iter_next. replace (length (i_idx st) + 2) with (S (length (i_idx st) + 1)) by lia.
  cbn [iter_loop]. rewrite H, Nat.eqb_refl. reflexivity.
Qed.

Theorem iter_end_is_fused D' p c q : descend sh p = Some c -> maximal D' c q -> succ D' c q = None ->
  let st' := snd (iter_next t tg {| i_idx := p ++ pad D' q; i_root := length p; i_depth := length p + length q |}) in
  fst (iter_next t tg {| i_idx := p ++ pad D' q; i_root := length p; i_depth := length p + length q |}) = IDone /\
  iter_next t tg st' = (IDone, st').
Proof.
  intros Hd Hm Hsn. destruct (node_next D' p c q Hd Hm) as [E F]. rewrite Hsn in E.
  split; [rewrite E; reflexivity|]. apply iter_fused. apply (F Hsn).
Qed.
End Complete.

(* ---- the root key: NodeIter::root transcodes any key into the index state ---- *)
Definition call_idx (c : call) : N := fst (fst c).

Lemma descend_snoc sh p i c c' : descend sh p = Some c -> child c i = Some c' -> descend sh (p ++ [i]) = Some c'.
Proof. intros H1 H2. rewrite (descend_app _ _ _ _ H1). simpl. rewrite H2. reflexivity. Qed.

(* a key (any representation) that reaches a node: the indices reported to the callback are a path
   in the shape, to a leaf exactly when the result is Ok *)
Lemma calls_descend cbf : forall t k pre r calls, NoPanic.wf t -> small t ->
  trav cbf t k pre = (r, calls) -> reached r ->
  exists new c, calls = new ++ pre /\ descend (shape_of t) (map call_idx (rev new)) = Some c /\
    length new = rdepth r /\ (is_leaf c = match r with ROk _ => true | _ => false end).
Proof.
  induction t as [lk|g t IH|s a t IH|h lk cs IH|n t IH] using node_ind'; intros k pre r calls Hw Hs E Hr.
  - cbn [trav] in E. destruct (kfin k); injection E as <- <-; [|exfalso; exact Hr].
    exists [], Leaf. repeat split.
  - cbn [trav shape_of] in *. eapply IH; eauto.
  - cbn [trav shape_of] in *. eapply IH; eauto.
  - cbn [trav] in E. destruct (knext k lk) as [[i| |] k'] eqn:Ek.
    + unfold reports in E. cbn [andb] in E.
      destruct (cbf pre (i, lk_name lk i, lk_len lk)); [injection E as <- <-; exfalso; exact Hr|].
      set (c0 := (i, lk_name lk i, lk_len lk)) in *.
      pose proof (knext_bound _ _ _ _ Ek) as Hb. destruct Hw as (Hlen & Hne & Hall). destruct Hs as [Hsm Hsall].
      assert (Hj : N.to_nat i < length cs) by lia.
      destruct (nth_error cs (N.to_nat i)) as [[a t']|] eqn:En; [|apply nth_error_None in En; lia].
      assert (G : forall (cs0 : list (attrs * node)) j, nth_error cs0 j = Some (a, t') ->
        (fix pick (cs : list (attrs * node)) (j : nat) {struct cs} : tout :=
           match cs with [] => (RErr Unreachable, c0 :: pre) | (_, t') :: r0 => match j with O => trav cbf t' k' (c0 :: pre) | S j' => pick r0 j' end end) cs0 j
        = trav cbf t' k' (c0 :: pre)).
      { induction cs0 as [|[a0 t0] r0 IHc]; intros j Ej; [destruct j; discriminate|].
        destruct j as [|j]; simpl in Ej; [injection Ej as -> ->; reflexivity|apply IHc; exact Ej]. }
      rewrite (G cs _ En) in E.
      destruct (trav cbf t' k' (c0 :: pre)) as [r0 calls0] eqn:Et. simpl in E. injection E as <- <-.
      assert (Hr0 : reached r0) by (destruct r0 as [d|[]]; simpl in *; auto).
      assert (Hin : In (a, t') cs) by (eapply nth_error_In; eauto).
      rewrite Forall_forall in IH.
      assert (Hwt : NoPanic.wf t') by (eapply wf_all_nth; eauto).
      assert (Hst : small t').
      { clear - Hsall En. revert Hsall En. generalize (N.to_nat i) as j. induction cs as [|[a0 t0] r1 IHc]; intros j Hsall En; [destruct j; discriminate|].
        destruct Hsall as [H1 H2]. destruct j as [|j]; simpl in En; [injection En as -> ->; exact H1|eapply IHc; eauto]. }
      destruct (IH (a, t') Hin k' (c0 :: pre) r0 calls0 Hwt Hst Et Hr0) as (new & c & -> & Hd & Hl & Hlf).
      exists (new ++ [c0]), c. split; [rewrite <- app_assoc; reflexivity|].
      rewrite rev_app_distr. cbn [rev app map]. unfold call_idx at 1. cbn [fst c0].
      split.
      * cbn [shape_of descend child]. rewrite nth_error_map, En. cbn [option_map snd]. exact Hd.
      * split; [rewrite app_length; simpl; destruct r0 as [d|[]]; simpl in *; lia|].
        destruct r0 as [d|[]]; simpl in *; auto.
    + injection E as <- <-. exists [], (shape_of (NHet h lk cs)). repeat split.
    + injection E as <- <-. exfalso. exact Hr.
  - cbn [trav] in E. destruct (knext k (Homog n)) as [[i| |] k'] eqn:Ek.
    + destruct (cbf pre (i, None, n)); [injection E as <- <-; exfalso; exact Hr|].
      pose proof (knext_bound _ _ _ _ Ek) as Hb. simpl in Hb. destruct Hw as [Hn Hw]. destruct Hs as [Hsm Hs].
      destruct (trav cbf t k' ((i, None, n) :: pre)) as [r0 calls0] eqn:Et. simpl in E. injection E as <- <-.
      assert (Hr0 : reached r0) by (destruct r0 as [d|[]]; simpl in *; auto).
      destruct (IH k' _ r0 calls0 Hw Hs Et Hr0) as (new & c & -> & Hd & Hl & Hlf).
      exists (new ++ [(i, None, n)]), c. split; [rewrite <- app_assoc; reflexivity|].
      rewrite rev_app_distr. cbn [rev app map]. unfold call_idx at 1. cbn [fst].
      split.
      * cbn [shape_of descend child]. destruct (N.ltb_spec i n); [exact Hd|lia].
      * split; [rewrite app_length; simpl; destruct r0 as [d|[]]; simpl in *; lia|].
        destruct r0 as [d|[]]; simpl in *; auto.
    + injection E as <- <-. exists [], (shape_of (NHom n t)). repeat split.
    + injection E as <- <-. exfalso. exact Hr.
Qed.

(* the index target accepts a call only while fewer than D are stored *)
Lemma indices_calls_bound D : forall t k pre r calls,
  trav (tg_fail (TgIndices D)) t k pre = (r, calls) -> length pre <= D -> length calls <= D.
Proof.
  induction t as [lk|g t IH|s a t IH|h lk cs IH|n t IH] using node_ind'; intros k pre r calls E Hp.
  - cbn [trav] in E. destruct (kfin k); injection E as <- <-; exact Hp.
  - cbn [trav] in E. eapply IH; eauto.
  - cbn [trav] in E. eapply IH; eauto.
  - cbn [trav] in E. destruct (knext k lk) as [[i| |] k']; try (injection E as <- <-; exact Hp).
    unfold reports in E. cbn [andb tg_fail] in E.
    destruct (Nat.leb_spec D (length pre)) as [Hge|Hlt]; [injection E as <- <-; exact Hp|].
    set (c0 := (i, lk_name lk i, lk_len lk)) in *.
    assert (G : forall j r0 calls0,
      (fix pick (cs : list (attrs * node)) (j : nat) {struct cs} : tout :=
         match cs with [] => (RErr Unreachable, c0 :: pre) | (_, t') :: r1 => match j with O => trav (tg_fail (TgIndices D)) t' k' (c0 :: pre) | S j' => pick r1 j' end end) cs j = (r0, calls0) ->
      length calls0 <= D).
    { clear E. induction IH as [|[a t'] rr Ht _ IHr]; intros j r0 calls0 Ej.
      - injection Ej as <- <-. simpl. lia.
      - destruct j as [|j]; [eapply Ht; [exact Ej|simpl; lia]|eapply IHr; exact Ej]. }
    destruct ((fix pick (cs : list (attrs * node)) (j : nat) {struct cs} : tout :=
         match cs with [] => (RErr Unreachable, c0 :: pre) | (_, t') :: r1 => match j with O => trav (tg_fail (TgIndices D)) t' k' (c0 :: pre) | S j' => pick r1 j' end end) cs (N.to_nat i)) as [r0 calls0] eqn:Ep.
    simpl in E. injection E as <- <-. eapply G. exact Ep.
  - cbn [trav] in E. destruct (knext k (Homog n)) as [[i| |] k']; try (injection E as <- <-; exact Hp).
    cbn [tg_fail] in E. destruct (Nat.leb_spec D (length pre)) as [Hge|Hlt]; [injection E as <- <-; exact Hp|].
    destruct (trav (tg_fail (TgIndices D)) t k' ((i, None, n) :: pre)) as [r0 calls0] eqn:Ep.
    simpl in E. injection E as <- <-. eapply IH; [exact Ep|simpl; lia].
Qed.

(* NodeIter::root(key) on any iterator state: the new state sits on the node the key denotes *)
Theorem iter_root_state t D k n st : NoPanic.wf t -> small t -> iter_root t D k = (n, Some st) ->
  exists p c, descend (shape_of t) p = Some c /\ length p <= D /\
    st = {| i_idx := p ++ zeros (D - length p); i_root := length p; i_depth := D + 1 |} /\
    n = (if is_leaf c then TLeaf (length p) else TInternal (length p)).
Proof.
  intros Hw Hs E. unfold iter_root, transcode in E.
  destruct (trav (tg_fail (TgIndices D)) t k []) as [r calls] eqn:Et.
  assert (Hreach : reached r).
  { destruct r as [d|[]]; simpl in *; try exact I; congruence. }
  destruct (calls_descend _ t k [] r calls Hw Hs Et Hreach) as (new & c & -> & Hd & Hl & Hlf).
  rewrite app_nil_r in *.
  (* the index target did not overflow: every call was accepted while fewer than D were stored *)
  assert (HD : length new <= D).
  { apply (indices_calls_bound D t k [] r new Et). simpl. lia. }
  exists (map call_idx (rev new)), c. rewrite map_length, rev_length.
  split; [exact Hd|]. split; [exact HD|].
  destruct r as [d|[]]; simpl in Hreach; try (exfalso; exact Hreach); simpl in E, Hl, Hlf.
  - injection E as <- <-. rewrite Hlf, Hl. split; reflexivity.
  - injection E as <- <-. rewrite Hlf, Hl. split; reflexivity.
Qed.

(* ---- with a sufficient depth limit every yielded node is a leaf, and their number is the
   metadata's leaf count ---- *)
From MC Require Import Meta_proofs.

Lemma skipn_nth {A} : forall (l : list A) j x, nth_error l j = Some x -> skipn j l = x :: skipn (S j) l.
Proof.
  induction l as [|y l IHl]; intros [|j] x Hn; simpl in *; try discriminate.
  - injection Hn as ->. reflexivity.
  - apply IHl. exact Hn.
Qed.

Lemma child_depth_het h lk cs k a t' : NoPanic.wf (NHet h lk cs) -> nth_error cs k = Some (a, t') ->
  (1 + m_depth (metadata t') <= m_depth (metadata (NHet h lk cs)))%N.
Proof.
  intros Hw En. pose proof (meta_exact _ Hw) as [_ (_ & Hd & _)].
  assert (Hwt : NoPanic.wf t') by (destruct Hw as (_ & _ & Hall); eapply wf_all_nth; eauto).
  pose proof (meta_exact _ Hwt) as [Hne (_ & Hd' & _)].
  rewrite Hd, Hd'.
  assert (Hm : map sd (stats t') <> []) by (destruct (stats t'); [congruence|discriminate]).
  pose proof (nmax_in _ Hm) as Hin. apply in_map_iff in Hin. destruct Hin as [s [Hs Hins]].
  rewrite <- Hs. apply (nmax_le (map sd (stats (NHet h lk cs)))).
  cbn [stats]. apply in_map_iff.
  exists (bump 1 (name_len lk (0 + N.of_nat k)) (nbits_for (lk_len lk - 1)) s). split.
  - destruct s as [[d l] b]. reflexivity.
  - eapply concat_go_in; [|exact Hins]. rewrite nth_error_map, En. reflexivity.
Qed.

Lemma enum_leaves : forall t D, NoPanic.wf t -> (m_depth (metadata t) <= N.of_nat D)%N ->
  length (enum D (shape_of t)) = length (stats t) /\
  Forall (fun q => nodeleaf (shape_of t) q = true) (enum D (shape_of t)).
Proof.
  induction t as [lk|g t IH|s a t IH|h lk cs IH|n t IH] using node_ind'; intros D Hw HD.
  - cbn [shape_of stats]. destruct D; simpl; split; try reflexivity; repeat constructor.
  - cbn [shape_of stats metadata] in *. apply IH; assumption.
  - cbn [shape_of stats metadata] in *. apply IH; assumption.
  - pose proof Hw as (Hlen & Hne & Hall).
    destruct D as [|D'].
    { exfalso. destruct cs as [|[a t'] r]; [congruence|].
      pose proof (child_depth_het h lk ((a, t') :: r) 0 a t' Hw eq_refl). lia. }
    cbn [shape_of enum is_leaf nchildren stats]. rewrite map_length.
    assert (G : forall k, k <= length cs ->
      length (flat_map (block (enum D') (Het (map (fun c => shape_of (snd c)) cs))) (seq (length cs - k) k)) =
      length (concat_go lk (skipn (length cs - k) (map (fun c => stats (snd c)) cs)) (N.of_nat (length cs - k))) /\
      Forall (fun q => nodeleaf (Het (map (fun c => shape_of (snd c)) cs)) q = true)
             (flat_map (block (enum D') (Het (map (fun c => shape_of (snd c)) cs))) (seq (length cs - k) k))).
    { induction k as [|k IHk]; intros Hk.
      - simpl. rewrite Nat.sub_0_r. rewrite skipn_all2 by (rewrite map_length; lia). split; [reflexivity|constructor].
      - specialize (IHk ltac:(lia)).
        replace (seq (length cs - S k) (S k)) with ((length cs - S k) :: seq (length cs - k) k)
          by (cbn [seq]; f_equal; f_equal; lia).
        cbn [flat_map].
        set (j := length cs - S k) in *.
        destruct (nth_error cs j) as [[a t']|] eqn:En; [|apply nth_error_None in En; lia].
        assert (Hsk : skipn j (map (fun c => stats (snd c)) cs) = stats t' :: skipn (length cs - k) (map (fun c => stats (snd c)) cs)).
        { replace (length cs - k) with (S j) by lia. apply skipn_nth. rewrite nth_error_map, En. reflexivity. }
        rewrite Hsk. cbn [concat_go]. rewrite !app_length, map_length.
        unfold block at 1 3. cbn [child]. rewrite Nat2N.id, nth_error_map, En. cbn [option_map snd].
        rewrite map_length.
        assert (Hin : In (a, t') cs) by (eapply nth_error_In; eauto).
        rewrite Forall_forall in IH.
        assert (Hwt : NoPanic.wf t') by (eapply wf_all_nth; eauto).
        pose proof (child_depth_het h lk cs j a t' Hw En) as Hcd.
        assert (Hdd : (m_depth (metadata (snd (a, t'))) <= N.of_nat D')%N) by (cbn [snd]; lia).
        destruct (IH (a, t') Hin D' Hwt Hdd) as [Hl Hf]. cbn [snd] in Hl, Hf.
        destruct IHk as [IHl IHf]. split.
        + rewrite Hl. f_equal. replace (N.of_nat j + 1)%N with (N.of_nat (length cs - k)) by lia. exact IHl.
        + apply Forall_app. split; [|exact IHf].
          rewrite Forall_forall in *. intros q Hq. apply in_map_iff in Hq. destruct Hq as [q' [<- Hq']].
          unfold nodeleaf. cbn [descend child]. rewrite Nat2N.id, nth_error_map, En. cbn [option_map snd].
          apply (Hf q' Hq'). }
    specialize (G (length cs) (Nat.le_refl _)). rewrite Nat.sub_diag in G. cbn [skipn] in G. exact G.
  - destruct Hw as [Hn Hw]. cbn [metadata m_depth] in HD.
    destruct D as [|D']; [lia|].
    destruct (IH D' Hw ltac:(lia)) as [Hl Hf].
    cbn [shape_of enum is_leaf nchildren stats].
    assert (G : forall l, (forall k, In k l -> k < N.to_nat n) ->
      length (flat_map (block (enum D') (Hom n (shape_of t))) l) =
      length (flat_map (fun i => map (bump 1 (digits (N.of_nat i)) (nbits_for (n - 1))) (stats t)) l) /\
      Forall (fun q => nodeleaf (Hom n (shape_of t)) q = true) (flat_map (block (enum D') (Hom n (shape_of t))) l)).
    { induction l as [|k l IHl]; intros Hk; [split; [reflexivity|constructor]|].
      cbn [flat_map]. rewrite !app_length, map_length.
      assert (Hkn : k < N.to_nat n) by (apply Hk; left; reflexivity).
      unfold block at 1 3. cbn [child]. destruct (N.ltb_spec (N.of_nat k) n); [|lia].
      rewrite map_length. destruct (IHl (fun k' Hk' => Hk k' (or_intror Hk'))) as [E1 E2]. split; [lia|].
      apply Forall_app. split; [|exact E2].
      rewrite Forall_forall in *. intros q Hq. apply in_map_iff in Hq. destruct Hq as [q' [<- Hq']].
      unfold nodeleaf. cbn [descend child]. destruct (N.ltb_spec (N.of_nat k) n); [|lia]. apply (Hf q' Hq'). }
    apply G. intros k Hk. apply in_seq in Hk. lia.
Qed.

(* C03: with a depth limit of at least max_depth, iteration yields leaves only, and as many as
   Metadata.count *)
Theorem iter_count t D : NoPanic.wf t -> (m_depth (metadata t) <= N.of_nat D)%N ->
  N.of_nat (length (enum D (shape_of t))) = m_count (metadata t) /\
  Forall (fun q => nodeleaf (shape_of t) q = true) (enum D (shape_of t)).
Proof.
  intros Hw HD. destruct (enum_leaves t D Hw HD) as [Hl Hf]. split; [|exact Hf].
  rewrite Hl. symmetry. apply count_exact. exact Hw.
Qed.
