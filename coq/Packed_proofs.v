(* Proofs about Packed.v: every non-zero word is uniquely (2x+1)*2^t; push/pop are the
   stack operations on x; LSB conversion is a bijection; bits_for is minimal. *)
From Coq Require Import ZArith Lia Bool List.
From stdpp Require Import unstable.bitblast.
From MC Require Import Packed.
Import ListNotations.
Local Open Scope Z_scope.

Ltac bb := bitblast; try (f_equal; lia).

(* abstract representation: x = stored bits, t = trailing zeros (unused capacity) *)
Definition mkb (x t : Z) := Z.lor (Z.shiftl x (t + 1)) (2 ^ t).
Definition valid (x t : Z) := 0 <= t <= 63 /\ 0 <= x < 2 ^ (63 - t).

Lemma push_bits x t bits v :
  0 <= bits <= t -> t <= 63 -> 0 <= x < 2 ^ (63 - t) -> 0 <= v < 2 ^ bits ->
  Z.lor (Z.lor (Z.lxor (mkb x t) (Z.shiftl 1 t)) (Z.shiftl (Z.shiftl v (t - bits) mod 2 ^ 64) 1 mod 2 ^ 64))
        (Z.shiftr (Z.shiftl 1 t) bits)
  = mkb (Z.lor (Z.shiftl x bits) v) (t - bits).
Proof. intros Hb Ht Hx Hv. unfold mkb. bb. Qed.

Lemma pop_bits_word x t bits :
  0 <= bits -> bits <= 63 - t -> 0 <= t <= 63 -> 0 <= x < 2 ^ (63 - t) ->
  Z.shiftl (mkb x t) bits mod 2 ^ 64 = mkb (Z.land x (Z.ones (63 - t - bits))) (t + bits).
Proof. intros Hb Hb' Ht Hx. unfold mkb. bb. Qed.

Lemma pop_bits_val x t bits :
  0 <= bits -> bits <= 63 - t -> 0 <= t <= 63 -> 0 <= x < 2 ^ (63 - t) ->
  Z.shiftr (Z.shiftr (mkb x t) (63 - bits)) 1 = Z.shiftr x (63 - t - bits).
Proof. intros Hb Hb' Ht Hx. unfold mkb. bb. Qed.

Lemma pop_bits_fail x t bits :
  63 - t < bits <= 63 -> 0 <= t <= 63 -> 0 <= x < 2 ^ (63 - t) ->
  Z.shiftl (mkb x t) bits mod 2 ^ 64 = 0.
Proof. intros Hb Ht Hx. unfold mkb. bb. Qed.

Lemma into_lsb_bits x t :
  0 <= t <= 63 -> 0 <= x < 2 ^ (63 - t) ->
  Z.shiftr (Z.lor (Z.shiftr (mkb x t) 1) (Z.shiftl 1 63)) t = Z.lor (2 ^ (63 - t)) x.
Proof. intros Ht Hx. unfold mkb. bb. Qed.

Lemma from_lsb_bits x l :
  0 <= l <= 63 -> 0 <= x < 2 ^ l ->
  Z.shiftl (Z.lor (Z.shiftl (Z.lor (2 ^ l) x) 1 mod 2 ^ 64) 1) (63 - l) mod 2 ^ 64 = mkb x (63 - l).
Proof. intros Hl Hx. unfold mkb. bb. Qed.

Lemma pow2_pos n : 0 <= n -> 0 < 2 ^ n. Proof. intros; apply Z.pow_pos_nonneg; lia. Qed.

Lemma mkb_arith x t : 0 <= t -> 0 <= x -> mkb x t = (2 * x + 1) * 2 ^ t.
Proof.
  intros Ht Hx. unfold mkb. rewrite <- Z.add_nocarry_lor by bb.
  rewrite Z.shiftl_mul_pow2 by lia. rewrite Z.pow_add_r by lia. change (2 ^ 1) with 2. lia.
Qed.

Lemma tz_aux_arith : forall (n : nat) x t, 0 <= t -> (Z.to_nat t < n)%nat -> 0 <= x ->
  tz_aux n ((2 * x + 1) * 2 ^ t) = t.
Proof.
  induction n as [|n IH]; intros x t Ht Hn Hx; [lia|].
  cbn [tz_aux]. destruct (Z.eq_dec t 0) as [->|Hne].
  - replace ((2 * x + 1) * 2 ^ 0) with (1 + 2 * x) by (rewrite Z.pow_0_r; lia).
    rewrite Z.odd_add_mul_2. reflexivity.
  - assert (Hm : (2 * x + 1) * 2 ^ t = 2 * ((2 * x + 1) * 2 ^ (t - 1))).
    { replace t with (Z.succ (t - 1)) at 1 by lia. rewrite Z.pow_succ_r by lia. lia. }
    rewrite Hm. rewrite Z.odd_mul, Z.odd_2. cbn [andb].
    replace (2 * ((2 * x + 1) * 2 ^ (t - 1)) / 2) with ((2 * x + 1) * 2 ^ (t - 1))
      by (apply Z.div_unique_exact; [lia|reflexivity]).
    rewrite IH; lia.
Qed.

Lemma tz_mkb x t : valid x t -> tz (mkb x t) = t.
Proof. intros [Ht Hx]. unfold tz. rewrite mkb_arith by lia. apply tz_aux_arith; lia. Qed.

Lemma mkb_pos x t : valid x t -> 0 < mkb x t.
Proof. intros [Ht Hx]. rewrite mkb_arith by lia. pose proof (pow2_pos t). nia. Qed.

Lemma mkb_range x t : valid x t -> 0 < mkb x t < 2 ^ 64.
Proof.
  intros Hv. split; [apply mkb_pos; assumption|]. destruct Hv as [Ht Hx].
  rewrite mkb_arith by lia.
  assert (H64 : 2 ^ 64 = 2 * (2 ^ (63 - t) * 2 ^ t)).
  { rewrite <- Z.pow_add_r by lia. replace (63 - t + t) with 63 by lia. reflexivity. }
  rewrite H64. pose proof (pow2_pos t ltac:(lia)). nia.
Qed.

(* ---- every non-zero word has a representation, and it is unique ---- *)
Lemma odd_decomp : forall (n : nat) w, 0 < w < 2 ^ Z.of_nat n ->
  exists x t, 0 <= t < Z.of_nat n /\ 0 <= x /\ w = (2 * x + 1) * 2 ^ t.
Proof.
  induction n as [|n IH]; intros w Hw.
  - simpl in Hw. lia.
  - destruct (Z.odd w) eqn:Ho.
    + exists (w / 2), 0. rewrite Z.pow_0_r. split; [lia|]. split; [apply Z.div_pos; lia|].
      pose proof (Z.div_mod w 2 ltac:(lia)) as Hd. rewrite Zmod_odd, Ho in Hd. lia.
    + assert (Hev : w = 2 * (w / 2)).
      { pose proof (Z.div_mod w 2 ltac:(lia)) as Hd. rewrite Zmod_odd, Ho in Hd. lia. }
      assert (Hr : 0 < w / 2 < 2 ^ Z.of_nat n).
      { rewrite Nat2Z.inj_succ, Z.pow_succ_r in Hw by lia. lia. }
      destruct (IH (w / 2) Hr) as (x & t & Ht & Hx & He).
      exists x, (t + 1). split; [lia|]. split; [exact Hx|].
      rewrite Z.pow_add_r by lia. change (2 ^ 1) with 2. lia.
Qed.

Theorem repr_exists w : 0 < w < 2 ^ 64 -> exists x t, valid x t /\ w = mkb x t.
Proof.
  intros Hw. destruct (odd_decomp 64 w Hw) as (x & t & Ht & Hx & He).
  exists x, t. assert (Hxb : x < 2 ^ (63 - t)).
  { destruct (Z.lt_ge_cases x (2 ^ (63 - t))) as [|Hge]; [assumption|exfalso].
    assert (H64 : 2 ^ 64 = 2 * (2 ^ (63 - t) * 2 ^ t)).
    { rewrite <- Z.pow_add_r by lia. replace (63 - t + t) with 63 by lia. reflexivity. }
    pose proof (pow2_pos t ltac:(lia)). pose proof (pow2_pos (63 - t) ltac:(lia)).
    change (Z.of_nat 64) with 64 in *. nia. }
  change (Z.of_nat 64) with 64 in *.
  split; [split; lia|]. rewrite mkb_arith by lia. exact He.
Qed.

Theorem repr_unique x t x' t' : valid x t -> valid x' t' -> mkb x t = mkb x' t' -> x = x' /\ t = t'.
Proof.
  intros Hv Hv' He. assert (Ht : t = t').
  { rewrite <- (tz_mkb _ _ Hv), <- (tz_mkb _ _ Hv'), He. reflexivity. }
  subst t'. split; [|reflexivity]. destruct Hv as [Ht Hx], Hv' as [_ Hx'].
  rewrite !mkb_arith in He by lia. pose proof (pow2_pos t ltac:(lia)). nia.
Qed.

(* ---- observers ---- *)
Theorem len_spec x t : valid x t -> len (mkb x t) = 63 - t /\ capacity (mkb x t) = t.
Proof. intros Hv. unfold len, capacity, CAPACITY. rewrite (tz_mkb _ _ Hv). split; reflexivity. Qed.

Theorem is_empty_spec x t : valid x t -> is_empty (mkb x t) = true <-> (x = 0 /\ t = 63).
Proof.
  intros Hv. unfold is_empty. rewrite Z.eqb_eq. change EMPTY with (mkb 0 63). split.
  - intros He. apply repr_unique; [assumption| split; simpl; lia | assumption].
  - intros [-> ->]. reflexivity.
Qed.

(* ---- push / pop ---- *)
Theorem push_spec x t bits v : valid x t -> 0 <= bits <= 63 -> 0 <= v < 2 ^ bits ->
  push_lsb (mkb x t) bits v =
  if bits <=? t then Some (mkb (Z.lor (Z.shiftl x bits) v) (t - bits), t - bits) else None.
Proof.
  intros Hv Hb Hvr. pose proof Hv as [Ht Hx]. unfold push_lsb, BITS, W. rewrite (tz_mkb _ _ Hv).
  destruct (Z.leb_spec 64 bits) as [|_]; [lia|].
  destruct (Z.leb_spec bits t) as [Hle|Hgt].
  - assert (Hm : Z.shiftr (Z.shiftl 1 t) bits = 2 ^ (t - bits)) by bb.
    rewrite Hm at 1. pose proof (pow2_pos (t - bits) ltac:(lia)).
    destruct (Z.eqb_spec (2 ^ (t - bits)) 0); [lia|].
    f_equal. f_equal. apply push_bits; lia.
  - assert (Hm : Z.shiftr (Z.shiftl 1 t) bits = 0) by bb.
    rewrite Hm. reflexivity.
Qed.

Lemma push_valid x t bits v : valid x t -> 0 <= bits <= t -> 0 <= v < 2 ^ bits ->
  valid (Z.lor (Z.shiftl x bits) v) (t - bits).
Proof.
  intros [Ht Hx] Hb Hv. split; [lia|]. rewrite <- Z.add_nocarry_lor by bb.
  rewrite Z.shiftl_mul_pow2 by lia.
  replace (63 - (t - bits)) with (63 - t + bits) by lia. rewrite Z.pow_add_r by lia.
  pose proof (pow2_pos bits ltac:(lia)). nia.
Qed.

Theorem push_wide x t bits v : 64 <= bits -> push_lsb (mkb x t) bits v = None.
Proof. intros Hb. unfold push_lsb, BITS. destruct (Z.leb_spec 64 bits); [reflexivity|lia]. Qed.

Theorem pop_spec x t bits : valid x t -> 0 <= bits <= 63 ->
  pop_msb (mkb x t) bits =
  if bits <=? 63 - t
  then Some (Z.shiftr x (63 - t - bits), mkb (Z.land x (Z.ones (63 - t - bits))) (t + bits))
  else None.
Proof.
  intros Hv Hb. pose proof Hv as [Ht Hx]. unfold pop_msb, BITS, CAPACITY, W.
  destruct (Z.leb_spec 64 bits) as [|_]; [lia|].
  destruct (Z.leb_spec bits (63 - t)) as [Hle|Hgt].
  - rewrite pop_bits_word by lia. rewrite pop_bits_val by lia.
    assert (Hval : valid (Z.land x (Z.ones (63 - t - bits))) (t + bits)).
    { split; [lia|]. rewrite Z.land_ones by lia. replace (63 - (t + bits)) with (63 - t - bits) by lia.
      apply Z.mod_pos_bound. apply pow2_pos. lia. }
    pose proof (mkb_pos _ _ Hval).
    destruct (Z.eqb_spec (mkb (Z.land x (Z.ones (63 - t - bits))) (t + bits)) 0); [lia|reflexivity].
  - rewrite pop_bits_fail by lia. reflexivity.
Qed.

Lemma pop_valid x t bits : valid x t -> 0 <= bits <= 63 - t ->
  valid (Z.land x (Z.ones (63 - t - bits))) (t + bits).
Proof.
  intros [Ht Hx] Hb. split; [lia|]. rewrite Z.land_ones by lia.
  replace (63 - (t + bits)) with (63 - t - bits) by lia.
  apply Z.mod_pos_bound. apply pow2_pos. lia.
Qed.

Theorem pop_wide w bits : 64 <= bits -> pop_msb w bits = None.
Proof. intros Hb. unfold pop_msb, BITS. destruct (Z.leb_spec 64 bits); [reflexivity|lia]. Qed.

(* the stored length grows by exactly the pushed width *)
Theorem push_len x t bits v w' c : valid x t -> 0 <= bits <= 63 -> 0 <= v < 2 ^ bits ->
  push_lsb (mkb x t) bits v = Some (w', c) ->
  len w' = len (mkb x t) + bits /\ c = capacity w'.
Proof.
  intros Hv Hb Hvr He. rewrite push_spec in He by assumption.
  destruct (Z.leb_spec bits t) as [Hle|]; [|discriminate]. injection He as <- <-.
  pose proof (push_valid x t bits v Hv ltac:(lia) Hvr) as Hv'.
  destruct (len_spec _ _ Hv) as [-> _]. destruct (len_spec _ _ Hv') as [-> ->]. lia.
Qed.

(* a push that does not fit fails (and, the word being returned only on success, leaves the key as it was) *)
Theorem push_overflow x t bits v : valid x t -> t < bits -> 0 <= v < 2 ^ bits ->
  push_lsb (mkb x t) bits v = None.
Proof.
  intros Hv Hb Hvr. destruct (Z.le_gt_cases 64 bits); [apply push_wide; assumption|].
  pose proof Hv as [Ht Hx]. rewrite push_spec by (auto; lia).
  destruct (Z.leb_spec bits t); [lia|reflexivity].
Qed.

Theorem pop_underflow x t bits : valid x t -> 63 - t < bits -> pop_msb (mkb x t) bits = None.
Proof.
  intros Hv Hb. destruct (Z.le_gt_cases 64 bits); [apply pop_wide; assumption|].
  pose proof Hv as [Ht Hx]. rewrite pop_spec by (auto; lia).
  destruct (Z.leb_spec bits (63 - t)); [lia|reflexivity].
Qed.

(* ---- LSB conversion ---- *)
Theorem into_lsb_spec x t : valid x t -> into_lsb (mkb x t) = Z.lor (2 ^ (63 - t)) x.
Proof.
  intros Hv. pose proof Hv as [Ht Hx]. unfold into_lsb, CAPACITY. rewrite (tz_mkb _ _ Hv).
  apply into_lsb_bits; lia.
Qed.

Lemma log2_marker l x : 0 <= l -> 0 <= x < 2 ^ l -> Z.log2 (Z.lor (2 ^ l) x) = l.
Proof.
  intros Hl Hx. rewrite <- Z.add_nocarry_lor by bb. apply Z.log2_unique; [lia|].
  rewrite Z.pow_succ_r by lia. lia.
Qed.

Theorem from_lsb_spec x l : 0 <= l <= 63 -> 0 <= x < 2 ^ l ->
  from_lsb (Z.lor (2 ^ l) x) = mkb x (63 - l).
Proof.
  intros Hl Hx. unfold from_lsb, lz, W. rewrite log2_marker by lia.
  replace (63 - (63 - l)) with l by lia. rewrite from_lsb_bits by lia.
  reflexivity.
Qed.

Theorem lsb_roundtrip_1 x t : valid x t -> from_lsb (into_lsb (mkb x t)) = mkb x t.
Proof.
  intros Hv. pose proof Hv as [Ht Hx]. rewrite into_lsb_spec by assumption.
  rewrite from_lsb_spec by lia. f_equal. lia.
Qed.

Theorem lsb_roundtrip_2 x l : 0 <= l <= 63 -> 0 <= x < 2 ^ l ->
  into_lsb (from_lsb (Z.lor (2 ^ l) x)) = Z.lor (2 ^ l) x.
Proof.
  intros Hl Hx. rewrite from_lsb_spec by assumption.
  assert (Hv : valid x (63 - l)) by (split; [lia|replace (63 - (63 - l)) with l by lia; lia]).
  rewrite into_lsb_spec by assumption. f_equal. f_equal. lia.
Qed.

(* every non-zero word is marker-and-bits, in the LSB reading too *)
Lemma lsb_decomp v : 0 < v < 2 ^ 64 -> exists l x, 0 <= l <= 63 /\ 0 <= x < 2 ^ l /\ v = Z.lor (2 ^ l) x.
Proof.
  intros Hv. pose proof (Z.log2_spec v ltac:(lia)) as [Hlo Hhi].
  pose proof (Z.log2_nonneg v) as Hl0.
  assert (Hl : Z.log2 v <= 63).
  { destruct (Z.le_gt_cases (Z.log2 v) 63); [assumption|exfalso].
    assert (2 ^ 64 <= 2 ^ Z.log2 v) by (apply Z.pow_le_mono_r; lia). lia. }
  rewrite Z.pow_succ_r in Hhi by lia.
  remember (Z.log2 v) as l eqn:El. remember (v - 2 ^ l) as x eqn:Ex.
  assert (Hx : 0 <= x < 2 ^ l) by lia.
  exists l, x. split; [lia|]. split; [assumption|].
  rewrite <- Z.add_nocarry_lor by bb. lia.
Qed.

(* bijection on all non-zero words, both directions *)
Theorem lsb_bijection_packed w : 0 < w < 2 ^ 64 ->
  0 < into_lsb w < 2 ^ 64 /\ from_lsb (into_lsb w) = w.
Proof.
  intros Hw. destruct (repr_exists w Hw) as (x & t & Hv & ->). split.
  - rewrite into_lsb_spec by assumption. destruct Hv as [Ht Hx].
    rewrite <- Z.add_nocarry_lor by bb. pose proof (pow2_pos (63 - t) ltac:(lia)).
    assert (2 ^ (63 - t) <= 2 ^ 63) by (apply Z.pow_le_mono_r; lia).
    change (2 ^ 64) with (2 * 2 ^ 63). lia.
  - apply lsb_roundtrip_1. assumption.
Qed.

Theorem lsb_bijection_lsb v : 0 < v < 2 ^ 64 ->
  0 < from_lsb v < 2 ^ 64 /\ into_lsb (from_lsb v) = v.
Proof.
  intros Hv. destruct (lsb_decomp v Hv) as (l & x & Hl & Hx & ->). split.
  - rewrite from_lsb_spec by assumption. apply mkb_range.
    split; [lia|replace (63 - (63 - l)) with l by lia; lia].
  - apply lsb_roundtrip_2; assumption.
Qed.

(* ---- the FIFO law over arbitrary field lists ---- *)
Definition fits (f : field) := 0 <= fst f <= 63 /\ 0 <= snd f < 2 ^ fst f.
Fixpoint total (fs : list field) : Z := match fs with [] => 0 | f :: r => fst f + total r end.
Fixpoint concat (fs : list field) : Z :=
  match fs with [] => 0 | f :: r => Z.lor (Z.shiftl (snd f) (total r)) (concat r) end.

Lemma total_nonneg fs : Forall fits fs -> 0 <= total fs.
Proof. induction 1 as [|f r [Hf _] _ IH]; simpl; lia. Qed.

Lemma concat_range fs : Forall fits fs -> 0 <= concat fs < 2 ^ total fs.
Proof.
  induction 1 as [|f r [Hw Hv] Hr IH]; simpl; [lia|].
  pose proof (total_nonneg r Hr) as Ht.
  rewrite <- Z.add_nocarry_lor by bb.
  rewrite Z.shiftl_mul_pow2 by lia. rewrite Z.pow_add_r by lia.
  pose proof (pow2_pos (total r) Ht). nia.
Qed.

Lemma push_all_spec : forall fs x t, valid x t -> Forall fits fs -> total fs <= t ->
  push_all (mkb x t) fs = Some (mkb (Z.lor (Z.shiftl x (total fs)) (concat fs)) (t - total fs)).
Proof.
  induction fs as [|f r IH]; intros x t Hv Hf Ht; simpl.
  - f_equal. f_equal; [|lia]. rewrite Z.shiftl_0_r, Z.lor_0_r. reflexivity.
  - inversion Hf as [|? ? [Hw Hvr] Hr]; subst. pose proof (total_nonneg r Hr) as Htr. simpl in Ht.
    rewrite push_spec by (auto; lia).
    destruct (Z.leb_spec (fst f) t); [|lia].
    pose proof (push_valid x t (fst f) (snd f) Hv ltac:(lia) Hvr) as Hv'.
    destruct Hv as [Ht0 Hx].
    rewrite IH; [| assumption |assumption|lia].
    f_equal. f_equal; [|lia].
    pose proof (concat_range r Hr). bb.
Qed.

Lemma pop_all_spec : forall fs t, Forall fits fs -> 0 <= t -> t + total fs = 63 ->
  pop_all (mkb (concat fs) t) (map fst fs) = Some (map snd fs, mkb 0 63).
Proof.
  induction fs as [|f r IH]; intros t Hf Ht Hsum; simpl.
  - simpl in Hsum. replace t with 63 by lia. reflexivity.
  - inversion Hf as [|? ? [Hw Hvr] Hr]; subst. pose proof (total_nonneg r Hr) as Htr. simpl in Hsum.
    pose proof (concat_range r Hr) as Hcr.
    assert (Hval : valid (Z.lor (Z.shiftl (snd f) (total r)) (concat r)) t).
    { split; [lia|]. pose proof (concat_range (f :: r) Hf) as Hc. simpl in Hc.
      replace (63 - t) with (fst f + total r) by lia. exact Hc. }
    rewrite pop_spec by (auto; lia).
    destruct (Z.leb_spec (fst f) (63 - t)); [|lia].
    replace (63 - t - fst f) with (total r) by lia.
    assert (Hhi : Z.shiftr (Z.lor (Z.shiftl (snd f) (total r)) (concat r)) (total r) = snd f) by bb.
    assert (Hlo : Z.land (Z.lor (Z.shiftl (snd f) (total r)) (concat r)) (Z.ones (total r)) = concat r) by bb.
    rewrite Hhi, Hlo. rewrite (IH (t + fst f) Hr ltac:(lia) ltac:(lia)). reflexivity.
Qed.


(* The key pushed onto EMPTY: its stored bits are the concatenation of the fields. *)
Theorem push_all_empty fs : Forall fits fs -> total fs <= 63 ->
  push_all EMPTY fs = Some (mkb (concat fs) (63 - total fs)) /\
  len (mkb (concat fs) (63 - total fs)) = total fs.
Proof.
  intros Hf Ht. assert (Hv : valid 0 63) by (split; simpl; lia).
  change EMPTY with (mkb 0 63). rewrite (push_all_spec fs 0 63 Hv Hf Ht).
  rewrite Z.shiftl_0_l, Z.lor_0_l. split; [reflexivity|].
  pose proof (total_nonneg fs Hf). pose proof (concat_range fs Hf).
  assert (Hv' : valid (concat fs) (63 - total fs)).
  { split; [lia|]. replace (63 - (63 - total fs)) with (total fs) by lia. assumption. }
  destruct (len_spec _ _ Hv') as [-> _]. lia.
Qed.

(* popping the widths from any key that holds exactly these fields returns the values in push
   order and restores the empty key *)
Theorem pop_all_fields fs : Forall fits fs -> total fs <= 63 ->
  pop_all (mkb (concat fs) (63 - total fs)) (map fst fs) = Some (map snd fs, EMPTY).
Proof.
  intros Hf Ht. pose proof (total_nonneg fs Hf). change EMPTY with (mkb 0 63).
  apply pop_all_spec; [assumption|lia|lia].
Qed.

(* the first field that does not fit makes push_all fail; everything before it was pushed *)
Theorem push_all_overflow : forall fs x t, valid x t -> Forall fits fs -> t < total fs ->
  push_all (mkb x t) fs = None.
Proof.
  induction fs as [|f r IH]; intros x t Hv Hf Ht; simpl in *.
  - destruct Hv; lia.
  - inversion Hf as [|? ? [Hw Hvr] Hr]; subst. rewrite push_spec by (auto; lia).
    destruct (Z.leb_spec (fst f) t) as [Hle|]; [|reflexivity].
    apply IH; [apply push_valid; auto; lia|assumption|lia].
Qed.

(* ---- bits_for ---- *)
Theorem bits_for_min n : 0 <= n < 2 ^ 64 ->
  1 <= bits_for n <= 64 /\ n < 2 ^ bits_for n /\ (0 < n -> 2 ^ (bits_for n - 1) <= n).
Proof.
  intros Hn. unfold bits_for. destruct (Z.eqb_spec n 0) as [->|Hne].
  - split; [lia|]. split; [reflexivity|lia].
  - pose proof (Z.log2_spec n ltac:(lia)) as [Hlo Hhi]. pose proof (Z.log2_nonneg n).
    assert (Z.log2 n < 64).
    { destruct (Z.lt_ge_cases (Z.log2 n) 64); [assumption|exfalso].
      assert (2 ^ 64 <= 2 ^ Z.log2 n) by (apply Z.pow_le_mono_r; lia). lia. }
    split; [lia|]. replace (Z.log2 n + 1) with (Z.succ (Z.log2 n)) by lia.
    split; [assumption|]. intros _. replace (Z.succ (Z.log2 n) - 1) with (Z.log2 n) by lia. assumption.
Qed.

(* sibling counts up to 2^63 give a width that pop/push accept *)
Theorem bits_for_len n : 1 <= n <= 2 ^ 63 -> 1 <= bits_for (n - 1) <= 63.
Proof.
  intros Hn. unfold bits_for. destruct (Z.eqb_spec (n - 1) 0); [lia|].
  pose proof (Z.log2_nonneg (n - 1)).
  assert (Z.log2 (n - 1) < 63); [|lia].
  apply Z.log2_lt_pow2; lia.
Qed.
