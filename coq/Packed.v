(* Executable model of miniconf/src/packed.rs on 64-bit words (x86_64 usize).
   Words are integers 0 < w < 2^64; every Rust shift that can discard high bits is written
   with its [mod 2^64]; shifts whose amount can reach 64 are the [checked_shl]/[checked_shr]
   of the source and return [None]. *)
From Coq Require Import ZArith Bool List.
Import ListNotations.
Local Open Scope Z_scope.

Definition W := 2 ^ 64.
Definition BITS := 64.
Definition CAPACITY := 63.
Definition EMPTY := 2 ^ 63.

(* usize::trailing_zeros for a non-zero word *)
Fixpoint tz_aux (fuel : nat) (w : Z) : Z :=
  match fuel with O => 0 | S f => if Z.odd w then 0 else 1 + tz_aux f (w / 2) end.
Definition tz (w : Z) := tz_aux 64 w.
(* usize::leading_zeros for a non-zero word *)
Definition lz (w : Z) := 63 - Z.log2 w.

Definition new (v : Z) : option Z := if v =? 0 then None else Some v.
Definition is_empty (w : Z) : bool := w =? EMPTY.
Definition capacity (w : Z) : Z := tz w.
Definition len (w : Z) : Z := CAPACITY - capacity w.

Definition into_lsb (w : Z) : Z := Z.shiftr (Z.lor (Z.shiftr w 1) (Z.shiftl 1 CAPACITY)) (tz w).
Definition from_lsb (v : Z) : Z :=
  Z.shiftl (Z.lor (Z.shiftl v 1 mod W) 1) (lz v) mod W.
Definition new_from_lsb (v : Z) : option Z := if v =? 0 then None else Some (from_lsb v).

(* usize::BITS - num.leading_zeros(), at least 1 *)
Definition bits_for (num : Z) : Z := if num =? 0 then 1 else Z.log2 num + 1.

(* pop_msb: (value, new word) or None (word unchanged) *)
Definition pop_msb (w bits : Z) : option (Z * Z) :=
  if BITS <=? bits then None else                     (* s.checked_shl(bits)? *)
  let n := Z.shiftl w bits mod W in
  if n =? 0 then None else Some (Z.shiftr (Z.shiftr w (CAPACITY - bits)) 1, n).

(* push_lsb: (new word, remaining capacity) or None (word unchanged) *)
Definition push_lsb (w bits v : Z) : option (Z * Z) :=
  let n := tz w in
  let old_marker := Z.shiftl 1 n in
  if BITS <=? bits then None else                     (* old_marker.checked_shr(bits)? *)
  let new_marker := Z.shiftr old_marker bits in
  if new_marker =? 0 then None else
  let n' := n - bits in
  Some (Z.lor (Z.lor (Z.lxor w old_marker) (Z.shiftl (Z.shiftl v n' mod W) 1 mod W)) new_marker, n').

(* field lists: (width, value) *)
Definition field := (Z * Z)%type.
Fixpoint push_all (w : Z) (fs : list field) : option Z :=
  match fs with [] => Some w | f :: r =>
  match push_lsb w (fst f) (snd f) with Some (w', _) => push_all w' r | None => None end end.
Fixpoint pop_all (w : Z) (ws : list Z) : option (list Z * Z) :=
  match ws with [] => Some ([], w) | b :: r =>
  match pop_msb w b with
  | Some (v, w') => match pop_all w' r with Some (vs, w'') => Some (v :: vs, w'') | None => None end
  | None => None end end.
