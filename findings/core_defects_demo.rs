use miniconf::*;
use core::ops::Range;
#[derive(Tree, Default)]
struct S { a: Leaf<u8>, r: Option<Range<Leaf<u8>>>, b: Leaf<u8> }
#[derive(Tree, Default)]
struct I { x: Leaf<u8>, y: Leaf<u8>, z: Leaf<u8> }
#[derive(Tree, Default)]
struct T { a: I, b: I, c: Leaf<u8> }
#[derive(Tree, Default)]
struct U { a: [Leaf<u8>; 2], b: Leaf<u8> }
fn main() {
    // 1: Range does not report key
    let v: Vec<_> = S::nodes::<Path<String, '/'>, 3>().map(|p| p.map(|(p, n)| (p.into_inner(), n.depth()))).collect();
    println!("D1 {:?}", v);
    // 2: max_length of [Leaf;10]
    let m: Metadata = <[Leaf<u8>; 10]>::traverse_all().unwrap();
    println!("D2 max_length={}", m.max_length);
    // 3: capacity error arm: bounded number of steps
    let mut it = U::nodes::<Indices<[usize; 1]>, 3>();
    let mut out = vec![];
    for _ in 0..8 { match it.next() { Some(x) => out.push(format!("{:?}", x.map(|(p, n)| (p.0, n.depth())))), None => { out.push("None".into()); break; } } }
    println!("D3 {:?}", out);
    // 5: re-root of a used iterator
    let it = T::nodes::<Path<String, '/'>, 3>().root(["a", "z"]).unwrap().root(["b"]).unwrap();
    let v: Vec<_> = it.map(|p| p.unwrap().0.into_inner()).collect();
    println!("D5 {:?}", v);
    // 6: packed with 64 bit field
    let r = std::panic::catch_unwind(|| {
        let p = Packed::new(1 << 63 | 1 << 62).unwrap();
        <[Leaf<()>; usize::MAX]>::transcode::<(), _>(p)
    });
    println!("D6 {:?}", r.map_err(|_| "panic"));
}
