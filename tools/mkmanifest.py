#!/usr/bin/env python3
"""regenerate MANIFEST.json from the table below"""
import json
props = [json.loads(l) for l in open('/verif/properties.jsonl')]
TECH = "machine-checked proof in Coq on a hand-written model + differential correspondence check"
CLAIMS = {
 "C08": dict(engine="coq+rs-core", design="DESIGN.md section 6 C08",
   text="18 Coq theorems (every non-zero word, every field list, no bound) about a hand-written model of packed.rs: unique (bits, capacity) representation, push/pop specs, length growth, failure leaves the key unchanged, FIFO law for arbitrary field lists, LSB bijection on all non-zero words, minimal bits_for. The model is tied to /repo on every run by a differential correspondence (dev and release profile) whose comparison is evaluated inside Coq.",
   note="trusted: Coq kernel; hand-written model of packed.rs (trailing/leading zeros, shifts with explicit mod 2^64); the correspondence is testing on the generated cases listed in the evidence; x86_64 usize"),
 "C15": dict(engine="coq+rs-core", design="DESIGN.md section 6 C15",
   text="11 Coq theorems for every separator character (multi-byte included) and every Unicode string: PathIter = split at every separator, root() = drop the first segment, no slice off a char boundary, fused; the four JSON-path notations mixed freely yield the same keys; written Path/JsonPath forms parse back; JsonPathIter never slices out of range and is fused. Tie: exhaustive short strings + random long ones + node writes, compared inside Coq.",
   note="trusted: Coq kernel; hand-written model of str::split_at/get/find/strip_prefix/len_utf8 and itoa; correspondence is testing"),
}
checks = []
for p in props:
    if p['id'] in CLAIMS:
        c = CLAIMS[p['id']]
        checks.append(dict(property_id=p['id'], quick_cmd=f"./check {p['id']} --tier quick", thorough_cmd=f"./check {p['id']} --tier thorough",
            evidence_file=f"evidence/{p['id']}.json", replay_cmd_template=f"./check {p['id']} --replay {{path}}", engine=c['engine'],
            level_claimed=dict(category="proof", text=c['text'], design_ref=c['design']),
            level_note=c['note'], technique=c.get('technique', TECH)))
m = dict(version=1, setup_cmd="./check --setup",
  hooks=dict(guard="cargo feature `verif` of miniconf_mqtt (off by default)",
             enable="harness/rs-mqtt depends on miniconf_mqtt with features=[\"verif\"]; no other harness needs hooks",
             baseline_off_cmd="cd /repo && cargo test --workspace --no-fail-fast --offline --lib --tests",
             source_commits=["bae3dc6"], add_only=True),
  engines=[dict(name="coq", path="coq/", serves_properties=sorted(CLAIMS), kind_free_text="Coq 8.16 development: models, proofs, pinned property files (coq/Properties)"),
           dict(name="rs-core", path="harness/rs-core", serves_properties=[k for k in ["C08", "C15"] if k in CLAIMS], kind_free_text="Rust harness over /repo's miniconf for Packed and the string splitters"),
           dict(name="check", path="check", serves_properties=sorted(CLAIMS), kind_free_text="python runner: stage A (proof), B (tie), C (search for a failing input), evidence")],
  checks=checks,
  not_applicable=[dict(property_id=p['id'], reason="check not built yet (planned with the same technique, see DESIGN.md section 6); not claimed in this commit") for p in props if p['id'] not in CLAIMS],
  notes="see DESIGN.md; known_findings.txt lists repaired defects (fix: commits in /repo) and recorded findings")
json.dump(m, open('/verif/MANIFEST.json', 'w'), indent=1)
print(sorted(CLAIMS))
